// Package ir holds small SSA helper analyses shared by the rules: callee
// resolution, field access recognition, reachability with blocked blocks or
// edges, must-pass-through, and value provenance.
package ir

import (
	"go/constant"
	"go/token"
	"go/types"
	"strings"

	"golang.org/x/tools/go/ssa"
)

// Hooks installed by the rules' canonical naming layer (identity by default).
var (
	FieldNameHook = func(v *types.Var) string { return v.Name() }
	FuncNameHook  = func(f *ssa.Function) string { return "" }
	TypeNameHook  = func(tn *types.TypeName) string { return tn.Name() }
)

// ---------- basic accessors ----------

// Instrs calls f for every instruction of fn (not descending into closures).
func Instrs(fn *ssa.Function, f func(ssa.Instruction)) {
	for _, b := range fn.Blocks {
		for _, in := range b.Instrs {
			f(in)
		}
	}
}

// InstrsDeep calls f for every instruction of fn and of the anonymous
// functions nested in it.
func InstrsDeep(fn *ssa.Function, f func(*ssa.Function, ssa.Instruction)) {
	for _, b := range fn.Blocks {
		for _, in := range b.Instrs {
			f(fn, in)
		}
	}
	for _, an := range fn.AnonFuncs {
		InstrsDeep(an, f)
	}
}

// Calls returns the call instructions (call, defer, go) of fn.
func Calls(fn *ssa.Function) []ssa.CallInstruction {
	var out []ssa.CallInstruction
	Instrs(fn, func(in ssa.Instruction) {
		if c, ok := in.(ssa.CallInstruction); ok {
			out = append(out, c)
		}
	})
	return out
}

// Static returns the statically resolved callee of a call (function, method
// with static receiver, or directly called closure), or nil.
func Static(c ssa.CallInstruction) *ssa.Function {
	cc := c.Common()
	if cc.IsInvoke() {
		return invokeTarget(c)
	}
	if f := cc.StaticCallee(); f != nil {
		return f
	}
	// closure held in a local cell or phi-free variable: MakeClosure directly
	v := cc.Value
	for {
		switch x := v.(type) {
		case *ssa.MakeClosure:
			if f, ok := x.Fn.(*ssa.Function); ok {
				return f
			}
			return nil
		case *ssa.ChangeType:
			v = x.X
			continue
		case *ssa.UnOp:
			// load of a cell that is stored exactly once with a closure
			if x.Op == token.MUL {
				if f := singleStoredClosure(x.X); f != nil {
					return f
				}
			}
		}
		return nil
	}
}

// invokeTarget resolves an interface method call whose receiver visibly has one concrete type: a value
// just boxed (MakeInterface), or the result of a constructor all of whose returns box the same type.
func invokeTarget(c ssa.CallInstruction) *ssa.Function {
	cc := c.Common()
	fn := c.Parent()
	if fn == nil || fn.Prog == nil {
		return nil
	}
	var concrete func(v ssa.Value, depth int) types.Type
	concrete = func(v ssa.Value, depth int) types.Type {
		if depth > 3 {
			return nil
		}
		switch x := v.(type) {
		case *ssa.MakeInterface:
			return x.X.Type()
		case *ssa.ChangeInterface:
			return concrete(x.X, depth+1)
		case *ssa.Call:
			g := x.Call.StaticCallee()
			if g == nil || len(g.Blocks) == 0 || g.Signature.Results().Len() != 1 {
				return nil
			}
			var t types.Type
			for _, b := range g.Blocks {
				if len(b.Instrs) == 0 {
					continue
				}
				ret, ok := b.Instrs[len(b.Instrs)-1].(*ssa.Return)
				if !ok {
					continue
				}
				rt := concrete(ret.Results[0], depth+1)
				if rt == nil || (t != nil && !types.Identical(t, rt)) {
					return nil
				}
				t = rt
			}
			return t
		}
		return nil
	}
	t := concrete(cc.Value, 0)
	if t == nil {
		return nil
	}
	return fn.Prog.LookupMethod(t, cc.Method.Pkg(), cc.Method.Name())
}

// singleStoredClosure: addr is an Alloc or a FreeVar bound to an Alloc that is
// stored exactly once, with a MakeClosure or function value.
func singleStoredClosure(addr ssa.Value) *ssa.Function {
	al := CellAlloc(addr)
	if al == nil {
		return nil
	}
	var stored []ssa.Value
	forEachCellRef(al, func(fn *ssa.Function, ref ssa.Value) {
		for _, u := range *ref.Referrers() {
			if st, ok := u.(*ssa.Store); ok && st.Addr == ref {
				stored = append(stored, st.Val)
			}
		}
	})
	if len(stored) != 1 {
		return nil
	}
	switch x := stored[0].(type) {
	case *ssa.MakeClosure:
		f, _ := x.Fn.(*ssa.Function)
		return f
	case *ssa.Function:
		return x
	}
	return nil
}

// CellAlloc maps an address value that is an Alloc, or a FreeVar bound to an
// Alloc of an enclosing function, to that Alloc.
func CellAlloc(addr ssa.Value) *ssa.Alloc {
	switch x := addr.(type) {
	case *ssa.Alloc:
		return x
	case *ssa.FreeVar:
		fn := x.Parent()
		idx := -1
		for i, fv := range fn.FreeVars {
			if fv == x {
				idx = i
			}
		}
		if idx < 0 || fn.Parent() == nil {
			return nil
		}
		// find the MakeClosure in the parent that creates fn
		var res *ssa.Alloc
		Instrs(fn.Parent(), func(in ssa.Instruction) {
			if mc, ok := in.(*ssa.MakeClosure); ok && mc.Fn == fn && idx < len(mc.Bindings) {
				res = CellAlloc(mc.Bindings[idx])
			}
		})
		return res
	}
	return nil
}

// forEachCellRef visits the alloc itself and every FreeVar (in nested
// closures) bound to it.
func forEachCellRef(al *ssa.Alloc, f func(fn *ssa.Function, ref ssa.Value)) {
	f(al.Parent(), al)
	var walk func(fn *ssa.Function)
	walk = func(fn *ssa.Function) {
		for _, an := range fn.AnonFuncs {
			for _, fv := range an.FreeVars {
				if CellAlloc(fv) == al {
					f(an, fv)
				}
			}
			walk(an)
		}
	}
	walk(al.Parent())
}

// CellRefs returns all address values referring to the cell.
func CellRefs(al *ssa.Alloc) []ssa.Value {
	var out []ssa.Value
	forEachCellRef(al, func(_ *ssa.Function, ref ssa.Value) { out = append(out, ref) })
	return out
}

// IsInvokeOf reports whether c is an interface invoke of method `name`.
func IsInvokeOf(c ssa.CallInstruction, name string) bool {
	cc := c.Common()
	return cc.IsInvoke() && cc.Method.Name() == name
}

// QualifiedName renders a function as pkgrel.Recv.Name, e.g. "fsm.(*State).apply".
func QualifiedName(fn *ssa.Function) string {
	if fn == nil {
		return "<nil>"
	}
	if a := FuncNameHook(fn); a != "" {
		return a
	}
	return rawQualifiedName(fn, true)
}

// RawQualifiedName ignores function aliases (type aliases still apply).
func RawQualifiedName(fn *ssa.Function) string { return rawQualifiedName(fn, false) }

func rawQualifiedName(fn *ssa.Function, aliases bool) string {
	if fn == nil {
		return "<nil>"
	}
	if fn.Parent() != nil {
		return QualifiedName(fn.Parent()) + "$" + strings.TrimPrefix(fn.Name(), fn.Parent().Name()+"$")
	}
	pkg := ""
	if fn.Pkg != nil {
		pkg = fn.Pkg.Pkg.Name()
	} else if fn.Object() != nil && fn.Object().Pkg() != nil {
		pkg = fn.Object().Pkg().Name()
	}
	if recv := fn.Signature.Recv(); recv != nil {
		t := recv.Type()
		ptr := false
		if p, ok := t.(*types.Pointer); ok {
			t = p.Elem()
			ptr = true
		}
		tn := "?"
		if n, ok := t.(*types.Named); ok {
			tn = TypeNameHook(n.Obj())
		}
		if ptr {
			return pkg + ".(*" + tn + ")." + fn.Name()
		}
		return pkg + "." + tn + "." + fn.Name()
	}
	return pkg + "." + fn.Name()
}

// IsStdFunc reports whether fn is the function pkgPath.name of another module.
func IsStdFunc(fn *ssa.Function, pkgPath, name string) bool {
	if fn == nil || fn.Object() == nil || fn.Object().Pkg() == nil {
		return false
	}
	return fn.Object().Pkg().Path() == pkgPath && fn.Name() == name && fn.Signature.Recv() == nil
}

// Unwrap strips type-only conversions.
func Unwrap(v ssa.Value) ssa.Value {
	for {
		switch x := v.(type) {
		case *ssa.ChangeType:
			v = x.X
		case *ssa.ChangeInterface:
			v = x.X
		case *ssa.MakeInterface:
			v = x.X
		default:
			return v
		}
	}
}

// FieldAddr decomposes v = &base.Field.
func FieldAddr(v ssa.Value) (base ssa.Value, field string, ok bool) {
	fa, isfa := v.(*ssa.FieldAddr)
	if !isfa {
		return nil, "", false
	}
	st := derefStruct(fa.X.Type())
	if st == nil {
		return nil, "", false
	}
	// a struct kept by value in one field of another (`p.params.Spec`) may stand for fields of the outer
	// struct (`p.spec`): the canonical naming layer says which
	if outer, isFA := fa.X.(*ssa.FieldAddr); isFA && FlattenHook != nil {
		if ost := derefStruct(outer.X.Type()); ost != nil {
			if roles := FlattenHook(ost.Field(outer.Field)); roles != nil {
				if role, ok := roles[st.Field(fa.Field).Name()]; ok {
					return outer.X, role, true
				}
			}
		}
	}
	return fa.X, FieldNameHook(st.Field(fa.Field)), true
}

// FlattenHook, when set, maps a struct-typed field to the roles its own fields play in the enclosing struct.
var FlattenHook func(v *types.Var) map[string]string

// FieldLoad decomposes v = base.Field read either as *(&base.Field) or as a
// Field instruction on a struct value.
func FieldLoad(v ssa.Value) (base ssa.Value, field string, ok bool) {
	switch x := v.(type) {
	case *ssa.UnOp:
		if x.Op == token.MUL {
			return FieldAddr(x.X)
		}
	case *ssa.Field:
		st, _ := x.X.Type().Underlying().(*types.Struct)
		if st == nil {
			return nil, "", false
		}
		return x.X, FieldNameHook(st.Field(x.Field)), true
	}
	return nil, "", false
}

func derefStruct(t types.Type) *types.Struct {
	if p, ok := t.Underlying().(*types.Pointer); ok {
		t = p.Elem()
	}
	st, _ := t.Underlying().(*types.Struct)
	return st
}

// NamedOf returns the package-relative name of the (pointer to) named type.
func NamedOf(t types.Type) (pkgPath, name string) {
	if p, ok := t.(*types.Pointer); ok {
		t = p.Elem()
	}
	if n, ok := t.(*types.Named); ok {
		if n.Obj().Pkg() != nil {
			return n.Obj().Pkg().Path(), TypeNameHook(n.Obj())
		}
		return "", TypeNameHook(n.Obj())
	}
	return "", ""
}

// ConstInt returns the integer value of a constant.
func ConstInt(v ssa.Value) (int64, bool) {
	c, ok := v.(*ssa.Const)
	if !ok || c.Value == nil || c.Value.Kind() != constant.Int {
		return 0, false
	}
	return c.Int64(), true
}

// ConstString returns the string value of a constant.
func ConstString(v ssa.Value) (string, bool) {
	c, ok := v.(*ssa.Const)
	if !ok || c.Value == nil || c.Value.Kind() != constant.String {
		return "", false
	}
	return constant.StringVal(c.Value), true
}

// ConstBool returns the bool value of a constant.
func ConstBool(v ssa.Value) (bool, bool) {
	c, ok := v.(*ssa.Const)
	if !ok || c.Value == nil || c.Value.Kind() != constant.Bool {
		return false, false
	}
	return constant.BoolVal(c.Value), true
}

// IsNilConst reports whether v is the nil constant.
func IsNilConst(v ssa.Value) bool {
	c, ok := v.(*ssa.Const)
	return ok && c.Value == nil
}

// ---------- CFG reachability ----------

// Edge is a CFG edge.
type Edge struct{ From, To *ssa.BasicBlock }

// Reach returns the blocks reachable from `from` (inclusive) without entering
// a blocked block and without taking a blocked edge.
func Reach(from *ssa.BasicBlock, blockedB map[*ssa.BasicBlock]bool, blockedE map[Edge]bool) map[*ssa.BasicBlock]bool {
	seen := map[*ssa.BasicBlock]bool{}
	if blockedB[from] {
		return seen
	}
	infeasible := infeasibleEdges(from.Parent())
	thr := threadInfo(from.Parent())
	// states are (block, entered-from) for blocks whose branch outcome is fixed by the incoming edge
	type state struct{ b, via *ssa.BasicBlock }
	seenS := map[state]bool{}
	stack := []state{{from, nil}}
	seen[from] = true
	seenS[state{from, nil}] = true
	for len(stack) > 0 {
		st := stack[len(stack)-1]
		stack = stack[:len(stack)-1]
		b := st.b
		succs := b.Succs
		if st.via != nil {
			if only, ok := thr[Edge{st.via, b}]; ok {
				succs = []*ssa.BasicBlock{only}
			}
		}
		for _, s := range succs {
			if blockedB[s] || blockedE[Edge{b, s}] || infeasible[Edge{b, s}] {
				continue
			}
			ns := state{s, nil}
			if _, threaded := thr[Edge{b, s}]; threaded {
				ns.via = b
			}
			if seenS[ns] {
				continue
			}
			seenS[ns] = true
			seen[s] = true
			stack = append(stack, ns)
		}
	}
	return seen
}

// ReachVia is Reach from block `to` as entered over the edge from->to: if that edge fixes the outcome of
// the branch at `to` (jump threading), only the forced successor is followed.
func ReachVia(from, to *ssa.BasicBlock, blockedB map[*ssa.BasicBlock]bool, blockedE map[Edge]bool) map[*ssa.BasicBlock]bool {
	thr := threadInfo(to.Parent())
	only, forced := thr[Edge{from, to}]
	if !forced || blockedB[to] {
		return Reach(to, blockedB, blockedE)
	}
	seen := map[*ssa.BasicBlock]bool{to: true}
	if blockedB[only] || blockedE[Edge{to, only}] {
		return seen
	}
	for b := range Reach(only, blockedB, blockedE) {
		seen[b] = true
	}
	return seen
}

// ReachEdges is Reach reporting the CFG edges that can be traversed.
func ReachEdges(from *ssa.BasicBlock, blockedB map[*ssa.BasicBlock]bool, blockedE map[Edge]bool) map[Edge]bool {
	out := map[Edge]bool{}
	if blockedB[from] {
		return out
	}
	infeasible := infeasibleEdges(from.Parent())
	thr := threadInfo(from.Parent())
	type state struct{ b, via *ssa.BasicBlock }
	seenS := map[state]bool{{from, nil}: true}
	stack := []state{{from, nil}}
	for len(stack) > 0 {
		st := stack[len(stack)-1]
		stack = stack[:len(stack)-1]
		b := st.b
		succs := b.Succs
		if st.via != nil {
			if only, ok := thr[Edge{st.via, b}]; ok {
				succs = []*ssa.BasicBlock{only}
			}
		}
		for _, s := range succs {
			if blockedB[s] || blockedE[Edge{b, s}] || infeasible[Edge{b, s}] {
				continue
			}
			out[Edge{b, s}] = true
			ns := state{s, nil}
			if _, threaded := thr[Edge{b, s}]; threaded {
				ns.via = b
			}
			if seenS[ns] {
				continue
			}
			seenS[ns] = true
			stack = append(stack, ns)
		}
	}
	return out
}

// HoldsOnEdge: boolean v is known to equal want whenever the CFG edge from->to is taken.
func HoldsOnEdge(v ssa.Value, want bool, from, to *ssa.BasicBlock) bool {
	fn := from.Parent()
	for _, e := range EdgesWhere(fn, v, want) {
		if e.From == from && e.To == to {
			return true
		}
		if !ReachEdges(fn.Blocks[0], nil, map[Edge]bool{{e.From, e.To}: true})[Edge{from, to}] {
			return true
		}
	}
	// the branch at `from` tests a boolean phi of `from`: on this edge the phi has a known value, so it
	// was entered through an edge whose value can be that; v holds if it holds for each of those entries
	if len(from.Instrs) == 0 || len(from.Succs) != 2 || from.Succs[0] == from.Succs[1] {
		return false
	}
	iff, ok := from.Instrs[len(from.Instrs)-1].(*ssa.If)
	if !ok {
		return false
	}
	c, neg := iff.Cond, false
	for {
		if u, isU := c.(*ssa.UnOp); isU && u.Op == token.NOT {
			c, neg = u.X, !neg
			continue
		}
		break
	}
	phi, isPhi := c.(*ssa.Phi)
	if !isPhi || !(phi.Block() == from || phi.Block().Dominates(from)) {
		return false
	}
	phiVal := to == from.Succs[0] // value of the (possibly negated) condition on this edge
	if neg {
		phiVal = !phiVal
	}
	thr := threadInfo(fn)
	reachable := ReachEdges(fn.Blocks[0], nil, nil)
	any := false
	pb := phi.Block() // the join where the flag got its value (from itself, or a block that dominates it)
	for i, p := range pb.Preds {
		if !reachable[Edge{p, pb}] {
			continue
		}
		if only, forced := thr[Edge{p, pb}]; pb == from && forced && only != to {
			continue
		}
		if k, isC := ConstBool(phi.Edges[i]); isC && k != phiVal {
			continue
		}
		any = true
		e := phi.Edges[i]
		ev, ew := e, phiVal
		for {
			if u, isU := ev.(*ssa.UnOp); isU && u.Op == token.NOT {
				ev, ew = u.X, !ew
				continue
			}
			break
		}
		if ev == v && ew == want {
			continue
		}
		if HoldsAt(v, want, p) {
			continue
		}
		return false
	}
	return any
}

// ThreadInfo exposes the jump-threading table (edge p->t => the only successor of t that can follow).
func ThreadInfo(fn *ssa.Function) map[Edge]*ssa.BasicBlock { return threadInfo(fn) }

var threadCache = map[*ssa.Function]map[Edge]*ssa.BasicBlock{}

// threadInfo: for an edge P->T where T ends in a branch whose outcome is fixed by the value a phi
// of T takes when T is entered from P (a boolean phi, or a phi compared with nil), the only
// successor of T that can follow. This is jump threading: it removes the infeasible pass-through
// paths of flags and of (value, error) pairs merged at a join.
func threadInfo(fn *ssa.Function) map[Edge]*ssa.BasicBlock {
	if fn == nil {
		return nil
	}
	if m, ok := threadCache[fn]; ok {
		return m
	}
	m := map[Edge]*ssa.BasicBlock{}
	threadCache[fn] = m
	for _, t := range fn.Blocks {
		if len(t.Instrs) == 0 || len(t.Succs) != 2 || t.Succs[0] == t.Succs[1] {
			continue
		}
		iff, ok := t.Instrs[len(t.Instrs)-1].(*ssa.If)
		if !ok {
			continue
		}
		cond := iff.Cond
		neg := false
		for {
			if u, isU := cond.(*ssa.UnOp); isU && u.Op == token.NOT {
				cond, neg = u.X, !neg
				continue
			}
			break
		}
		var phi *ssa.Phi
		mode := ""
		var op token.Token
		var intK int64
		switch x := cond.(type) {
		case *ssa.Phi:
			if x.Block() == t {
				phi, mode = x, "bool"
			}
		case *ssa.BinOp:
			if (x.Op == token.EQL || x.Op == token.NEQ) && IsNilConst(x.Y) {
				if p, isPhi := x.X.(*ssa.Phi); isPhi && p.Block() == t && x.Block() == t {
					phi, mode, op = p, "nil", x.Op
				}
			} else if x.Op == token.EQL || x.Op == token.NEQ {
				// a string result variable compared with "": every incoming value is "" or visibly non-empty
				if s, isS := ConstString(x.Y); isS && s == "" {
					if p, isPhi := x.X.(*ssa.Phi); isPhi && p.Block() == t && x.Block() == t {
						phi, mode, op = p, "empty", x.Op
					}
				}
			}
			// an index result compared with a constant: every incoming value is a constant or a loop index (>= 0)
			if phi == nil {
				if k, isK := ConstInt(x.Y); isK {
					if p, isPhi := x.X.(*ssa.Phi); isPhi && p.Block() == t && x.Block() == t {
						phi, mode, op = p, "int", x.Op
						intK = k
					}
				}
			}
		}
		if phi == nil {
			continue
		}
		for i, e := range phi.Edges {
			p := t.Preds[i]
			var outcome, known bool
			switch mode {
			case "bool":
				if k, isC := ConstBool(e); isC {
					outcome, known = k, true
				} else if factPlain(e, true, p) {
					outcome, known = true, true
				} else if factPlain(e, false, p) {
					outcome, known = false, true
				} else if k, ok := ownBranchValue(e, p, t); ok {
					// the value is the condition p itself branches on, and p->t is one side of that branch
					outcome, known = k, true
				}
			case "nil":
				isNil, kn := nilnessPlain(e, p)
				if kn {
					outcome, known = isNil == (op == token.EQL), true
				}
			case "int":
				cmp := func(n int64) (bool, bool) {
					switch op {
					case token.EQL:
						return n == intK, true
					case token.NEQ:
						return n != intK, true
					case token.LSS:
						return n < intK, true
					case token.LEQ:
						return n <= intK, true
					case token.GTR:
						return n > intK, true
					case token.GEQ:
						return n >= intK, true
					}
					return false, false
				}
				if n, isC := ConstInt(e); isC {
					outcome, known = cmp(n)
				} else if NonNegativeIndex(e) {
					// all values >= 0 give the same outcome?
					a, okA := cmp(0)
					b, okB := cmp(1 << 40)
					if okA && okB && a == b && (intK <= 0) {
						outcome, known = a, true
					}
				}
			case "empty":
				if s, isS := ConstString(e); isS {
					outcome, known = (s == "") == (op == token.EQL), true
				} else if NonEmptyString(e, 0) {
					outcome, known = op == token.NEQ, true
				}
			}
			if !known {
				continue
			}
			if neg {
				outcome = !outcome
			}
			if outcome {
				m[Edge{p, t}] = t.Succs[0]
			} else {
				m[Edge{p, t}] = t.Succs[1]
			}
		}
	}
	return m
}

// NonNegativeIndex: v is the index variable of a range loop (rangeindex phi + 1) or a counter that starts
// at a non-negative constant and only grows by positive constants.
func NonNegativeIndex(v ssa.Value) bool {
	if bo, ok := v.(*ssa.BinOp); ok && bo.Op == token.ADD {
		if one, isC := ConstInt(bo.Y); isC && one >= 0 {
			if phi, isPhi := bo.X.(*ssa.Phi); isPhi {
				if phi.Comment == "rangeindex" {
					return true
				}
				return NonNegativeIndex(phi)
			}
		}
		return false
	}
	phi, ok := v.(*ssa.Phi)
	if !ok || len(phi.Edges) == 0 {
		return false
	}
	for _, e := range phi.Edges {
		if k, isC := ConstInt(e); isC {
			if k < 0 {
				return false
			}
			continue
		}
		bo, isBo := e.(*ssa.BinOp)
		if !isBo || bo.Op != token.ADD || bo.X != ssa.Value(phi) {
			return false
		}
		if d, isC := ConstInt(bo.Y); !isC || d < 0 {
			return false
		}
	}
	return true
}

// NonEmptyString: v is a string that cannot be empty: a non-empty constant, a concatenation with one, or
// fmt.Sprintf / fmt.Errorf(...).Error() of a format that contains literal text.
func NonEmptyString(v ssa.Value, depth int) bool {
	if depth > 4 {
		return false
	}
	if s, ok := ConstString(v); ok {
		return s != ""
	}
	switch x := v.(type) {
	case *ssa.BinOp:
		if x.Op == token.ADD {
			return NonEmptyString(x.X, depth+1) || NonEmptyString(x.Y, depth+1)
		}
	case *ssa.Call:
		if f := x.Call.StaticCallee(); f != nil && IsStdFunc(f, "fmt", "Sprintf") && len(x.Call.Args) >= 1 {
			if format, ok := ConstString(x.Call.Args[0]); ok {
				// literal text outside verbs
				lit := false
				for i := 0; i < len(format); i++ {
					if format[i] == '%' {
						i++
						for i < len(format) && strings.ContainsRune("+-# 0123456789.[]*", rune(format[i])) {
							i++
						}
						if i < len(format) && format[i] == '%' {
							lit = true
						}
						continue
					}
					lit = true
				}
				return lit
			}
		}
	case *ssa.Phi:
		if len(x.Edges) == 0 {
			return false
		}
		for _, e := range x.Edges {
			if e == v || !NonEmptyString(e, depth+1) {
				return false
			}
		}
		return true
	}
	return false
}

// ownBranchValue: block p ends in `if c` (c possibly negated v) and t is exactly one of its two distinct
// successors: the value v has on the edge p->t.
func ownBranchValue(v ssa.Value, p, t *ssa.BasicBlock) (val, ok bool) {
	if len(p.Instrs) == 0 || len(p.Succs) != 2 || p.Succs[0] == p.Succs[1] {
		return false, false
	}
	iff, isIf := p.Instrs[len(p.Instrs)-1].(*ssa.If)
	if !isIf {
		return false, false
	}
	// strip negations on both sides
	c, cn := iff.Cond, false
	for {
		if u, isU := c.(*ssa.UnOp); isU && u.Op == token.NOT {
			c, cn = u.X, !cn
			continue
		}
		break
	}
	w, wn := v, false
	for {
		if u, isU := w.(*ssa.UnOp); isU && u.Op == token.NOT {
			w, wn = u.X, !wn
			continue
		}
		break
	}
	if c != w {
		return false, false
	}
	condVal := t == p.Succs[0] // value of iff.Cond on this edge
	baseVal := condVal != cn   // value of c
	return baseVal != wn, true // value of v
}

// factPlain: boolean v is known to equal want at the end of block p (plain dominance, no threading),
// including the case where p itself ends in `if v` and is left towards a single successor... which
// cannot be told here, so only dominating branches count.
func factPlain(v ssa.Value, want bool, p *ssa.BasicBlock) bool {
	fn := p.Parent()
	for _, b := range fn.Blocks {
		if len(b.Instrs) == 0 || len(b.Succs) != 2 || b.Succs[0] == b.Succs[1] {
			continue
		}
		iff, ok := b.Instrs[len(b.Instrs)-1].(*ssa.If)
		if !ok {
			continue
		}
		c, w := iff.Cond, want
		for {
			if u, isU := c.(*ssa.UnOp); isU && u.Op == token.NOT {
				c, w = u.X, !w
				continue
			}
			break
		}
		if c != v {
			continue
		}
		idx := 0
		if !w {
			idx = 1
		}
		if edgeDominatesPlain(b, b.Succs[idx], p) {
			return true
		}
	}
	return false
}

// nilnessPlain: value e is known nil / non-nil at the end of block p.
func nilnessPlain(e ssa.Value, p *ssa.BasicBlock) (isNil, known bool) {
	if IsNilConst(e) {
		return true, true
	}
	switch e.(type) {
	case *ssa.Alloc, *ssa.MakeInterface, *ssa.MakeClosure, *ssa.MakeMap, *ssa.MakeSlice:
		return false, true
	}
	refs := e.Referrers()
	if refs == nil {
		return false, false
	}
	for _, u := range *refs {
		bo, ok := u.(*ssa.BinOp)
		if !ok || !(bo.Op == token.EQL || bo.Op == token.NEQ) || !(IsNilConst(bo.Y) || IsNilConst(bo.X)) {
			continue
		}
		if factPlain(bo, true, p) {
			return bo.Op == token.EQL, true
		}
		if factPlain(bo, false, p) {
			return bo.Op == token.NEQ, true
		}
	}
	// a pointer that was dereferenced on the way here (field access or load in a block that dominates p,
	// or in p itself) is not nil: had it been, control would not have got here
	if _, isPtr := e.Type().Underlying().(*types.Pointer); isPtr {
		for _, u := range *refs {
			deref := false
			switch x := u.(type) {
			case *ssa.FieldAddr:
				deref = x.X == e
			case *ssa.UnOp:
				deref = x.Op == token.MUL && x.X == e
			case *ssa.Store:
				deref = x.Addr == e
			}
			if !deref {
				continue
			}
			ub := u.Block()
			if ub == p || (ub != nil && ub.Dominates(p)) {
				return false, true
			}
		}
	}
	return false, false
}

// PhiValuesAt returns the edge values of phi that are compatible with control reaching block at
// (taking jump threading into account). A non-phi value is returned as is.
func PhiValuesAt(v ssa.Value, at *ssa.BasicBlock) []ssa.Value {
	phi, ok := v.(*ssa.Phi)
	if !ok {
		return []ssa.Value{v}
	}
	t := phi.Block()
	thr := threadInfo(t.Parent())
	// conditions known at `at` that test a sibling phi of the same join exclude the edges on which
	// that sibling has the other value (correlated phis: `v, ok := ...` merged at one join)
	excluded := map[int]bool{}
	if at != t {
		for _, cd := range DominatingConds(at) {
			switch x := cd.V.(type) {
			case *ssa.Phi:
				if x.Block() != t || len(x.Edges) != len(phi.Edges) {
					continue
				}
				for i, e := range x.Edges {
					if k, isC := ConstBool(e); isC && k != cd.Want {
						excluded[i] = true
					}
				}
			case *ssa.BinOp:
				if !(x.Op == token.EQL || x.Op == token.NEQ) || !IsNilConst(x.Y) {
					continue
				}
				q, isPhi := x.X.(*ssa.Phi)
				if !isPhi || q.Block() != t || len(q.Edges) != len(phi.Edges) {
					continue
				}
				for i, e := range q.Edges {
					isNil, known := nilnessPlain(e, t.Preds[i])
					if !known {
						continue
					}
					outcome := isNil == (x.Op == token.EQL)
					if outcome != cd.Want {
						excluded[i] = true
					}
				}
			}
		}
	}
	var out []ssa.Value
	for i, e := range phi.Edges {
		if excluded[i] {
			continue
		}
		p := t.Preds[i]
		starts := t.Succs
		if only, ok := thr[Edge{p, t}]; ok {
			starts = []*ssa.BasicBlock{only}
		}
		reach := at == t
		for _, s := range starts {
			if s == at || Reach(s, nil, nil)[at] {
				reach = true
			}
		}
		if reach {
			dup := false
			for _, o := range out {
				if o == e {
					dup = true
				}
			}
			if !dup {
				out = append(out, e)
			}
		}
	}
	return out
}

var infeasibleCache = map[*ssa.Function]map[Edge]bool{}

// infeasibleEdges: an edge of `if c` is infeasible when a structurally identical condition (same
// operator on the same SSA operands) was already decided the other way on every path to the block.
// Only comparisons whose operands are SSA values defined before the deciding branch qualify, so
// the two evaluations necessarily agree.
func infeasibleEdges(fn *ssa.Function) map[Edge]bool {
	if fn == nil {
		return nil
	}
	if m, ok := infeasibleCache[fn]; ok {
		return m
	}
	m := map[Edge]bool{}
	infeasibleCache[fn] = m // also guards against re-entrance through EdgeDominates -> Reach
	type ifc struct {
		b    *ssa.BasicBlock
		cond *ssa.BinOp
	}
	var ifs []ifc
	for _, b := range fn.Blocks {
		if len(b.Instrs) == 0 || len(b.Succs) != 2 || b.Succs[0] == b.Succs[1] {
			continue
		}
		if iff, ok := b.Instrs[len(b.Instrs)-1].(*ssa.If); ok {
			if bo, isBo := iff.Cond.(*ssa.BinOp); isBo {
				ifs = append(ifs, ifc{b, bo})
			}
		}
	}
	sameCond := func(a, b *ssa.BinOp) bool {
		if a == b || a.Op != b.Op {
			return false
		}
		eq := func(x, y ssa.Value) bool {
			if x == y {
				return true
			}
			cx, okx := x.(*ssa.Const)
			cy, oky := y.(*ssa.Const)
			if okx && oky {
				if cx.Value == nil || cy.Value == nil {
					return cx.Value == nil && cy.Value == nil
				}
				return cx.Value.ExactString() == cy.Value.ExactString()
			}
			return false
		}
		stable := func(v ssa.Value) bool {
			switch v.(type) {
			case *ssa.Const, *ssa.Parameter, *ssa.Call, *ssa.Extract, *ssa.Phi, *ssa.TypeAssert, *ssa.MakeInterface:
				return true // SSA values: evaluated once
			}
			return false
		}
		return eq(a.X, b.X) && eq(a.Y, b.Y) && stable(a.X) && stable(a.Y)
	}
	for _, later := range ifs {
		for _, earlier := range ifs {
			if earlier.b == later.b || !sameCond(earlier.cond, later.cond) || !earlier.b.Dominates(later.b) {
				continue
			}
			for i := 0; i < 2; i++ {
				// is later.b reachable only through earlier's edge i? (plain reachability, no pruning: m is still empty for fn)
				if edgeDominatesPlain(earlier.b, earlier.b.Succs[i], later.b) {
					// condition has outcome (i==0) at later.b: the other edge is infeasible
					m[Edge{later.b, later.b.Succs[1-i]}] = true
				}
			}
		}
	}
	return m
}

func edgeDominatesPlain(from, to, x *ssa.BasicBlock) bool {
	fn := from.Parent()
	if x == fn.Blocks[0] {
		return false
	}
	seen := map[*ssa.BasicBlock]bool{fn.Blocks[0]: true}
	stack := []*ssa.BasicBlock{fn.Blocks[0]}
	for len(stack) > 0 {
		b := stack[len(stack)-1]
		stack = stack[:len(stack)-1]
		for _, s := range b.Succs {
			if seen[s] || (b == from && s == to) {
				continue
			}
			seen[s] = true
			stack = append(stack, s)
		}
	}
	return !seen[x]
}

// IndexIn returns the index of in within its block.
func IndexIn(in ssa.Instruction) int {
	for i, x := range in.Block().Instrs {
		if x == in {
			return i
		}
	}
	return -1
}

// MustPassBefore reports whether every path from the function entry to the
// first execution of target passes an instruction satisfying pred.
func MustPassBefore(target ssa.Instruction, pred func(ssa.Instruction) bool) bool {
	tb := target.Block()
	ti := IndexIn(target)
	for i := 0; i < ti; i++ {
		if pred(tb.Instrs[i]) {
			return true
		}
	}
	fn := tb.Parent()
	blocked := map[*ssa.BasicBlock]bool{}
	for _, b := range fn.Blocks {
		if b == tb {
			continue
		}
		for _, in := range b.Instrs {
			if pred(in) {
				blocked[b] = true
				break
			}
		}
	}
	if blocked[fn.Blocks[0]] {
		return true
	}
	return !Reach(fn.Blocks[0], blocked, nil)[tb]
}

// IsExit reports whether block b ends in a normal return.
func IsReturn(b *ssa.BasicBlock) bool {
	if len(b.Instrs) == 0 {
		return false
	}
	_, ok := b.Instrs[len(b.Instrs)-1].(*ssa.Return)
	return ok
}

// IsPanic reports whether block b ends in a panic.
func IsPanic(b *ssa.BasicBlock) bool {
	if len(b.Instrs) == 0 {
		return false
	}
	_, ok := b.Instrs[len(b.Instrs)-1].(*ssa.Panic)
	return ok
}

// MustPassAfter reports whether every path from just after `from` to a normal
// return of the function passes an instruction satisfying pred. Paths ending
// in panic are ignored.
func MustPassAfter(from ssa.Instruction, pred func(ssa.Instruction) bool) bool {
	fb := from.Block()
	fi := IndexIn(from)
	for i := fi + 1; i < len(fb.Instrs); i++ {
		if pred(fb.Instrs[i]) {
			return true
		}
	}
	if IsReturn(fb) {
		return false
	}
	fn := fb.Parent()
	blocked := map[*ssa.BasicBlock]bool{}
	for _, b := range fn.Blocks {
		for i, in := range b.Instrs {
			if b == fb && i <= fi {
				continue // re-entering fb from the top: only instrs before `from` count
			}
			if pred(in) {
				if b == fb {
					// pred after `from` handled above; cannot happen here
					continue
				}
				blocked[b] = true
				break
			}
		}
	}
	// a re-entry into fb from the top passes instrs [0..fi]; if one satisfies pred, block fb on re-entry
	reentryBlocked := false
	for i := 0; i <= fi; i++ {
		if pred(fb.Instrs[i]) {
			reentryBlocked = true
		}
	}
	seen := map[*ssa.BasicBlock]bool{}
	var stack []*ssa.BasicBlock
	for _, s := range fb.Succs {
		if s == fb && reentryBlocked {
			continue
		}
		if !blocked[s] && !seen[s] {
			seen[s] = true
			stack = append(stack, s)
		}
	}
	for len(stack) > 0 {
		b := stack[len(stack)-1]
		stack = stack[:len(stack)-1]
		if IsReturn(b) {
			return false
		}
		for _, s := range b.Succs {
			if seen[s] || blocked[s] {
				continue
			}
			if s == fb && reentryBlocked {
				continue
			}
			seen[s] = true
			stack = append(stack, s)
		}
	}
	return true
}

// EdgeDominates reports whether every path from entry to block x takes the
// CFG edge from->to (so the branch outcome holds at x, provided the values it
// tests are not redefined, which SSA guarantees).
func EdgeDominates(from, to, x *ssa.BasicBlock) bool {
	fn := from.Parent()
	if x == fn.Blocks[0] {
		return false
	}
	r := Reach(fn.Blocks[0], nil, map[Edge]bool{{from, to}: true})
	return !r[x]
}

// CondEdges describes for an If instruction which successor is taken when
// `v` has the given truth value, looking through negation.
// It returns the (block, succIndex) pairs of If instructions in fn whose
// condition is v or !v, with the successor index for v==want.
type CondEdge struct {
	If   *ssa.If
	From *ssa.BasicBlock
	To   *ssa.BasicBlock
}

// EdgesWhere returns the CFG edges on which boolean value v is known to equal want.
func EdgesWhere(fn *ssa.Function, v ssa.Value, want bool) []CondEdge {
	var out []CondEdge
	for _, b := range fn.Blocks {
		if len(b.Instrs) == 0 {
			continue
		}
		iff, ok := b.Instrs[len(b.Instrs)-1].(*ssa.If)
		if !ok {
			continue
		}
		c := iff.Cond
		w := want
		for {
			if u, ok := c.(*ssa.UnOp); ok && u.Op == token.NOT {
				c = u.X
				w = !w
				continue
			}
			break
		}
		if c != v {
			continue
		}
		idx := 0
		if !w {
			idx = 1
		}
		out = append(out, CondEdge{iff, b, b.Succs[idx]})
	}
	return out
}

// HoldsAt reports whether boolean SSA value v is known to equal want at block x,
// i.e. some If edge testing v (with the right polarity) dominates x.
func HoldsAt(v ssa.Value, want bool, x *ssa.BasicBlock) bool {
	for _, e := range EdgesWhere(x.Parent(), v, want) {
		if EdgeDominates(e.From, e.To, x) {
			return true
		}
	}
	if holdsDepth == 0 && holdsPathwise(v, want, x) {
		return true
	}
	// v may be one of the values merged into a boolean phi that a dominating branch tested
	// (`a && b` lowers to phi [false, b]): on the phi's true edge b is true
	if holdsDepth > 2 {
		return false
	}
	holdsDepth++
	defer func() { holdsDepth-- }()
	for _, t := range x.Parent().Blocks {
		if len(t.Instrs) == 0 || len(t.Succs) != 2 || t.Succs[0] == t.Succs[1] {
			continue
		}
		iff, ok := t.Instrs[len(t.Instrs)-1].(*ssa.If)
		if !ok {
			continue
		}
		c := iff.Cond
		for {
			if u, isU := c.(*ssa.UnOp); isU && u.Op == token.NOT {
				c = u.X
				continue
			}
			break
		}
		phi, isPhi := c.(*ssa.Phi)
		if !isPhi || phi.Block() != t {
			continue
		}
		mentions := false
		for _, e := range phi.Edges {
			ev := e
			for {
				if u, isU := ev.(*ssa.UnOp); isU && u.Op == token.NOT {
					ev = u.X
					continue
				}
				break
			}
			if ev == v {
				mentions = true
			}
		}
		if !mentions {
			continue
		}
		for _, sb := range t.Succs {
			if EdgeDominates(t, sb, x) && HoldsOnEdge(v, want, t, sb) {
				return true
			}
		}
	}
	return false
}

var holdsDepth int

// holdsPathwise: on every consistent acyclic path from the entry to x the branch outcomes taken fix v
// to want. A path is consistent if it never takes both outcomes of one boolean SSA value; the value a
// boolean phi has is read off the predecessor the path came from. Every execution that reaches x has a
// loop-erased version among these paths whose facts concern the current instances of the values, so the
// answer is sound; it is more precise than edge dominance because it is path-sensitive
// (`if a && b {continue}; if a { /* here b is false */ }`). Gives up (false) on large path counts.
func holdsPathwise(v ssa.Value, want bool, x *ssa.BasicBlock) bool {
	fn := x.Parent()
	if fn == nil || len(fn.Blocks) == 0 || len(fn.Blocks) > 120 {
		return false
	}
	// quick reject: v must be mentioned by some branch or boolean phi
	// x == k and x != k (same operands, possibly separate instructions) are one condition with two polarities
	type eqKey struct {
		x ssa.Value
		y string
	}
	reps := map[eqKey]ssa.Value{}
	keyOf := func(bo *ssa.BinOp) (eqKey, bool) {
		if bo.Op != token.EQL && bo.Op != token.NEQ {
			return eqKey{}, false
		}
		x, y := bo.X, bo.Y
		if _, isC := x.(*ssa.Const); isC {
			x, y = y, x
		}
		if cst, isC := y.(*ssa.Const); isC {
			if cst.Value == nil {
				return eqKey{x, "nil"}, true
			}
			return eqKey{x, cst.Value.ExactString()}, true
		}
		return eqKey{}, false
	}
	Instrs(fn, func(in ssa.Instruction) {
		if bo, ok := in.(*ssa.BinOp); ok && bo.Op == token.EQL {
			if k, okK := keyOf(bo); okK {
				if _, has := reps[k]; !has {
					reps[k] = bo
				}
			}
		}
	})
	base := func(c ssa.Value) (ssa.Value, bool) {
		neg := false
		for {
			if u, ok := c.(*ssa.UnOp); ok && u.Op == token.NOT {
				c, neg = u.X, !neg
				continue
			}
			if bo, ok := c.(*ssa.BinOp); ok {
				if k, okK := keyOf(bo); okK {
					if rep, has := reps[k]; has && rep != c {
						return rep, neg != (bo.Op == token.NEQ)
					}
				}
			}
			return c, neg
		}
	}
	vb, vneg := base(v)
	wantB := want != vneg
	thr := threadInfo(fn)
	infeasible := infeasibleEdges(fn)
	budget := 60000
	known := map[ssa.Value]bool{}
	onPath := map[*ssa.BasicBlock]bool{}
	reached := false
	ok := true
	var dfs func(b, via *ssa.BasicBlock)
	dfs = func(b, via *ssa.BasicBlock) {
		if !ok {
			return
		}
		budget--
		if budget < 0 {
			ok = false
			return
		}
		if b == x {
			reached = true
			if val, has := known[vb]; !has || val != wantB {
				ok = false
			}
			return
		}
		onPath[b] = true
		defer delete(onPath, b)
		succs := b.Succs
		var cond ssa.Value
		condNeg := false
		if len(b.Instrs) > 0 && len(b.Succs) == 2 && b.Succs[0] != b.Succs[1] {
			if iff, isIf := b.Instrs[len(b.Instrs)-1].(*ssa.If); isIf {
				cond, condNeg = base(iff.Cond)
				// a boolean phi of this block: its value on this path
				if phi, isPhi := cond.(*ssa.Phi); isPhi && phi.Block() == b && via != nil {
					for i, p := range b.Preds {
						if p == via {
							e, eneg := base(phi.Edges[i])
							if k, isC := ConstBool(e); isC {
								// constant: only one way out
								val := (k != eneg) != condNeg
								if val {
									succs = []*ssa.BasicBlock{b.Succs[0]}
								} else {
									succs = []*ssa.BasicBlock{b.Succs[1]}
								}
								cond = nil
							} else {
								cond, condNeg = e, condNeg != eneg
							}
							break
						}
					}
				}
			}
		}
		if via != nil {
			if only, forced := thr[Edge{via, b}]; forced {
				succs = []*ssa.BasicBlock{only}
			}
		}
		for _, sc := range succs {
			if onPath[sc] || infeasible[Edge{b, sc}] {
				continue
			}
			if cond != nil && len(b.Succs) == 2 {
				val := (sc == b.Succs[0]) != condNeg // value of cond on this edge
				if prev, has := known[cond]; has {
					if prev != val {
						continue
					}
					dfs(sc, b)
				} else {
					known[cond] = val
					dfs(sc, b)
					delete(known, cond)
				}
				continue
			}
			dfs(sc, b)
		}
	}
	dfs(fn.Blocks[0], nil)
	return ok && reached
}

// InLoop reports whether block b lies on a CFG cycle.
func InLoop(b *ssa.BasicBlock) bool {
	for _, s := range b.Succs {
		if Reach(s, nil, nil)[b] {
			return true
		}
	}
	return false
}

// ---------- provenance ----------

// Roots walks backwards from v through transparent instructions and returns
// the set of root values. `through` may accept additional call instructions
// as transparent by returning the operand to continue with.
func Roots(v ssa.Value, through func(*ssa.Call) []ssa.Value) []ssa.Value {
	seen := map[ssa.Value]bool{}
	var roots []ssa.Value
	var walk func(v ssa.Value)
	walk = func(v ssa.Value) {
		if v == nil || seen[v] {
			return
		}
		seen[v] = true
		switch x := v.(type) {
		case *ssa.Phi:
			for _, e := range x.Edges {
				walk(e)
			}
		case *ssa.ChangeType:
			walk(x.X)
		case *ssa.ChangeInterface:
			walk(x.X)
		case *ssa.MakeInterface:
			walk(x.X)
		case *ssa.Convert:
			walk(x.X)
		case *ssa.Slice:
			walk(x.X)
		case *ssa.Extract:
			walk(x.Tuple)
		case *ssa.UnOp:
			if x.Op == token.MUL {
				if ia, ok := x.X.(*ssa.IndexAddr); ok {
					walk(ia.X)
					return
				}
			}
			roots = append(roots, v)
		case *ssa.Index:
			walk(x.X)
		case *ssa.Lookup:
			// string index or map lookup
			if _, isMap := x.X.Type().Underlying().(*types.Map); isMap {
				roots = append(roots, v)
			} else {
				walk(x.X)
			}
		case *ssa.Call:
			if through != nil {
				if next := through(x); next != nil {
					for _, n := range next {
						walk(n)
					}
					return
				}
			}
			roots = append(roots, v)
		default:
			roots = append(roots, v)
		}
	}
	walk(v)
	return roots
}

// UsesValue reports whether `root` is in the backward data slice of v
// (through any instruction operands), bounded to the same function.
func DependsOn(v ssa.Value, root ssa.Value) bool {
	seen := map[ssa.Value]bool{}
	var walk func(v ssa.Value) bool
	walk = func(v ssa.Value) bool {
		if v == nil || seen[v] {
			return false
		}
		if v == root {
			return true
		}
		seen[v] = true
		in, ok := v.(ssa.Instruction)
		if !ok {
			return false
		}
		for _, op := range in.Operands(nil) {
			if *op != nil && walk(*op) {
				return true
			}
		}
		return false
	}
	return walk(v)
}

// Param returns the i-th parameter of fn including the receiver at index 0
// for methods.
func Param(fn *ssa.Function, i int) *ssa.Parameter {
	if i < 0 || i >= len(fn.Params) {
		return nil
	}
	return fn.Params[i]
}

// ParamNamed returns the parameter with the given name.
func ParamNamed(fn *ssa.Function, name string) *ssa.Parameter {
	for _, p := range fn.Params {
		if p.Name() == name {
			return p
		}
	}
	return nil
}

// Returns lists the return instructions of fn.
func Returns(fn *ssa.Function) []*ssa.Return {
	var out []*ssa.Return
	Instrs(fn, func(in ssa.Instruction) {
		if r, ok := in.(*ssa.Return); ok {
			out = append(out, r)
		}
	})
	return out
}

// RetPoint is one way of returning from a function. A return whose block only joins result variables
// (`res := ..; if ..{res = ..}; return res`) is split into one RetPoint per incoming edge, with the phis
// of the join resolved for that edge, so that single-exit code reads like early returns.
type RetPoint struct {
	Ret     *ssa.Return
	Results []ssa.Value
	At      *ssa.BasicBlock          // facts that hold at the end of this block hold on this way out
	Join    *ssa.BasicBlock          // the joining return block At jumps to (nil for a plain return)
	via     map[*ssa.BasicBlock]bool // the join blocks between At and Join
}

// IsThreadedJoin: b only merges values and branches on them (phis, comparisons, negations, an If), and for
// every predecessor the branch taken is determined by that predecessor (jump threading): control does
// not really rejoin in b, each way in has its own way out.
func IsThreadedJoin(b *ssa.BasicBlock) bool {
	if len(b.Preds) < 2 || len(b.Instrs) == 0 {
		return false
	}
	if _, isIf := b.Instrs[len(b.Instrs)-1].(*ssa.If); !isIf {
		return false
	}
	for _, in := range b.Instrs {
		switch in.(type) {
		case *ssa.Phi, *ssa.BinOp, *ssa.UnOp, *ssa.If, *ssa.DebugRef:
		default:
			return false
		}
		if u, isU := in.(*ssa.UnOp); isU && u.Op != token.NOT {
			return false
		}
	}
	thr := threadInfo(b.Parent())
	for _, p := range b.Preds {
		if _, ok := thr[Edge{p, b}]; !ok {
			return false
		}
	}
	return true
}

// ReachableUnder: this way of returning can be taken when only the blocks of reach are reachable and the
// edges of cut are not taken.
func (r *RetPoint) ReachableUnder(reach map[*ssa.BasicBlock]bool, cut map[Edge]bool) bool {
	if !reach[r.At] {
		return false
	}
	if r.Join == nil {
		return true
	}
	thr := threadInfo(r.At.Parent())
	for _, s := range r.At.Succs {
		if (s == r.Join || r.via[s]) && !cut[Edge{From: r.At, To: s}] {
			// when the branch at At is decided by where control came from, the way into s must itself be
			// open: some predecessor that is reachable, whose edge is not cut, and that forces s
			forced := false
			for _, p := range r.At.Preds {
				if _, ok := thr[Edge{p, r.At}]; ok {
					forced = true
				}
			}
			if !forced {
				return true
			}
			for _, p := range r.At.Preds {
				if only, ok := thr[Edge{p, r.At}]; ok && only == s && reach[p] && !cut[Edge{From: p, To: r.At}] {
					return true
				}
				if _, ok := thr[Edge{p, r.At}]; !ok && reach[p] && !cut[Edge{From: p, To: r.At}] {
					return true // an undecided way in
				}
			}
		}
	}
	return false
}

// Block is the block at whose end this way of returning is decided.
func (r *RetPoint) Block() *ssa.BasicBlock { return r.At }

// Holds: boolean v is known to equal want on this way out: at the end of At, or because the edge from
// At into the joining return block is itself the want-edge of a branch on v.
func (r *RetPoint) Holds(v ssa.Value, want bool) bool {
	if HoldsAt(v, want, r.At) {
		return true
	}
	if r.Join == nil {
		return false
	}
	for _, s := range r.At.Succs {
		if s == r.Join || r.via[s] {
			return HoldsOnEdge(v, want, r.At, s)
		}
	}
	return false
}

// Anchor is the instruction that ends this way out: the return itself, or the jump into the join.
func (r *RetPoint) Anchor() ssa.Instruction {
	if r.At == r.Ret.Block() || len(r.At.Instrs) == 0 {
		return r.Ret
	}
	return r.At.Instrs[len(r.At.Instrs)-1]
}

// Pos is the position of the return statement.
func (r *RetPoint) Pos() token.Pos { return r.Ret.Pos() }

// IsReturnJoin: b does nothing but join values and return them.
func IsReturnJoin(b *ssa.BasicBlock) bool {
	if len(b.Instrs) == 0 || len(b.Preds) < 2 {
		return false
	}
	nPhi := 0
	for i, in := range b.Instrs {
		switch in.(type) {
		case *ssa.Phi:
			nPhi++
		case *ssa.DebugRef:
		case *ssa.Return:
			return i == len(b.Instrs)-1 && nPhi > 0
		default:
			return false
		}
	}
	return false
}

func isJumpJoin(b *ssa.BasicBlock) bool {
	if len(b.Instrs) == 0 || len(b.Preds) < 2 {
		return false
	}
	for i, in := range b.Instrs {
		switch in.(type) {
		case *ssa.Phi, *ssa.DebugRef:
		case *ssa.Jump:
			return i == len(b.Instrs)-1
		default:
			return false
		}
	}
	return false
}

// ReturnPoints lists the ways of returning from fn (see RetPoint).
func ReturnPoints(fn *ssa.Function) []*RetPoint {
	var out []*RetPoint
	for _, ret := range Returns(fn) {
		b := ret.Block()
		if !IsReturnJoin(b) {
			out = append(out, &RetPoint{Ret: ret, Results: ret.Results, At: b})
			continue
		}
		var expand func(join *ssa.BasicBlock, vals []ssa.Value, depth int)
		via := map[*ssa.BasicBlock]bool{}
		expand = func(join *ssa.BasicBlock, vals []ssa.Value, depth int) {
			via[join] = true
			for i, p := range join.Preds {
				sub := make([]ssa.Value, len(vals))
				for k, v := range vals {
					sub[k] = v
					if phi, ok := v.(*ssa.Phi); ok && phi.Block() == join {
						sub[k] = phi.Edges[i]
					}
				}
				if depth < 4 && isJumpJoin(p) {
					expand(p, sub, depth+1)
					continue
				}
				out = append(out, &RetPoint{Ret: ret, Results: sub, At: p, Join: b, via: via})
			}
		}
		expand(b, ret.Results, 0)
	}
	return out
}

// ReturnWays is ReturnPoints that also splits, per predecessor, a return block that is shared by several
// ways although it merges no value (`return false, args` reached from two tests): each way in carries its
// own facts.
func ReturnWays(fn *ssa.Function) []*RetPoint {
	var out []*RetPoint
	for _, r := range ReturnPoints(fn) {
		b := r.At
		pure := r.Join == nil && len(b.Preds) > 1 && len(b.Instrs) == 1
		if !pure {
			out = append(out, r)
			continue
		}
		via := map[*ssa.BasicBlock]bool{b: true}
		for _, p := range b.Preds {
			out = append(out, &RetPoint{Ret: r.Ret, Results: r.Results, At: p, Join: b, via: via})
		}
	}
	return out
}

// Panics lists the panic instructions of fn.
func Panics(fn *ssa.Function) []*ssa.Panic {
	var out []*ssa.Panic
	Instrs(fn, func(in ssa.Instruction) {
		if r, ok := in.(*ssa.Panic); ok {
			out = append(out, r)
		}
	})
	return out
}

// ---------- structural expression keys ----------

// ExprKey renders a canonical, structural description of how v is computed
// (operators, constants, parameters, field names), so that two separately
// computed but identical conditions compare equal. Loop-carried phis are
// rendered by their source variable name.
func ExprKey(v ssa.Value) string {
	return exprKey(v, 0)
}

func exprKey(v ssa.Value, depth int) string {
	if depth > 12 {
		return "…"
	}
	d := depth + 1
	switch x := v.(type) {
	case nil:
		return "nil"
	case *ssa.Const:
		if x.Value == nil {
			return "nil"
		}
		return x.Value.ExactString()
	case *ssa.Parameter:
		return x.Name()
	case *ssa.FreeVar:
		return "fv:" + x.Name()
	case *ssa.Global:
		return "g:" + x.Name()
	case *ssa.BinOp:
		return "(" + exprKey(x.X, d) + " " + x.Op.String() + " " + exprKey(x.Y, d) + ")"
	case *ssa.UnOp:
		if x.Op == token.MUL {
			return exprKey(x.X, d)
		}
		return x.Op.String() + exprKey(x.X, d)
	case *ssa.FieldAddr:
		_, f, _ := FieldAddr(x)
		return exprKey(x.X, d) + "." + f
	case *ssa.Field:
		st, _ := x.X.Type().Underlying().(*types.Struct)
		if st != nil {
			return exprKey(x.X, d) + "." + st.Field(x.Field).Name()
		}
	case *ssa.IndexAddr:
		return exprKey(x.X, d) + "[" + exprKey(x.Index, d) + "]"
	case *ssa.Index:
		return exprKey(x.X, d) + "[" + exprKey(x.Index, d) + "]"
	case *ssa.Lookup:
		return exprKey(x.X, d) + "[" + exprKey(x.Index, d) + "]"
	case *ssa.Slice:
		lo, hi := "", ""
		if x.Low != nil {
			lo = exprKey(x.Low, d)
		}
		if x.High != nil {
			hi = exprKey(x.High, d)
		}
		return exprKey(x.X, d) + "[" + lo + ":" + hi + "]"
	case *ssa.Extract:
		return exprKey(x.Tuple, d) + "#" + itoa(x.Index)
	case *ssa.ChangeType:
		return exprKey(x.X, d)
	case *ssa.Convert:
		return exprKey(x.X, d)
	case *ssa.MakeInterface:
		return exprKey(x.X, d)
	case *ssa.TypeAssert:
		return exprKey(x.X, d) + ".(" + x.AssertedType.String() + ")"
	case *ssa.Phi:
		if x.Comment != "" {
			return "φ" + x.Comment
		}
		return "φ" + x.Name()
	case *ssa.Alloc:
		if x.Comment != "" {
			return "&" + x.Comment
		}
		return "&" + x.Name()
	case *ssa.Call:
		var args []string
		for _, a := range x.Call.Args {
			args = append(args, exprKey(a, d))
		}
		name := ""
		if b, ok := x.Call.Value.(*ssa.Builtin); ok {
			name = b.Name()
		} else if f := x.Call.StaticCallee(); f != nil {
			name = f.Name()
		} else if x.Call.IsInvoke() {
			name = exprKey(x.Call.Value, d) + "." + x.Call.Method.Name()
		} else {
			name = exprKey(x.Call.Value, d)
		}
		return name + "(" + strings.Join(args, ",") + ")"
	}
	return v.Name()
}

func itoa(i int) string {
	if i == 0 {
		return "0"
	}
	neg := i < 0
	if neg {
		i = -i
	}
	s := ""
	for i > 0 {
		s = string(rune('0'+i%10)) + s
		i /= 10
	}
	if neg {
		s = "-" + s
	}
	return s
}

// Cond is a branch condition with the polarity that holds.
type Cond struct {
	Key  string
	Want bool
	V    ssa.Value
}

// EdgesContradicting returns the branch edges of fn on which a condition with one of the given structural
// keys has the opposite of the given polarity.
func EdgesContradicting(fn *ssa.Function, facts map[string]bool) map[Edge]bool {
	out := map[Edge]bool{}
	for _, blk := range fn.Blocks {
		if len(blk.Instrs) == 0 || len(blk.Succs) != 2 || blk.Succs[0] == blk.Succs[1] {
			continue
		}
		iff, ok := blk.Instrs[len(blk.Instrs)-1].(*ssa.If)
		if !ok {
			continue
		}
		c, neg := iff.Cond, false
		for {
			if u, isU := c.(*ssa.UnOp); isU && u.Op == token.NOT {
				c, neg = u.X, !neg
				continue
			}
			break
		}
		want, known := facts[ExprKey(c)]
		if !known {
			continue
		}
		// successor taken when c == want
		idx := 0
		if want == neg {
			idx = 1
		}
		out[Edge{blk, blk.Succs[1-idx]}] = true
	}
	return out
}

// DominatingConds returns the branch conditions (as structural keys with
// polarity) whose edge dominates block b.
func DominatingConds(b *ssa.BasicBlock) []Cond {
	fn := b.Parent()
	var out []Cond
	for _, blk := range fn.Blocks {
		if len(blk.Instrs) == 0 {
			continue
		}
		iff, ok := blk.Instrs[len(blk.Instrs)-1].(*ssa.If)
		if !ok {
			continue
		}
		for i, want := range []bool{true, false} {
			if blk.Succs[0] == blk.Succs[1] {
				continue
			}
			if EdgeDominates(blk, blk.Succs[i], b) {
				c := iff.Cond
				w := want
				for {
					if u, isU := c.(*ssa.UnOp); isU && u.Op == token.NOT {
						c = u.X
						w = !w
						continue
					}
					break
				}
				out = append(out, Cond{Key: ExprKey(c), Want: w, V: c})
			}
		}
	}
	return out
}
