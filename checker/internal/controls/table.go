package controls

// All returns the table of negative controls.
func All() []Control {
	var out []Control
	out = append(out, globControls...)
	return out
}

var globControls = []Control{}
