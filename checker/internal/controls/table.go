package controls

// All returns the table of negative controls: one or more seeded breaks per
// rule. Targets are located textually on the current source; a control whose
// target is gone is skipped (and listed), never failed.
func All() []Control {
	return table
}

const (
	fLexer   = "internal/lexer/lexer.go"
	fParser  = "internal/parser/parser.go"
	fFsm     = "internal/fsm/fsm.go"
	fOption  = "internal/matcher/option.go"
	fOptions = "internal/matcher/options.go"
	fArg     = "internal/matcher/arg.go"
	fOptsEnd = "internal/matcher/optsEnd.go"
	fContext = "internal/matcher/context.go"
	fStrings = "internal/matcher/strings.go"
	fValues  = "internal/values/values.go"
	fUtils   = "internal/values/utils.go"
	fFlow    = "internal/flow/flow.go"
	fCmds    = "commands.go"
	fCli     = "cli.go"
	fOpts    = "options.go"
	fArgs    = "args.go"
)

var table = []Control{
	// ---- LEX
	{Name: "lex1-unguarded-read", Rule: "LEX-1", File: fLexer,
		Old: "if pos >= eof || usage[pos] != '.' {\n\t\t\t\treturn nil, err(\"Unexpected end of usage, was expecting '..'\")",
		New: "if usage[pos] != '.' {\n\t\t\t\treturn nil, err(\"Unexpected end of usage, was expecting '..'\")"},
	{Name: "lex1-closed-flag", Rule: "LEX-1", File: fLexer,
		Old: "\t\t\tif !closed {\n\t\t\t\treturn nil, err(\"Unclosed option value\")\n\t\t\t}\n", New: ""},
	{Name: "lex1-dbldash-eof", Rule: "LEX-1", File: fLexer, Old: "if pos == eof || usage[pos] == ' ' {", New: "if usage[pos] == ' ' {"},
	{Name: "lex2-tab-no-advance", Rule: "LEX-2", File: fLexer, Old: "\t\tcase '\\t':\n\t\t\tpos++", New: "\t\tcase '\\t':\n\t\t\ttk(TTChoice, \"\")"},
	{Name: "lex3-revert-D5", Rule: "LEX-3", File: fLexer, Old: "\t\t\tdefault:\n\t\t\t\treturn nil, err(\"Was expecting an option name\")\n", New: ""},
	{Name: "lex4-late-position", Rule: "LEX-4", File: fLexer, Old: "tkp(typ, opt, start)", New: "tkp(typ, opt, pos)"},
	{Name: "lex4-wrong-char", Rule: "LEX-4", File: fLexer, Old: "tk(TTCloseSq, \"]\")", New: "tk(TTCloseSq, \"[\")"},
	{Name: "lex5-error-position", Rule: "LEX-5", File: fLexer, Old: "return &ParseError{usage, msg, pos}", New: "return &ParseError{usage, msg, len(msg)}"},
	{Name: "lex6-kind-never-emitted", Rule: "LEX-6", File: fLexer, Old: "tkp(TTDoubleDash, \"--\", start)", New: "tkp(TTLongOpt, \"--\", start)"},
	// ---- PAR
	{Name: "par1-canatom-drops-dbldash", Rule: "PAR-1", File: fParser, Old: "\tcase p.is(lexer.TTDoubleDash):\n\t\treturn true\n", New: ""},
	{Name: "par1-optvalue-anywhere", Rule: "PAR-1", File: fParser,
		Old: "\tif p.found(lexer.TTRep) {", New: "\tp.found(lexer.TTOptValue)\n\tif p.found(lexer.TTRep) {"},
	{Name: "par2-missing-back", Rule: "PAR-2", File: fParser, Old: "\t\t\tp.back()\n\t\t\tpanic(fmt.Sprintf(\"Undeclared arg %s\", name))", New: "\t\t\tpanic(fmt.Sprintf(\"Undeclared arg %s\", name))"},
	{Name: "par2-back-without-panic", Rule: "PAR-2", File: fParser, Old: "\tcase p.found(lexer.TTOpenPar):\n\t\tstart, end = p.seq(true)", New: "\tcase p.found(lexer.TTOpenPar):\n\t\tp.back()\n\t\tp.tkpos++\n\t\tstart, end = p.seq(true)"},
	{Name: "par3-short-in-args-index", Rule: "PAR-3", File: fParser,
		Old: "\t\tname := p.matchedToken.Val\n\t\topt, declared := p.optionsIdx[name]\n\t\tif !declared {\n\t\t\tp.back()\n\t\t\tpanic(fmt.Sprintf(\"Undeclared option %s\", name))\n\t\t}\n\t\tend = start.T(matcher.NewOpt(opt, p.optionsIdx), fsm.NewState())\n\t\tp.found(lexer.TTOptValue)\n\tcase p.found(lexer.TTLongOpt):",
		New: "\t\tname := p.matchedToken.Val\n\t\topt, declared := p.argsIdx[name]\n\t\tif !declared {\n\t\t\tp.back()\n\t\t\tpanic(fmt.Sprintf(\"Undeclared option %s\", name))\n\t\t}\n\t\tend = start.T(matcher.NewOpt(opt, p.optionsIdx), fsm.NewState())\n\t\tp.found(lexer.TTOptValue)\n\tcase p.found(lexer.TTLongOpt):"},
	{Name: "par3-group-private-index", Rule: "PAR-3", File: fParser, Old: "start.T(matcher.NewOptions(opts, p.optionsIdx), end)", New: "start.T(matcher.NewOptions(opts, map[string]*container.Container{}), end)"},
	{Name: "par4-seq-ignores-flag", Rule: "PAR-4", File: fParser,
		Old: "\tcase p.found(lexer.TTOptSeq):\n\t\tif p.rejectOptions {\n\t\t\tp.back()\n\t\t\tpanic(\"No options after --\")\n\t\t}\n", New: "\tcase p.found(lexer.TTOptSeq):\n"},
	{Name: "par4-flag-reset", Rule: "PAR-4", File: fParser, Old: "\t\tp.expect(lexer.TTCloseSq)", New: "\t\tp.expect(lexer.TTCloseSq)\n\t\tp.rejectOptions = false"},
	{Name: "par5-error-panic", Rule: "PAR-5", File: fParser, Old: "panic(\"Unexpected input: was expecting a command or a positional argument or an option\")", New: "panic(fmt.Errorf(\"Unexpected input\"))"},
	{Name: "par5-no-terminal", Rule: "PAR-5", File: fParser, Old: "\te.Terminal = true\n", New: "\te.Terminal = e.Terminal\n"},
	{Name: "par5-swallow-non-string", Rule: "PAR-5", File: fParser, Old: "\t\t\tdefault:\n\t\t\t\tpanic(v)", New: "\t\t\tdefault:\n\t\t\t\terr = nil"},
	{Name: "par6-no-optional-shortcut", Rule: "PAR-6", File: fParser, Old: "\t\tstart.T(matcher.NewShortcut(), end)\n\t\tp.expect(lexer.TTCloseSq)", New: "\t\tp.expect(lexer.TTCloseSq)"},
	{Name: "par6-rep-wrong-direction", Rule: "PAR-6", File: fParser, Old: "\t\tend.T(matcher.NewShortcut(), start)", New: "\t\tstart.T(matcher.NewShortcut(), end)"},
	{Name: "par6-empty-group", Rule: "PAR-6", File: fParser, Old: "\tcase p.found(lexer.TTOpenPar):\n\t\tstart, end = p.seq(true)", New: "\tcase p.found(lexer.TTOpenPar):\n\t\tstart, end = p.seq(false)"},
	{Name: "par6-concat-first-only", Rule: "PAR-6", File: fParser, Old: "\t\tfor _, tr := range s.Transitions {\n\t\t\tend.T(tr.Matcher, tr.Next)\n\t\t}", New: "\t\tfor _, tr := range s.Transitions {\n\t\t\tend.T(tr.Matcher, tr.Next)\n\t\t\tbreak\n\t\t}"},
	{Name: "par7-choice-no-consume", Rule: "PAR-7", File: fParser, Old: "\tfor p.found(lexer.TTChoice) {", New: "\tfor p.is(lexer.TTChoice) {"},
	// ---- FSM
	{Name: "fsm1-drop-terminal", Rule: "FSM-1", File: fFsm, Old: "\t\t\tif next.Terminal {\n\t\t\t\ts.Terminal = true\n\t\t\t}\n", New: ""},
	{Name: "fsm1-skip-has", Rule: "FSM-1", File: fFsm, Old: "\t\t\t\tif !s.has(tr) {\n\t\t\t\t\ts.Transitions = append(s.Transitions, tr)\n\t\t\t\t}", New: "\t\t\t\tif !s.has(tr) && !next.Terminal {\n\t\t\t\t\ts.Transitions = append(s.Transitions, tr)\n\t\t\t\t}"},
	{Name: "fsm2-revert-D1", Rule: "FSM-2", File: fFsm, Old: "\t\t\tif expanded[next] {", New: "\t\t\tif false && expanded[next] {"},
	{Name: "fsm2-no-visited-mark", Rule: "FSM-2", File: fFsm, Old: "\tvisited[s] = true\n\n\tsort.Sort(s.Transitions)", New: "\tsort.Sort(s.Transitions)"},
	{Name: "fsm3-stop-at-first-miss", Rule: "FSM-3", File: fFsm, Old: "\t\t\tmatches = append(matches, &match{tr, rem, fresh})\n\t\t}", New: "\t\t\tmatches = append(matches, &match{tr, rem, fresh})\n\t\t} else if len(matches) > 0 {\n\t\t\tbreak\n\t\t}"},
	{Name: "fsm3-first-match-only", Rule: "FSM-3", File: fFsm, Old: "\t\t\tpc.Merge(m.pc)\n\t\t\treturn true\n\t\t}", New: "\t\t\tpc.Merge(m.pc)\n\t\t\treturn true\n\t\t}\n\t\tbreak"},
	{Name: "fsm4-shared-context", Rule: "FSM-4", File: fFsm, Old: "if ok, rem := tr.Matcher.Match(args, &fresh); ok {", New: "if ok, rem := tr.Matcher.Match(args, &pc); ok {"},
	{Name: "fsm4-no-flag-copy", Rule: "FSM-4", File: fFsm, Old: "\t\tfresh.RejectOptions = pc.RejectOptions\n", New: ""},
	{Name: "fsm4-merge-order", Rule: "FSM-4", File: fContext, Old: "pc.Args[k] = append(pc.Args[k], vs...)", New: "pc.Args[k] = append(vs, pc.Args[k]...)"},
	{Name: "fsm5-ignore-fill-error", Rule: "FSM-5", File: fFsm, Old: "\tif err := fillContainers(pc.Opts); err != nil {\n\t\treturn err\n\t}", New: "\t_ = fillContainers(pc.Opts)"},
	{Name: "fsm6-ignore-set-error", Rule: "FSM-6", File: fFsm, Old: "\t\t\tif err := con.Value.Set(v); err != nil {\n\t\t\t\treturn err\n\t\t\t}", New: "\t\t\t_ = con.Value.Set(v)"},
	{Name: "fsm6-clear-in-loop", Rule: "FSM-6", File: fFsm, Old: "\t\tif multiValued, ok := con.Value.(values.MultiValued); ok {\n\t\t\tmultiValued.Clear()\n\t\t}\n\t\tfor _, v := range vs {", New: "\t\tfor _, v := range vs {\n\t\t\tif multiValued, ok := con.Value.(values.MultiValued); ok {\n\t\t\t\tmultiValued.Clear()\n\t\t\t}"},
	{Name: "fsm6-guarded-user-flag", Rule: "FSM-6", File: fFsm, Old: "if con.ValueSetByUser != nil {", New: "if con.ValueSetByUser != nil && len(vs) > 1 {"},
	{Name: "fsm7-revert-D2", Rule: "FSM-7", File: fFsm, Old: "func (s *State) apply(args []string, pc matcher.ParseContext) bool {\n", New: "func (s *State) apply(args []string, pc matcher.ParseContext) bool {\n\tif s.Terminal && len(args) == 0 {\n\t\treturn true\n\t}\n"},
	{Name: "fsm7-strip-every-dashdash", Rule: "FSM-7", File: fFsm, Old: "if !pc.RejectOptions && arg == \"--\" {", New: "if arg == \"--\" {"},
	{Name: "fsm8-arg-nonconsuming", Rule: "FSM-8", File: fArg, Old: "\tif len(args) == 0 {\n\t\treturn false, args\n\t}", New: "\tif len(args) == 0 {\n\t\treturn false, args\n\t}\n\tif args[0] == \"-\" {\n\t\treturn true, args\n\t}", Expect: "arg"},
	// ---- MAT
	{Name: "mat1-in-place-remove", Rule: "MAT-1", File: fStrings, Old: "\tres := make([]string, len(arr)-1)\n\tcopy(res, arr[:idx])\n\tcopy(res[idx:], arr[idx+1:])\n\treturn res\n}\n\nfunc removeStringsBetween", New: "\treturn append(arr[:idx], arr[idx+1:]...)\n}\n\nfunc removeStringsBetween"},
	{Name: "mat2-lowercase-value", Rule: "MAT-2", File: fOption, Old: "\t\tvalue := kv[1]\n", New: "\t\tvalue := strings.ToLower(kv[1])\n"},
	{Name: "mat2-arg-binds-next", Rule: "MAT-2", File: fArg, Old: "c.Args[arg.arg] = append(c.Args[arg.arg], args[0])", New: "c.Args[arg.arg] = append(c.Args[arg.arg], args[len(args)-1])"},
	{Name: "mat3-try-ignores-flag", Rule: "MAT-3", File: fOptions, Old: "if len(args) == 0 || c.RejectOptions {\n\t\treturn false, args\n\t}\n\tfor", New: "if len(args) == 0 {\n\t\treturn false, args\n\t}\n\tfor"},
	{Name: "mat3-optsend-noop", Rule: "MAT-3", File: fOptsEnd, Old: "\tc.RejectOptions = true\n", New: ""},
	{Name: "mat4-dashdash-exit-false", Rule: "MAT-4", File: fOption, Old: "\t\tcase arg == \"--\":\n\t\t\treturn o.theOne.ValueSetFromEnv, args", New: "\t\tcase arg == \"--\":\n\t\t\treturn false, args"},
	{Name: "mat5-long-reads-env", Rule: "MAT-5", File: fOption, Old: "\t\tvalue := kv[1]\n\t\tif value == \"\" {", New: "\t\tvalue := kv[1]\n\t\tif value == \"\" || o.theOne.ValueSetFromEnv {"},
	{Name: "mat6-revert-D6", Rule: "MAT-6", File: fOptions, Old: "if o.ValueSetFromEnv && len(c.Opts[o]) == before {", New: "if o.ValueSetFromEnv && before >= 0 {"},
	{Name: "mat6-token-count", Rule: "MAT-6", File: fOptions, Old: "if o.ValueSetFromEnv && len(c.Opts[o]) == before {", New: "if o.ValueSetFromEnv && len(nargs) == len(args) && before >= 0 {"},
	{Name: "mat7-long-separate-skip-1", Rule: "MAT-7", File: fOption, Old: "\t\tif opt != o.theOne {\n\t\t\treturn false, 2, args\n\t\t}\n\t\tvalue := args[idx+1]", New: "\t\tif opt != o.theOne {\n\t\t\treturn false, 1, args\n\t\t}\n\t\tvalue := args[idx+1]"},
	{Name: "mat7-short-eq-skip-2", Rule: "MAT-7", File: fOption, Old: "\t\topt := o.index[name]\n\t\tif opt != o.theOne {\n\t\t\treturn false, 1, args\n\t\t}", New: "\t\topt := o.index[name]\n\t\tif opt != o.theOne {\n\t\t\treturn false, 2, args\n\t\t}"},
	{Name: "mat7-foreign-value-continue", Rule: "MAT-7", File: fOption, Old: "\t\tif opt != o.theOne {\n\t\t\treturn false, 1, args\n\t\t}\n\t\tc.Opts[o.theOne] = append(c.Opts[o.theOne], value)\n\t\tnewRem := rem[:remIdx]", New: "\t\tif opt != o.theOne {\n\t\t\tremIdx++\n\t\t\tcontinue\n\t\t}\n\t\tc.Opts[o.theOne] = append(c.Opts[o.theOne], value)\n\t\tnewRem := rem[:remIdx]"},
	{Name: "mat8-short-no-dash-guard", Rule: "MAT-8", File: fOption, Old: "\t\t\tvalue = args[idx+1]\n\t\t\tif strings.HasPrefix(value, \"-\") {\n\t\t\t\treturn false, 0, args\n\t\t\t}\n", New: "\t\t\tvalue = args[idx+1]\n"},
	{Name: "mat8-flag-records-1", Rule: "MAT-2", File: fOption, Old: "\t\tc.Opts[o.theOne] = append(c.Opts[o.theOne], \"true\")\n\t\treturn true, 1, removeStringAt(idx, args)", New: "\t\tc.Opts[o.theOne] = append(c.Opts[o.theOne], \"1\")\n\t\treturn true, 1, removeStringAt(idx, args)"},
	{Name: "mat11-single-try", Rule: "MAT-11", File: fOptions, Old: "\tfor {\n\t\tok, nnargs := om.try(nargs, c)\n\t\tif !ok {\n\t\t\treturn true, nargs\n\t\t}\n\t\tnargs = nnargs\n\t}", New: "\treturn true, nargs"},
	{Name: "mat12-idx-no-zero-guard", Rule: "MAT-12", File: fOption, Old: "\t\t\tif matched {\n\t\t\t\treturn true, nargs\n\t\t\t}\n\t\t\tif consumed == 0 {\n\t\t\t\treturn o.theOne.ValueSetFromEnv, args\n\t\t\t}\n\t\t\tidx += consumed\n\n\t\tcase strings.HasPrefix(arg, \"-\"):", New: "\t\t\tif matched {\n\t\t\t\treturn true, nargs\n\t\t\t}\n\t\t\tidx += consumed\n\n\t\tcase strings.HasPrefix(arg, \"-\"):"},
	// ---- VAL
	{Name: "val1-base-0", Rule: "VAL-1", File: fValues, Old: "func (ia *IntsValue) Set(s string) error {\n\ti, err := strconv.ParseInt(s, 10, 64)", New: "func (ia *IntsValue) Set(s string) error {\n\ti, err := strconv.ParseInt(s, 0, 64)"},
	{Name: "val1-trimspace", Rule: "VAL-1", File: fValues, Old: "func (ia *Float64Value) Set(s string) error {\n\ti, err := strconv.ParseFloat(s, 64)", New: "func (ia *Float64Value) Set(s string) error {\n\ti, err := strconv.ParseFloat(s+\"\", 32)"},
	{Name: "val2-store-before-check", Rule: "VAL-2", File: fValues, Old: "\tb, err := strconv.ParseBool(s)\n\tif err != nil {\n\t\treturn err\n\t}\n\t*bo = BoolValue(b)\n\treturn nil", New: "\tb, err := strconv.ParseBool(s)\n\t*bo = BoolValue(b)\n\tif err != nil {\n\t\treturn err\n\t}\n\treturn nil"},
	{Name: "val3-empty-not-skipped", Rule: "VAL-3", File: fUtils, Old: "\t\t\tif len(v) == 0 {\n\t\t\t\tcontinue\n\t\t\t}\n", New: ""},
	{Name: "val3-no-trim", Rule: "VAL-3", File: fUtils, Old: "\t\tv = strings.TrimSpace(v)\n", New: "\t\tv = strings.ToLower(v)\n"},
	{Name: "val4-partial-content", Rule: "VAL-4", File: fUtils, Old: "\t\t\tinto.Clear()\n\t\t\treturn err", New: "\t\t\treturn err", Expect: "no-partial-content"},
	{Name: "val5-isbool-by-interface", Rule: "VAL-5", File: fUtils, Old: "\tif bf, ok := v.(BoolValued); ok {\n\t\treturn bf.IsBoolFlag()\n\t}\n\n\treturn false", New: "\t_, ok := v.(BoolValued)\n\treturn ok"},
	{Name: "val6-ctor-drops-default", Rule: "VAL-6", File: fValues, Old: "func NewInts(into *[]int, v []int) *IntsValue {\n\t*into = v\n", New: "func NewInts(into *[]int, v []int) *IntsValue {\n\t*into = nil\n"},
	{Name: "val7-clear-keeps-array", Rule: "VAL-7", File: fValues, Old: "func (sa *StringsValue) Clear() {\n\t*sa = nil", New: "func (sa *StringsValue) Clear() {\n\t*sa = (*sa)[:0]"},
	// ---- DECL
	{Name: "decl1-drop-setbyuser", Rule: "DECL-1", File: fCmds, Old: "func (c *Cmd) Floats64Ptr(into *[]float64, p Floats64Param) {\n\tvalue, _ := p.value(into)\n\n\tswitch x := p.(type) {\n\tcase Floats64Opt:\n\t\tc.mkOpt(container.Container{Name: x.Name, Desc: x.Desc, EnvVar: x.EnvVar, HideValue: x.HideValue, Value: value, ValueSetByUser: x.SetByUser})\n\tcase Floats64Arg:\n\t\tc.mkArg(container.Container{Name: x.Name, Desc: x.Desc, EnvVar: x.EnvVar, HideValue: x.HideValue, Value: value, ValueSetByUser: x.SetByUser})",
		New: "func (c *Cmd) Floats64Ptr(into *[]float64, p Floats64Param) {\n\tvalue, _ := p.value(into)\n\n\tswitch x := p.(type) {\n\tcase Floats64Opt:\n\t\tc.mkOpt(container.Container{Name: x.Name, Desc: x.Desc, EnvVar: x.EnvVar, HideValue: x.HideValue, Value: value, ValueSetByUser: x.SetByUser})\n\tcase Floats64Arg:\n\t\tc.mkArg(container.Container{Name: x.Name, Desc: x.Desc, EnvVar: x.EnvVar, HideValue: x.HideValue, Value: value})"},
	{Name: "decl1-opt-registered-as-arg", Rule: "DECL-1", File: fCmds, Old: "func (c *Cmd) IntPtr(into *int, p IntParam) {\n\tvalue, _ := p.value(into)\n\n\tswitch x := p.(type) {\n\tcase IntOpt:\n\t\tc.mkOpt(", New: "func (c *Cmd) IntPtr(into *int, p IntParam) {\n\tvalue, _ := p.value(into)\n\n\tswitch x := p.(type) {\n\tcase IntOpt:\n\t\tc.mkArg("},
	{Name: "decl2-desc-as-name", Rule: "DECL-2", File: fArgs, Old: "func (c *Cmd) IntsArgPtr(into *[]int, name string, value []int, desc string) {\n\tc.IntsPtr(into, IntsArg{\n\t\tName:  name,", New: "func (c *Cmd) IntsArgPtr(into *[]int, name string, value []int, desc string) {\n\tc.IntsPtr(into, IntsArg{\n\t\tName:  desc,"},
	{Name: "decl3-sibling-ctor", Rule: "DECL-3", File: fArgs, Old: "return values.NewFloat64(into, a.Value), into", New: "return values.NewFloat64(new(float64), a.Value), into"},
	{Name: "decl4-first-name-only", Rule: "DECL-4", File: fOpts, Old: "\t\tif _, found := c.optionsIdx[name]; found {", New: "\t\tif _, found := c.optionsIdx[opt.Names[0]]; found {"},
	{Name: "decl4-two-letter-short", Rule: "DECL-4", File: fOpts, Old: "\t\tif len(name) > 1 {", New: "\t\tif len(name) > 2 {"},
	{Name: "decl5-many-tokens", Rule: "DECL-5", File: fArgs, Old: "\tif len(tokens) != 1 {", New: "\tif len(tokens) < 1 {"},
	{Name: "decl5-insert-before-check", Rule: "DECL-5", File: fArgs, Old: "\tif _, found := c.argsIdx[arg.Name]; found {\n\t\tpanic(fmt.Sprintf(\"duplicate argument name %q\", arg.Name))\n\t}\n", New: ""},
	{Name: "decl6-env-before-default", Rule: "DECL-6", File: fArgs, Old: "\targ.DefaultValue = values.DefaultValue(arg.Value)\n\n\targ.ValueSetFromEnv = values.SetFromEnv(arg.Value, arg.EnvVar)", New: "\targ.ValueSetFromEnv = values.SetFromEnv(arg.Value, arg.EnvVar)\n\n\targ.DefaultValue = values.DefaultValue(arg.Value)"},
	{Name: "decl7-env-at-run-time", Rule: "DECL-7", File: fOpts, Old: "func mkOptStrs(optName string) []string {\n", New: "func (c *Cmd) refreshEnv() {\n\tfor _, o := range c.options {\n\t\to.ValueSetFromEnv = values.SetFromEnv(o.Value, o.EnvVar)\n\t}\n}\n\nfunc mkOptStrs(optName string) []string {\n"},
	// ---- CMD
	{Name: "cmd1-no-policy-on-illegal-input", Rule: "CMD-1", File: fCmds, Old: "\tc.PrintHelp()\n\tc.onError(err)\n\treturn err\n\n}", New: "\tc.PrintHelp()\n\treturn err\n\n}"},
	{Name: "cmd1-no-error-text", Rule: "CMD-1", File: fCmds, Old: "\t\tfmt.Fprintf(stdErr, \"Error: %s\\n\", err.Error())\n", New: ""},
	{Name: "cmd1-policy-before-usage", Rule: "CMD-1", File: fCmds, Old: "\t\tc.PrintHelp()\n\t\tc.onError(err)\n\t\treturn err", New: "\t\tc.onError(err)\n\t\tc.PrintHelp()\n\t\treturn err"},
	{Name: "cmd2-exit-1", Rule: "CMD-2", File: fCmds, Old: "\t\texiter(2)", New: "\t\texiter(1)"},
	{Name: "cmd2-help-panics", Rule: "CMD-2", File: fCmds, Old: "\t\tif c.ErrorHandling == flag.ExitOnError {\n\t\t\texiter(0)\n\t\t}\n\t\treturn", New: "\t\tif c.ErrorHandling == flag.ExitOnError {\n\t\t\texiter(0)\n\t\t}"},
	{Name: "cmd3-validate-before-help", Rule: "CMD-3", File: fCmds, Old: "\thelpIndex := c.helpIndex(args)\n\tnargsLen := c.getOptsAndArgs(args)\n", New: "\thelpIndex := c.helpIndex(args)\n\tnargsLen := c.getOptsAndArgs(args)\n\tif c.fsm.Parse(args[:nargsLen]) != nil {\n\t\thelpIndex = -1\n\t}\n"},
	{Name: "cmd3-short-help", Rule: "CMD-3", File: fCmds, Old: "\t\tc.PrintLongHelp()\n\t\tc.onError(errHelpRequested)", New: "\t\tc.PrintHelp()\n\t\tc.onError(errHelpRequested)"},
	{Name: "cmd4-ignore-dashdash", Rule: "CMD-4", File: fCmds, Old: "\t\tif arg == \"--\" {\n\t\t\treturn -1\n\t\t}\n\t\tfor _, searchArg := range searchSet {", New: "\t\tfor _, searchArg := range searchSet {"},
	{Name: "cmd5-any-position", Rule: "CMD-5", File: fCmds, Old: "\targ := args[0]\n\tfor _, searchArg := range searchSet {\n\t\tif arg == searchArg {\n\t\t\treturn true\n\t\t}\n\t}\n\treturn false", New: "\tfor _, arg := range args {\n\t\tfor _, searchArg := range searchSet {\n\t\t\tif arg == searchArg {\n\t\t\t\treturn true\n\t\t\t}\n\t\t}\n\t}\n\treturn false"},
	{Name: "cmd6-alias-included", Rule: "CMD-6", File: fCmds, Old: "return sub.parse(args[1:], entry, newInFlow, newOutFlow)", New: "return sub.parse(args[0:], entry, newInFlow, newOutFlow)"},
	{Name: "cmd6-no-doinit", Rule: "CMD-6", File: fCmds, Old: "\t\tif sub.isAlias(arg) {\n\t\t\tif err := sub.doInit(); err != nil {\n\t\t\t\tpanic(err)\n\t\t\t}\n\t\t\treturn sub.parse(args[1:], entry, newInFlow, newOutFlow)", New: "\t\tif sub.isAlias(arg) {\n\t\t\treturn sub.parse(args[1:], entry, newInFlow, newOutFlow)"},
	{Name: "cmd7-name-only", Rule: "CMD-7", File: fCmds, Old: "\tfor _, alias := range c.aliases {\n\t\tif arg == alias {\n\t\t\treturn true\n\t\t}\n\t}\n\treturn false", New: "\treturn arg == c.name"},
	{Name: "cmd7-stop-at-dashdash", Rule: "CMD-7", File: fCmds, Old: "\tfor _, arg := range args {\n\t\tfor _, sub := range c.commands {", New: "\tfor _, arg := range args {\n\t\tif arg == \"--\" {\n\t\t\treturn len(args)\n\t\t}\n\t\tfor _, sub := range c.commands {"},
	{Name: "cmd8-start-without-action", Rule: "CMD-8", File: fCmds, Old: "\tif len(args) == 0 {\n\t\tif c.Action != nil {", New: "\tif len(args) == 0 {\n\t\tif c.Action != nil || c.Before != nil {"},
	{Name: "cmd9-ignore-spec-error", Rule: "CMD-9", File: fCmds, Old: "\t\tif err := c.doInit(); err != nil {\n\t\t\tpanic(err)\n\t\t}\n\n\t\tif c.Hidden {", New: "\t\t_ = c.doInit()\n\n\t\tif c.Hidden {"},
	{Name: "cmd10-options-always", Rule: "CMD-10", File: fCmds, Old: "\t\tif len(c.options) > 0 {\n\t\t\tc.Spec = \"[OPTIONS] \"\n\t\t}", New: "\t\tc.Spec = \"[OPTIONS] \""},
	{Name: "cmd10-trimmed-scanner-input", Rule: "CMD-10", File: fCmds, Old: "lexer.Tokenize(c.Spec)", New: "lexer.Tokenize(strings.TrimSpace(c.Spec))"},
	{Name: "cmd10-args-idx-from-options", Rule: "CMD-10", File: fCmds, Old: "\t\tArgsIdx:    c.argsIdx,", New: "\t\tArgsIdx:    c.optionsIdx,"},
	{Name: "cmd11-println", Rule: "CMD-11", File: fCli, Old: "fmt.Fprintln(stdErr, cli.version.version)", New: "fmt.Println(cli.version.version)"},
	{Name: "cmd12-no-inherit", Rule: "CMD-12", File: fCmds, Old: "\t\tErrorHandling: c.ErrorHandling,\n", New: ""},
	// ---- FLOW
	{Name: "flow1-action-error-skips-own-after", Rule: "FLOW-1", File: fCmds, Old: "\t\t\t\tSuccess: newOutFlow,\n\t\t\t\tError:   newOutFlow,", New: "\t\t\t\tSuccess: newOutFlow,\n\t\t\t\tError:   outFlow,"},
	{Name: "flow1-before-error-runs-own-after", Rule: "FLOW-1", File: fCmds, Old: "\t\tDo:     c.Before,\n\t\tError:  outFlow,", New: "\t\tDo:     c.Before,\n\t\tError:  inFlow,"},
	{Name: "flow2-nil-before-success", Rule: "FLOW-2", File: fFlow, Old: "\tswitch {\n\tcase s.Success != nil:\n\t\ts.Success.Run(p)\n\tcase p == nil:\n\t\treturn", New: "\tswitch {\n\tcase p == nil && s.Desc == \"\":\n\t\treturn\n\tcase s.Success != nil:\n\t\ts.Success.Run(p)\n\tcase p == nil:\n\t\treturn"},
	{Name: "flow3-error-gets-old-value", Rule: "FLOW-3", File: fFlow, Old: "\t\t\ts.Error.Run(e)", New: "\t\t\ts.Error.Run(p)"},
	{Name: "flow4-exit-plain-int", Rule: "FLOW-4", File: fCli, Old: "panic(flow.ExitCode(code))", New: "panic(code)"},
	{Name: "flow5-step-without-exiter", Rule: "FLOW-5", File: fCmds, Old: "\t\tDesc:    fmt.Sprintf(\"%s.After\", c.name),\n\t\tExiter:  exiter,", New: "\t\tDesc:    fmt.Sprintf(\"%s.After\", c.name),"},
	// ---- HELP
	{Name: "help1-hidden-listed", Rule: "HELP-1", File: fCmds, Old: "\t\tif c.Hidden {\n\t\t\tcontinue\n\t\t}\n", New: ""},
	{Name: "help1-skip-first-option", Rule: "HELP-1", File: fCmds, Old: "\t\tfor _, opt := range c.options {\n\t\t\tvar (", New: "\t\tfor _, opt := range c.options[1:] {\n\t\t\tvar ("},
	{Name: "help1-name-not-aliases", Rule: "HELP-1", File: fCmds, Old: "strings.Join(c.aliases, \", \"), c.desc)", New: "c.name, c.desc)"},
	{Name: "help1-arg-row-no-env", Rule: "HELP-1", File: fCmds, Old: "printTabbedRow(w, arg.Name, joinStrings(arg.Desc, env, value))", New: "printTabbedRow(w, arg.Name, joinStrings(arg.Desc, env[:0], value))"},
	{Name: "help2-first-long-break", Rule: "HELP-2", File: fCmds, Old: "\t\tif len(n) > 2 && long == \"\" {\n\t\t\tlong = n\n\t\t}", New: "\t\tif len(n) > 2 && long == \"\" {\n\t\t\tlong = n\n\t\t\tbreak\n\t\t}"},
	{Name: "help2-hidden-shown", Rule: "HELP-2", File: fCmds, Old: "\tif hide {\n\t\treturn \"\"\n\t}\n", New: ""},
	{Name: "help3-long-help-on-error", Rule: "HELP-3", File: fCmds, Old: "\t\tfmt.Fprintf(stdErr, \"Error: %s\\n\", err.Error())\n\t\tc.PrintHelp()", New: "\t\tfmt.Fprintf(stdErr, \"Error: %s\\n\", err.Error())\n\t\tc.PrintLongHelp()"},
	// ---- GLOB
	{Name: "glob1-global-write", Rule: "GLOB-1", File: fCmds, Old: "func (c *Cmd) onError(err error) {\n", New: "func (c *Cmd) onError(err error) {\n\tif err != nil {\n\t\tstdOut = stdErr\n\t}\n"},
	{Name: "glob2-global-map", Rule: "GLOB-2", File: fOpts, Old: "func mkOptStrs(optName string) []string {\n", New: "var optStrsScratch = &struct{ last []string }{}\n\nfunc mkOptStrs(optName string) []string {\n\tif len(optStrsScratch.last) > 99 {\n\t\treturn optStrsScratch.last\n\t}\n"},
	{Name: "glob3-goroutine", Rule: "GLOB-3", File: fFlow, Old: "\ts.Do()\n", New: "\tgo s.Do()\n"},
	{Name: "glob4-order-dependent-range", Rule: "GLOB-4", File: fFsm, Old: "\tfor con, vs := range containers {\n", New: "\tvar last *container.Container\n\tfor con, vs := range containers {\n\t\tif last != nil {\n\t\t\tlast.ValueSetFromEnv = true\n\t\t}\n\t\tlast = con\n"},
	{Name: "glob5-unstable-priority", Rule: "GLOB-5", File: fArg, Old: "func (*arg) Priority() int {\n\treturn 8", New: "func (a *arg) Priority() int {\n\treturn 8 + len(a.arg.Name)"},
	{Name: "glob6-panicking-assert", Rule: "GLOB-6", File: fUtils, Old: "\tif dv, ok := v.(DefaultValued); ok {\n\t\tif dv.IsDefault() {\n\t\t\treturn \"\"\n\t\t}\n\t}", New: "\tif v.(DefaultValued).IsDefault() {\n\t\treturn \"\"\n\t}"},
	// ---- obligations added after the second (held-out) seeding round
	{Name: "fsm1-continue-after-removal", Rule: "FSM-1", File: fFsm,
		Old: "\t\t\tif expanded[next] {\n\t\t\t\t// already inlined into s: doing it again would loop forever on cyclic shortcuts\n\t\t\t\treturn true\n\t\t\t}",
		New: "\t\t\tif expanded[next] {\n\t\t\t\tcontinue\n\t\t\t}"},
	{Name: "lex4-glued-dash-unchecked", Rule: "LEX-4", File: fLexer,
		Old: "\t\t\t\tif pos < eof && usage[pos] == '-' {\n\t\t\t\t\treturn nil, err(\"Invalid syntax\")\n\t\t\t\t}\n", New: ""},
	{Name: "mat7-unjustified-skip", Rule: "MAT-7", File: fOption,
		Old: "\trem := arg[1:]\n\n\tremIdx := 0\n", New: "\trem := arg[1:]\n\tif len(rem) > 3 {\n\t\treturn false, 1, args\n\t}\n\n\tremIdx := 0\n"},
	{Name: "cmd3-help-addressee", Rule: "CMD-3", File: fCmds,
		Old: "if helpIndex >= 0 && helpIndex < nargsLen {", New: "if helpIndex >= 0 && nargsLen == len(args) {"},
	{Name: "val5-isdefault-trims", Rule: "VAL-5", File: fValues,
		Old: "\treturn string(*sa) == \"\"\n", New: "\treturn len(string(*sa)) <= 1\n"},
	{Name: "help1-visible-list-aliases", Rule: "HELP-1", File: fCmds,
		Old: "commands := make([]*Cmd, 0, len(c.commands))", New: "commands := c.commands[:0]"},
	// ---- obligations added after the third (held-out) seeding round
	{Name: "fsm1-removal-skipped-when-expanded", Rule: "FSM-1", File: fFsm,
		Old: "\t\t\tnext := tr.Next\n\t\t\ts.Transitions = removeTransitionAt(idx, s.Transitions)\n\t\t\tif expanded[next] {\n\t\t\t\t// already inlined into s: doing it again would loop forever on cyclic shortcuts\n\t\t\t\treturn true\n\t\t\t}",
		New: "\t\t\tnext := tr.Next\n\t\t\tif expanded[next] {\n\t\t\t\tcontinue\n\t\t\t}\n\t\t\ts.Transitions = removeTransitionAt(idx, s.Transitions)"},
	{Name: "par3-constructor-narrows-index", Rule: "PAR-3", File: fOptions,
		Old: "\t\tindex:   index,\n\t}\n}", New: "\t\tindex:   map[string]*container.Container{},\n\t}\n}"},
	{Name: "lex4-rep-consumes-four", Rule: "LEX-4", File: fLexer,
		Old: "\t\t\ttkp(TTRep, \"...\", start)\n\t\t\tpos++\n", New: "\t\t\ttkp(TTRep, \"...\", start)\n\t\t\tpos++\n\t\t\tif pos < eof && usage[pos] == '.' {\n\t\t\t\tpos++\n\t\t\t}\n"},
	{Name: "lex6-byte-class-arithmetic", Rule: "LEX-6", File: fLexer,
		Old: "\treturn c >= 'A' && c <= 'Z'\n", New: "\treturn c&0x5f >= 'A' && c&0x5f <= 'Z' && c < 'a'\n"},
	// ---- obligations added after the fourth (held-out) seeding round
	{Name: "mat12-length-test-dropped", Rule: "MAT-12", File: fOption,
		Old: "\t\tif len(args[idx:]) < 2 {\n\t\t\treturn false, 0, args\n\t\t}\n", New: ""},
	{Name: "mat12-off-by-one-length-test", Rule: "MAT-12", File: fOption,
		Old: "\t\t\tif len(args[idx+1:]) == 0 {\n", New: "\t\t\tif len(args[idx:]) == 0 {\n"},
	{Name: "fsm7-early-leaf-verdict", Rule: "FSM-7", File: fFsm,
		Old: "func (s *State) apply(args []string, pc matcher.ParseContext) bool {\n",
		New: "func (s *State) apply(args []string, pc matcher.ParseContext) bool {\n\tif s.Terminal && len(s.Transitions) == 0 {\n\t\treturn len(args) == 0\n\t}\n"},
	{Name: "cmd4-short-token-skipped", Rule: "CMD-4", File: fCmds,
		Old: "\t\tif arg == \"--\" {\n\t\t\treturn -1\n\t\t}\n\t\tfor _, searchArg := range searchSet {",
		New: "\t\tif arg == \"--\" {\n\t\t\treturn -1\n\t\t}\n\t\tif i > 0 && len(arg) == 2 {\n\t\t\tcontinue\n\t\t}\n\t\tfor _, searchArg := range searchSet {"},
	// ---- obligations added after the fifth (held-out) seeding round
	{Name: "mat3-scan-steps-over-dashdash", Rule: "MAT-3", File: fOption,
		Old: "\t\tcase arg == \"-\":\n\t\t\tidx++\n\t\tcase arg == \"--\":\n\t\t\treturn o.theOne.ValueSetFromEnv, args\n",
		New: "\t\tcase arg == \"-\" || arg == \"--\":\n\t\t\tidx++\n"},
	{Name: "cmd5-first-item-only-when-alone", Rule: "CMD-5", File: fCmds,
		Old: "func (c *Cmd) isFirstItemAmong(args []string, searchSet []string) bool {\n\tif len(args) == 0 {", New: "func (c *Cmd) isFirstItemAmong(args []string, searchSet []string) bool {\n\tif len(args) != 1 {"},
	{Name: "lex6-arg-class-admits-dash", Rule: "LEX-6", File: fLexer,
		Old: "\treturn isUppercase(c) || isDigit(c) || c == '_'\n", New: "\treturn isUppercase(c) || isDigit(c) || c == '_' || c == '-'\n"},
	{Name: "lex4-optvalue-text-restricted", Rule: "LEX-4", File: fLexer,
		Old: "\t\t\t\tclosed = usage[pos] == '>'\n\t\t\t\tif closed {\n\t\t\t\t\tbreak\n\t\t\t\t}\n",
		New: "\t\t\t\tclosed = usage[pos] == '>'\n\t\t\t\tif closed || usage[pos] == ' ' {\n\t\t\t\t\tbreak\n\t\t\t\t}\n"},
	// ---- obligations found missing by the mutation sweep (tools/mutation.py)
	{Name: "cmd1-rejected-returns-nil", Rule: "CMD-1", File: fCmds,
		Old: "\tc.PrintHelp()\n\tc.onError(err)\n\treturn err\n\n}", New: "\tc.PrintHelp()\n\tc.onError(err)\n\treturn nil\n\n}"},
	{Name: "cmd2-exiter-does-not-exit", Rule: "CMD-2", File: fCli,
		Old: "var exiter = func(code int) {\n\tos.Exit(code)\n}", New: "var exiter = func(code int) {\n}"},
	{Name: "help1-hidden-command-ends-listing", Rule: "HELP-1", File: fCmds,
		Old: "\t\tif c.Hidden {\n\t\t\tcontinue\n\t\t}\n\n\t\tcommands = append", New: "\t\tif c.Hidden {\n\t\t\tbreak\n\t\t}\n\n\t\tcommands = append"},
	{Name: "mat7-foreign-option-ends-scan", Rule: "MAT-7", File: fOption,
		Old: "\tcase len(kv) == 2:\n\t\tif opt != o.theOne {\n\t\t\treturn false, 1, args\n\t\t}", New: "\tcase len(kv) == 2:\n\t\tif opt != o.theOne {\n\t\t\treturn false, 0, args\n\t\t}"},
	{Name: "mat6-excluded-option-ends-group", Rule: "MAT-6", File: fOptions,
		Old: "\t\tif _, exclude := c.ExcludedOpts[o]; exclude {\n\t\t\tcontinue\n\t\t}", New: "\t\tif _, exclude := c.ExcludedOpts[o]; exclude {\n\t\t\tbreak\n\t\t}"},
	{Name: "lex4-optvalue-without-angle", Rule: "LEX-4", File: fLexer,
		Old: "if pos >= eof || usage[pos] != '<' {", New: "if pos >= eof {"},
	{Name: "mat7-rebuilt-vector-loses-prefix", Rule: "MAT-7", File: fStrings,
		Old: "\tres := make([]string, len(arr))\n\tcopy(res, arr[:idx])\n", New: "\tres := make([]string, len(arr))\n"},
	{Name: "mat7-wrong-token-dropped", Rule: "MAT-7", File: fOption,
		Old: "return true, 1, removeStringAt(idx+1, nargs)", New: "return true, 1, removeStringAt(idx, nargs)"},
	// ---- found by the type-aware mutation operators (wrong variable, sibling field or method)
	{Name: "fsm1-has-compares-candidate-with-itself", Rule: "FSM-1", File: fFsm,
		Old: "if t.Next == tr.Next && t.Matcher == tr.Matcher {", New: "if tr.Next == tr.Next && t.Matcher == tr.Matcher {"},
	{Name: "lex4-second-dash-not-tested", Rule: "LEX-4", File: fLexer, Old: "\t\t\tcase o == '-':", New: "\t\t\tcase c == '-':"},
	{Name: "par1-lookahead-consumes", Rule: "PAR-1", File: fParser,
		Old: "\tcase p.is(lexer.TTOptions):\n\t\treturn true", New: "\tcase p.found(lexer.TTOptions):\n\t\treturn true"},
	{Name: "cmd5-version-text-is-the-name", Rule: "CMD-5", File: fCli,
		Old: "cli.version = &cliVersion{version, option}", New: "cli.version = &cliVersion{name, option}"},
}
