// Package controls runs the negative controls of the thorough tier: each
// control breaks one rule instance in an in-memory overlay of the current
// source and expects the rule to report it (DESIGN.md §5.7).
package controls

import (
	"encoding/json"
	"os"
	"os/exec"
	"path/filepath"
	"sort"
	"strings"
	"sync"

	"verif/checker/internal/report"
)

// Control is one seeded break. The target is located textually on the
// *current* source (Old must occur exactly once in File); a control whose
// target cannot be located is skipped, never failed.
type Control struct {
	Name   string
	Rule   string
	File   string // relative to the repository
	Old    string
	New    string
	Expect string // optional substring of the construct that must be reported
}

// Item is the outcome of one control.
type Item struct {
	Name     string `json:"name"`
	Rule     string `json:"rule"`
	File     string `json:"file"`
	Outcome  string `json:"outcome"` // detected | missed | skipped:<why>
	Reported string `json:"reported,omitempty"`
}

// Result summarises a controls run.
type Result struct {
	Run      int    `json:"run"`
	Detected int    `json:"detected"`
	Skipped  int    `json:"skipped"`
	Missed   int    `json:"missed"`
	Items    []Item `json:"items"`
}

// Config for Run.
type Config struct {
	Repo     string
	Rules    []string
	Self     string
	VerifDir string
	Property string
	// Baseline lists rule -> construct keys that are already non-discharged on
	// the unmodified tree; a control must produce a *new* report.
	Baseline map[string]map[string]bool
}

// Run executes every control whose rule is in cfg.Rules, 16 at a time, one
// subprocess per variant.
func Run(cfg Config) *Result {
	want := map[string]bool{}
	for _, r := range cfg.Rules {
		want[r] = true
	}
	var todo []Control
	for _, c := range All() {
		if want[c.Rule] {
			todo = append(todo, c)
		}
	}
	res := &Result{Items: make([]Item, len(todo))}
	tmp, err := os.MkdirTemp("", "mowcheck-ctl-")
	if err != nil {
		for i, c := range todo {
			res.Items[i] = Item{Name: c.Name, Rule: c.Rule, File: c.File, Outcome: "skipped:no-tempdir"}
		}
		res.Skipped = len(todo)
		return res
	}
	defer os.RemoveAll(tmp)
	baseline := cfg.Baseline
	if baseline == nil {
		baseline = map[string]map[string]bool{}
		// compute the baseline per rule once
		rulesNeeded := map[string]bool{}
		for _, c := range todo {
			rulesNeeded[c.Rule] = true
		}
		var ids []string
		for r := range rulesNeeded {
			ids = append(ids, r)
		}
		sort.Strings(ids)
		if len(ids) > 0 {
			out, _ := exec.Command(cfg.Self, "-repo", cfg.Repo, "-rules", strings.Join(ids, ","), "-json").Output()
			var obs []report.Obligation
			_ = json.Unmarshal(out, &obs)
			for _, o := range obs {
				if o.Status != report.Discharged {
					if baseline[o.Rule] == nil {
						baseline[o.Rule] = map[string]bool{}
					}
					baseline[o.Rule][o.Construct] = true
				}
			}
		}
	}
	sem := make(chan struct{}, 16)
	var wg sync.WaitGroup
	for i, c := range todo {
		wg.Add(1)
		sem <- struct{}{}
		go func(i int, c Control) {
			defer wg.Done()
			defer func() { <-sem }()
			res.Items[i] = runOne(cfg, c, tmp, i, baseline[c.Rule])
		}(i, c)
	}
	wg.Wait()
	for _, it := range res.Items {
		switch {
		case it.Outcome == "detected":
			res.Run++
			res.Detected++
		case it.Outcome == "missed":
			res.Run++
			res.Missed++
		default:
			res.Skipped++
		}
	}
	return res
}

func runOne(cfg Config, c Control, tmp string, i int, baseline map[string]bool) Item {
	it := Item{Name: c.Name, Rule: c.Rule, File: c.File}
	abs := filepath.Join(cfg.Repo, c.File)
	src, err := os.ReadFile(abs)
	if err != nil {
		it.Outcome = "skipped:file-missing"
		return it
	}
	if n := strings.Count(string(src), c.Old); n != 1 {
		it.Outcome = "skipped:target-not-located"
		return it
	}
	mut := strings.Replace(string(src), c.Old, c.New, 1)
	ovPath := filepath.Join(tmp, "ov-"+itoa(i)+".json")
	data, _ := json.Marshal(map[string]string{abs: mut})
	if err := os.WriteFile(ovPath, data, 0o644); err != nil {
		it.Outcome = "skipped:tempfile"
		return it
	}
	cmd := exec.Command(cfg.Self, "-repo", cfg.Repo, "-rules", c.Rule, "-json", "-overlay", ovPath)
	out, err := cmd.Output()
	if ee, ok := err.(*exec.ExitError); ok && ee.ExitCode() == 3 {
		it.Outcome = "skipped:variant-does-not-compile"
		it.Reported = strings.TrimSpace(string(out))
		return it
	}
	var obs []report.Obligation
	if jerr := json.Unmarshal(out, &obs); jerr != nil {
		it.Outcome = "skipped:checker-output-unreadable"
		it.Reported = strings.TrimSpace(string(out))
		return it
	}
	for _, o := range obs {
		if o.Status == report.Discharged || baseline[o.Construct] {
			continue
		}
		if c.Expect != "" && !strings.Contains(o.Construct, c.Expect) {
			continue
		}
		it.Outcome = "detected"
		it.Reported = o.Rule + " " + o.Construct + " @" + o.Pos + ": " + o.Detail
		return it
	}
	it.Outcome = "missed"
	return it
}

func itoa(i int) string {
	if i == 0 {
		return "0"
	}
	s := ""
	for i > 0 {
		s = string(rune('0'+i%10)) + s
		i /= 10
	}
	return s
}
