package rules

import (
	"fmt"
	"go/constant"
	"go/token"
	"strings"

	"golang.org/x/tools/go/ssa"

	"verif/checker/internal/ir"
)

// evalBytePred evaluates a byte class of the scanner (a function of a byte and, possibly, boolean
// flags, built from comparisons with constants, negation, branches and calls of other such classes:
// the instruction set LEX-6 `:ascii-ranges` admits) on concrete arguments. It is an interpreter for
// that fragment over a finite domain, used to tabulate the class over all 256 bytes; anything outside
// the fragment makes it give up (ok=false).
func evalBytePred(f *ssa.Function, args []constant.Value, depth int) (res bool, ok bool) {
	if depth > 6 || len(f.Blocks) == 0 || len(args) != len(f.Params) {
		return false, false
	}
	env := map[ssa.Value]constant.Value{}
	for i, p := range f.Params {
		env[p] = args[i]
	}
	val := func(v ssa.Value) (constant.Value, bool) {
		if c, isC := v.(*ssa.Const); isC {
			if c.Value == nil {
				return nil, false
			}
			return c.Value, true
		}
		x, have := env[v]
		return x, have
	}
	b := f.Blocks[0]
	var prev *ssa.BasicBlock
	tuples := map[ssa.Value]bool{}
	for steps := 0; steps < 400; steps++ {
		// phis first
		newv := map[ssa.Value]constant.Value{}
		for _, in := range b.Instrs {
			phi, isPhi := in.(*ssa.Phi)
			if !isPhi {
				break
			}
			for i, p := range b.Preds {
				if p == prev {
					x, have := val(phi.Edges[i])
					if !have {
						return false, false
					}
					newv[phi] = x
				}
			}
		}
		for k, v := range newv {
			env[k] = v
		}
		for _, in := range b.Instrs {
			switch x := in.(type) {
			case *ssa.Phi, *ssa.DebugRef:
			case *ssa.BinOp:
				l, okL := val(x.X)
				r, okR := val(x.Y)
				if !okL || !okR {
					return false, false
				}
				switch x.Op {
				case token.EQL, token.NEQ, token.LSS, token.LEQ, token.GTR, token.GEQ:
					if l.Kind() == constant.Bool || r.Kind() == constant.Bool {
						if x.Op != token.EQL && x.Op != token.NEQ {
							return false, false
						}
						eq := constant.BoolVal(l) == constant.BoolVal(r)
						env[x] = constant.MakeBool(eq == (x.Op == token.EQL))
					} else {
						env[x] = constant.MakeBool(constant.Compare(l, x.Op, r))
					}
				default:
					return false, false
				}
			case *ssa.UnOp:
				if x.Op == token.MUL {
					if _, isG := x.X.(*ssa.Global); isG {
						continue // the table itself; read through Lookup below
					}
				}
				if x.Op != token.NOT {
					return false, false
				}
				o, okO := val(x.X)
				if !okO || o.Kind() != constant.Bool {
					return false, false
				}
				env[x] = constant.MakeBool(!constant.BoolVal(o))
			case *ssa.Lookup:
				// a read-only package-level map from constants to true
				ld, isLd := x.X.(*ssa.UnOp)
				if !isLd {
					return false, false
				}
				g, isG := ld.X.(*ssa.Global)
				if !isG {
					return false, false
				}
				keys, okK := mapTableTrueKeys(g)
				k, okI := val(x.Index)
				if !okK || !okI || k.Kind() != constant.String {
					return false, false
				}
				hit := false
				for _, kk := range keys {
					if kk == constant.StringVal(k) {
						hit = true
					}
				}
				if x.CommaOk {
					// `v, ok := table[k]`: with a table whose entries are all true, both are "k is a key"
					allTrue := true
					if init, _ := g.Pkg.Members["init"].(*ssa.Function); init != nil {
						ir.Instrs(init, func(in2 ssa.Instruction) {
							if mu, isMu := in2.(*ssa.MapUpdate); isMu {
								if v, isB := ir.ConstBool(mu.Value); isB && !v {
									allTrue = false
								}
							}
						})
					}
					if !allTrue {
						return false, false
					}
					tuples[x] = hit
					continue
				}
				env[x] = constant.MakeBool(hit)
			case *ssa.Extract:
				hit, okT := tuples[x.Tuple]
				if !okT {
					return false, false
				}
				env[x] = constant.MakeBool(hit)
			case *ssa.Convert:
				o, okO := val(x.X)
				if !okO {
					return false, false
				}
				env[x] = o
			case *ssa.Call:
				g := ir.Static(x)
				if g == nil {
					return false, false
				}
				var as []constant.Value
				for _, a := range x.Call.Args {
					o, okO := val(a)
					if !okO {
						return false, false
					}
					as = append(as, o)
				}
				r, okR := evalBytePred(g, as, depth+1)
				if !okR {
					return false, false
				}
				env[x] = constant.MakeBool(r)
			case *ssa.If:
				cv, okC := val(x.Cond)
				if !okC || cv.Kind() != constant.Bool {
					return false, false
				}
				prev = b
				if constant.BoolVal(cv) {
					b = b.Succs[0]
				} else {
					b = b.Succs[1]
				}
			case *ssa.Jump:
				prev = b
				b = b.Succs[0]
			case *ssa.Return:
				if len(x.Results) != 1 {
					return false, false
				}
				r, okR := val(x.Results[0])
				if !okR || r.Kind() != constant.Bool {
					return false, false
				}
				return constant.BoolVal(r), true
			default:
				return false, false
			}
		}
	}
	return false, false
}

// byteClass tabulates f over all bytes with the given boolean flags; the result is rendered as a
// set of ranges, e.g. "0-9A-Z_".
func byteClass(f *ssa.Function, flags ...bool) (string, bool) {
	var acc [256]bool
	for b := 0; b < 256; b++ {
		args := []constant.Value{constant.MakeInt64(int64(b))}
		for _, fl := range flags {
			args = append(args, constant.MakeBool(fl))
		}
		r, ok := evalBytePred(f, args, 0)
		if !ok {
			return "", false
		}
		acc[b] = r
	}
	return renderClass(acc), true
}

func renderClass(acc [256]bool) string {
	var sb strings.Builder
	ch := func(b int) string {
		if b > 32 && b < 127 {
			return string(rune(b))
		}
		return fmt.Sprintf("\\x%02x", b)
	}
	for b := 0; b < 256; {
		if !acc[b] {
			b++
			continue
		}
		e := b
		for e+1 < 256 && acc[e+1] {
			e++
		}
		switch {
		case e == b:
			sb.WriteString(ch(b))
		case e == b+1:
			sb.WriteString(ch(b) + ch(e))
		default:
			sb.WriteString(ch(b) + "-" + ch(e))
		}
		b = e + 1
	}
	return sb.String()
}
