package rules

import (
	"fmt"
	"go/token"
	"go/types"
	"sort"
	"strings"

	"golang.org/x/tools/go/ssa"

	"verif/checker/internal/ir"
)

func init() {
	register(&Rule{ID: "VAL-1", Props: []string{"C13", "C02", "C06", "C07"}, Floor: 7,
		Doc: "each built-in Set parses its parameter itself with the right strconv call (ParseBool / ParseInt(s,10,64) / ParseFloat(s,64)), stores a conversion of result 0, returns the error as is; string types store the parameter unchanged", Run: val1})
	register(&Rule{ID: "VAL-2", Props: []string{"C13", "C06"}, Floor: 5,
		Doc: "a failed Set is a no-op: the store to the receiver is dominated by the err==nil edge", Run: val2})
	register(&Rule{ID: "VAL-3", Props: []string{"C06", "C13", "C19"}, Floor: 6,
		Doc: "environment list: strings.Fields in order, empty values skipped, first variable that sets without error wins, multi-valued: Clear, Split on ',', TrimSpace, Set each", Run: val3})
	register(&Rule{ID: "VAL-4", Props: []string{"C06", "C19"}, Floor: 1,
		Doc: "environment application is atomic: no Clear of the target may be followed by a failing exit", Run: val4})
	register(&Rule{ID: "VAL-5", Props: []string{"C19", "C10", "C17", "C02", "C01"}, Floor: 2,
		Doc: "capability detection uses the methods' results: IsBool = BoolValued && IsBoolFlag(); DefaultValue = \"\" iff DefaultValued && IsDefault(), else String()", Run: val5})
	register(&Rule{ID: "VAL-6", Props: []string{"C06", "C02"}, Floor: 7,
		Doc: "each constructor NewX(into, v) stores v to *into and returns into converted", Run: val6})
	register(&Rule{ID: "VAL-7", Props: []string{"C06", "C02", "C20", "C13", "C17"}, Floor: 6,
		Doc: "multi-valued built-ins: Clear stores nil, Set appends at the end", Run: val7})
}

// setMethods returns the Set(string) error methods declared in package values.
func setMethods(c *Ctx) []*ssa.Function {
	var out []*ssa.Function
	for _, fn := range c.pkgFuncsDeep("internal/values") {
		if fn.Name() != "Set" || fn.Signature.Recv() == nil || fn.Parent() != nil {
			continue
		}
		sig := fn.Signature
		if sig.Params().Len() != 1 || sig.Results().Len() != 1 {
			continue
		}
		if b, ok := sig.Params().At(0).Type().(*types.Basic); !ok || b.Kind() != types.String {
			continue
		}
		out = append(out, fn)
	}
	sort.Slice(out, func(i, j int) bool { return Q(out[i]) < Q(out[j]) })
	return out
}

// recvElem returns the underlying element type of the receiver *T: the basic
// type for single-valued, the slice element for multi-valued.
func recvElem(fn *ssa.Function) (elem *types.Basic, multi bool) {
	t := fn.Signature.Recv().Type()
	if p, ok := t.(*types.Pointer); ok {
		t = p.Elem()
	}
	u := t.Underlying()
	if s, ok := u.(*types.Slice); ok {
		b, _ := s.Elem().Underlying().(*types.Basic)
		return b, true
	}
	b, _ := u.(*types.Basic)
	return b, false
}

// storedThroughConversions follows ChangeType/Convert from v down to its source.
func stripConv(v ssa.Value) ssa.Value {
	for {
		switch x := v.(type) {
		case *ssa.ChangeType:
			v = x.X
		case *ssa.Convert:
			v = x.X
		default:
			return v
		}
	}
}

// appendedSingle recognises append(base, [elem]...) and returns base, elem.
func appendedSingle(v ssa.Value) (base, elem ssa.Value, ok bool) {
	call, isCall := v.(*ssa.Call)
	if !isCall {
		return nil, nil, false
	}
	b, isB := call.Call.Value.(*ssa.Builtin)
	if !isB || b.Name() != "append" || len(call.Call.Args) != 2 {
		return nil, nil, false
	}
	base = call.Call.Args[0]
	sl, isSl := call.Call.Args[1].(*ssa.Slice)
	if !isSl {
		return nil, nil, false
	}
	al, isAl := sl.X.(*ssa.Alloc)
	if !isAl {
		return nil, nil, false
	}
	arr, isArr := al.Type().(*types.Pointer).Elem().(*types.Array)
	if !isArr || arr.Len() != 1 {
		return nil, nil, false
	}
	var stored ssa.Value
	n := 0
	for _, u := range *al.Referrers() {
		if ia, isIA := u.(*ssa.IndexAddr); isIA {
			for _, uu := range *ia.Referrers() {
				if st, isSt := uu.(*ssa.Store); isSt && st.Addr == ia {
					stored = st.Val
					n++
				}
			}
		}
	}
	if n != 1 {
		return nil, nil, false
	}
	return base, stored, true
}

func val1(c *Ctx) {
	for _, fn := range setMethods(c) {
		c.Mark(fn)
		key := Q(fn)
		elem, multi := recvElem(fn)
		if elem == nil {
			c.Undecided(key, fn.Pos(), "receiver type not a basic or slice-of-basic type")
			continue
		}
		recv, s := fn.Params[0], fn.Params[1]
		var wantFn string
		var wantArgs []int64
		switch elem.Kind() {
		case types.Bool:
			wantFn = "ParseBool"
		case types.Int:
			wantFn, wantArgs = "ParseInt", []int64{10, 64}
		case types.Float64:
			wantFn, wantArgs = "ParseFloat", []int64{64}
		case types.String:
			wantFn = ""
		default:
			c.Undecided(key, fn.Pos(), "element kind %s not in the table", elem)
			continue
		}
		var problems []string
		var parse *ssa.Call
		for _, call := range ir.Calls(fn) {
			if b, ok := call.Common().Value.(*ssa.Builtin); ok && b.Name() == "append" {
				continue
			}
			f := ir.Static(call)
			if f != nil && f.Object() != nil && f.Object().Pkg() != nil && f.Object().Pkg().Path() == "strconv" {
				if parse != nil {
					problems = append(problems, "more than one strconv call")
				}
				parse, _ = call.(*ssa.Call)
				continue
			}
			problems = append(problems, fmt.Sprintf("unexpected call at %s", c.P.Pos(call.Pos())))
		}
		if wantFn == "" {
			if parse != nil {
				problems = append(problems, "string type must not parse")
			}
		} else if parse == nil {
			problems = append(problems, "no strconv call")
		} else {
			f := ir.Static(parse)
			name := f.Name()
			args := parse.Call.Args
			okCall := false
			switch {
			case name == wantFn && len(args) == 1+len(wantArgs):
				okCall = true
				for i, w := range wantArgs {
					if v, isC := ir.ConstInt(args[1+i]); !isC || v != w {
						okCall = false
						problems = append(problems, fmt.Sprintf("strconv.%s argument %d is not the constant %d", name, i+1, w))
					}
				}
			case wantFn == "ParseInt" && name == "Atoi":
				okCall = true // equivalent on 64-bit targets
			default:
				problems = append(problems, fmt.Sprintf("calls strconv.%s, expected strconv.%s", name, wantFn))
			}
			if okCall && args[0] != ssa.Value(s) {
				problems = append(problems, "the parsed string is not the parameter itself (trimmed, mapped or replaced)")
			}
		}
		// the stores to the receiver
		nStores := 0
		ir.Instrs(fn, func(in ssa.Instruction) {
			st, ok := in.(*ssa.Store)
			if !ok {
				return
			}
			if st.Addr != ssa.Value(recv) {
				// stores into the varargs array of append are fine
				if ia, isIA := st.Addr.(*ssa.IndexAddr); isIA {
					if _, isAl := ia.X.(*ssa.Alloc); isAl {
						return
					}
				}
				problems = append(problems, fmt.Sprintf("store at %s to something other than the receiver", c.P.Pos(st.Pos())))
				return
			}
			nStores++
			val := st.Val
			if multi {
				base, el, ok := appendedSingle(stripConv(val))
				if !ok {
					problems = append(problems, "stored value is not append(*recv, x)")
					return
				}
				if ld, isLd := base.(*ssa.UnOp); !isLd || ld.Op != token.MUL || ld.X != ssa.Value(recv) {
					problems = append(problems, "append base is not the receiver's current content")
				}
				val = el
			}
			src := stripConv(val)
			if vals := ir.PhiValuesAt(src, st.Block()); len(vals) == 1 {
				src = stripConv(vals[0])
			}
			if wantFn == "" {
				if src != ssa.Value(s) {
					problems = append(problems, "stored string is not the parameter unchanged")
				}
				return
			}
			ex, isEx := src.(*ssa.Extract)
			if !isEx || ex.Index != 0 || ex.Tuple != ssa.Value(parse) {
				problems = append(problems, "stored value is not a conversion of result 0 of the strconv call")
			}
		})
		if nStores != 1 {
			problems = append(problems, fmt.Sprintf("%d stores to the receiver, expected 1", nStores))
		}
		// returns: nil or the parse error as is
		for _, r := range ir.ReturnPoints(fn) {
			for _, v := range ir.PhiValuesAt(r.Results[0], r.Block()) {
				if ir.IsNilConst(v) {
					continue
				}
				if ex, isEx := v.(*ssa.Extract); isEx && parse != nil && ex.Tuple == ssa.Value(parse) && ex.Index == 1 {
					continue
				}
				problems = append(problems, fmt.Sprintf("return at %s is neither nil nor the strconv error as is", c.P.Pos(r.Pos())))
			}
		}
		if parse != nil {
			// error must be returned on the non-nil edge: every path from parse to return nil passes the err==nil edge
			errV := extractOf(parse, 1)
			if errV == nil {
				problems = append(problems, "strconv error result is dropped")
			} else {
				for _, r := range ir.ReturnPoints(fn) {
					if ir.IsNilConst(r.Results[0]) && !errIsNilH(errV, r.Holds) {
						problems = append(problems, fmt.Sprintf("return nil at %s is not dominated by err == nil", c.P.Pos(r.Pos())))
					}
				}
			}
		}
		if len(problems) > 0 {
			c.Bad(key, fn.Pos(), "%s", strings.Join(problems, "; "))
		} else if wantFn == "" {
			c.OK(key, fn.Pos(), "stores the parameter unchanged, returns nil")
		} else {
			c.OK(key, fn.Pos(), "strconv.%s on the parameter itself; stores a conversion of result 0; returns the error as is", ir.Static(parse).Name())
		}
	}
}

// extractOf returns the Extract #idx of tuple value t, or nil.
func extractOf(t ssa.Value, idx int) ssa.Value {
	refs := t.Referrers()
	if refs == nil {
		return nil
	}
	for _, u := range *refs {
		if ex, ok := u.(*ssa.Extract); ok && ex.Index == idx {
			return ex
		}
	}
	return nil
}

// errIsNilAt reports whether error value e is known to be nil at block b
// (b is dominated by the nil edge of a comparison of e with nil).
// errNilEdges: the CFG edges taken when error value e was compared with nil and found nil.
func errNilEdges(fn *ssa.Function, e ssa.Value) []ir.Edge {
	var out []ir.Edge
	if e.Referrers() == nil {
		return nil
	}
	for _, u := range *e.Referrers() {
		bo, ok := u.(*ssa.BinOp)
		if !ok || !(ir.IsNilConst(bo.X) || ir.IsNilConst(bo.Y)) || (bo.Op != token.EQL && bo.Op != token.NEQ) {
			continue
		}
		for _, ce := range ir.EdgesWhere(fn, bo, bo.Op == token.EQL) {
			out = append(out, ir.Edge{From: ce.From, To: ce.To})
		}
	}
	return out
}

func errIsNilAt(e ssa.Value, b *ssa.BasicBlock) bool {
	return errIsNilH(e, func(v ssa.Value, want bool) bool { return ir.HoldsAt(v, want, b) })
}

func errIsNilH(e ssa.Value, holds func(ssa.Value, bool) bool) bool {
	if errCmpH(e, holds, true) {
		return true
	}
	// merged with other outcomes at a join: `err := f(); ...; err = g(); if err == nil`
	for _, u := range *e.Referrers() {
		if phi, ok := u.(*ssa.Phi); ok && errCmpH(phi, holds, true) {
			return true
		}
	}
	return false
}

// errCmpAt: a comparison of e with nil is known to have the outcome (e == nil) == wantNil at b.
func errCmpAt(e ssa.Value, b *ssa.BasicBlock, wantNil bool) bool {
	return errCmpH(e, func(v ssa.Value, want bool) bool { return ir.HoldsAt(v, want, b) }, wantNil)
}

func errCmpH(e ssa.Value, holds func(ssa.Value, bool) bool, wantNil bool) bool {
	if e.Referrers() == nil {
		return false
	}
	for _, u := range *e.Referrers() {
		bo, ok := u.(*ssa.BinOp)
		if !ok || !(ir.IsNilConst(bo.X) || ir.IsNilConst(bo.Y)) {
			continue
		}
		switch bo.Op {
		case token.NEQ:
			if holds(bo, !wantNil) {
				return true
			}
		case token.EQL:
			if holds(bo, wantNil) {
				return true
			}
		}
	}
	return false
}

// phiKnownNil: every value the phi receives is the nil constant or an error that was found nil on the
// edge that carries it (`for … { if err = f(); err != nil { break } }` seen from the loop header).
func phiKnownNil(phi *ssa.Phi) bool {
	for i, e := range phi.Edges {
		if ir.IsNilConst(e) || e == ssa.Value(phi) {
			continue
		}
		p := phi.Block().Preds[i]
		holds := func(v ssa.Value, want bool) bool {
			return ir.HoldsAt(v, want, p) || ir.HoldsOnEdge(v, want, p, phi.Block())
		}
		if e.Referrers() == nil || !errCmpH(e, holds, true) {
			return false
		}
	}
	return len(phi.Edges) > 0
}

func errIsNilAtOld(e ssa.Value, b *ssa.BasicBlock) bool {
	for _, u := range *e.Referrers() {
		bo, ok := u.(*ssa.BinOp)
		if !ok || !(ir.IsNilConst(bo.X) || ir.IsNilConst(bo.Y)) {
			continue
		}
		switch bo.Op {
		case token.NEQ:
			if ir.HoldsAt(bo, false, b) {
				return true
			}
		case token.EQL:
			if ir.HoldsAt(bo, true, b) {
				return true
			}
		}
	}
	return false
}

// errIsNonNilAt is the dual of errIsNilAt.
func errIsNonNilAt(e ssa.Value, b *ssa.BasicBlock) bool {
	return errIsNonNilH(e, b, func(v ssa.Value, want bool) bool { return ir.HoldsAt(v, want, b) })
}

func errIsNonNilH(e ssa.Value, b *ssa.BasicBlock, holds func(ssa.Value, bool) bool) bool {
	if errCmpH(e, holds, false) {
		return true
	}
	for _, u := range *e.Referrers() {
		if phi, ok := u.(*ssa.Phi); ok && errCmpH(phi, holds, false) {
			// only if the phi's other edges cannot be what made it non-nil is this about e; accept when
			// control reaches b only through e's edge
			vals := ir.PhiValuesAt(phi, b)
			if len(vals) == 1 && vals[0] == e {
				return true
			}
		}
	}
	return false
}

func errIsNonNilAtOld(e ssa.Value, b *ssa.BasicBlock) bool {
	for _, u := range *e.Referrers() {
		bo, ok := u.(*ssa.BinOp)
		if !ok || !(ir.IsNilConst(bo.X) || ir.IsNilConst(bo.Y)) {
			continue
		}
		switch bo.Op {
		case token.NEQ:
			if ir.HoldsAt(bo, true, b) {
				return true
			}
		case token.EQL:
			if ir.HoldsAt(bo, false, b) {
				return true
			}
		}
	}
	return false
}

func val2(c *Ctx) {
	for _, fn := range setMethods(c) {
		elem, _ := recvElem(fn)
		if elem == nil || elem.Kind() == types.String {
			continue
		}
		c.Mark(fn)
		key := Q(fn)
		recv := fn.Params[0]
		// error values produced in the function: results of calls returning error
		var errs []ssa.Value
		for _, call := range ir.Calls(fn) {
			cv, ok := call.(*ssa.Call)
			if !ok {
				continue
			}
			if tup, isT := cv.Type().(*types.Tuple); isT {
				for i := 0; i < tup.Len(); i++ {
					if types.Identical(tup.At(i).Type(), types.Universe.Lookup("error").Type()) {
						if e := extractOf(cv, i); e != nil {
							errs = append(errs, e)
						}
					}
				}
			}
		}
		ok := true
		n := 0
		var why []string
		ir.Instrs(fn, func(in ssa.Instruction) {
			st, isSt := in.(*ssa.Store)
			if !isSt || st.Addr != ssa.Value(recv) {
				return
			}
			n++
			if len(errs) == 0 {
				ok = false
				why = append(why, "no error value to guard the store")
				return
			}
			for _, e := range errs {
				if !errIsNilAt(e, st.Block()) {
					ok = false
					why = append(why, fmt.Sprintf("store at %s is reachable with a non-nil parse error", c.P.Pos(st.Pos())))
				}
			}
		})
		if n == 0 {
			c.Bad(key, fn.Pos(), "no store to the receiver found")
			continue
		}
		c.Check(ok, key, fn.Pos(), "the receiver is written only on the err == nil edge", strings.Join(why, "; "))
	}
}

// rangeElem recognises v = slice[i] where i is the index of a `for range` loop
// over slice (rotated rangeindex form) and returns the slice.
func rangeElem(v ssa.Value) (slice ssa.Value, ok bool) {
	if ix, isIx := v.(*ssa.Index); isIx {
		// an array value indexed by the loop counter (`for _, x := range table` over an array)
		if _, isArr := ix.X.Type().Underlying().(*types.Array); isArr && isLoopIndexOver(ix.Index, ix.X) {
			return ix.X, true
		}
		return nil, false
	}
	ld, isLd := v.(*ssa.UnOp)
	if !isLd || ld.Op != token.MUL {
		return nil, false
	}
	ia, isIA := ld.X.(*ssa.IndexAddr)
	if !isIA {
		return nil, false
	}
	if !isLoopIndexOver(ia.Index, ia.X) {
		return nil, false
	}
	return ia.X, true
}

// isRangeIndex: idx is the index of a `for range` loop (rotated rangeindex form).
func isRangeIndex(idx ssa.Value) bool {
	bo, ok := idx.(*ssa.BinOp)
	if !ok || bo.Op != token.ADD {
		return false
	}
	if one, isC := ir.ConstInt(bo.Y); !isC || one != 1 {
		return false
	}
	phi, isPhi := bo.X.(*ssa.Phi)
	return isPhi && phi.Comment == "rangeindex"
}

// isLoopIndexOver: idx visits every index of slice in order: either the index of a `for range`
// loop, or the counter of `for i := 0; i < len(slice); i++` (counter starts at 0, every back edge
// adds exactly 1, the loop condition is i < len(slice)).
func isLoopIndexOver(idx, slice ssa.Value) bool {
	if isRangeIndex(idx) {
		return true
	}
	phi, ok := idx.(*ssa.Phi)
	if !ok {
		return false
	}
	h := phi.Block()
	sawInit, sawBack := false, false
	for i, e := range phi.Edges {
		p := h.Preds[i]
		if h.Dominates(p) {
			bo, isBo := e.(*ssa.BinOp)
			if !isBo || bo.Op != token.ADD || bo.X != ssa.Value(phi) {
				return false
			}
			if one, isC := ir.ConstInt(bo.Y); !isC || one != 1 {
				return false
			}
			sawBack = true
		} else {
			if z, isC := ir.ConstInt(e); !isC || z != 0 {
				return false
			}
			sawInit = true
		}
	}
	if !sawInit || !sawBack || len(h.Instrs) == 0 {
		return false
	}
	iff, isIf := h.Instrs[len(h.Instrs)-1].(*ssa.If)
	if !isIf {
		return false
	}
	cond, isBo := iff.Cond.(*ssa.BinOp)
	if !isBo || cond.Op != token.LSS || cond.X != ssa.Value(phi) {
		return false
	}
	if arr, isArr := slice.Type().Underlying().(*types.Array); isArr {
		n, isC := ir.ConstInt(cond.Y)
		return isC && n == arr.Len()
	}
	lc, isCall := cond.Y.(*ssa.Call)
	if !isCall {
		return false
	}
	if b, isB := lc.Call.Value.(*ssa.Builtin); !isB || b.Name() != "len" {
		return false
	}
	return lc.Call.Args[0] == slice || sameLoad(lc.Call.Args[0], slice)
}

func stdCall(v ssa.Value, pkg, name string) *ssa.Call {
	call, ok := v.(*ssa.Call)
	if !ok {
		return nil
	}
	if f := ir.Static(call); f != nil && ir.IsStdFunc(f, pkg, name) {
		return call
	}
	return nil
}

// envFunc finds the function(s) of the closure calling os.Getenv.
func envFuncs(c *Ctx) []*ssa.Function {
	var out []*ssa.Function
	for _, fn := range c.ClosureFuncsDeep() {
		for _, call := range ir.Calls(fn) {
			if f := ir.Static(call); f != nil && ir.IsStdFunc(f, "os", "Getenv") {
				out = append(out, fn)
				break
			}
		}
	}
	return out
}

func val3(c *Ctx) {
	efs := envFuncs(c)
	if len(efs) == 0 {
		c.Undecided("anchor:env-application", token.NoPos, "no function calls os.Getenv")
		return
	}
	for _, fn := range efs {
		c.Mark(fn)
		key := Q(fn)
		// (a) Getenv argument
		var getenvs []*ssa.Call
		for _, call := range ir.Calls(fn) {
			if f := ir.Static(call); f != nil && ir.IsStdFunc(f, "os", "Getenv") {
				getenvs = append(getenvs, call.(*ssa.Call))
			}
		}
		for _, g := range getenvs {
			sl, ok := rangeElem(g.Call.Args[0])
			good := false
			if ok {
				if fc := stdCall(sl, "strings", "Fields"); fc != nil {
					if _, isParam := fc.Call.Args[0].(*ssa.Parameter); isParam {
						good = true
					}
				}
			}
			whyG := "os.Getenv is not called on the in-order elements of strings.Fields(list parameter)"
			if good {
				if _, h, isR := rangeElemHeader(g.Call.Args[0]); isR && h != nil {
					if _, entry, _ := loopBody(h); entry != nil && entry != g.Block() && ir.Reach(entry, map[*ssa.BasicBlock]bool{g.Block(): true}, nil)[h] {
						good, whyG = false, "a variable of the list can be passed over without being read"
					}
				}
			}
			c.Check(good, key+":getenv-arg", g.Pos(), "each variable name is an element, in order, of strings.Fields(<the list parameter>)", whyG)
			// (b) empty skipped: every Set / helper call using g is dominated by non-emptiness of g
			var lenTests []ssa.Value // boolean values meaning "g is empty"
			for _, u := range *g.Referrers() {
				switch x := u.(type) {
				case *ssa.Call:
					if b, isB := x.Call.Value.(*ssa.Builtin); isB && b.Name() == "len" {
						for _, uu := range *x.Referrers() {
							if bo, isBo := uu.(*ssa.BinOp); isBo {
								if z, isC := ir.ConstInt(bo.Y); isC && z == 0 && (bo.Op == token.EQL || bo.Op == token.NEQ || bo.Op == token.GTR) {
									lenTests = append(lenTests, bo)
								}
							}
						}
					}
				case *ssa.BinOp:
					if s, isC := ir.ConstString(x.Y); isC && s == "" && (x.Op == token.EQL || x.Op == token.NEQ) {
						lenTests = append(lenTests, x)
					}
				}
			}
			nonEmptyAt := func(b *ssa.BasicBlock) bool {
				for _, t := range lenTests {
					bo := t.(*ssa.BinOp)
					want := bo.Op != token.EQL // NEQ / GTR true means non-empty
					if ir.HoldsAt(bo, want, b) {
						return true
					}
				}
				return false
			}
			// the uses that apply the value
			type app struct {
				call  *ssa.Call
				multi bool
			}
			var apps []app
			for _, call := range ir.Calls(fn) {
				cv, ok := call.(*ssa.Call)
				if !ok {
					continue
				}
				if ir.IsInvokeOf(cv, "Set") {
					if len(cv.Call.Args) == 1 && cv.Call.Args[0] == ssa.Value(g) {
						apps = append(apps, app{cv, false})
					} else {
						c.Bad(key+":set-arg", cv.Pos(), "Set is invoked with something other than the variable's value as read")
					}
					continue
				}
				if f := ir.Static(cv); f != nil && c.P.InModule(f.Pkg.Pkg) {
					// helper receiving a split of g
					for _, a := range cv.Call.Args {
						if sp := stdCall(a, "strings", "Split"); sp != nil {
							sep, _ := ir.ConstString(sp.Call.Args[1])
							if sp.Call.Args[0] == ssa.Value(g) && sep == "," {
								apps = append(apps, app{cv, true})
							} else {
								c.Bad(key+":split", cv.Pos(), "multi-valued list is not strings.Split(value, \",\")")
							}
						}
					}
				}
			}
			if len(apps) == 0 {
				c.Bad(key+":apply", g.Pos(), "the value read from the environment is not applied by Set")
			} else if _, h, isR := rangeElemHeader(g.Call.Args[0]); isR && h != nil {
				// a non-empty variable is always applied: from the edges on which the value is known not to be
				// empty the next variable is not reached around the applications
				blocked := map[*ssa.BasicBlock]bool{}
				for _, a := range apps {
					blocked[a.call.Block()] = true
				}
				skipped := false
				for _, t := range lenTests {
					bo := t.(*ssa.BinOp)
					for _, e := range ir.EdgesWhere(fn, bo, bo.Op != token.EQL) {
						if !blocked[e.To] && ir.Reach(e.To, blocked, nil)[h] {
							skipped = true
						}
					}
				}
				c.Check(!skipped, key+":applies-non-empty", g.Pos(), "a variable that is set and not empty is handed to Set", "a non-empty variable can be passed over without being applied (the next one, or the default, would win)")
			}
			for _, a := range apps {
				kind := "single"
				if a.multi {
					kind = "multi"
				}
				c.Check(nonEmptyAt(a.call.Block()), key+":empty-skipped/"+kind, a.call.Pos(),
					"an empty variable is skipped before the value is applied", "an empty variable is not skipped before applying it")
			}
			// (d) first valid wins
			for _, r := range ir.ReturnPoints(fn) {
				b, isC := ir.ConstBool(r.Results[0])
				if !isC {
					c.Bad(key+":return", r.Pos(), "result is not a constant verdict")
					continue
				}
				if !b {
					// return false must not be dominated by a successful application
					bad := false
					for _, a := range apps {
						if errIsNilH(a.call, r.Holds) {
							bad = true
						}
					}
					whyF := "false returned although a variable applied"
					if !bad && ok {
						// and only once every variable of the list was looked at (or the list is empty)
						if _, h, isR := rangeElemHeader(g.Call.Args[0]); isR && h != nil {
							_, _, exit := loopBody(h)
							cut := map[ir.Edge]bool{{From: h, To: exit}: true}
							for _, prm := range fn.Params {
								if isStringType(prm.Type()) {
									for _, e := range lenOnlyZeroEdges(fn, prm) {
										cut[e] = true
									}
								}
							}
							for _, e := range lenOnlyZeroEdgesLike(fn, sl) {
								cut[e] = true
							}
							for _, w := range ir.ReturnWays(fn) {
								if w.Ret == r.Ret && w.ReachableUnder(ir.Reach(fn.Blocks[0], nil, cut), cut) {
									bad, whyF = true, "false can be returned before every variable of the list was tried"
								}
							}
						}
					}
					c.Check(!bad, key+":return-false", r.Pos(), "false is returned only when no variable applied", whyF)
					continue
				}
				good := false
				for _, a := range apps {
					if errIsNilH(a.call, r.Holds) {
						good = true
					}
				}
				if !good {
					// several applications share this return: with the success edges of all of them cut it
					// cannot be reached
					cut := map[ir.Edge]bool{}
					for _, a := range apps {
						for _, e := range errNilEdges(fn, a.call) {
							cut[e] = true
						}
					}
					if len(cut) > 0 && !r.ReachableUnder(ir.Reach(fn.Blocks[0], nil, cut), cut) {
						good = true
					}
				}
				c.Check(good, key+":return-true", r.Pos(), "true is returned only on the err == nil edge of an application", "true returned without a successful application")
			}
			// after a failed application the loop goes on (no return on the err != nil edge)
			for _, a := range apps {
				kind := "single"
				if a.multi {
					kind = "multi"
				}
				cont := false
				for _, r := range ir.ReturnPoints(fn) {
					if errIsNonNilH(a.call, r.Block(), r.Holds) {
						cont = false
						c.Bad(key+":next-variable/"+kind, r.Pos(), "returns on a failed application instead of trying the next variable")
						goto next
					}
				}
				cont = true
			next:
				if cont {
					c.OK(key+":next-variable/"+kind, a.call.Pos(), "a failed application falls through to the next variable")
				}
				// success must return at once: from the err==nil edge every path returns without another Getenv
				if a.multi {
					c.Mark(ir.Static(a.call))
					val3multi(c, ir.Static(a.call))
				}
			}
		}
	}
}

// val3multi checks the multi-valued helper: Clear, then for each element in
// order TrimSpace and Set, the first error returned at once.
func val3multi(c *Ctx, fn *ssa.Function) {
	key := Q(fn)
	var sets, clears []*ssa.Call
	for _, call := range ir.Calls(fn) {
		cv, ok := call.(*ssa.Call)
		if !ok {
			continue
		}
		if ir.IsInvokeOf(cv, "Set") {
			sets = append(sets, cv)
		}
		if ir.IsInvokeOf(cv, "Clear") {
			clears = append(clears, cv)
		}
	}
	if len(sets) != 1 {
		c.Bad(key+":set", fn.Pos(), "expected exactly one Set site, found %d", len(sets))
		return
	}
	set := sets[0]
	_, recvIsParam := set.Call.Value.(*ssa.Parameter)
	arg := set.Call.Args[0]
	good := false
	if ts := stdCall(arg, "strings", "TrimSpace"); ts != nil {
		if sl, ok := rangeElem(ts.Call.Args[0]); ok {
			if _, isParam := sl.(*ssa.Parameter); isParam {
				good = true
			}
		}
	}
	why := "elements are not applied as Set(TrimSpace(list[i])) in order on the target parameter"
	if good {
		// no element is passed over: an iteration cannot come back to the loop header without the Set
		if _, h, isR := rangeElemHeader(stdCall(arg, "strings", "TrimSpace").Call.Args[0]); isR && h != nil {
			if _, entry, _ := loopBody(h); entry != nil && entry != set.Block() && ir.Reach(entry, map[*ssa.BasicBlock]bool{set.Block(): true}, nil)[h] {
				good, why = false, "an element of the list can be passed over without being Set (an empty element is a value like any other)"
			}
		}
	}
	c.Check(good && recvIsParam, key+":elements", set.Pos(), "each element of the list parameter, in order, is TrimSpace'd and Set on the target", why)
	// Clear before the loop
	cleared := false
	for _, cl := range clears {
		if cl.Block() == fn.Blocks[0] && cl.Call.Value == set.Call.Value {
			cleared = true
		}
	}
	c.Check(cleared, key+":clear-first", fn.Pos(), "the target is cleared once before the elements are applied (environment replaces the default)",
		"the target is not cleared before the environment elements are applied")
	// error returned at once
	okErr := false
	for _, r := range ir.ReturnPoints(fn) {
		if r.Results[0] == ssa.Value(set) && errIsNonNilH(set, r.Block(), r.Holds) {
			okErr = true
		}
		// an error variable carried by the loop: nil or the last Set's error, and the loop applies the
		// next element only while it is nil
		if phi, isPhi := r.Results[0].(*ssa.Phi); isPhi {
			only := len(phi.Edges) > 0
			for _, e := range phi.Edges {
				if !ir.IsNilConst(e) && e != ssa.Value(set) {
					only = false
				}
			}
			if only && errCmpAt(phi, set.Block(), true) {
				okErr = true
			}
		}
	}
	c.Check(okErr, key+":error", set.Pos(), "a Set error is returned at once", "a Set error is not returned as is")
	for _, r := range ir.ReturnPoints(fn) {
		if ir.IsNilConst(r.Results[0]) {
			c.Check(!ir.InLoop(r.Block()), key+":all-elements", r.Pos(), "nil is returned only after the loop over all elements", "nil returned from inside the element loop")
		}
	}
}

func val4(c *Ctx) {
	// functions reachable from the env function inside the module
	seen := map[*ssa.Function]bool{}
	var order []*ssa.Function
	var walk func(fn *ssa.Function)
	walk = func(fn *ssa.Function) {
		if fn == nil || seen[fn] || fn.Pkg == nil || !c.P.InModule(fn.Pkg.Pkg) {
			return
		}
		seen[fn] = true
		order = append(order, fn)
		for _, call := range ir.Calls(fn) {
			walk(ir.Static(call))
		}
	}
	efs := envFuncs(c)
	if len(efs) == 0 {
		c.Undecided("anchor:env-application", token.NoPos, "no function calls os.Getenv")
		return
	}
	for _, fn := range efs {
		walk(fn)
	}
	n := 0
	for _, fn := range order {
		c.Mark(fn)
		var clears []*ssa.Call
		for _, call := range ir.Calls(fn) {
			if cv, ok := call.(*ssa.Call); ok && ir.IsInvokeOf(cv, "Clear") {
				clears = append(clears, cv)
			}
		}
		if len(clears) == 0 {
			continue
		}
		n++
		key := Q(fn) + ":Clear-before-validation"
		// failing exits: returns of a non-nil error, or (for bool verdict functions) return false / loop continue
		var failing []*ir.RetPoint
		for _, r := range ir.ReturnPoints(fn) {
			if len(r.Results) == 1 {
				if ir.IsNilConst(r.Results[0]) {
					continue
				}
				if b, isC := ir.ConstBool(r.Results[0]); isC && b {
					continue
				}
				failing = append(failing, r)
			}
		}
		bad := ""
		for _, cl := range clears {
			for _, r := range failing {
				reach := cl.Block() == r.Block() && ir.IndexIn(cl) < ir.IndexIn(r.Anchor())
				if !reach {
					for _, s := range cl.Block().Succs {
						if ir.Reach(s, nil, nil)[r.Block()] {
							reach = true
						}
					}
				}
				if reach {
					bad = fmt.Sprintf("Clear() at %s can be followed by the failing exit at %s: the previous content (default / earlier variable) is lost although this variable is rejected",
						c.P.Pos(cl.Pos()), c.P.Pos(r.Pos()))
				}
			}
		}
		if bad != "" {
			c.Bad(key, fn.Pos(), "%s", bad)
		} else {
			c.OK(key, fn.Pos(), "no Clear is followed by a failing exit")
		}
	}
	// no partial content: a failing exit that can follow a Set on the target must pass a Clear after that Set
	for _, fn := range order {
		var sets, clears []*ssa.Call
		for _, call := range ir.Calls(fn) {
			if cv, ok := call.(*ssa.Call); ok && ir.IsInvokeOf(cv, "Set") {
				sets = append(sets, cv)
			}
			if cv, ok := call.(*ssa.Call); ok && ir.IsInvokeOf(cv, "Clear") {
				clears = append(clears, cv)
			}
		}
		if len(sets) == 0 || len(clears) == 0 {
			continue // single-valued route, or no multi-valued handling here
		}
		key := Q(fn) + ":no-partial-content"
		bad := ""
		for _, r := range ir.ReturnWays(fn) {
			if len(r.Results) != 1 || ir.IsNilConst(r.Results[0]) {
				continue
			}
			if errCmpH(r.Results[0], r.Holds, true) {
				continue // an error variable that is known to be nil on this way out
			}
			if phi, isPhi := r.Results[0].(*ssa.Phi); isPhi && phiKnownNil(phi) {
				continue // a loop-carried error variable that only ever receives nil
			}
			if b, isC := ir.ConstBool(r.Results[0]); isC && b {
				continue
			}
			for _, st := range sets {
				// can r follow st?
				follows := st.Block() == r.Block() && ir.IndexIn(st) < ir.IndexIn(r.Anchor())
				if !follows {
					for _, sc := range st.Block().Succs {
						if ir.Reach(sc, nil, nil)[r.Block()] {
							follows = true
						}
					}
				}
				if !follows {
					continue
				}
				if !ir.MustPassAfter(st, func(in ssa.Instruction) bool {
					cv, ok := in.(*ssa.Call)
					return ok && ir.IsInvokeOf(cv, "Clear") && cv.Call.Value == st.Call.Value
				}) {
					// MustPassAfter considers all returns; restrict to failing ones: check this return specifically
					blocked := map[*ssa.BasicBlock]bool{}
					for _, cl := range clears {
						if cl.Call.Value == st.Call.Value && cl.Block() != st.Block() {
							blocked[cl.Block()] = true
						}
					}
					reach := false
					for _, sc := range st.Block().Succs {
						if ir.Reach(sc, blocked, nil)[r.Block()] {
							reach = true
						}
					}
					if reach {
						bad = fmt.Sprintf("the failing exit at %s can be reached after Set at %s without clearing: a rejected environment list leaves a partial value behind", c.P.Pos(r.Pos()), c.P.Pos(st.Pos()))
					}
				}
			}
		}
		if bad != "" {
			c.Bad(key, fn.Pos(), "%s", bad)
		} else {
			c.OK(key, fn.Pos(), "a rejected list never leaves some of its elements in the target")
		}
	}
	// single-valued route: a failing Set leaves built-ins untouched (VAL-2); recorded as one obligation
	c.OK("single-valued:failed-Set-is-no-op", token.NoPos, "for built-in types by VAL-2; custom types assumed (%d functions with Clear on the env path)", n)
}

func val5(c *Ctx) {
	if fn := c.Fn("internal/values", "IsBool"); fn != nil {
		key := Q(fn)
		var problems []string
		sawInvoke := false
		for _, r := range ir.ReturnPoints(fn) {
			v := r.Results[0]
			if b, isC := ir.ConstBool(v); isC {
				if b {
					problems = append(problems, "returns constant true")
				}
				continue
			}
			call, ok := v.(*ssa.Call)
			if !ok || !ir.IsInvokeOf(call, "IsBoolFlag") {
				problems = append(problems, fmt.Sprintf("return at %s is not the result of IsBoolFlag()", c.P.Pos(r.Pos())))
				continue
			}
			// receiver must be the asserted value of the parameter
			ex, isEx := call.Call.Value.(*ssa.Extract)
			if !isEx {
				problems = append(problems, "IsBoolFlag receiver is not the asserted value")
				continue
			}
			ta, isTA := ex.Tuple.(*ssa.TypeAssert)
			if !isTA || ta.X != ssa.Value(fn.Params[0]) {
				problems = append(problems, "IsBoolFlag is not invoked on the parameter")
				continue
			}
			sawInvoke = true
		}
		if !sawInvoke {
			problems = append(problems, "the result of IsBoolFlag() is never returned")
		}
		if len(problems) > 0 {
			c.Bad(key, fn.Pos(), "%s", strings.Join(problems, "; "))
		} else {
			c.OK(key, fn.Pos(), "true only as the result of IsBoolFlag() on the parameter; false when the interface is absent")
		}
	}
	if fn := c.Fn("internal/values", "DefaultValue"); fn != nil {
		key := Q(fn)
		var problems []string
		sawEmpty, sawString := false, false
		for _, r := range ir.ReturnPoints(fn) {
			v := r.Results[0]
			if s, isC := ir.ConstString(v); isC {
				if s != "" {
					problems = append(problems, "returns a non-empty constant")
					continue
				}
				// must be dominated by IsDefault() true
				okDom := false
				for _, call := range ir.Calls(fn) {
					if cv, ok := call.(*ssa.Call); ok && ir.IsInvokeOf(cv, "IsDefault") && r.Holds(cv, true) {
						okDom = true
					}
				}
				if !okDom {
					problems = append(problems, "\"\" returned without IsDefault() being true")
				}
				sawEmpty = true
				continue
			}
			call, ok := v.(*ssa.Call)
			if !ok || !ir.IsInvokeOf(call, "String") || call.Call.Value != ssa.Value(fn.Params[0]) {
				problems = append(problems, fmt.Sprintf("return at %s is not String() of the parameter", c.P.Pos(r.Pos())))
				continue
			}
			sawString = true
		}
		if !sawEmpty || !sawString {
			problems = append(problems, "expected both a \"\" return (IsDefault) and a String() return")
		}
		if len(problems) > 0 {
			c.Bad(key, fn.Pos(), "%s", strings.Join(problems, "; "))
		} else {
			c.OK(key, fn.Pos(), "\"\" iff DefaultValued and IsDefault(); otherwise String() of the value")
		}
	}
	// the built-in IsDefault(): true exactly for the zero value of the content (false, "", empty list)
	for _, fn := range c.pkgFuncsDeep("internal/values") {
		if fn.Name() != "IsDefault" || fn.Signature.Recv() == nil || len(fn.Blocks) == 0 {
			continue
		}
		c.Mark(fn)
		content := func(v ssa.Value) bool {
			for {
				switch x := v.(type) {
				case *ssa.ChangeType:
					v = x.X
					continue
				case *ssa.Convert:
					v = x.X
					continue
				}
				break
			}
			ld, ok := v.(*ssa.UnOp)
			return ok && ld.Op == token.MUL && ld.X == ssa.Value(fn.Params[0])
		}
		good := true
		rps := ir.ReturnPoints(fn)
		for _, r := range rps {
			v := r.Results[0]
			okForm := false
			switch x := v.(type) {
			case *ssa.UnOp:
				okForm = x.Op == token.NOT && content(x.X)
			case *ssa.BinOp:
				if s, isS := ir.ConstString(x.Y); isS && s == "" && x.Op == token.EQL && content(x.X) {
					okForm = true
				}
				if b, isB := ir.ConstBool(x.Y); isB && !b && x.Op == token.EQL && content(x.X) {
					okForm = true
				}
				if lc, isCall := x.X.(*ssa.Call); isCall {
					if bi, isBi := lc.Call.Value.(*ssa.Builtin); isBi && bi.Name() == "len" && content(lc.Call.Args[0]) {
						if k, isK := ir.ConstInt(x.Y); isK && ((x.Op == token.EQL && k == 0) || (x.Op == token.LSS && k == 1) || (x.Op == token.LEQ && k == 0)) {
							okForm = true
						}
					}
				}
			}
			if !okForm {
				good = false
			}
		}
		c.Check(good && len(rps) == 1, Q(fn), fn.Pos(), "true exactly when the content is the zero value of its type", "IsDefault() is not `content == zero value`: a non-empty default could be hidden from the help, or an empty one shown")
	}
}

func val6(c *Ctx) {
	for _, fn := range c.pkgFuncsDeep("internal/values") {
		if fn.Parent() != nil || fn.Signature.Recv() != nil || !strings.HasPrefix(fn.Name(), "New") || len(fn.Params) != 2 {
			continue
		}
		if _, isPtr := fn.Params[0].Type().(*types.Pointer); !isPtr {
			continue
		}
		c.Mark(fn)
		key := Q(fn)
		into, v := fn.Params[0], fn.Params[1]
		stored, n := false, 0
		ir.Instrs(fn, func(in ssa.Instruction) {
			if st, ok := in.(*ssa.Store); ok {
				n++
				if st.Addr == ssa.Value(into) && st.Val == ssa.Value(v) {
					stored = true
					// on every way out: the store's block dominates each return
					for _, ret := range ir.Returns(fn) {
						if !st.Block().Dominates(ret.Block()) {
							stored = false
						}
					}
				}
			}
		})
		retOK := true
		for _, r := range ir.ReturnPoints(fn) {
			if stripConv(r.Results[0]) != ssa.Value(into) {
				retOK = false
			}
		}
		c.Check(stored && n == 1 && retOK && len(ir.Calls(fn)) == 0, key, fn.Pos(),
			"stores the default into *into on every path and returns into converted",
			"constructor does not (only and unconditionally) store its value parameter to *into and return into: what the destination held before would survive")
	}
}

func val7(c *Ctx) {
	for _, fn := range c.pkgFuncsDeep("internal/values") {
		if fn.Parent() != nil || fn.Signature.Recv() == nil {
			continue
		}
		_, multi := recvElem(fn)
		if !multi {
			continue
		}
		switch fn.Name() {
		case "Clear":
			c.Mark(fn)
			ok, n := false, 0
			ir.Instrs(fn, func(in ssa.Instruction) {
				if st, isSt := in.(*ssa.Store); isSt {
					n++
					if st.Addr == ssa.Value(fn.Params[0]) && ir.IsNilConst(stripConv(st.Val)) {
						ok = true
					}
				}
			})
			c.Check(ok && n == 1, Q(fn), fn.Pos(), "stores nil to the receiver", "Clear does not reset the receiver to nil")
		case "Set":
			c.Mark(fn)
			ok := false
			ir.Instrs(fn, func(in ssa.Instruction) {
				if st, isSt := in.(*ssa.Store); isSt && st.Addr == ssa.Value(fn.Params[0]) {
					if base, _, isApp := appendedSingle(stripConv(st.Val)); isApp {
						if ld, isLd := base.(*ssa.UnOp); isLd && ld.Op == token.MUL && ld.X == ssa.Value(fn.Params[0]) {
							ok = true
						}
					}
				}
			})
			whyS := "Set does not append to the current content"
			if ok {
				// nil is returned only after the append (a value accepted without being kept is lost)
				for _, r := range ir.ReturnPoints(fn) {
					if len(r.Results) != 1 || !ir.IsNilConst(r.Results[0]) {
						continue
					}
					if !ir.MustPassBefore(r.Anchor(), func(in2 ssa.Instruction) bool {
						st, isSt := in2.(*ssa.Store)
						return isSt && st.Addr == ssa.Value(fn.Params[0])
					}) {
						ok, whyS = false, "Set can report success without having appended the value"
					}
				}
			}
			c.Check(ok, Q(fn)+":append", fn.Pos(), "appends one element at the end of the current content", whyS)
		case "String":
			// the text shows every element: the loop over the content extends the text on every iteration
			c.Mark(fn)
			okS, whyS, seenLoop := true, "", false
			ir.Instrs(fn, func(in ssa.Instruction) {
				v, isV := in.(ssa.Value)
				if !isV {
					return
				}
				sl, h, isR := rangeElemHeader(v)
				if !isR || h == nil {
					return
				}
				if ld, isLd := stripConv(sl).(*ssa.UnOp); !isLd || ld.Op != token.MUL || ld.X != ssa.Value(fn.Params[0]) {
					return
				}
				for _, hin := range h.Instrs {
					acc, isPhi := hin.(*ssa.Phi)
					if !isPhi || acc.Comment == "rangeindex" || !isStringType(acc.Type()) {
						continue
					}
					seenLoop = true
					for i, e := range acc.Edges {
						if h.Dominates(h.Preds[i]) && (!mentionsValue(e, acc, 0) || !mentionsValue(e, v, 0)) {
							okS, whyS = false, "an element of the content can be left out of the text"
						}
					}
					if okB, w := noBreak(h); !okB {
						okS, whyS = false, w
					}
				}
			})
			if seenLoop {
				// decided only for the accumulate-in-a-range-loop shape; other shapes (a builder, a join) are
				// not claimed
				c.Check(okS, Q(fn)+":every-element", fn.Pos(), "every element of the content is part of the text", whyS)
			}
		}
	}
}

// elemIndex: the index expression of an element read slice[i] / array[i] (see rangeElem).
func elemIndex(v ssa.Value) ssa.Value {
	if ix, ok := v.(*ssa.Index); ok {
		return ix.Index
	}
	if ld, ok := v.(*ssa.UnOp); ok {
		if ia, isIA := ld.X.(*ssa.IndexAddr); isIA {
			return ia.Index
		}
	}
	return nil
}
