// Package rules holds the repository-specific rule catalogue (DESIGN.md §7).
package rules

import (
	"fmt"
	"go/token"
	"go/types"
	"sort"
	"strings"

	"golang.org/x/tools/go/ssa"

	"verif/checker/internal/ir"
	"verif/checker/internal/load"
	"verif/checker/internal/report"
)

// Rule is one entry of the catalogue.
type Rule struct {
	ID    string
	Props []string // properties whose claim uses the rule
	Floor int      // minimal number of instances (guards against vacuous passes)
	Doc   string
	Run   func(c *Ctx)
}

// Ctx is handed to a rule; it collects obligations.
type Ctx struct {
	P    *load.Program
	rule *Rule
	Obs  []report.Obligation
	// Analysed records the functions a rule looked at (for evidence).
	Analysed map[string]bool
}

var catalogue []*Rule

func register(r *Rule) { catalogue = append(catalogue, r) }

// Catalogue returns all rules sorted by id.
func Catalogue() []*Rule {
	out := append([]*Rule(nil), catalogue...)
	sort.Slice(out, func(i, j int) bool { return out[i].ID < out[j].ID })
	return out
}

// ForProperty returns the rules mapped to the property.
func ForProperty(prop string) []*Rule {
	var out []*Rule
	for _, r := range Catalogue() {
		for _, p := range r.Props {
			if p == prop {
				out = append(out, r)
			}
		}
	}
	return out
}

// RunRule runs r on the program, converting panics of the rule code into an
// undecided obligation (fail closed).
func RunRule(p *load.Program, r *Rule) (obs []report.Obligation, analysed []string) {
	c := &Ctx{P: p, rule: r, Analysed: map[string]bool{}}
	setupCanon(p)
	func() {
		defer func() {
			if v := recover(); v != nil {
				c.Obs = append(c.Obs, report.Obligation{Rule: r.ID, Construct: "rule-panic", Pos: "-", Status: report.Undecided,
					Detail: fmt.Sprintf("rule code panicked: %v", v)})
			}
		}()
		r.Run(c)
	}()
	report.SortObligations(c.Obs)
	// constructs are keys: make duplicates distinct, deterministically
	seen := map[string]int{}
	for i := range c.Obs {
		k := c.Obs[i].Construct
		seen[k]++
		if seen[k] > 1 {
			c.Obs[i].Construct = fmt.Sprintf("%s#%d", k, seen[k])
		}
	}
	applyScopes(r, c.Obs)
	for k := range c.Analysed {
		analysed = append(analysed, k)
	}
	sort.Strings(analysed)
	return c.Obs, analysed
}

func (c *Ctx) add(st report.Status, construct string, pos token.Pos, detail string, args ...interface{}) {
	c.Obs = append(c.Obs, report.Obligation{Rule: c.rule.ID, Construct: construct, Pos: c.P.Pos(pos), Status: st, Detail: fmt.Sprintf(detail, args...)})
}

// OK records a discharged obligation.
func (c *Ctx) OK(construct string, pos token.Pos, detail string, args ...interface{}) {
	c.add(report.Discharged, construct, pos, detail, args...)
}

// Bad records a violated obligation.
func (c *Ctx) Bad(construct string, pos token.Pos, detail string, args ...interface{}) {
	c.add(report.Violated, construct, pos, detail, args...)
}

// Undecided records an obligation the rule could not decide (fails the check).
func (c *Ctx) Undecided(construct string, pos token.Pos, detail string, args ...interface{}) {
	c.add(report.Undecided, construct, pos, detail, args...)
}

// Scope restricts the obligations added since mark (an index into c.Obs) to the given properties.
func (c *Ctx) Scope(mark int, props ...string) {
	for i := mark; i < len(c.Obs); i++ {
		c.Obs[i].OnlyFor = props
	}
}

// Check records discharged if cond else violated.
func (c *Ctx) Check(cond bool, construct string, pos token.Pos, okDetail, badDetail string) bool {
	if cond {
		c.OK(construct, pos, "%s", okDetail)
	} else {
		c.Bad(construct, pos, "%s", badDetail)
	}
	return cond
}

// ---------- anchors ----------

// Fn resolves a function or method by module-relative package and name.
// Method syntax: "Type.method" (receiver pointer-ness is ignored).
// A missing anchor yields an undecided obligation and nil.
func (c *Ctx) Fn(pkgRel, name string) *ssa.Function {
	fn := c.fnOpt(pkgRel, name)
	if fn == nil {
		c.Undecided("anchor:"+pkgRel+"."+name, token.NoPos, "anchor function not found")
		return nil
	}
	c.Analysed[ir.QualifiedName(fn)] = true
	return fn
}

func (c *Ctx) fnOpt(pkgRel, name string) *ssa.Function {
	if canon != nil {
		if f, ok := canon.fn[pkgRel+":"+name]; ok {
			return f
		}
	}
	return c.fnOptRaw(pkgRel, name)
}

func (c *Ctx) fnOptRaw(pkgRel, name string) *ssa.Function {
	sp := c.P.SPkg(pkgRel)
	if sp == nil {
		return nil
	}
	if i := strings.Index(name, "."); i >= 0 {
		tn, mn := name[:i], name[i+1:]
		if canon != nil {
			if al, ok := canon.typ[pkgRel+":"+tn]; ok {
				tn = al.Obj().Name()
			}
		}
		m := sp.Members[tn]
		t, ok := m.(*ssa.Type)
		if !ok {
			return nil
		}
		for _, typ := range []types.Type{t.Type(), types.NewPointer(t.Type())} {
			ms := c.P.SSA.MethodSets.MethodSet(typ)
			for i := 0; i < ms.Len(); i++ {
				if ms.At(i).Obj().Name() == mn {
					f := c.P.SSA.MethodValue(ms.At(i))
					if f != nil && f.Synthetic == "" {
						return f
					}
					// promoted/wrapper: resolve to declared method
					if f != nil && f.Synthetic != "" {
						if obj, ok := ms.At(i).Obj().(*types.Func); ok {
							if d := c.P.SSA.FuncValue(obj); d != nil {
								return d
							}
						}
					}
				}
			}
		}
		return nil
	}
	if f, ok := sp.Members[name].(*ssa.Function); ok {
		return f
	}
	return nil
}

// Mark notes that fn was analysed.
func (c *Ctx) Mark(fn *ssa.Function) {
	if fn != nil {
		c.Analysed[ir.QualifiedName(fn)] = true
	}
}

// Q is shorthand for ir.QualifiedName.
func Q(fn *ssa.Function) string { return ir.QualifiedName(fn) }

// TypeNamed returns the named type pkgRel.name of the module.
func (c *Ctx) TypeNamed(pkgRel, name string) *types.Named {
	if canon != nil {
		if al, ok := canon.typ[pkgRel+":"+name]; ok {
			return al
		}
	}
	pk := c.P.Pkg(pkgRel)
	if pk == nil {
		return nil
	}
	obj := pk.Types.Scope().Lookup(name)
	if obj == nil {
		return nil
	}
	n, _ := obj.Type().(*types.Named)
	return n
}

// isNamed reports whether t (or *t) is the module's named type pkgRel.name.
func (c *Ctx) isNamed(t types.Type, pkgRel, name string) bool {
	pp, n := ir.NamedOf(t)
	want := c.P.ModPath
	if pkgRel != "" {
		want += "/" + pkgRel
	}
	return pp == want && n == name
}

// calleeIs reports whether the call statically resolves to module function pkgRel.name.
func (c *Ctx) calleeIs(call ssa.CallInstruction, pkgRel, name string) bool {
	f := ir.Static(call)
	if f == nil {
		return false
	}
	want := c.fnOpt(pkgRel, name)
	return want != nil && f == want
}

// ClosureFuncsDeep returns all functions of the production closure including
// anonymous functions.
func (c *Ctx) ClosureFuncsDeep() []*ssa.Function {
	var out []*ssa.Function
	var add func(fn *ssa.Function)
	seen := map[*ssa.Function]bool{}
	add = func(fn *ssa.Function) {
		if seen[fn] {
			return
		}
		seen[fn] = true
		out = append(out, fn)
		for _, an := range fn.AnonFuncs {
			add(an)
		}
	}
	for _, fn := range c.P.ClosureFuncs() {
		add(fn)
	}
	return out
}

// ModuleFuncsDeep returns all functions of all loaded module packages.
func (c *Ctx) pkgFuncsDeep(pkgRel string) []*ssa.Function {
	var out []*ssa.Function
	sp := c.P.SPkg(pkgRel)
	if sp == nil {
		return nil
	}
	seen := map[*ssa.Function]bool{}
	var add func(fn *ssa.Function)
	add = func(fn *ssa.Function) {
		if seen[fn] {
			return
		}
		seen[fn] = true
		out = append(out, fn)
		for _, an := range fn.AnonFuncs {
			add(an)
		}
	}
	for _, fn := range c.P.Funcs(sp) {
		add(fn)
	}
	return out
}
