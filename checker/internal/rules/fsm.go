package rules

import (
	"fmt"
	"go/token"
	"go/types"
	"sort"
	"strings"

	"golang.org/x/tools/go/ssa"

	"verif/checker/internal/ir"
)

func init() {
	register(&Rule{ID: "FSM-1", Props: []string{"C01", "C03"}, Floor: 4,
		Doc: "shortcut elimination keeps the language: all transitions and terminal-ness of the target are inherited; false only after a full scan found no shortcut", Run: fsm1})
	register(&Rule{ID: "FSM-2", Props: []string{"C01", "C03"}, Floor: 3,
		Doc: "graph walks check-then-mark a visited set before recursing; a fixpoint loop has a measure (each true step removes a transition and, if it appends, marks a new key in a set)", Run: fsm2})
	register(&Rule{ID: "FSM-3", Props: []string{"C01", "C11", "C12"}, Floor: 5,
		Doc: "exhaustive backtracking: every transition is offered to Match, every match is recorded and tried, false only after exhaustion", Run: fsm3})
	register(&Rule{ID: "FSM-4", Props: []string{"C02", "C09", "C15", "C12"}, Floor: 5,
		Doc: "context isolation: fresh context per transition with the options-ended flag copied, the same context goes to the recursive call, Merge only on its success, Merge appends in order", Run: fsm4})
	register(&Rule{ID: "FSM-5", Props: []string{"C02", "C06", "C07", "C13", "C19", "C20"}, Floor: 4,
		Doc: "Set/Clear are invoked only by the container filler and the env application; the filler runs only after a successful match and its error is returned", Run: fsm5})
	register(&Rule{ID: "FSM-6", Props: []string{"C02", "C06", "C12", "C13", "C15", "C19", "C07", "C09"}, Floor: 6,
		Doc: "fill protocol: Clear once (guarded only by the MultiValued assertion) before the values, Set(v) for every value in order, error returned at once, then ValueSetFromEnv=false and *ValueSetByUser=true", Run: fsm6})
	register(&Rule{ID: "FSM-7", Props: []string{"C01", "C09", "C02", "C19"}, Floor: 3,
		Doc: "command-line `--`: stripped only while options are not ended, sets the flag, drops exactly the first token; the accept test is made on the vector handed to the matchers", Run: fsm7})
	register(&Rule{ID: "FSM-8", Props: []string{"C03", "C12"}, Floor: 4,
		Doc: "recursion progress: every successful Match of a matcher that survives Prepare consumes input (or nothing cuts the recursion)", Run: fsm8})
}

// matcherLoop returns the function of fsm invoking Matcher.Match.
func (c *Ctx) matcherLoop() (*ssa.Function, *ssa.Call) {
	for _, fn := range c.pkgFuncsDeep("internal/fsm") {
		for _, call := range ir.Calls(fn) {
			if cv, ok := call.(*ssa.Call); ok && ir.IsInvokeOf(cv, "Match") {
				return fn, cv
			}
		}
	}
	return nil, nil
}

// fieldOf: v = load of base.<field>; returns base.
func fieldOf(v ssa.Value, field string) (ssa.Value, bool) {
	b, f, ok := ir.FieldLoad(v)
	if !ok || f != field {
		return nil, false
	}
	return b, true
}

// loopHeaderOf returns the block holding the rangeindex phi that idx derives from.
func rangeHeader(idx ssa.Value) *ssa.BasicBlock {
	if phi, isPhi := idx.(*ssa.Phi); isPhi {
		return phi.Block()
	}
	bo, ok := idx.(*ssa.BinOp)
	if !ok {
		return nil
	}
	phi, ok := bo.X.(*ssa.Phi)
	if !ok {
		return nil
	}
	return phi.Block()
}

// rangeElemHeader: v = slice[i] of a range loop; returns slice and loop header.
func rangeElemHeader(v ssa.Value) (slice ssa.Value, hdr *ssa.BasicBlock, ok bool) {
	sl, isR := rangeElem(v)
	if !isR {
		return nil, nil, false
	}
	return sl, rangeHeader(elemIndex(v)), true
}

// loopBody returns the blocks of the loop with header hdr that are reachable
// from the header's "true" successor without passing the header.
func loopBody(hdr *ssa.BasicBlock) (body map[*ssa.BasicBlock]bool, entry, exit *ssa.BasicBlock) {
	if len(hdr.Succs) != 2 {
		return nil, nil, nil
	}
	entry, exit = hdr.Succs[0], hdr.Succs[1]
	body = ir.Reach(entry, map[*ssa.BasicBlock]bool{hdr: true}, nil)
	return
}

// loopOnlyExitsViaHeaderOrReturn: no edge from the body leaves the loop to a
// block other than through the header, except into blocks that end in
// return/panic without rejoining (early returns are allowed, breaks are not).
func noBreak(hdr *ssa.BasicBlock) (bool, string) {
	body, _, exit := loopBody(hdr)
	if body == nil {
		return false, "loop shape not recognised"
	}
	// blocks reachable from exit (the code after the loop)
	after := ir.Reach(exit, map[*ssa.BasicBlock]bool{hdr: true}, nil)
	for b := range body {
		if after[b] && ir.IsReturnJoin(b) {
			continue // leaving the loop straight into `return result` is an early return
		}
		if after[b] && ir.IsThreadedJoin(b) {
			continue // a side-effect free join whose outcome is decided by where control came from
		}
		if after[b] {
			return false, fmt.Sprintf("the code after the loop is reachable from inside the body (break) via block %d", b.Index)
		}
	}
	return true, ""
}

func fsm1(c *Ctx) {
	isShortcut := c.fnOpt("internal/matcher", "IsShortcut")
	var fn *ssa.Function
	var test *ssa.Call
	for _, f := range c.pkgFuncsDeep("internal/fsm") {
		for _, call := range ir.Calls(f) {
			if ir.Static(call) == isShortcut && isShortcut != nil {
				// the elimination step is the caller that rewrites the transition list (a mere
				// "is there a shortcut" pre-check calls the predicate too)
				writes := false
				ir.Instrs(f, func(in ssa.Instruction) {
					if st, ok := in.(*ssa.Store); ok {
						if _, fld, isF := ir.FieldAddr(st.Addr); isF && fld == "Transitions" {
							writes = true
						}
					}
				})
				if fn == nil || writes {
					fn = f
					test, _ = call.(*ssa.Call)
				}
			}
		}
	}
	if fn == nil {
		c.Undecided("anchor:shortcut-elimination", token.NoPos, "no function of fsm calls matcher.IsShortcut")
		return
	}
	c.Mark(fn)
	key := Q(fn)
	recv := fn.Params[0]
	// the transition tested
	trv, isF := fieldOf(test.Call.Args[0], "Matcher")
	if !isF {
		c.Undecided(key+":tested", test.Pos(), "IsShortcut argument is not tr.Matcher")
		return
	}
	sl, outerHdr, isR := rangeElemHeader(trv)
	if base, ok := fieldOf(sl, "Transitions"); !isR || !ok || base != ssa.Value(recv) {
		c.Bad(key+":scan", test.Pos(), "the scan does not range over the receiver's Transitions")
		return
	}
	// (d) false only after a full scan
	okFalse := true
	why := ""
	_, _, scanExit := loopBody(outerHdr)
	for _, r := range ir.ReturnPoints(fn) {
		if b, isC := ir.ConstBool(r.Results[0]); isC && !b {
			if r.Join != nil && r.At == outerHdr {
				continue
			}
			// reachable only over the scan loop's exit edge (threaded: `idx := find(); if idx < 0 { return false }`)
			if scanExit != nil && !ir.Reach(fn.Blocks[0], nil, map[ir.Edge]bool{{From: outerHdr, To: scanExit}: true})[r.Block()] {
				continue
			}
			if len(r.Block().Preds) != 1 || r.Block().Preds[0] != outerHdr {
				okFalse = false
				why = "return false is reachable from somewhere other than the exhausted scan"
			}
		} else if !isC {
			okFalse = false
			why = "non-constant verdict"
		}
	}
	// every transition is tested: an iteration cannot come back to the header around the test
	if _, scanEntry, _ := loopBody(outerHdr); scanEntry != nil && scanEntry != test.Block() && ir.Reach(scanEntry, map[*ssa.BasicBlock]bool{test.Block(): true}, nil)[outerHdr] {
		okFalse, why = false, "a transition can be passed over without being tested: a shortcut would survive the simplification"
	}
	// leaving the scan early is fine when the scan found a shortcut (search-then-act form)
	foundBreak := true
	{
		body, _, _ := loopBody(outerHdr)
		after := ir.Reach(scanExit, map[*ssa.BasicBlock]bool{outerHdr: true}, nil)
		for b := range body {
			if after[b] && !ir.IsReturnJoin(b) {
				// b is where a break lands: only allowed under the shortcut test being true
				if !ir.HoldsAt(test, true, b) && !outerBreakFromFound(fn, test, b, body) {
					foundBreak = false
				}
			}
		}
	}
	if okB, w := noBreak(outerHdr); !okB && !foundBreak {
		okFalse = false
		why = w
	}
	// the not-a-shortcut edge must go back to the header without doing anything
	for _, e := range ir.EdgesWhere(fn, test, false) {
		cur := e.To
		for i := 0; i < 4 && cur != outerHdr; i++ {
			pure := len(cur.Succs) == 1
			for _, in := range cur.Instrs {
				switch x := in.(type) {
				case *ssa.Jump, *ssa.DebugRef:
				case *ssa.BinOp:
					// the loop counter's increment
					if x.Op != token.ADD {
						pure = false
					}
				default:
					pure = false
				}
			}
			if !pure {
				break
			}
			cur = cur.Succs[0]
		}
		if cur != outerHdr {
			okFalse = false
			why = "a non-shortcut transition does not simply continue the scan"
		}
	}
	c.Check(okFalse, key+":false-after-full-scan", fn.Pos(), "false is returned only when the scan over all transitions found no shortcut", why)

	// next = tr.Next
	var next ssa.Value
	ir.Instrs(fn, func(in ssa.Instruction) {
		if v, ok := in.(ssa.Value); ok {
			if b, isN := fieldOf(v, "Next"); isN && b == trv {
				next = v
			}
		}
	})
	if next == nil {
		// search-then-act: next = recv.Transitions[idx].Next where idx can only be the index the scan stopped
		// at, read before the list is rewritten
		scanIdx := trv.(*ssa.UnOp).X.(*ssa.IndexAddr).Index
		ir.Instrs(fn, func(in ssa.Instruction) {
			v, ok := in.(ssa.Value)
			if !ok || next != nil {
				return
			}
			b, isN := fieldOf(v, "Next")
			if !isN {
				return
			}
			ld, isLd := b.(*ssa.UnOp)
			if !isLd || ld.Op != token.MUL {
				return
			}
			ia, isIA := ld.X.(*ssa.IndexAddr)
			if !isIA {
				return
			}
			if base, okT := fieldOf(stripConv(ia.X), "Transitions"); !okT || base != ssa.Value(recv) {
				return
			}
			vals := ir.PhiValuesAt(ia.Index, ld.Block())
			if len(vals) != 1 || vals[0] != scanIdx {
				return
			}
			// no rewrite of the list can precede this read
			okOrder := true
			ir.Instrs(fn, func(in2 ssa.Instruction) {
				st, isSt := in2.(*ssa.Store)
				if !isSt {
					return
				}
				if bb, f, isFA := ir.FieldAddr(st.Addr); isFA && f == "Transitions" && bb == ssa.Value(recv) {
					if st.Block() == ld.Block() && ir.IndexIn(st) < ir.IndexIn(ld) {
						okOrder = false
					}
					for _, sc := range st.Block().Succs {
						if sc == ld.Block() || ir.Reach(sc, nil, nil)[ld.Block()] {
							okOrder = false
						}
					}
				}
			})
			if okOrder && ir.HoldsAt(test, true, ld.Block()) {
				next = v
			}
		})
	}
	if next == nil {
		c.Bad(key+":target", test.Pos(), "the shortcut's target is not read")
		return
	}
	// (a) inherits all transitions
	var innerElem ssa.Value
	var innerHdr *ssa.BasicBlock
	ir.Instrs(fn, func(in ssa.Instruction) {
		v, ok := in.(ssa.Value)
		if !ok {
			return
		}
		if s2, h, isR := rangeElemHeader(v); isR {
			if b, isT := fieldOf(s2, "Transitions"); isT && b == next {
				innerElem, innerHdr = v, h
			}
		}
	})
	if innerElem == nil {
		c.Bad(key+":inherit-transitions", test.Pos(), "no loop over the target's Transitions")
	} else {
		var appendBlocks = map[*ssa.BasicBlock]bool{}
		ir.Instrs(fn, func(in ssa.Instruction) {
			st, ok := in.(*ssa.Store)
			if !ok {
				return
			}
			if b, f, isFA := ir.FieldAddr(st.Addr); isFA && f == "Transitions" && b == ssa.Value(recv) {
				if base, el, isApp := appendedSingle(stripConv(st.Val)); isApp && el == innerElem {
					if bb, isT := fieldOf(base, "Transitions"); isT && bb == ssa.Value(recv) {
						appendBlocks[st.Block()] = true
					}
				}
			}
		})
		blockedE := map[ir.Edge]bool{}
		for _, call := range ir.Calls(fn) {
			cv, ok := call.(*ssa.Call)
			if !ok {
				continue
			}
			f := ir.Static(cv)
			if f == nil || f.Pkg != fn.Pkg || len(cv.Call.Args) != 2 || cv.Call.Args[1] != innerElem {
				continue
			}
			if cv.Call.Args[0] != ssa.Value(recv) {
				// or the receiver's current list itself
				if b, isT := fieldOf(stripConv(cv.Call.Args[0]), "Transitions"); !isT || b != ssa.Value(recv) {
					continue
				}
			}
			if !isHasPredicate(c, f) {
				continue
			}
			for _, e := range ir.EdgesWhere(fn, cv, true) {
				blockedE[ir.Edge{From: e.From, To: e.To}] = true
			}
		}
		_, entry, _ := loopBody(innerHdr)
		okAll := len(appendBlocks) > 0
		if okAll {
			r := ir.Reach(entry, appendBlocks, blockedE)
			if appendBlocks[entry] {
				r = map[*ssa.BasicBlock]bool{}
			}
			if r[innerHdr] {
				okAll = false
			}
		}
		if okB, _ := noBreak(innerHdr); !okB {
			okAll = false
		}
		c.Check(okAll, key+":inherit-transitions", innerElem.Pos(), "every transition of the target is appended unless already present", "some transition of the shortcut's target can be skipped without being already present")
	}
	// (b) terminal-ness
	okTerm := false
	var termTest ssa.Value
	isNextTerminal := func(v ssa.Value) bool { b, ok := fieldOf(v, "Terminal"); return ok && b == next }
	ir.Instrs(fn, func(in ssa.Instruction) {
		st, ok := in.(*ssa.Store)
		if !ok {
			return
		}
		if b, f, isFA := ir.FieldAddr(st.Addr); isFA && f == "Terminal" && b == ssa.Value(recv) {
			if v, isC := ir.ConstBool(st.Val); isC && v {
				// guarded by next.Terminal
				ir.Instrs(fn, func(in2 ssa.Instruction) {
					if tv, ok := in2.(ssa.Value); ok {
						if isNextTerminal(tv) && ir.HoldsAt(tv, true, st.Block()) {
							okTerm = true
							termTest = tv
						}
					}
				})
				return
			}
			// s.Terminal = s.Terminal || next.Terminal
			if phi, isPhi := st.Val.(*ssa.Phi); isPhi {
				good, sawNext := true, false
				for i, e := range phi.Edges {
					if isNextTerminal(e) {
						sawNext = true
						continue
					}
					if v, isC := ir.ConstBool(e); isC && v {
						// only when the state already is terminal
						own := false
						ir.Instrs(fn, func(in2 ssa.Instruction) {
							if tv, ok := in2.(ssa.Value); ok {
								if b2, isT := fieldOf(tv, "Terminal"); isT && b2 == ssa.Value(recv) {
									p := phi.Block().Preds[i]
									if ir.HoldsAt(tv, true, p) || (len(p.Instrs) > 0 && p.Instrs[len(p.Instrs)-1].(ssa.Instruction) != nil && condIs(p, tv) && p.Succs[0] == phi.Block()) {
										own = true
									}
								}
							}
						})
						if !own {
							good = false
						}
						continue
					}
					good = false
				}
				if good && sawNext {
					okTerm = true
					// the unconditional store itself must lie on every path to `return true` after the expansion
					for _, r := range ir.ReturnPoints(fn) {
						if b, isC := ir.ConstBool(r.Results[0]); isC && b && innerHdr != nil && innerHdr.Dominates(r.Block()) {
							if !(st.Block() == r.Block() || st.Block().Dominates(r.Block())) {
								okTerm = false
							}
						}
					}
				}
			}
		}
	})
	if okTerm && termTest != nil {
		// the inheritance must lie on every path from the expansion to `return true`
		if ti, isI := termTest.(ssa.Instruction); isI {
			for _, r := range ir.ReturnPoints(fn) {
				if b, isC := ir.ConstBool(r.Results[0]); isC && b && innerHdr != nil && innerHdr.Dominates(r.Block()) {
					if !ti.Block().Dominates(r.Block()) {
						okTerm = false
					}
				}
			}
		}
	}
	c.Check(okTerm, key+":inherit-terminal", fn.Pos(), "the state becomes terminal when the shortcut's target is terminal", "terminal-ness of the shortcut's target is not inherited on every path")
	// (e) the scan is over a snapshot of the list: once the list was changed the scan must not go on
	{
		okRestart := true
		where := ""
		ir.Instrs(fn, func(in ssa.Instruction) {
			st, ok := in.(*ssa.Store)
			if !ok {
				return
			}
			if b, f, isFA := ir.FieldAddr(st.Addr); isFA && f == "Transitions" && b == ssa.Value(recv) {
				if !outerHdr.Dominates(st.Block()) {
					return
				}
				for _, sc := range st.Block().Succs {
					if sc == outerHdr || ir.Reach(sc, nil, nil)[outerHdr] {
						okRestart = false
						where = c.P.Pos(st.Pos())
					}
				}
			}
		})
		c.Check(okRestart, key+":restart-after-change", fn.Pos(), "after the transition list was rewritten the scan over its old snapshot ends (the caller starts again)",
			"the scan over the old transition list continues after the list was rewritten at "+where+" (stale indices: wrong or out-of-range removals)")
	}
	// (c) removal: the shortcut itself is removed
	removed := false
	ir.Instrs(fn, func(in ssa.Instruction) {
		st, ok := in.(*ssa.Store)
		if !ok {
			return
		}
		if b, f, isFA := ir.FieldAddr(st.Addr); isFA && f == "Transitions" && b == ssa.Value(recv) {
			if isRemovalValue(st.Val, ssa.Value(recv)) {
				removed = true
			}
		}
	})
	if removed {
		// and on every way on from a found shortcut (back into the scan, or out of the function)
		removalBlocks := map[*ssa.BasicBlock]bool{}
		ir.Instrs(fn, func(in ssa.Instruction) {
			if st, ok := in.(*ssa.Store); ok {
				if b, f, isFA := ir.FieldAddr(st.Addr); isFA && f == "Transitions" && b == ssa.Value(recv) && isRemovalValue(st.Val, ssa.Value(recv)) {
					removalBlocks[st.Block()] = true
				}
			}
		})
		for _, e := range ir.EdgesWhere(fn, test, true) {
			if removalBlocks[e.To] {
				continue
			}
			r := ir.ReachVia(e.From, e.To, removalBlocks, nil)
			leaks := r[outerHdr]
			for b := range r {
				if ir.IsReturn(b) {
					leaks = true
				}
			}
			if leaks {
				removed = false
			}
		}
	}
	c.Check(removed, key+":remove-shortcut", fn.Pos(), "the shortcut transition is removed", "the shortcut transition is not removed")
}

// condIs: block p ends in `if v`.
func condIs(p *ssa.BasicBlock, v ssa.Value) bool {
	if len(p.Instrs) == 0 {
		return false
	}
	iff, ok := p.Instrs[len(p.Instrs)-1].(*ssa.If)
	return ok && iff.Cond == v
}

// isHasPredicate: f(s, tr) returns true only for a transition already present
// (same Next and same Matcher compared on an element of s.Transitions).
func isHasPredicate(c *Ctx, f *ssa.Function) bool {
	if len(f.Params) != 2 {
		return false
	}
	c.Mark(f)
	ok := false
	for _, r := range ir.ReturnPoints(f) {
		if b, isC := ir.ConstBool(r.Results[0]); isC && b {
			// dominated by two equalities
			var eqNext, eqMatcher bool
			ir.Instrs(f, func(in ssa.Instruction) {
				bo, isBo := in.(*ssa.BinOp)
				if !isBo || !((bo.Op == token.EQL && r.Holds(bo, true)) || (bo.Op == token.NEQ && r.Holds(bo, false))) {
					return
				}
				for _, fld := range []string{"Next", "Matcher"} {
					bx, okx := fieldOf(bo.X, fld)
					by, oky := fieldOf(bo.Y, fld)
					// one side is the candidate transition, the other an element of the receiver's list
					if okx && oky && ((by == ssa.Value(f.Params[1])) != (bx == ssa.Value(f.Params[1]))) {
						if fld == "Next" {
							eqNext = true
						} else {
							eqMatcher = true
						}
					}
				}
			})
			ok = eqNext && eqMatcher
			if !ok {
				return false
			}
		}
	}
	return ok
}

// isRemovalValue: v is a transition list with one element less than the receiver's current list:
// the result of a removesOne helper, or a slice made with len(recv.Transitions)-1.
func isRemovalValue(v ssa.Value, recv ssa.Value) bool {
	v = stripConv(v)
	if cv, isCall := v.(*ssa.Call); isCall {
		f2 := ir.Static(cv)
		if f2 == nil {
			return false
		}
		if removesOne(f2) {
			return true
		}
		// a helper that gives the list back unchanged for a position outside it removes one element
		// whenever the position it is given is inside: here, the index of a loop over that very list
		if ip, ap, ok := removesOneInRange(f2); ok && ip < len(cv.Call.Args) && ap < len(cv.Call.Args) {
			return indexOfLoopOver(cv.Call.Args[ip], stripConv(cv.Call.Args[ap]))
		}
		return false
	}
	ms, ok := v.(*ssa.MakeSlice)
	if !ok {
		return false
	}
	bo, ok := ms.Len.(*ssa.BinOp)
	if !ok || bo.Op != token.SUB {
		return false
	}
	if one, isC := ir.ConstInt(bo.Y); !isC || one != 1 {
		return false
	}
	lc, ok := bo.X.(*ssa.Call)
	if !ok {
		return false
	}
	if b, isB := lc.Call.Value.(*ssa.Builtin); !isB || b.Name() != "len" {
		return false
	}
	b, isT := fieldOf(stripConv(lc.Call.Args[0]), "Transitions")
	return isT && b == recv
}

// removesOne: f returns a freshly made slice of length len(arr)-1.
func removesOne(f *ssa.Function) bool {
	for _, r := range ir.ReturnPoints(f) {
		ms, ok := stripConv(r.Results[0]).(*ssa.MakeSlice)
		if !ok {
			// an empty list handed back when the list had exactly one element
			if sl, isSl := stripConv(r.Results[0]).(*ssa.Slice); isSl {
				if al, isAl := sl.X.(*ssa.Alloc); isAl {
					if arr, isArr := al.Type().(*types.Pointer).Elem().(*types.Array); isArr && arr.Len() == 0 {
						one := false
						ir.Instrs(f, func(in ssa.Instruction) {
							bo, isBo := in.(*ssa.BinOp)
							if !isBo || bo.Op != token.EQL {
								return
							}
							if k, isK := ir.ConstInt(bo.Y); isK && k == 1 {
								if lc, isCall := bo.X.(*ssa.Call); isCall && len(lc.Call.Args) == 1 {
									if _, isP := lc.Call.Args[0].(*ssa.Parameter); isP && r.Holds(bo, true) {
										if bi, isB := lc.Call.Value.(*ssa.Builtin); isB && bi.Name() == "len" {
											one = true
										}
									}
								}
							}
						})
						if one {
							continue
						}
					}
				}
			}
			return false
		}
		bo, ok := ms.Len.(*ssa.BinOp)
		if !ok || bo.Op != token.SUB {
			return false
		}
		if one, isC := ir.ConstInt(bo.Y); !isC || one != 1 {
			return false
		}
		lc, ok := bo.X.(*ssa.Call)
		if !ok {
			return false
		}
		if b, isB := lc.Call.Value.(*ssa.Builtin); !isB || b.Name() != "len" {
			return false
		}
		if _, isP := lc.Call.Args[0].(*ssa.Parameter); !isP {
			return false
		}
	}
	return len(ir.ReturnPoints(f)) > 0
}

// indexOfLoopOver: idx is the counter of a loop whose condition is idx < len(list), list read from the
// same place as arr with no store in between.
func indexOfLoopOver(idx, arr ssa.Value) bool {
	var phi *ssa.Phi
	if bo, ok := idx.(*ssa.BinOp); ok && bo.Op == token.ADD {
		phi, _ = bo.X.(*ssa.Phi) // rotated range loop: the index is phi+1
	} else {
		phi, _ = idx.(*ssa.Phi)
	}
	if phi == nil || !ir.NonNegativeIndex(idx) {
		return false
	}
	h := phi.Block()
	iff, ok := h.Instrs[len(h.Instrs)-1].(*ssa.If)
	if !ok {
		return false
	}
	cond, ok := iff.Cond.(*ssa.BinOp)
	if !ok || cond.Op != token.LSS || cond.X != idx {
		return false
	}
	lc, ok := cond.Y.(*ssa.Call)
	if !ok || len(lc.Call.Args) != 1 {
		return false
	}
	if bi, isB := lc.Call.Value.(*ssa.Builtin); !isB || bi.Name() != "len" {
		return false
	}
	return sameLoad(stripConv(lc.Call.Args[0]), arr)
}

// removesOneInRange: like removesOne, except that the list parameter itself is returned on the ways out
// on which the int parameter is known to be no position of the list (idx < 0 or idx >= len(list)).
func removesOneInRange(f *ssa.Function) (idxParam, arrParam int, ok bool) {
	idxParam, arrParam = -1, -1
	for i, p := range f.Params {
		if b, isB := p.Type().Underlying().(*types.Basic); isB && b.Kind() == types.Int {
			idxParam = i
		}
		if _, isS := p.Type().Underlying().(*types.Slice); isS {
			arrParam = i
		}
	}
	if idxParam < 0 || arrParam < 0 {
		return 0, 0, false
	}
	ip, ap := f.Params[idxParam], f.Params[arrParam]
	sawMake := false
	for _, r := range ir.ReturnWays(f) {
		res := stripConv(r.Results[0])
		if ms, isMs := res.(*ssa.MakeSlice); isMs {
			bo, okB := ms.Len.(*ssa.BinOp)
			if !okB || bo.Op != token.SUB {
				return 0, 0, false
			}
			if one, isC := ir.ConstInt(bo.Y); !isC || one != 1 {
				return 0, 0, false
			}
			lc, okC := bo.X.(*ssa.Call)
			if !okC || len(lc.Call.Args) != 1 || lc.Call.Args[0] != ssa.Value(ap) {
				return 0, 0, false
			}
			sawMake = true
			continue
		}
		if res != ssa.Value(ap) {
			return 0, 0, false
		}
		outside := false
		ir.Instrs(f, func(in ssa.Instruction) {
			bo, isBo := in.(*ssa.BinOp)
			if !isBo || bo.X != ssa.Value(ip) {
				return
			}
			if z, isC := ir.ConstInt(bo.Y); isC && z == 0 && ((bo.Op == token.LSS && r.Holds(bo, true)) || (bo.Op == token.GEQ && r.Holds(bo, false))) {
				outside = true
			}
			if lc, isCall := bo.Y.(*ssa.Call); isCall && len(lc.Call.Args) == 1 && lc.Call.Args[0] == ssa.Value(ap) {
				if bi, isB := lc.Call.Value.(*ssa.Builtin); isB && bi.Name() == "len" {
					if (bo.Op == token.GEQ && r.Holds(bo, true)) || (bo.Op == token.LSS && r.Holds(bo, false)) {
						outside = true
					}
				}
			}
		})
		if !outside {
			return 0, 0, false
		}
	}
	return idxParam, arrParam, sawMake
}

func fsm2(c *Ctx) {
	stateT := c.TypeNamed("internal/fsm", "State")
	if stateT == nil {
		c.Undecided("anchor:fsm.State", token.NoPos, "type not found")
		return
	}
	for _, fn := range c.pkgFuncsDeep("internal/fsm") {
		// (a) self-recursive walks
		var rec []*ssa.Call
		for _, call := range ir.Calls(fn) {
			if cv, ok := call.(*ssa.Call); ok && ir.Static(cv) == fn {
				rec = append(rec, cv)
			}
		}
		if len(rec) > 0 && !isMatcherLoop(c, fn) {
			c.Mark(fn)
			key := Q(fn) + ":visited"
			// a map parameter keyed by *State
			var setParam *ssa.Parameter
			for _, p := range fn.Params {
				if m, ok := p.Type().Underlying().(*types.Map); ok {
					if c.isNamed(m.Key(), "internal/fsm", "State") {
						setParam = p
					}
				}
			}
			// or a set captured by a recursive closure: a free variable holding a map keyed by *State that
			// is assigned exactly once (before the walk starts)
			var setFree *ssa.FreeVar
			if setParam == nil {
				for _, fv := range fn.FreeVars {
					pt, isP := fv.Type().(*types.Pointer)
					if !isP {
						continue
					}
					if m, ok := pt.Elem().Underlying().(*types.Map); ok && c.isNamed(m.Key(), "internal/fsm", "State") {
						if al := ir.CellAlloc(fv); al != nil {
							n := 0
							for _, ref := range ir.CellRefs(al) {
								for _, u := range *ref.Referrers() {
									if st, isSt := u.(*ssa.Store); isSt && st.Addr == ref {
										n++
									}
								}
							}
							if n == 1 {
								setFree = fv
							}
						}
					}
				}
			}
			isSet := func(v ssa.Value) bool {
				if setParam != nil && v == ssa.Value(setParam) {
					return true
				}
				if ld, ok := v.(*ssa.UnOp); ok && ld.Op == token.MUL && setFree != nil && ld.X == ssa.Value(setFree) {
					return true
				}
				return false
			}
			if setParam == nil && setFree == nil {
				c.Bad(key, fn.Pos(), "recursive walk over states without a visited-set parameter")
			} else {
				okAll := true
				why := ""
				for _, cv := range rec {
					// the set must be passed on
					passed := setFree != nil // a captured set is shared by construction
					for _, a := range cv.Call.Args {
						if setParam != nil && a == ssa.Value(setParam) {
							passed = true
						}
					}
					if !passed {
						okAll, why = false, "the visited set is not handed to the recursive call"
					}
					// dominated by mark and by not-visited
					marked, checked := false, false
					ir.Instrs(fn, func(in ssa.Instruction) {
						switch x := in.(type) {
						case *ssa.MapUpdate:
							if isSet(x.Map) {
								if _, isP := x.Key.(*ssa.Parameter); isP {
									if v, isC := ir.ConstBool(x.Value); isC && v && (x.Block().Dominates(cv.Block()) || ir.MustPassBefore(cv, func(in2 ssa.Instruction) bool { return in2 == ssa.Instruction(x) })) {
										marked = true
									}
								}
							}
						case *ssa.Lookup:
							if isSet(x.X) && !x.CommaOk {
								if _, isP := x.Index.(*ssa.Parameter); isP && ir.HoldsAt(x, false, cv.Block()) {
									// visited edge must return, doing nothing on the way
									ret := true
									for _, e := range ir.EdgesWhere(fn, x, true) {
										if ir.IsReturn(e.To) {
											continue
										}
										for b := range ir.ReachVia(e.From, e.To, nil, nil) {
											if b == cv.Block() {
												ret = false
											}
											for _, bin := range b.Instrs {
												switch bin.(type) {
												case *ssa.Call, *ssa.Store, *ssa.MapUpdate, *ssa.Go, *ssa.Defer, *ssa.Panic:
													ret = false
												}
											}
										}
									}
									if ret {
										checked = true
									}
								}
							}
						}
					})
					if !marked || !checked {
						okAll, why = false, "the recursive call is not dominated by check-then-mark of the visited set"
					}
				}
				c.Check(okAll, key, fn.Pos(), "visited[s] is tested (return if set) and then set before every recursive call", why)
			}
		}
		// (b) fixpoint loops: `for f(...) {}`
		for _, b := range fn.Blocks {
			if len(b.Instrs) == 0 {
				continue
			}
			iff, ok := b.Instrs[len(b.Instrs)-1].(*ssa.If)
			if !ok {
				continue
			}
			cv, ok := iff.Cond.(*ssa.Call)
			if !ok || cv.Block() != b {
				continue
			}
			step := ir.Static(cv)
			if step == nil || step.Pkg != fn.Pkg {
				continue
			}
			// the true edge must come back to b through effect-free blocks
			if !(b.Succs[0] == b || trivialBackPath(b.Succs[0], b)) {
				continue
			}
			c.Mark(fn)
			c.Mark(step)
			key := Q(fn) + ":fixpoint-loop(" + step.Name() + ")"
			why := fixpointMeasure(c, fn, b, cv, step)
			if why == "" {
				c.OK(key, cv.Pos(), "every true step removes a transition and, where it can append, first marks a key new in a set created outside the loop: the loop has a measure")
			} else {
				c.Bad(key, cv.Pos(), "%s", why)
			}
		}
	}
}

func isMatcherLoop(c *Ctx, fn *ssa.Function) bool {
	ml, _ := c.matcherLoop()
	return ml == fn
}

func trivialBackPath(from, to *ssa.BasicBlock) bool {
	seen := map[*ssa.BasicBlock]bool{}
	b := from
	for !seen[b] {
		seen[b] = true
		if b == to {
			return true
		}
		if len(b.Instrs) != 1 || len(b.Succs) != 1 {
			return false
		}
		b = b.Succs[0]
	}
	return false
}

// fixpointMeasure returns "" if the loop `for step(...) {}` has the measure
// described in FSM-2, else the reason.
func fixpointMeasure(c *Ctx, caller *ssa.Function, loopB *ssa.BasicBlock, call *ssa.Call, step *ssa.Function) string {
	if step.Signature.Recv() == nil {
		return "step function has no receiver state"
	}
	recv := step.Params[0]
	var removeStores, appendStores []*ssa.Store
	ir.Instrs(step, func(in ssa.Instruction) {
		st, ok := in.(*ssa.Store)
		if !ok {
			return
		}
		b, f, isFA := ir.FieldAddr(st.Addr)
		if !isFA || f != "Transitions" || b != ssa.Value(recv) {
			return
		}
		if isRemovalValue(st.Val, ssa.Value(recv)) {
			removeStores = append(removeStores, st)
			return
		}
		appendStores = append(appendStores, st)
	})
	for _, r := range ir.ReturnPoints(step) {
		v, isC := ir.ConstBool(r.Results[0])
		if !isC {
			return "step verdict is not constant"
		}
		if !v {
			continue
		}
		// must pass a removal
		okRem := false
		for _, st := range removeStores {
			if st.Block().Dominates(r.Block()) {
				okRem = true
			}
		}
		if !okRem {
			return fmt.Sprintf("the true return at %s does not remove a transition", c.P.Pos(r.Pos()))
		}
		// can an append precede this return?
		canAppend := false
		for _, st := range appendStores {
			if st.Block() == r.Block() || ir.Reach(st.Block(), nil, nil)[r.Block()] {
				canAppend = true
			}
		}
		if !canAppend {
			continue
		}
		// need: MapUpdate set[k]=true with set a parameter, dominated by not-in-set, dominating every append that reaches r
		okMark := false
		ir.Instrs(step, func(in ssa.Instruction) {
			mu, ok := in.(*ssa.MapUpdate)
			if !ok {
				return
			}
			sp, isP := mu.Map.(*ssa.Parameter)
			if !isP {
				return
			}
			if v, isC := ir.ConstBool(mu.Value); !isC || !v {
				return
			}
			// not-in-set check
			checked := false
			ir.Instrs(step, func(in2 ssa.Instruction) {
				if lk, ok := in2.(*ssa.Lookup); ok && lk.X == ssa.Value(sp) && lk.Index == mu.Key && !lk.CommaOk && ir.HoldsAt(lk, false, mu.Block()) {
					checked = true
				}
			})
			if !checked {
				return
			}
			domAll := true
			for _, st := range appendStores {
				if !mu.Block().Dominates(st.Block()) && !ir.MustPassBefore(st, func(in2 ssa.Instruction) bool { return in2 == ssa.Instruction(mu) }) {
					domAll = false
				}
			}
			if !domAll {
				return
			}
			// the caller passes a map made outside the loop
			idx := -1
			for i, p := range step.Params {
				if p == sp {
					idx = i
				}
			}
			if idx < 0 || idx >= len(call.Call.Args) {
				return
			}
			mk, isMk := call.Call.Args[idx].(*ssa.MakeMap)
			if !isMk || mk.Block() == loopB || ir.Reach(loopB, nil, nil)[mk.Block()] {
				return
			}
			okMark = true
		})
		if !okMark {
			return fmt.Sprintf("the true return at %s can follow an append of transitions without marking a new key in a set that outlives the loop: no measure, the loop may never reach a fixpoint (e.g. spec '[[X]...]...')", c.P.Pos(r.Pos()))
		}
	}
	if len(removeStores) == 0 {
		return "step never removes a transition"
	}
	return ""
}

func fsm3(c *Ctx) {
	fn, match := c.matcherLoop()
	if fn == nil {
		c.Undecided("anchor:matcher-loop", token.NoPos, "no function of fsm invokes Matcher.Match")
		return
	}
	c.Mark(fn)
	key := Q(fn)
	recv := fn.Params[0]
	// transition offered
	trv, isF := fieldOf(match.Call.Value, "Matcher")
	var hdr1 *ssa.BasicBlock
	var offered ssa.Value // the ranged transition list
	okOffer := false
	why := "Match is not invoked on the Matcher of each element of the receiver's Transitions"
	if isF {
		sl, h, isR := rangeElemHeader(trv)
		if base, ok := fieldOf(sl, "Transitions"); isR && ok && base == ssa.Value(recv) {
			hdr1 = h
			offered = sl
			okOffer = true
			// every path through the body passes the invoke
			_, entry, _ := loopBody(h)
			blocked := map[*ssa.BasicBlock]bool{match.Block(): true}
			if entry != match.Block() && ir.Reach(entry, blocked, nil)[h] {
				okOffer, why = false, "an iteration can skip the Match call (continue before offering the transition)"
			}
			if okB, w := noBreak(h); !okB {
				okOffer, why = false, w
			}
		}
	}
	c.Check(okOffer, key+":offer-all", match.Pos(), "every transition of the state is offered to its matcher", why)
	if hdr1 == nil {
		return
	}
	// matches accumulator: a phi in hdr1 of slice type
	verdict, rem := extractOf(match, 0), extractOf(match, 1)
	var acc *ssa.Phi
	for _, in := range hdr1.Instrs {
		if phi, ok := in.(*ssa.Phi); ok {
			if _, isSl := phi.Type().Underlying().(*types.Slice); isSl {
				acc = phi
			}
		}
	}
	okRec := false
	why = "no accumulator of matches"
	recHoldsNext := false
	var recAlloc *ssa.Alloc
	if acc != nil && verdict != nil && rem != nil {
		// edges: nil init, itself, append(acc, rec)
		okRec = true
		sawAppend := false
		for _, lf := range flattenPhi(acc) {
			e, pred := lf.v, lf.pred
			switch {
			case ir.IsNilConst(e):
			case isEmptyMake(e):
				// a fresh, empty, preallocated accumulator (`make([]T, 0, n)`) is as good as nil
			case e == ssa.Value(acc):
				// must come from the verdict-false edge only
				if !ir.HoldsAt(verdict, false, pred) && pred != match.Block() {
					okRec, why = false, "the accumulator is carried unchanged on a path where the match succeeded"
				}
			default:
				base, el, isApp := appendedSingle(e)
				al, isAl := el.(*ssa.Alloc)
				if ld, isLd := el.(*ssa.UnOp); isLd && ld.Op == token.MUL && !isAl {
					// a record kept by value: the literal is copied into the slice
					al, isAl = ld.X.(*ssa.Alloc)
				}
				if !isApp || base != ssa.Value(acc) || !isAl {
					okRec, why = false, "the accumulator is not extended by append(matches, record)"
					continue
				}
				if !ir.HoldsAt(verdict, true, pred) {
					okRec, why = false, "a record is appended without a successful match"
				}
				fields, _ := litFields(al)
				okF := false
				for _, vs := range fields {
					for _, v := range vs {
						if v == rem {
							okF = true
						}
					}
				}
				okT := false
				for _, vs := range fields {
					for _, v := range vs {
						if v == trv {
							okT = true
						}
						// or the transition's target state itself
						if b, isN := fieldOf(v, "Next"); isN && b == trv {
							okT = true
							recHoldsNext = true
						}
					}
				}
				if !okF || !okT {
					okRec, why = false, "the record does not hold the transition and the vector returned by Match"
				}
				recAlloc = al
				sawAppend = true
			}
		}
		if !sawAppend {
			okRec, why = false, "successful matches are never recorded"
		}
		// on the verdict-true edge the path must reach the append
		for _, e := range ir.EdgesWhere(fn, verdict, true) {
			if recAlloc != nil && !ir.ReachVia(e.From, e.To, nil, nil)[recAlloc.Block()] {
				okRec, why = false, "a successful match is not recorded"
			}
		}
	}
	c.Check(okRec, key+":record-all", match.Pos(), "every successful match is recorded with its transition and remaining vector", why)
	// second loop: recursive call on each record
	var rec *ssa.Call
	for _, call := range ir.Calls(fn) {
		if cv, ok := call.(*ssa.Call); ok && ir.Static(cv) == fn {
			rec = cv
		}
	}
	if rec == nil {
		c.Bad(key+":try-all", fn.Pos(), "no recursive call")
		return
	}
	okTry := false
	why = "the recursive call is not made for each recorded match on (record.tr.Next, record.rem, record.ctx)"
	var hdr2 *ssa.BasicBlock
	if len(rec.Call.Args) == 3 {
		nb, okN := fieldOf(rec.Call.Args[0], "Next")
		var m ssa.Value
		if okN {
			if tb, _, okT := ir.FieldLoad(nb); okT {
				m = tb
			}
		}
		if m == nil && recHoldsNext {
			// the record keeps the target state: the call is made on that field of the record
			if tb, _, okT := ir.FieldLoad(rec.Call.Args[0]); okT {
				m = tb
			}
		}
		rb, _, okR := ir.FieldLoad(rec.Call.Args[1])
		pb, _, okP := ir.FieldLoad(rec.Call.Args[2])
		if m != nil && okR && okP && rb == m && pb == m {
			sl, h, isR := rangeElemHeader(valueCopySource(m))
			if isR && sl == ssa.Value(acc) {
				hdr2 = h
				okTry = true
				_, entry, _ := loopBody(h)
				if entry != rec.Block() && ir.Reach(entry, map[*ssa.BasicBlock]bool{rec.Block(): true}, nil)[h] {
					okTry, why = false, "a recorded match can be skipped"
				}
				if okB, w := noBreak(h); !okB {
					okTry, why = false, w
				}
				if !hdr1.Dominates(h) {
					okTry = false
				}
			}
		}
	}
	c.Check(okTry, key+":try-all", rec.Pos(), "every recorded match is tried by a recursive call with its own transition target, vector and context", why)
	// returns
	okRet := true
	why = ""
	for _, r := range ir.ReturnPoints(fn) {
		v, isC := ir.ConstBool(r.Results[0])
		if !isC {
			okRet, why = false, "non-constant verdict"
			continue
		}
		if !v {
			if r.Join != nil && r.At == hdr2 && hdr2 != nil {
				// single-exit form: the result stays false when the loop over the records is exhausted
			} else if hdr2 == nil {
				okRet, why = false, fmt.Sprintf("return false at %s is not the exhaustion of the recorded matches", c.P.Pos(r.Pos()))
			} else if len(r.Block().Preds) != 1 || r.Block().Preds[0] != hdr2 {
				// reachable only through the exhaustion edge of the loop over the records
				_, _, ex := loopBody(hdr2)
				cut := map[ir.Edge]bool{{From: hdr2, To: ex}: true}
				if offered != nil {
					// a state without transitions has nothing to record: its matches are exhausted at once
					for _, e := range lenOnlyZeroEdgesLike(fn, offered) {
						cut[e] = true
					}
				}
				if acc != nil {
					// so are they when nothing was recorded
					for _, e := range lenOnlyZeroEdges(fn, acc) {
						cut[e] = true
					}
				}
				if ex == nil || r.ReachableUnder(ir.Reach(fn.Blocks[0], nil, cut), cut) {
					okRet, why = false, fmt.Sprintf("return false at %s is not the exhaustion of the recorded matches", c.P.Pos(r.Pos()))
				}
			}
		} else {
			// success of a recursive call, or the terminal accept (FSM-7)
			if !r.Holds(rec, true) {
				term := false
				ir.Instrs(fn, func(in ssa.Instruction) {
					if tv, ok := in.(ssa.Value); ok {
						if b, isT := fieldOf(tv, "Terminal"); isT && b == ssa.Value(recv) && r.Holds(tv, true) {
							term = true
						}
					}
				})
				if !term {
					okRet, why = false, fmt.Sprintf("return true at %s is neither a successful branch nor the terminal accept", c.P.Pos(r.Pos()))
				}
			}
		}
	}
	c.Check(okRet, key+":verdicts", fn.Pos(), "true only on a successful branch or at a terminal state; false only after all recorded matches failed", why)
	// the first successful branch ends the search: after rec true → return true
	okFirst := false
	for _, e := range ir.EdgesWhere(fn, rec, true) {
		if allPathsReturnConst(e.To, true) {
			okFirst = true
		}
	}
	c.Check(okFirst, key+":success-returns", rec.Pos(), "a successful branch returns true", "a successful recursive branch does not lead to return true")
}

func allPathsReturnConst(b *ssa.BasicBlock, want bool) bool {
	region := ir.Reach(b, nil, nil)
	for _, rp := range ir.ReturnPoints(b.Parent()) {
		if !region[rp.At] {
			continue
		}
		if v, isC := ir.ConstBool(rp.Results[0]); !isC || v != want {
			return false
		}
	}
	return true
}

// phiLeaf is a value a loop-carried phi can take and the block it comes from.
type phiLeaf struct {
	v    ssa.Value
	pred *ssa.BasicBlock
}

// flattenPhi expands the edges of phi through the plain (non loop-header) joins that feed it.
func flattenPhi(phi *ssa.Phi) []phiLeaf {
	var out []phiLeaf
	seen := map[*ssa.Phi]bool{phi: true}
	var walk func(p *ssa.Phi, depth int)
	walk = func(p *ssa.Phi, depth int) {
		for i, e := range p.Edges {
			if q, ok := e.(*ssa.Phi); ok && !seen[q] && depth < 4 && !isLoopHeader(q.Block()) {
				seen[q] = true
				walk(q, depth+1)
				continue
			}
			out = append(out, phiLeaf{e, p.Block().Preds[i]})
		}
	}
	walk(phi, 0)
	return out
}

func fsm4(c *Ctx) {
	fn, match := c.matcherLoop()
	if fn == nil {
		c.Undecided("anchor:matcher-loop", token.NoPos, "no function of fsm invokes Matcher.Match")
		return
	}
	c.Mark(fn)
	key := Q(fn)
	newCtx := c.fnOpt("internal/matcher", "NewParseContext")
	// the caller's context: the local holding the ParseContext parameter
	var pcParam *ssa.Parameter
	for _, p := range fn.Params {
		if c.isNamed(p.Type(), "internal/matcher", "ParseContext") {
			pcParam = p
		}
	}
	var pcLocal *ssa.Alloc
	if pcParam != nil {
		for _, u := range *pcParam.Referrers() {
			if st, ok := u.(*ssa.Store); ok && st.Val == ssa.Value(pcParam) {
				pcLocal, _ = st.Addr.(*ssa.Alloc)
			}
		}
	}
	if pcLocal == nil {
		c.Undecided(key+":caller-context", fn.Pos(), "the caller's context parameter (by value) was not found")
		return
	}
	// fresh context
	fresh, isAl := match.Call.Args[1].(*ssa.Alloc)
	okFresh := false
	why := "the context handed to Match is not a fresh NewParseContext() of the same iteration"
	// the caller's context, or a by-value copy of it taken when no later write to the caller's flag can follow
	isCallerCtx := func(b ssa.Value) bool {
		if b == ssa.Value(pcLocal) {
			return true
		}
		al, ok := b.(*ssa.Alloc)
		if !ok {
			return false
		}
		fields, whole := litFields(al)
		if len(fields) != 0 || len(whole) != 1 {
			return false
		}
		ld, isLd := whole[0].(*ssa.UnOp)
		if !isLd || ld.Op != token.MUL || ld.X != ssa.Value(pcLocal) {
			return false
		}
		after := ir.Reach(ld.Block(), nil, nil)
		okCopy := true
		ir.Instrs(fn, func(in ssa.Instruction) {
			st, isSt := in.(*ssa.Store)
			if !isSt {
				return
			}
			base := st.Addr
			if fa, isFA := st.Addr.(*ssa.FieldAddr); isFA {
				base = fa.X
			}
			if base != ssa.Value(pcLocal) {
				return
			}
			if st.Block() == ld.Block() {
				if ir.IndexIn(st) > ir.IndexIn(ld) || ir.InLoop(ld.Block()) {
					okCopy = false
				}
			} else if after[st.Block()] {
				okCopy = false
			}
		})
		return okCopy
	}
	if isAl && fresh.Block() == match.Block() {
		fields, whole := structContent(fresh, 0)
		if len(whole) == 1 {
			if cv, ok := whole[0].(*ssa.Call); ok && ir.Static(cv) == newCtx && newCtx != nil && cv.Block() == match.Block() {
				okFresh = true
			}
		}
		ro := fields["RejectOptions"]
		if okFresh {
			okFlag := false
			if len(ro) == 1 {
				if b, f, ok := ir.FieldLoad(ro[0]); ok && f == "RejectOptions" && isCallerCtx(b) {
					okFlag = true
				}
			}
			for f := range fields {
				if f != "RejectOptions" {
					okFlag = false
					why = "fresh context field " + f + " is pre-seeded"
				}
			}
			if !okFlag {
				okFresh = false
				if !strings.HasPrefix(why, "fresh context field") {
					why = "the options-ended flag is not copied from the caller's (current) context into the fresh one"
				}
			}
		}
	}
	c.Check(okFresh, key+":fresh-context", match.Pos(), "each transition gets a fresh context with only the options-ended flag copied from the caller's current one", why)
	// same context to the recursive call
	var rec *ssa.Call
	for _, call := range ir.Calls(fn) {
		if cv, ok := call.(*ssa.Call); ok && ir.Static(cv) == fn {
			rec = cv
		}
	}
	okSame := false
	var recCtxBase ssa.Value
	if rec != nil && len(rec.Call.Args) == 3 {
		if b, f, ok := ir.FieldLoad(rec.Call.Args[2]); ok {
			recCtxBase = b
			// b is the record (elem of matches); the record's field f was stored with a load of fresh
			ir.Instrs(fn, func(in ssa.Instruction) {
				st, ok := in.(*ssa.Store)
				if !ok {
					return
				}
				if _, ff, isFA := ir.FieldAddr(st.Addr); isFA && ff == f {
					if ld, isLd := st.Val.(*ssa.UnOp); isLd && ld.Op == token.MUL && ld.X == ssa.Value(fresh) {
						// the copy must be taken after Match ran
						if ld.Block() != match.Block() || ir.IndexIn(ld) > ir.IndexIn(match) {
							okSame = true
						}
					}
				}
			})
		}
	}
	c.Check(okSame, key+":context-follows-branch", fn.Pos(), "the context filled by Match is the one handed to the recursive call for that match", "the recursive call does not receive the context that Match filled for this transition")
	// Merge only on success, with that context, into the caller's
	merge := c.fnOpt("internal/matcher", "ParseContext.Merge")
	nMerge := 0
	okMerge := true
	why = ""
	for _, call := range ir.Calls(fn) {
		cv, ok := call.(*ssa.Call)
		if !ok || ir.Static(cv) != merge || merge == nil {
			continue
		}
		nMerge++
		if rec == nil || !ir.HoldsAt(rec, true, cv.Block()) {
			okMerge, why = false, "Merge is called before the recursive result is known to be true"
		}
		if ld, isLd := cv.Call.Args[0].(*ssa.UnOp); !isLd || ld.X != ssa.Value(pcLocal) {
			okMerge, why = false, "Merge is not applied to the caller's context"
		}
		if b, _, ok := ir.FieldLoad(cv.Call.Args[1]); !ok {
			okMerge, why = false, "the merged context is not the successful branch's"
		} else if b != recCtxBase {
			// the winner kept in a result variable: the only value it can have here is that branch's record
			if vs := ir.PhiValuesAt(b, cv.Block()); len(vs) != 1 || vs[0] != recCtxBase {
				okMerge, why = false, "the merged context is not the successful branch's"
			}
		}
	}
	if nMerge != 1 {
		okMerge, why = false, fmt.Sprintf("%d Merge calls, expected 1", nMerge)
	}
	if okMerge && rec != nil {
		// on the success edge Merge must be passed before returning
		mergeBlocks := map[*ssa.BasicBlock]bool{}
		for _, call := range ir.Calls(fn) {
			if cv, ok := call.(*ssa.Call); ok && ir.Static(cv) == merge {
				mergeBlocks[cv.Block()] = true
			}
		}
		for _, e := range ir.EdgesWhere(fn, rec, true) {
			passes := true
			if !mergeBlocks[e.To] {
				for b := range ir.ReachVia(e.From, e.To, mergeBlocks, nil) {
					if ir.IsReturn(b) {
						passes = false
					}
				}
			}
			if !passes {
				okMerge, why = false, "the successful branch returns without merging its context"
			}
		}
	}
	c.Check(okMerge, key+":merge-on-success", fn.Pos(), "the caller's context receives exactly the successful branch's values", why)
	// Merge body
	if merge != nil {
		c.Mark(merge)
		fsm4merge(c, merge)
	} else {
		c.Undecided("anchor:ParseContext.Merge", token.NoPos, "not found")
	}
	// the root context
	parse := c.fnOpt("internal/fsm", "State.Parse")
	if parse != nil {
		c.Mark(parse)
		okRoot := false
		for _, call := range ir.Calls(parse) {
			if cv, ok := call.(*ssa.Call); ok && ir.Static(cv) == fn {
				if nc, ok := cv.Call.Args[2].(*ssa.Call); ok && ir.Static(nc) == newCtx {
					okRoot = true
				}
				if ld, isLd := cv.Call.Args[2].(*ssa.UnOp); isLd {
					if al, isAl := ld.X.(*ssa.Alloc); isAl {
						_, whole := litFields(al)
						if len(whole) == 1 {
							if nc, ok := whole[0].(*ssa.Call); ok && ir.Static(nc) == newCtx {
								okRoot = true
							}
						}
					}
				}
			}
		}
		c.Check(okRoot, Q(parse)+":root-context", parse.Pos(), "every parse starts from a fresh context", "Parse does not start the matcher loop from a fresh NewParseContext()")
	}
}

// structContent returns what a struct local holds: the value it was assigned as a whole and the fields
// stored afterwards. A whole assignment that is a by-value copy of another local (`b := a`) is resolved
// to that local's content at the time of the copy (stores that precede the copying load).
func structContent(al *ssa.Alloc, depth int) (fields map[string][]ssa.Value, whole []ssa.Value) {
	fields, whole = litFields(al)
	if depth > 3 || len(whole) != 1 {
		return
	}
	ld, ok := whole[0].(*ssa.UnOp)
	if !ok || ld.Op != token.MUL {
		return
	}
	src, ok := ld.X.(*ssa.Alloc)
	if !ok || src.Parent() != al.Parent() {
		return
	}
	precedes := func(st ssa.Instruction) bool {
		if st.Block() == ld.Block() {
			return ir.IndexIn(st) < ir.IndexIn(ld)
		}
		return st.Block().Dominates(ld.Block())
	}
	sf, sw := structContent(src, depth+1)
	// only stores to src that precede the copy count; if any store to src does not clearly precede or
	// follow it in straight-line code, give up
	for _, u := range *src.Referrers() {
		switch x := u.(type) {
		case *ssa.Store:
			if x.Addr == ssa.Value(src) && !precedes(x) {
				return
			}
		case *ssa.FieldAddr:
			for _, uu := range *x.Referrers() {
				if st, isSt := uu.(*ssa.Store); isSt && st.Addr == ssa.Value(x) && !precedes(st) {
					return
				}
			}
		}
	}
	out := map[string][]ssa.Value{}
	for k, v := range sf {
		out[k] = v
	}
	for k, v := range fields {
		out[k] = v // a field stored on the copy overrides the copied one
	}
	return out, sw
}

// valueCopySource: m is a struct local that only ever holds a copy of one value (`for _, m := range xs`
// with struct elements): returns that value, else m itself.
func valueCopySource(m ssa.Value) ssa.Value {
	al, ok := m.(*ssa.Alloc)
	if !ok {
		return m
	}
	fields, whole := litFields(al)
	if len(fields) == 0 && len(whole) == 1 {
		return whole[0]
	}
	return m
}

// outerBreakFromFound: block b (outside the scan loop's body proper) is entered from the loop only over
// edges that leave blocks in which the shortcut test is known true.
func outerBreakFromFound(fn *ssa.Function, test ssa.Value, b *ssa.BasicBlock, body map[*ssa.BasicBlock]bool) bool {
	for _, p := range b.Preds {
		if body[p] && !ir.HoldsAt(test, true, p) {
			return false
		}
	}
	return true
}

func fsm4merge(c *Ctx, fn *ssa.Function) {
	recv, arg := fn.Params[0], fn.Params[1]
	seen := map[string]bool{}
	ir.Instrs(fn, func(in ssa.Instruction) {
		mu, ok := in.(*ssa.MapUpdate)
		if !ok {
			return
		}
		src, fname, isF := structFieldSource(mu.Map)
		if !isF || src != ssa.Value(recv) {
			c.Bad(Q(fn)+":target", mu.Pos(), "Merge writes a map other than the receiver's")
			return
		}
		key := Q(fn) + ":" + fname
		seen[fname] = true
		call, isCall := mu.Value.(*ssa.Call)
		good := false
		if isCall {
			if b, isB := call.Call.Value.(*ssa.Builtin); isB && b.Name() == "append" && len(call.Call.Args) == 2 {
				base, okB := call.Call.Args[0].(*ssa.Lookup)
				tail := call.Call.Args[1]
				if okB && base.Index == mu.Key {
					if bs, bf, ok := structFieldSource(base.X); ok && bf == fname && bs == ssa.Value(recv) {
						if ex, isEx := tail.(*ssa.Extract); isEx && ex.Index == 2 {
							if nx, isNx := ex.Tuple.(*ssa.Next); isNx {
								if rg, isRg := nx.Iter.(*ssa.Range); isRg {
									if as, af, ok := structFieldSource(rg.X); ok && af == fname && as == ssa.Value(arg) {
										if kx, isK := mu.Key.(*ssa.Extract); isK && kx.Tuple == ex.Tuple && kx.Index == 1 {
											good = true
										}
									}
								}
							}
						}
						// `for k := range other.F { v := other.F[k]; ... }`
						if lk, isLk := tail.(*ssa.Lookup); isLk && !lk.CommaOk && lk.Index == mu.Key {
							if ls, lf, ok := structFieldSource(lk.X); ok && lf == fname && ls == ssa.Value(arg) {
								if kx, isK := mu.Key.(*ssa.Extract); isK && kx.Index == 1 {
									if nx, isNx := kx.Tuple.(*ssa.Next); isNx {
										if rg, isRg := nx.Iter.(*ssa.Range); isRg {
											if as, af, ok := structFieldSource(rg.X); ok && af == fname && as == ssa.Value(arg) {
												good = true
											}
										}
									}
								}
							}
						}
					}
				}
			}
		}
		whyM := "Merge does not append the other context's values after the receiver's for the same key"
		if good {
			// for every k: no key of the other context is passed over
			if kx, isK := mu.Key.(*ssa.Extract); isK {
				if nx, isNx := kx.Tuple.(*ssa.Next); isNx {
					hdr := nx.Block()
					for _, entry := range hdr.Succs {
						if entry == mu.Block() || !ir.Reach(entry, map[*ssa.BasicBlock]bool{hdr: true}, nil)[mu.Block()] {
							continue
						}
						if ir.Reach(entry, map[*ssa.BasicBlock]bool{mu.Block(): true}, nil)[hdr] {
							good, whyM = false, "a key of the other context can be passed over: its values are lost when the branch succeeds"
						}
					}
				}
			}
		}
		c.Check(good, key, mu.Pos(), "receiver."+fname+"[k] = append(receiver."+fname+"[k], other."+fname+"[k]...) for every k: earlier values stay first", whyM)
	})
	for _, f := range []string{"Args", "Opts"} {
		if !seen[f] {
			c.Bad(Q(fn)+":"+f, fn.Pos(), "Merge does not carry %s over", f)
		}
	}
}

// valueDrivers returns the functions of the closure that invoke Set(string) or Clear().
func valueDrivers(c *Ctx) map[*ssa.Function][]*ssa.Call {
	out := map[*ssa.Function][]*ssa.Call{}
	for _, fn := range c.ClosureFuncsDeep() {
		for _, call := range ir.Calls(fn) {
			cv, ok := call.(*ssa.Call)
			if !ok || !cv.Call.IsInvoke() {
				continue
			}
			n := cv.Call.Method.Name()
			if n == "Set" || n == "Clear" {
				out[fn] = append(out[fn], cv)
			}
		}
	}
	return out
}

func fsm5(c *Ctx) {
	drivers := valueDrivers(c)
	// env side: functions reachable from the env function within values
	envSide := map[*ssa.Function]bool{}
	var walk func(fn *ssa.Function)
	walk = func(fn *ssa.Function) {
		if fn == nil || envSide[fn] || fn.Pkg == nil || !c.P.InModule(fn.Pkg.Pkg) {
			return
		}
		envSide[fn] = true
		for _, call := range ir.Calls(fn) {
			walk(ir.Static(call))
		}
	}
	for _, f := range envFuncs(c) {
		walk(f)
	}
	var filler *ssa.Function
	var names []string
	for fn := range drivers {
		names = append(names, Q(fn))
	}
	sort.Strings(names)
	for fn := range drivers {
		c.Mark(fn)
		switch {
		case envSide[fn]:
			c.OK("driver "+Q(fn), fn.Pos(), "env application (declaration time)")
		case filler == nil:
			// the one function outside the env application that drives values: the container filler
			filler = fn
		default:
			if Q(fn) < Q(filler) {
				filler, fn = fn, filler
			}
			c.Bad("driver "+Q(fn), fn.Pos(), "Set/Clear invoked outside the container filler and the env application")
		}
	}
	if filler == nil {
		c.Bad("anchor:container-filler", token.NoPos, "no function outside the env application invokes flag.Value.Set (drivers: %s)", strings.Join(names, ","))
		return
	}
	c.OK("driver "+Q(filler), filler.Pos(), "the container filler")
	ml, _ := c.matcherLoop()
	// callers of the filler; a caller that does not itself run the matcher loop is a wrapper: it must
	// hand the error on, and its own callers are examined in its place
	type useSite struct {
		fn *ssa.Function
		cv *ssa.Call
	}
	callsML := func(fn *ssa.Function) bool {
		for _, c2 := range ir.Calls(fn) {
			if ml != nil && ir.Static(c2) == ml {
				return true
			}
		}
		return false
	}
	var sites []useSite
	var wrapperSites []useSite
	var collect func(target *ssa.Function, depth int)
	collect = func(target *ssa.Function, depth int) {
		for _, fn := range c.ClosureFuncsDeep() {
			for _, call := range ir.Calls(fn) {
				cv, ok := call.(*ssa.Call)
				if !ok || ir.Static(cv) != target {
					continue
				}
				if callsML(fn) || depth >= 3 || fn == ml {
					sites = append(sites, useSite{fn, cv})
				} else {
					wrapperSites = append(wrapperSites, useSite{fn, cv})
					collect(fn, depth+1)
				}
			}
		}
	}
	collect(filler, 0)
	if len(sites) == 0 {
		c.Bad("anchor:filler-call", filler.Pos(), "the container filler is not called from a function that runs the matcher loop")
	}
	for _, ws := range wrapperSites {
		c.Mark(ws.fn)
		sites = append(sites, ws)
	}
	isWrapper := map[*ssa.Function]bool{}
	for _, ws := range wrapperSites {
		isWrapper[ws.fn] = true
	}
	for _, us := range sites {
		{
			fn, cv := us.fn, us.cv
			c.Mark(fn)
			key := fmt.Sprintf("%s->%s", Q(fn), ir.Static(cv).Name())
			var problems []string
			// dominated by a successful matcher loop
			okDom := isWrapper[fn]
			for _, c2 := range ir.Calls(fn) {
				if mv, ok := c2.(*ssa.Call); ok && ir.Static(mv) == ml && ml != nil && ir.HoldsAt(mv, true, cv.Block()) {
					okDom = true
				}
			}
			if !okDom {
				problems = append(problems, "the filler can run although the match failed")
			}
			// error returned
			okErr := false
			for _, r := range ir.ReturnPoints(fn) {
				if len(r.Results) == 1 && r.Results[0] == ssa.Value(cv) {
					if r.Block() == cv.Block() || errIsNonNilH(cv, r.Block(), r.Holds) {
						okErr = true
					}
				}
				// `err := f(a); if err == nil { err = f(b) }; return err`
				if len(r.Results) == 1 {
					if phi, isPhi := r.Results[0].(*ssa.Phi); isPhi {
						// a refused fill must not be attempted again before the return (a loop that
						// keeps only the last outcome loses the error)
						cutNil := map[ir.Edge]bool{}
						for _, e := range errNilEdges(fn, cv) {
							cutNil[e] = true
						}
						again := false
						for _, sc := range cv.Block().Succs {
							if !cutNil[ir.Edge{From: cv.Block(), To: sc}] && ir.Reach(sc, nil, cutNil)[cv.Block()] {
								again = true
							}
						}
						for i, e := range phi.Edges {
							p := phi.Block().Preds[i]
							if e == ssa.Value(cv) && !again && (p == cv.Block() || errIsNonNilAt(cv, p) || cv.Block().Dominates(p)) {
								okErr = true
							}
						}
					}
				}
			}
			if !okErr {
				problems = append(problems, "the filler's error is not returned")
			}
			// argument: a map of the root context
			if len(problems) > 0 {
				c.Bad(key, cv.Pos(), "%s", strings.Join(problems, "; "))
			} else {
				c.OK(key, cv.Pos(), "runs only after the whole match succeeded; its error is returned to the caller")
			}
		}
	}
	// the two collections are filled separately and in a fixed order: the options' map first, then the
	// arguments' map, each handed over as it stands (not merged into one map, whose iteration order
	// would decide which value a variable bound to both ends up with)
	{
		// per function that calls the filler
		byFn := map[*ssa.Function][]*ssa.Call{}
		var fns []*ssa.Function
		for _, us := range sites {
			if _, seen := byFn[us.fn]; !seen {
				fns = append(fns, us.fn)
			}
			byFn[us.fn] = append(byFn[us.fn], us.cv)
		}
		okOrder := false
		merged := false
		var where *ssa.Function
		for _, host := range fns {
			var optsCall, argsCall *ssa.Call
			for _, cv := range byFn[host] {
				for _, a := range cv.Call.Args {
					if !isContainerMap(a.Type()) {
						continue
					}
					_, f, isF := ir.FieldLoad(a)
					switch {
					case isF && f == "Opts":
						optsCall = cv
					case isF && f == "Args":
						argsCall = cv
					default:
						// one call in a loop over the fixed array {Opts, Args}
						var arr ssa.Value
						if sl, isR := rangeElem(a); isR {
							arr = sl
						} else if ix, isIx := a.(*ssa.Index); isIx && isRangeIndex(ix.Index) {
							if ld, isLd := ix.X.(*ssa.UnOp); isLd && ld.Op == token.MUL {
								arr = ld.X
							}
						}
						if ld, isLd := arr.(*ssa.UnOp); isLd && ld.Op == token.MUL {
							arr = ld.X // the array read as a value
						}
						if sl, isSl := arr.(*ssa.Slice); isSl && sl.Low == nil && sl.High == nil {
							arr = sl.X // a slice literal: the whole of its backing array
						}
						if arr != nil {
							if al, isAl := arr.(*ssa.Alloc); isAl {
								var at [2]string
								n := 0
								for _, u := range *al.Referrers() {
									ia, isIA := u.(*ssa.IndexAddr)
									if !isIA {
										continue
									}
									k, isK := ir.ConstInt(ia.Index)
									for _, uu := range *ia.Referrers() {
										if st, isSt := uu.(*ssa.Store); isSt && isK && k >= 0 && k < 2 {
											if _, fld, okF := ir.FieldLoad(st.Val); okF {
												at[k] = fld
												n++
											}
										}
									}
								}
								if n == 2 && at[0] == "Opts" && at[1] == "Args" {
									okOrder, where = true, host
									continue
								}
							}
						}
						merged = true
					}
				}
			}
			if optsCall != nil && argsCall != nil &&
				(optsCall.Block() == argsCall.Block() && ir.IndexIn(optsCall) < ir.IndexIn(argsCall) || optsCall.Block() != argsCall.Block() && optsCall.Block().Dominates(argsCall.Block())) {
				okOrder, where = true, host
			}
			// writes into the collected maps in the function that fills them (a merge in place)
			ir.Instrs(host, func(in ssa.Instruction) {
				if mu, ok := in.(*ssa.MapUpdate); ok && isContainerMap(mu.Map.Type()) {
					if _, f, isF := ir.FieldLoad(mu.Map); isF && (f == "Opts" || f == "Args") {
						merged = true
					}
				}
			})
		}
		if len(sites) > 0 {
			pos := token.NoPos
			name := "filler"
			if where != nil {
				pos, name = where.Pos(), Q(where)
			} else if len(fns) > 0 {
				pos, name = fns[0].Pos(), Q(fns[0])
			}
			mk := len(c.Obs)
			c.Check(okOrder && !merged, name+":options-then-arguments", pos, "the options' values are stored first, then the arguments', each from its own collection", "the collected options and arguments are not filled as two separate collections in the order options, arguments (with one merged map the order is that of map iteration)")
			c.Scope(mk, "C02", "C20")
		}
	}
	// a failed match yields a non-nil error
	if parse := c.fnOpt("internal/fsm", "State.Parse"); parse != nil && ml != nil {
		okFail := false
		for _, c2 := range ir.Calls(parse) {
			if mv, ok := c2.(*ssa.Call); ok && ir.Static(mv) == ml {
				for _, e := range ir.EdgesWhere(parse, mv, false) {
					good, saw := true, false
					region := ir.ReachVia(e.From, e.To, nil, nil)
					for _, rp := range ir.ReturnPoints(parse) {
						if !region[rp.At] {
							continue
						}
						saw = true
						if cl, isCall := rp.Results[0].(*ssa.Call); !isCall || !(ir.IsStdFunc(ir.Static(cl), "fmt", "Errorf") || ir.IsStdFunc(ir.Static(cl), "errors", "New")) {
							good = false
						}
					}
					okFail = good && saw
				}
			}
		}
		c.Check(okFail, Q(parse)+":mismatch-is-error", parse.Pos(), "a failed match returns a freshly built non-nil error", "a failed match does not return a non-nil error")
	}
}

func fsm6(c *Ctx) {
	var filler *ssa.Function
	envSide := map[*ssa.Function]bool{}
	var walk func(fn *ssa.Function)
	walk = func(fn *ssa.Function) {
		if fn == nil || envSide[fn] || fn.Pkg == nil || !c.P.InModule(fn.Pkg.Pkg) {
			return
		}
		envSide[fn] = true
		for _, call := range ir.Calls(fn) {
			walk(ir.Static(call))
		}
	}
	for _, f := range envFuncs(c) {
		walk(f)
	}
	for fn := range valueDrivers(c) {
		if !envSide[fn] && (filler == nil || Q(fn) < Q(filler)) {
			filler = fn
		}
	}
	if filler == nil {
		c.Undecided("anchor:container-filler", token.NoPos, "not found")
		return
	}
	fn := filler
	c.Mark(fn)
	key := Q(fn)
	// outer loop: range over the map parameter
	var rg *ssa.Range
	ir.Instrs(fn, func(in ssa.Instruction) {
		if r, ok := in.(*ssa.Range); ok {
			if _, isP := r.X.(*ssa.Parameter); isP {
				rg = r
			}
		}
	})
	if rg == nil {
		c.Bad(key+":per-container", fn.Pos(), "no range over the collected map")
		return
	}
	var next *ssa.Next
	for _, u := range *rg.Referrers() {
		if n, ok := u.(*ssa.Next); ok {
			next = n
		}
	}
	con, vs := extractOf(next, 1), extractOf(next, 2)
	if con == nil || vs == nil {
		c.Bad(key+":per-container", fn.Pos(), "container or its values are not used")
		return
	}
	outerHdr := next.Block()
	_, outerEntry, _ := loopBody(outerHdr)
	// Set
	var set *ssa.Call
	var clears []*ssa.Call
	for _, cv := range valueDrivers(c)[fn] {
		if cv.Call.Method.Name() == "Set" {
			if set != nil {
				c.Bad(key+":set", cv.Pos(), "more than one Set site")
				return
			}
			set = cv
		} else {
			clears = append(clears, cv)
		}
	}
	if set == nil {
		c.Bad(key+":set", fn.Pos(), "no Set site")
		return
	}
	okSet := false
	why := "Set is not invoked on the container's Value with each collected string in order"
	var innerHdr *ssa.BasicBlock
	if b, ok := fieldOf(set.Call.Value, "Value"); ok && b == con {
		if sl, h, isR := rangeElemHeader(set.Call.Args[0]); isR && sl == vs {
			innerHdr = h
			okSet = true
			_, entry, _ := loopBody(h)
			if entry != set.Block() && ir.Reach(entry, map[*ssa.BasicBlock]bool{set.Block(): true}, nil)[h] {
				okSet, why = false, "a collected value can be skipped"
			}
			if okB, w := noBreak(h); !okB {
				okSet, why = false, w
			}
		}
	}
	// the collected strings go nowhere else: no other function of the module is handed them (a helper
	// written for another syntax, e.g. the environment list, would transform them)
	if okSet {
		for _, call := range ir.Calls(fn) {
			f := ir.Static(call)
			if f == nil || f.Pkg == nil || !c.P.InModule(f.Pkg.Pkg) {
				continue
			}
			for _, a := range call.Common().Args {
				if a == vs {
					okSet, why = false, "the collected strings are also handed to "+Q(f)+" instead of being applied one by one with Set"
				}
			}
		}
	}
	c.Check(okSet, key+":set-each-in-order", set.Pos(), "Set(v) for every collected string, in order, on the container's own value", why)
	// the loop over values must be reached for every container: entry of outer body reaches inner header on all paths
	if innerHdr != nil {
		okReach := !ir.Reach(outerEntry, map[*ssa.BasicBlock]bool{innerHdr: true}, nil)[outerHdr]
		whyR := "a container can be skipped without its values being applied"
		if okReach {
			// success is reported only once the map has been gone through (or is empty)
			cut := map[ir.Edge]bool{}
			for _, sc := range outerHdr.Succs {
				if sc != outerEntry {
					cut[ir.Edge{From: outerHdr, To: sc}] = true
				}
			}
			for _, prm := range fn.Params {
				if _, isMap := prm.Type().Underlying().(*types.Map); isMap {
					for _, e := range lenOnlyZeroEdges(fn, prm) {
						cut[e] = true
					}
				}
			}
			reach := ir.Reach(fn.Blocks[0], nil, cut)
			for _, r := range ir.ReturnWays(fn) {
				if len(r.Results) == 1 && ir.IsNilConst(r.Results[0]) && r.ReachableUnder(reach, cut) {
					okReach, whyR = false, "nil can be returned before the collected values of every container were applied"
				}
			}
		}
		c.Check(okReach, key+":every-container", set.Pos(), "every container of the map goes through the value loop", whyR)
	}
	// error returned at once
	okErr := false
	for _, r := range ir.ReturnPoints(fn) {
		if r.Results[0] == ssa.Value(set) && errIsNonNilH(set, r.Block(), r.Holds) {
			okErr = true
		}
		// handed up through the result variables of inlined helpers: on the ways out that follow the
		// err != nil edge the returned value can only be the Set error
		if _, isPhi := r.Results[0].(*ssa.Phi); isPhi {
			for _, u := range *set.Referrers() {
				if bo, ok := u.(*ssa.BinOp); ok && ir.IsNilConst(bo.Y) && (bo.Op == token.NEQ || bo.Op == token.EQL) {
					for _, ed := range ir.EdgesWhere(fn, bo, bo.Op == token.NEQ) {
						if ir.ReachVia(ed.From, ed.To, nil, nil)[r.At] {
							vs := ir.PhiValuesAt(r.Results[0], r.At)
							for _, v := range vs {
								if v == ssa.Value(set) {
									okErr = true
								}
							}
						}
					}
				}
			}
		}
	}
	for _, e := range []bool{true} {
		_ = e
		// the err != nil edge must not continue the loop
		for _, u := range *set.Referrers() {
			if bo, ok := u.(*ssa.BinOp); ok && ir.IsNilConst(bo.Y) {
				want := bo.Op == token.NEQ
				for _, ed := range ir.EdgesWhere(fn, bo, want) {
					for r := range ir.ReachVia(ed.From, ed.To, nil, nil) {
						if r == outerHdr || r == innerHdr {
							okErr = false
						}
					}
				}
			}
		}
	}
	c.Check(okErr, key+":error-returned", set.Pos(), "a Set error aborts the fill and is returned as is", "a Set error is ignored or not returned at once")
	// Clear
	okClear := false
	why = "multi-valued containers are not cleared before the command-line values"
	if len(clears) == 1 && innerHdr != nil {
		cl := clears[0]
		ex, isEx := cl.Call.Value.(*ssa.Extract)
		var ta *ssa.TypeAssert
		if isEx {
			ta, _ = ex.Tuple.(*ssa.TypeAssert)
		}
		if ta != nil {
			if b, ok := fieldOf(ta.X, "Value"); ok && b == con {
				_, iname := ir.NamedOf(ta.AssertedType)
				okv := extractOf(ta, 1)
				if iname == "MultiValued" && okv != nil {
					blockedE := map[ir.Edge]bool{}
					for _, e := range ir.EdgesWhere(fn, okv, false) {
						blockedE[ir.Edge{From: e.From, To: e.To}] = true
					}
					// from the outer body entry, the value loop is reachable only through Clear or the not-multi edge
					r := ir.Reach(outerEntry, map[*ssa.BasicBlock]bool{cl.Block(): true}, blockedE)
					if outerEntry == cl.Block() {
						r = map[*ssa.BasicBlock]bool{}
					}
					switch {
					case r[innerHdr]:
						why = "the value loop can be reached for a multi-valued container without Clear (Clear has an extra guard)"
					case ir.InLoop(cl.Block()) && ir.Reach(innerHdr.Succs[0], map[*ssa.BasicBlock]bool{innerHdr: true}, nil)[cl.Block()]:
						why = "Clear is inside the value loop"
					default:
						okClear = true
					}
				}
			}
		}
	} else if len(clears) > 1 {
		why = "more than one Clear site"
	}
	c.Check(okClear, key+":clear-once-first", fn.Pos(), "a MultiValued container is cleared exactly once, before its values, with no other guard", why)
	// epilogue: ValueSetFromEnv=false and *ValueSetByUser=true
	if innerHdr != nil {
		_, _, innerExit := loopBody(innerHdr)
		var envStore, userStore *ssa.Store
		ir.Instrs(fn, func(in ssa.Instruction) {
			st, ok := in.(*ssa.Store)
			if !ok {
				return
			}
			if b, f, isFA := ir.FieldAddr(st.Addr); isFA && f == "ValueSetFromEnv" && b == con {
				if v, isC := ir.ConstBool(st.Val); isC && !v {
					envStore = st
				}
			}
			if ld, isLd := st.Addr.(*ssa.UnOp); isLd {
				if b, ok := fieldOf(ld, "ValueSetByUser"); ok && b == con {
					if v, isC := ir.ConstBool(st.Val); isC && v {
						userStore = st
					}
				}
			}
		})
		okEnv := envStore != nil && !ir.Reach(innerExit, map[*ssa.BasicBlock]bool{envStore.Block(): true}, nil)[outerHdr]
		if envStore != nil && innerExit == envStore.Block() {
			okEnv = true
		}
		c.Check(okEnv, key+":clears-env-flag", fn.Pos(), "ValueSetFromEnv is reset for every container the command line filled", "ValueSetFromEnv is not reset on every path after the values were applied")
		okUser := false
		why = "*ValueSetByUser = true is missing"
		if userStore != nil {
			// only guard: pointer != nil
			blockedE := map[ir.Edge]bool{}
			ir.Instrs(fn, func(in ssa.Instruction) {
				bo, ok := in.(*ssa.BinOp)
				if !ok || !(bo.Op == token.NEQ || bo.Op == token.EQL) || !ir.IsNilConst(bo.Y) {
					return
				}
				if b, okF := fieldOf(bo.X, "ValueSetByUser"); okF && b == con {
					for _, e := range ir.EdgesWhere(fn, bo, bo.Op == token.EQL) {
						blockedE[ir.Edge{From: e.From, To: e.To}] = true
					}
				}
			})
			r := ir.Reach(innerExit, map[*ssa.BasicBlock]bool{userStore.Block(): true}, blockedE)
			if innerExit == userStore.Block() {
				r = map[*ssa.BasicBlock]bool{}
			}
			if r[outerHdr] {
				why = "the SetByUser flag can stay unset for a container that received command-line values (extra guard)"
			} else {
				okUser = true
			}
		}
		c.Check(okUser, key+":sets-user-flag", fn.Pos(), "*ValueSetByUser = true for every filled container whose pointer is non-nil", why)
		// who-may-write: no other store through a ValueSetByUser pointer, no store of true to ValueSetFromEnv elsewhere
		var others []string
		for _, f := range c.ClosureFuncsDeep() {
			ir.Instrs(f, func(in ssa.Instruction) {
				st, ok := in.(*ssa.Store)
				if !ok || st == userStore {
					return
				}
				if ld, isLd := st.Addr.(*ssa.UnOp); isLd {
					if _, ok := fieldOf(ld, "ValueSetByUser"); ok {
						others = append(others, Q(f)+" at "+c.P.Pos(st.Pos()))
					}
					if _, ok := fieldOf(ld, "SetByUser"); ok {
						others = append(others, Q(f)+" at "+c.P.Pos(st.Pos()))
					}
				}
			})
		}
		c.Check(len(others) == 0, "writers(*ValueSetByUser)", token.NoPos, "the filler is the only code writing through a SetByUser pointer", "also written by: "+strings.Join(others, "; "))
	}
}

// flagFollowsStrip: the flag value stored after a join is `true` exactly on the ways in on which the
// vector is the stripped one, and the flag as it was on the others (the shape a helper returning
// (vector, flag) leaves once inlined).
func flagFollowsStrip(flag ssa.Value, vec ssa.Value, strip *ssa.Slice) bool {
	fp, ok1 := flag.(*ssa.Phi)
	vp, ok2 := vec.(*ssa.Phi)
	if !ok1 || !ok2 || fp.Block() != vp.Block() || len(fp.Edges) != len(vp.Edges) {
		return false
	}
	sawTrue := false
	for i, fe := range fp.Edges {
		stripped := vp.Edges[i] == ssa.Value(strip)
		if b, isC := ir.ConstBool(fe); isC {
			if !b || !stripped {
				return false // never cleared; set only with the strip
			}
			sawTrue = true
			continue
		}
		// the flag as it was
		if _, f, isF := ir.FieldLoad(fe); !isF || f != "RejectOptions" || stripped {
			return false
		}
	}
	return sawTrue
}

func fsm7(c *Ctx) {
	fn, match := c.matcherLoop()
	if fn == nil {
		c.Undecided("anchor:matcher-loop", token.NoPos, "not found")
		return
	}
	c.Mark(fn)
	key := Q(fn)
	recv := fn.Params[0]
	var args *ssa.Parameter
	for _, p := range fn.Params {
		if sl, ok := p.Type().Underlying().(*types.Slice); ok {
			if b, isB := sl.Elem().Underlying().(*types.Basic); isB && b.Kind() == types.String {
				args = p
			}
		}
	}
	if args == nil {
		c.Undecided(key+":vector", fn.Pos(), "no []string parameter")
		return
	}
	vec := match.Call.Args[0]
	// (a) strip
	var problems []string
	var strip *ssa.Slice
	switch v := vec.(type) {
	case *ssa.Parameter:
		problems = append(problems, "a leading `--` is never dropped")
	case *ssa.Phi:
		for _, e := range v.Edges {
			if e == ssa.Value(args) {
				continue
			}
			sl, ok := e.(*ssa.Slice)
			if !ok || sl.X != ssa.Value(args) || sl.High != nil {
				problems = append(problems, "the vector handed to the matchers is not args or args[1:]")
				continue
			}
			if lo, isC := ir.ConstInt(sl.Low); !isC || lo != 1 {
				problems = append(problems, "more or fewer than one token is dropped")
				continue
			}
			strip = sl
		}
	default:
		problems = append(problems, "the vector handed to the matchers is not derived from the parameter by the `--` strip")
	}
	if strip != nil {
		// guards: !pc.RejectOptions and args[0] == "--"
		okFlagGuard, okTokGuard, okStore := false, false, false
		ir.Instrs(fn, func(in ssa.Instruction) {
			switch x := in.(type) {
			case *ssa.UnOp:
				if _, f, ok := ir.FieldLoad(x); ok && f == "RejectOptions" && ir.HoldsAt(x, false, strip.Block()) {
					okFlagGuard = true
				}
			case *ssa.BinOp:
				if s, isC := ir.ConstString(x.Y); isC && s == "--" && ((x.Op == token.EQL && ir.HoldsAt(x, true, strip.Block())) || (x.Op == token.NEQ && ir.HoldsAt(x, false, strip.Block()))) {
					if ld, isLd := x.X.(*ssa.UnOp); isLd {
						if ia, isIA := ld.X.(*ssa.IndexAddr); isIA && ia.X == ssa.Value(args) {
							if z, isZ := ir.ConstInt(ia.Index); isZ && z == 0 {
								okTokGuard = true
							}
						}
					}
				}
			case *ssa.Store:
				if _, f, ok := ir.FieldAddr(x.Addr); ok && f == "RejectOptions" {
					if v, isC := ir.ConstBool(x.Val); isC && v && x.Block() == strip.Block() {
						okStore = true
					}
					if flagFollowsStrip(x.Val, vec, strip) {
						okStore = true
					}
				}
			}
		})
		if !okFlagGuard {
			problems = append(problems, "a `--` is dropped even after options were ended (a second `--` must stay for the positional matcher)")
		}
		if !okTokGuard {
			problems = append(problems, "the dropped token is not tested to be `--` at position 0")
		}
		if !okStore {
			problems = append(problems, "dropping `--` does not set the options-ended flag")
		}
	}
	if len(problems) > 0 {
		c.Bad(key+":strip", fn.Pos(), "%s", strings.Join(problems, "; "))
	} else {
		c.OK(key+":strip", strip.Pos(), "only the first `--` met while options are not ended is dropped; it sets the flag; exactly one token goes")
	}
	// the flag store must only happen with the strip
	okOnly := true
	ir.Instrs(fn, func(in ssa.Instruction) {
		if st, ok := in.(*ssa.Store); ok {
			if _, f, isF := ir.FieldAddr(st.Addr); isF && f == "RejectOptions" {
				if al, isAl := st.Addr.(*ssa.FieldAddr).X.(*ssa.Alloc); isAl && al.Comment == "pc" {
					if strip == nil || (st.Block() != strip.Block() && !flagFollowsStrip(st.Val, vec, strip)) {
						okOnly = false
					}
				}
			}
		}
	})
	c.Check(okOnly, key+":flag-only-with-strip", fn.Pos(), "the caller's options-ended flag is set only together with the strip", "the options-ended flag is set without a `--` being dropped")
	// (b) accept test on the same value: every terminal accept
	okAcc := true
	nAcc := 0
	why := ""
	for _, r := range ir.ReturnPoints(fn) {
		if _, isC := ir.ConstBool(r.Results[0]); !isC {
			// a computed verdict (`return s.Terminal && len(x) == 0`): an accept whenever it is true
			nAcc++
			good := false
			if bo, ok := r.Results[0].(*ssa.BinOp); ok && bo.Op == token.EQL {
				if z, isZ := ir.ConstInt(bo.Y); isZ && z == 0 {
					if lc, isCall := bo.X.(*ssa.Call); isCall {
						if b, isB := lc.Call.Value.(*ssa.Builtin); isB && b.Name() == "len" && lc.Call.Args[0] == vec {
							good = true
						}
					}
				}
			}
			if !good {
				okAcc = false
				why = fmt.Sprintf("the computed verdict returned at %s is not `the vector handed to Match is empty`: a trailing `--` is not transparent (or input is accepted with tokens left)", c.P.Pos(r.Pos()))
			}
			continue
		}
		if v, _ := ir.ConstBool(r.Results[0]); !v {
			continue
		}
		// terminal accept = a true return guarded by the state's Terminal flag
		isTerm := false
		ir.Instrs(fn, func(in ssa.Instruction) {
			if tv, ok := in.(ssa.Value); ok {
				if b, isT := fieldOf(tv, "Terminal"); isT && b == ssa.Value(recv) && r.Holds(tv, true) {
					isTerm = true
				}
			}
		})
		if !isTerm {
			continue
		}
		nAcc++
		good := false
		ir.Instrs(fn, func(in ssa.Instruction) {
			bo, ok := in.(*ssa.BinOp)
			if !ok || bo.Op != token.EQL {
				return
			}
			if z, isC := ir.ConstInt(bo.Y); !isC || z != 0 {
				return
			}
			lc, isCall := bo.X.(*ssa.Call)
			if !isCall {
				return
			}
			if b, isB := lc.Call.Value.(*ssa.Builtin); !isB || b.Name() != "len" {
				return
			}
			if lc.Call.Args[0] == vec && r.Holds(bo, true) {
				good = true
			}
		})
		if !good {
			okAcc = false
			why = fmt.Sprintf("the terminal accept at %s does not test emptiness of the vector that is handed to Match: a trailing `--` is not transparent (or input is accepted with tokens left)", c.P.Pos(r.Pos()))
		}
	}
	if nAcc == 0 {
		okAcc, why = false, "no terminal accept"
	}
	c.Check(okAcc, key+":accept-on-matcher-vector", fn.Pos(), "acceptance at a terminal state tests the very vector the matchers see (after the `--` strip)", why)
}

// ---- FSM-8 ----

type consumeKind struct {
	kind string // consuming | env-fallback | non-consuming
	pos  token.Pos
}

// matchReturns classifies the returns of a Match-like function fn whose
// verdict is result 0 and whose vector is the last result. argsParam is the
// vector parameter.
func (c *Ctx) matchReturns(fn *ssa.Function, depth int, memo map[*ssa.Function][]consumeKind) []consumeKind {
	if r, ok := memo[fn]; ok {
		return r
	}
	memo[fn] = nil
	var out []consumeKind
	var args *ssa.Parameter
	for _, p := range fn.Params {
		if sl, ok := p.Type().Underlying().(*types.Slice); ok {
			if b, isB := sl.Elem().Underlying().(*types.Basic); isB && b.Kind() == types.String {
				args = p
				break
			}
		}
	}
	add := func(k string, pos token.Pos) { out = append(out, consumeKind{k, pos}) }
	for _, r := range ir.ReturnPoints(fn) {
		verdict := r.Results[0]
		vec := r.Results[len(r.Results)-1]
		if v, isC := ir.ConstBool(verdict); isC && !v {
			continue
		}
		envVerdict := false
		if _, f, ok := ir.FieldLoad(verdict); ok && f == "ValueSetFromEnv" {
			envVerdict = true
		}
		var classify func(v ssa.Value, seen map[ssa.Value]bool)
		classify = func(v ssa.Value, seen map[ssa.Value]bool) {
			if seen[v] {
				return
			}
			seen[v] = true
			switch x := v.(type) {
			case *ssa.Parameter:
				if x == args {
					if envVerdict {
						add("env-fallback", r.Pos())
					} else {
						add("non-consuming", r.Pos())
					}
				} else {
					add("non-consuming", r.Pos())
				}
			case *ssa.Phi:
				for _, e := range x.Edges {
					classify(e, seen)
				}
			case *ssa.Slice:
				if lo, isC := ir.ConstInt(x.Low); x.Low != nil && isC && lo >= 1 {
					add("consuming", r.Pos())
				} else {
					classify(x.X, seen)
				}
			case *ssa.Extract:
				call, ok := x.Tuple.(*ssa.Call)
				if !ok {
					add("non-consuming", r.Pos())
					return
				}
				callee := ir.Static(call)
				if callee == nil || depth <= 0 {
					add("non-consuming", r.Pos())
					return
				}
				c.Mark(callee)
				sub := c.matchReturns(callee, depth-1, memo)
				if callee == fn || (len(sub) == 0 && memo[callee] == nil) {
					// recursion / in progress: the values come from other returns already classified
					return
				}
				// the sub-call's vector is only used when its verdict was true on this path?
				for _, k := range sub {
					out = append(out, consumeKind{k.kind, r.Pos()})
				}
			case *ssa.Call:
				callee := ir.Static(x)
				if callee != nil && rebuildsVector(callee) {
					add("consuming", r.Pos())
				} else {
					add("non-consuming", r.Pos())
				}
			case *ssa.MakeSlice:
				add("consuming", r.Pos())
			default:
				add("non-consuming", r.Pos())
			}
		}
		classify(vec, map[ssa.Value]bool{})
	}
	memo[fn] = out
	return out
}

// rebuildsVector: helper that returns a freshly made []string (token surgery).
func rebuildsVector(f *ssa.Function) bool {
	rs := ir.ReturnPoints(f)
	if len(rs) == 0 {
		return false
	}
	for _, r := range rs {
		v := stripConv(r.Results[0])
		switch x := v.(type) {
		case *ssa.MakeSlice:
		case *ssa.Call:
			if cf := ir.Static(x); cf == nil || !rebuildsVector(cf) {
				return false
			}
		default:
			return false
		}
	}
	return true
}

func fsm8(c *Ctx) {
	loop, _ := c.matcherLoop()
	if loop == nil {
		c.Undecided("anchor:matcher-loop", token.NoPos, "not found")
		return
	}
	mi := c.TypeNamed("internal/matcher", "Matcher")
	if mi == nil {
		c.Undecided("anchor:matcher.Matcher", token.NoPos, "interface not found")
		return
	}
	iface := mi.Underlying().(*types.Interface)
	// does the loop cut non-progress? look for a comparison of len(rem) with len(args) guarding the recursion
	// (none today; if one is added the rule must be revisited: undecided)
	// eliminated types: those asserted by IsShortcut
	eliminated := map[string]bool{}
	if is := c.fnOpt("internal/matcher", "IsShortcut"); is != nil {
		ir.Instrs(is, func(in ssa.Instruction) {
			if ta, ok := in.(*ssa.TypeAssert); ok {
				_, n := ir.NamedOf(ta.AssertedType)
				eliminated[n] = true
			}
		})
	}
	memo := map[*ssa.Function][]consumeKind{}
	for _, pk := range c.P.Closure {
		scope := pk.Types.Scope()
		for _, name := range scope.Names() {
			tn, ok := scope.Lookup(name).(*types.TypeName)
			if !ok {
				continue
			}
			for _, t := range []types.Type{tn.Type(), types.NewPointer(tn.Type())} {
				if _, isI := tn.Type().Underlying().(*types.Interface); isI {
					continue
				}
				if !types.Implements(t, iface) {
					continue
				}
				sel := c.P.SSA.MethodSets.MethodSet(t).Lookup(pk.Types, "Match")
				if sel == nil {
					continue
				}
				fn := c.P.SSA.MethodValue(sel)
				if fn == nil || fn.Synthetic != "" {
					continue
				}
				c.Mark(fn)
				base := fmt.Sprintf("%s<-%s", Q(loop), Q(fn))
				kinds := c.matchReturns(fn, 3, memo)
				by := map[string]token.Pos{}
				for _, k := range kinds {
					if _, ok := by[k.kind]; !ok {
						by[k.kind] = k.pos
					}
				}
				if eliminated[tn.Name()] {
					mk := len(c.Obs)
					c.OK(base+"[eliminated]", fn.Pos(), "transitions of this matcher are removed by shortcut elimination before any parse (FSM-1)")
					c.Scope(mk, "C03")
					break
				}
				reported := false
				for _, kind := range []string{"env-fallback", "non-consuming"} {
					if pos, ok := by[kind]; ok {
						reported = true
						mk := len(c.Obs)
						c.Bad(base+"["+kind+"]", pos, "Match can succeed returning its input vector unchanged; fsm.apply recurses on the next state with the same vector and nothing bounds a cycle through such matchers (unbounded recursion)")
						if kind != "env-fallback" {
							c.Scope(mk, "C03") // not related to environment values
						}
					}
				}
				if !reported {
					mk := len(c.Obs)
					if _, ok := by["consuming"]; ok {
						c.OK(base, fn.Pos(), "every successful return hands back a proper suffix or a rebuilt, smaller vector")
					} else {
						c.Undecided(base, fn.Pos(), "no successful return recognised")
					}
					c.Scope(mk, "C03")
				}
				break
			}
		}
	}
}

// isContainerMap: map[*container.Container][]string
func isContainerMap(t types.Type) bool {
	m, ok := t.Underlying().(*types.Map)
	if !ok {
		return false
	}
	if !isStringSlice(m.Elem()) {
		return false
	}
	p, isP := m.Key().(*types.Pointer)
	if !isP {
		return false
	}
	n, isN := p.Elem().(*types.Named)
	return isN && n.Obj().Name() == "Container"
}

// isEmptyMake: make([]T, 0, n) -- a fresh slice without elements.
func isEmptyMake(v ssa.Value) bool {
	ms, ok := v.(*ssa.MakeSlice)
	if !ok {
		return false
	}
	k, isK := ms.Len.(*ssa.Const)
	return isK && k.Value != nil && k.Int64() == 0
}
