package rules

import (
	"fmt"
	"go/token"
	"go/types"
	"sort"
	"strings"

	"golang.org/x/tools/go/ssa"

	"verif/checker/internal/ir"
)

func init() {
	register(&Rule{ID: "CMD-1", Props: []string{"C04", "C07", "C13", "C19", "C05", "C01", "C09", "C10", "C11"}, Floor: 3,
		Doc: "rejection funnel: every error return of the dispatch function is preceded by the error and the usage on stdErr and then by the policy switch with that error on the rejecting command; no hook ran; callers propagate the result unchanged", Run: cmd1})
	register(&Rule{ID: "CMD-2", Props: []string{"C05", "C07", "C14"}, Floor: 9,
		Doc: "policy switch, evaluated for 3 error classes x 3 policies: sentinels exit 0 / return; errors exit 2 / panic(err) / return; exiter and os.Exit appear nowhere else", Run: cmd2})
	register(&Rule{ID: "CMD-3", Props: []string{"C14", "C17"}, Floor: 4,
		Doc: "help first: validation and hooks are unreachable once the help scan found a token; the help branch prints the long help, signals the sentinel and returns nil", Run: cmd3})
	register(&Rule{ID: "CMD-4", Props: []string{"C14", "C09", "C10", "C03"}, Floor: 3,
		Doc: "help scan: index of the first -h/--help, -1 at the first `--` (unconditionally, inside the loop) or at the end", Run: cmd4})
	register(&Rule{ID: "CMD-5", Props: []string{"C14", "C04"}, Floor: 4,
		Doc: "version: tested before anything else, only on args[0] under a length guard against the declared version option's names; prints, signals the sentinel, returns nil", Run: cmd5})
	register(&Rule{ID: "CMD-6", Props: []string{"C04", "C14", "C07", "C10", "C02", "C15", "C09", "C01"}, Floor: 4,
		Doc: "routing: a child is entered only after doInit (error: panic) and isAlias(token) on that child, with exactly the tokens after the alias; the level's own tokens args[:n] are validated first (except on the help descent); fsm is assigned only in doInit", Run: cmd6})
	register(&Rule{ID: "CMD-7", Props: []string{"C04", "C10"}, Floor: 3,
		Doc: "level split: number of tokens before the first alias of a direct sub-command; isAlias ranges over all aliases; aliases = strings.Fields(name)", Run: cmd7})
	register(&Rule{ID: "CMD-8", Props: []string{"C04", "C05", "C07", "C01"}, Floor: 1,
		Doc: "one start: a single Step.Run call, outside loops, on the entry step with nil, only when no token is left and an Action exists, followed by return nil", Run: cmd8})
	register(&Rule{ID: "CMD-9", Props: []string{"C07", "C08"}, Floor: 4,
		Doc: "spec errors are fatal: every doInit() result is compared with nil and panicked on the non-nil edge", Run: cmd9})
	register(&Rule{ID: "CMD-10", Props: []string{"C04", "C16", "C08", "C03", "C01"}, Floor: 6,
		Doc: "implicit spec: Spec is written only in doInit, only when empty: \"[OPTIONS] \" iff an option exists, then each argument name + blank in list order; the scanner and the parser get that Spec and the command's own declarations; the result is stored in fsm", Run: cmd10})
	register(&Rule{ID: "CMD-11", Props: []string{"C07", "C14", "C17"}, Floor: 10,
		Doc: "output discipline: every Fprint* of the root package goes to stdErr/stdOut or a writer built on them; no Print*, no os.Stdout/os.Stderr outside the initialisers", Run: cmd11})
	register(&Rule{ID: "CMD-12", Props: []string{"C03", "C07", "C14"}, Floor: 2,
		Doc: "every Cmd literal initialises both index maps; Command copies the parent's ErrorHandling", Run: cmd12})
}

// ---------- anchors of the root package ----------

// dispatch returns the methods of Cmd that call (*fsm.State).Parse.
func (c *Ctx) dispatch() *ssa.Function {
	parse := c.fnOpt("internal/fsm", "State.Parse")
	for _, fn := range c.pkgFuncsDeep("") {
		if fn.Signature.Recv() == nil || !c.isNamed(fn.Signature.Recv().Type(), "", "Cmd") {
			continue
		}
		for _, call := range ir.Calls(fn) {
			if ir.Static(call) == parse && parse != nil {
				return fn
			}
		}
	}
	return nil
}

// exiterGlobal returns the package variable holding the exit indirection: the
// global of func(int) type whose initialiser calls os.Exit.
func (c *Ctx) exiterGlobal() *ssa.Global {
	sp := c.P.SPkg("")
	for _, m := range sp.Members {
		g, ok := m.(*ssa.Global)
		if !ok {
			continue
		}
		sig, isSig := g.Type().(*types.Pointer).Elem().Underlying().(*types.Signature)
		if !isSig || sig.Params().Len() != 1 || sig.Results().Len() != 0 {
			continue
		}
		return g
	}
	return nil
}

func isLoadOfGlobal(v ssa.Value, g *ssa.Global) bool {
	ld, ok := v.(*ssa.UnOp)
	return ok && ld.Op == token.MUL && ld.X == ssa.Value(g)
}

// policyFn returns the function(s) of cli that call the exiter variable.
func (c *Ctx) policyFn() *ssa.Function {
	g := c.exiterGlobal()
	if g == nil {
		return nil
	}
	var out []*ssa.Function
	for _, fn := range c.pkgFuncsDeep("") {
		for _, call := range ir.Calls(fn) {
			if isLoadOfGlobal(call.Common().Value, g) {
				out = append(out, fn)
				break
			}
		}
	}
	if len(out) == 1 {
		return out[0]
	}
	return nil
}

func (c *Ctx) rootGlobal(name string) *ssa.Global {
	if g, ok := c.P.SPkg("").Members[name].(*ssa.Global); ok {
		return g
	}
	return rootGlobalAlias[name]
}

// varargElems returns the values stored into the array behind a variadic
// argument slice, with interface boxing stripped.
func varargElems(v ssa.Value) []ssa.Value {
	sl, ok := v.(*ssa.Slice)
	if !ok {
		return nil
	}
	al, ok := sl.X.(*ssa.Alloc)
	if !ok {
		return nil
	}
	var out []ssa.Value
	for _, u := range *al.Referrers() {
		if ia, isIA := u.(*ssa.IndexAddr); isIA {
			for _, uu := range *ia.Referrers() {
				if st, isSt := uu.(*ssa.Store); isSt && st.Addr == ia {
					out = append(out, ir.Unwrap(st.Val))
				}
			}
		}
	}
	return out
}

// isHelpCallOn: call reaches printHelp on receiver recv (PrintHelp/PrintLongHelp/printHelp).
func (c *Ctx) isHelpCallOn(in ssa.Instruction, recv ssa.Value) (long bool, ok bool) {
	call, isCall := in.(*ssa.Call)
	if !isCall {
		return false, false
	}
	f := ir.Static(call)
	ph := c.fnOpt("", "Cmd.printHelp")
	if f == nil || ph == nil || len(call.Call.Args) == 0 || call.Call.Args[0] != recv {
		return false, false
	}
	if f == ph {
		b, isC := ir.ConstBool(call.Call.Args[1])
		return b, isC
	}
	// wrappers: a single call to printHelp with a constant
	for _, inner := range ir.Calls(f) {
		if ir.Static(inner) == ph && len(ir.Calls(f)) == 1 && inner.Common().Args[0] == ssa.Value(f.Params[0]) {
			b, isC := ir.ConstBool(inner.Common().Args[1])
			return b, isC
		}
	}
	return false, false
}

func cmd1(c *Ctx) {
	fn := c.dispatch()
	policy := c.policyFn()
	stdErr := c.rootGlobal("stdErr")
	if fn == nil || policy == nil || stdErr == nil {
		c.Undecided("anchor:dispatch/policy/stdErr", token.NoPos, "dispatch function, policy switch or stdErr variable not found")
		return
	}
	c.Mark(fn)
	c.Mark(policy)
	recv := fn.Params[0]
	stepRun := c.fnOpt("internal/flow", "Step.Run")
	// error-stream writes
	type write struct {
		call *ssa.Call
		args []ssa.Value
	}
	var writes []write
	for _, call := range ir.Calls(fn) {
		cv, ok := call.(*ssa.Call)
		if !ok {
			continue
		}
		f := ir.Static(cv)
		if f == nil || f.Object() == nil || f.Object().Pkg() == nil || f.Object().Pkg().Path() != "fmt" || !strings.HasPrefix(f.Name(), "Fprint") {
			continue
		}
		if !isLoadOfGlobal(cv.Call.Args[0], stdErr) {
			continue
		}
		writes = append(writes, write{cv, varargElems(cv.Call.Args[len(cv.Call.Args)-1])})
	}
	n := 0
	for _, r := range ir.ReturnPoints(fn) {
		v := r.Results[0]
		if ir.IsNilConst(v) {
			continue
		}
		if call, ok := v.(*ssa.Call); ok && ir.Static(call) == fn {
			continue // propagated unchanged from a deeper frame
		}
		// one obligation per error source
		type src struct {
			err  ssa.Value
			pred *ssa.BasicBlock // nil = the return block itself
		}
		var srcs []src
		if phi, ok := v.(*ssa.Phi); ok {
			for i, e := range phi.Edges {
				srcs = append(srcs, src{e, phi.Block().Preds[i]})
			}
		} else {
			srcs = append(srcs, src{v, nil})
		}
		for _, s := range srcs {
			n++
			what := "error"
			if call, ok := s.err.(*ssa.Call); ok {
				if f := ir.Static(call); f != nil {
					what = f.Name()
					if ms, isS := ir.ConstString(call.Call.Args[0]); isS {
						what += "(" + firstWords(ms, 3) + ")"
					}
				}
			}
			key := fmt.Sprintf("%s:reject[%s]", Q(fn), what)
			var problems []string
			// policy call with the returned value on the receiver
			var pcall *ssa.Call
			for _, call := range ir.Calls(fn) {
				cv, ok := call.(*ssa.Call)
				if ok && ir.Static(cv) == policy && cv.Call.Args[0] == ssa.Value(recv) && cv.Call.Args[1] == v {
					if ir.MustPassBefore(r.Anchor(), func(in ssa.Instruction) bool { return in == ssa.Instruction(cv) }) {
						pcall = cv
					}
				}
			}
			if pcall == nil {
				problems = append(problems, "the error is returned without the policy switch having been called with it on the rejecting command")
			}
			anchor := r.Anchor()
			if pcall != nil {
				anchor = pcall
			}
			// usage before the policy
			okUsage := ir.MustPassBefore(anchor, func(in ssa.Instruction) bool { _, ok := c.isHelpCallOn(in, recv); return ok })
			if !okUsage {
				problems = append(problems, "the usage of the rejecting command is not printed before the policy is applied")
			}
			// error text before the policy, on this source's path
			okWrite := false
			for _, w := range writes {
				dep, depPhi := false, false
				for _, a := range w.args {
					if ir.DependsOn(a, s.err) {
						dep = true
					}
					if s.pred != nil && ir.DependsOn(a, v) {
						depPhi = true
					}
				}
				if !dep && !depPhi {
					continue
				}
				onPath := false
				if s.pred != nil && depPhi {
					// written after the join, from the merged error value itself
					onPath = ir.MustPassBefore(anchor, func(in ssa.Instruction) bool { return in == ssa.Instruction(w.call) })
				} else if s.pred != nil {
					onPath = w.call.Block() == s.pred || w.call.Block().Dominates(s.pred)
				} else {
					onPath = ir.MustPassBefore(anchor, func(in ssa.Instruction) bool { return in == ssa.Instruction(w.call) })
				}
				if onPath {
					okWrite = true
				}
			}
			if !okWrite {
				problems = append(problems, "the error text is not written to stdErr before the policy is applied")
			}
			// no hook ran before
			if stepRun != nil {
				for _, call := range ir.Calls(fn) {
					if ir.Static(call) == stepRun {
						if call.Block() == r.Block() || ir.Reach(call.Block(), nil, nil)[r.Block()] && call.Block() != r.Block() {
							problems = append(problems, "a hook chain may have been started before this rejection")
						}
					}
				}
			}
			if len(problems) > 0 {
				c.Bad(key, r.Pos(), "%s", strings.Join(problems, "; "))
			} else {
				c.OK(key, r.Pos(), "stdErr gets the error and the usage, then onError(err) runs on the rejecting command, then the error is returned; no Step.Run precedes")
			}
			// whether a level's tokens are acceptable is the automaton's verdict alone: a rejection is either
			// the automaton's own error or comes after the automaton accepted (no such sub-command)
			var fsmParse *ssa.Call
			for _, call := range ir.Calls(fn) {
				if cv, ok := call.(*ssa.Call); ok {
					if f := ir.Static(cv); f != nil && f.Name() == "Parse" && f.Pkg != nil && c.P.Rel(f.Pkg.Pkg.Path()) == "internal/fsm" {
						fsmParse = cv
					}
				}
			}
			okV := fsmParse != nil && (ir.DependsOn(s.err, fsmParse) || errCmpH(fsmParse, r.Holds, true))
			c.Check(okV, fmt.Sprintf("%s:verdict[%s]", Q(fn), what), r.Pos(), "the rejection is the automaton's error, or follows its acceptance of the level's tokens",
				"the level rejects its tokens on a test of its own, not on the automaton's verdict: a command line the spec accepts can be refused")
		}
	}
	if n == 0 {
		c.Bad(Q(fn)+":reject", fn.Pos(), "the dispatch function has no rejection return at all")
	}
	// the converse: once the policy switch was applied to a real error (not one of the two sentinels, not
	// nil), every return that can follow hands that error to the caller
	for _, call := range ir.Calls(fn) {
		cv, ok := call.(*ssa.Call)
		if !ok || ir.Static(cv) != policy || len(cv.Call.Args) < 2 {
			continue
		}
		e := cv.Call.Args[1]
		if ir.IsNilConst(e) {
			continue
		}
		if ld, isLd := e.(*ssa.UnOp); isLd {
			if _, isG := ld.X.(*ssa.Global); isG {
				continue // errHelpRequested / errVersionRequested
			}
		}
		bad := false
		check := func(ret *ssa.Return) {
			if len(ret.Results) != 1 || ret.Results[0] != e {
				bad = true
			}
		}
		after := false
		for _, in := range cv.Block().Instrs {
			if in == ssa.Instruction(cv) {
				after = true
				continue
			}
			if ret, isRet := in.(*ssa.Return); isRet && after {
				check(ret)
			}
		}
		for _, sc := range cv.Block().Succs {
			for b := range ir.Reach(sc, nil, nil) {
				if ir.IsReturn(b) {
					check(b.Instrs[len(b.Instrs)-1].(*ssa.Return))
				}
			}
		}
		c.Check(!bad, fmt.Sprintf("%s:rejected=>returned@%s", Q(fn), relLine(c, fn, cv.Pos())), cv.Pos(), "after the policy switch was applied to an error, that error is what the function returns", "an error handed to the policy switch is not returned to the caller (under ContinueOnError the rejection would look like success)")
	}
	// an accepting return never calls the policy with a real error: covered by CMD-2/CMD-3.
	// callers propagate
	for _, name := range []string{"Cli.parse", "Cli.Run"} {
		f := c.fnOpt("", name)
		if f == nil {
			c.Undecided("anchor:"+name, token.NoPos, "not found")
			continue
		}
		c.Mark(f)
		ok := true
		why := ""
		if f.Recover != nil {
			ok, why = false, "the function installs a defer/recover: panics are no longer re-raised unchanged and results may be rewritten"
		}
		ir.InstrsDeep(f, func(_ *ssa.Function, in ssa.Instruction) {
			if call, isCall := in.(ssa.CallInstruction); isCall {
				if b, isB := call.Common().Value.(*ssa.Builtin); isB && b.Name() == "recover" {
					ok, why = false, "calls recover()"
				}
			}
			if _, isDefer := in.(*ssa.Defer); isDefer {
				ok, why = false, "defers a call: results may be rewritten after the dispatch returned"
			}
		})
		for _, r := range ir.ReturnPoints(f) {
			v := r.Results[0]
			if ir.IsNilConst(v) {
				continue
			}
			call, isCall := v.(*ssa.Call)
			if !isCall || r.Block() != call.Block() {
				ok, why = false, "returns something other than nil or the delegate's result as is"
				continue
			}
			callee := ir.Static(call)
			if callee != fn && callee != c.fnOpt("", "Cli.parse") {
				ok, why = false, "returns the result of an unexpected call"
			}
		}
		c.Check(ok, Q(f)+":propagates", f.Pos(), "returns nil or the dispatch result unchanged; no recover", why)
	}
}

func firstWords(s string, n int) string {
	f := strings.Fields(s)
	if len(f) > n {
		f = f[:n]
	}
	return strings.Join(f, " ")
}

// ---------- CMD-2: scenario evaluation of the policy switch ----------

type polEvent struct {
	kind string // exit | panic | return
	code int64
	val  ssa.Value
}

func cmd2(c *Ctx) {
	fn := c.policyFn()
	g := c.exiterGlobal()
	if fn == nil || g == nil {
		c.Undecided("anchor:policy-switch", token.NoPos, "no single function calling the exiter variable")
		return
	}
	c.Mark(fn)
	help, vers := c.rootGlobal("errHelpRequested"), c.rootGlobal("errVersionRequested")
	if help == nil || vers == nil {
		c.Undecided("anchor:sentinels", token.NoPos, "sentinel errors not found")
		return
	}
	var errParam *ssa.Parameter
	for _, p := range fn.Params {
		if types.Identical(p.Type(), types.Universe.Lookup("error").Type()) {
			errParam = p
		}
	}
	if errParam == nil {
		c.Undecided(Q(fn), fn.Pos(), "no error parameter")
		return
	}
	policies := []struct {
		name string
		val  int64
	}{{"ContinueOnError", 0}, {"ExitOnError", 1}, {"PanicOnError", 2}}
	classes := []struct {
		name string
		g    *ssa.Global
	}{{"help", help}, {"version", vers}, {"error", nil}}
	for _, cl := range classes {
		for _, pol := range policies {
			key := fmt.Sprintf("%s[%s,%s]", Q(fn), cl.name, pol.name)
			evs, why := runPolicy(fn, g, errParam, cl.g, []*ssa.Global{help, vers}, pol.val)
			if why != "" {
				c.Undecided(key, fn.Pos(), "%s", why)
				continue
			}
			var want string
			switch {
			case cl.g != nil && pol.val == 1:
				want = "exit(0) return"
			case cl.g != nil:
				want = "return"
			case pol.val == 1:
				want = "exit(2) return"
			case pol.val == 2:
				want = "panic(err)"
			default:
				want = "return"
			}
			var got []string
			for _, e := range evs {
				switch e.kind {
				case "exit":
					got = append(got, fmt.Sprintf("exit(%d)", e.code))
				case "panic":
					if ir.Unwrap(e.val) == ssa.Value(errParam) {
						got = append(got, "panic(err)")
					} else {
						got = append(got, "panic(other)")
					}
				default:
					got = append(got, e.kind)
				}
			}
			g := strings.Join(got, " ")
			c.Check(g == want, key, fn.Pos(), "behaves as: "+g, fmt.Sprintf("behaves as %q, the documented policy is %q", g, want))
		}
	}
	// exiter is called nowhere else, and only stored into Step.Exiter
	var misuse []string
	for _, f := range c.ClosureFuncsDeep() {
		ir.Instrs(f, func(in ssa.Instruction) {
			ld, ok := in.(*ssa.UnOp)
			if !ok || ld.Op != token.MUL || ld.X != ssa.Value(g) {
				return
			}
			for _, u := range *ld.Referrers() {
				switch x := u.(type) {
				case *ssa.Store:
					if _, fld, isF := ir.FieldAddr(x.Addr); isF && fld == "Exiter" {
						continue
					}
					misuse = append(misuse, Q(f)+": stored at "+c.P.Pos(x.Pos()))
				case ssa.CallInstruction:
					if x.Common().Value == ssa.Value(ld) && f == fn {
						continue
					}
					misuse = append(misuse, Q(f)+": called/passed at "+c.P.Pos(x.Pos()))
				default:
					misuse = append(misuse, Q(f)+": used at "+c.P.Pos(u.Pos()))
				}
			}
		})
		for _, call := range ir.Calls(f) {
			if cf := ir.Static(call); cf != nil && ir.IsStdFunc(cf, "os", "Exit") {
				// allowed only in the initialiser closure of the exiter variable, or in a named function whose
				// only use in the program is to be stored into that variable by the package initialiser
				okInit := f.Parent() != nil && f.Parent().Name() == "init"
				if !okInit && f.Parent() == nil && f.Referrers() == nil {
					// a package-level function has no referrer list: look the uses up
					uses, storedToExiter := 0, 0
					for _, f2 := range c.ClosureFuncsDeep() {
						ir.Instrs(f2, func(in2 ssa.Instruction) {
							for _, op := range in2.Operands(nil) {
								if *op == ssa.Value(f) {
									uses++
									if st, isSt := in2.(*ssa.Store); isSt && st.Addr == ssa.Value(g) && f2.Name() == "init" {
										storedToExiter++
									}
								}
							}
						})
					}
					if init, _ := f.Pkg.Members["init"].(*ssa.Function); init != nil {
						ir.Instrs(init, func(in2 ssa.Instruction) {
							for _, op := range in2.Operands(nil) {
								if *op == ssa.Value(f) {
									uses++
									if st, isSt := in2.(*ssa.Store); isSt && st.Addr == ssa.Value(g) {
										storedToExiter++
									}
								}
							}
						})
					}
					okInit = uses > 0 && uses == storedToExiter
				}
				if !okInit {
					misuse = append(misuse, Q(f)+": os.Exit at "+c.P.Pos(call.Pos()))
				}
			}
		}
	}
	sort.Strings(misuse)
	c.Check(len(misuse) == 0, "uses(exiter, os.Exit)", g.Pos(), "the exit indirection is called only by the policy switch and handed only to flow steps; os.Exit appears only in its initialiser", strings.Join(misuse, "; "))
	// what the package initialiser stores there does exit: every path of that function calls os.Exit with
	// the function's own parameter
	{
		okExit, why := false, "the package initialiser does not store a function into the exit indirection"
		if init, _ := g.Pkg.Members["init"].(*ssa.Function); init != nil {
			ir.Instrs(init, func(in ssa.Instruction) {
				st, isSt := in.(*ssa.Store)
				if !isSt || st.Addr != ssa.Value(g) {
					return
				}
				var ef *ssa.Function
				switch v := st.Val.(type) {
				case *ssa.Function:
					ef = v
				case *ssa.MakeClosure:
					ef, _ = v.Fn.(*ssa.Function)
				}
				if ef != nil && ir.IsStdFunc(ef, "os", "Exit") {
					okExit = true // os.Exit itself
					return
				}
				if ef == nil || len(ef.Params) != 1 || len(ef.Blocks) == 0 {
					why = "the value stored into the exit indirection is not a function of the exit status"
					return
				}
				exits := map[*ssa.BasicBlock]bool{}
				for _, call := range ir.Calls(ef) {
					if f := ir.Static(call); f != nil && ir.IsStdFunc(f, "os", "Exit") && call.Common().Args[0] == ssa.Value(ef.Params[0]) {
						exits[call.Block()] = true
					}
				}
				okExit = len(exits) > 0
				if !exits[ef.Blocks[0]] {
					for b := range ir.Reach(ef.Blocks[0], exits, nil) {
						if ir.IsReturn(b) {
							okExit = false
						}
					}
				}
				if !okExit {
					why = "the function stored into the exit indirection can return without calling os.Exit with its argument: ExitOnError and cli.Exit would not end the process"
				}
			})
		}
		c.Check(okExit, "initialiser(exiter)", g.Pos(), "the exit indirection starts as a function that calls os.Exit with the status it is given, on every path", why)
	}
}

// runPolicy walks fn for one scenario. errIs is the sentinel the error equals (nil: none).
func runPolicy(fn *ssa.Function, exiter *ssa.Global, errParam *ssa.Parameter, errIs *ssa.Global, sentinels []*ssa.Global, policy int64) ([]polEvent, string) {
	var evs []polEvent
	b := fn.Blocks[0]
	var prev *ssa.BasicBlock
	steps := 0
	var evalBool func(v ssa.Value) (bool, bool)
	var evalInt func(v ssa.Value) (int64, bool)
	evalInt = func(v ssa.Value) (int64, bool) {
		if k, ok := ir.ConstInt(v); ok {
			return k, true
		}
		if _, f, ok := ir.FieldLoad(v); ok && f == "ErrorHandling" {
			return policy, true
		}
		if phi, ok := v.(*ssa.Phi); ok && prev != nil {
			for i, p := range phi.Block().Preds {
				if p == prev {
					return evalInt(phi.Edges[i])
				}
			}
		}
		if cv, ok := v.(*ssa.Convert); ok {
			return evalInt(cv.X)
		}
		if cv, ok := v.(*ssa.ChangeType); ok {
			return evalInt(cv.X)
		}
		return 0, false
	}
	// phiPrev records the predecessor at the time each block was entered
	entered := map[*ssa.BasicBlock]*ssa.BasicBlock{}
	evalBool = func(v ssa.Value) (bool, bool) {
		if k, ok := ir.ConstBool(v); ok {
			return k, true
		}
		switch x := v.(type) {
		case *ssa.UnOp:
			if x.Op == token.NOT {
				r, ok := evalBool(x.X)
				return !r, ok
			}
		case *ssa.Phi:
			p := entered[x.Block()]
			for i, pp := range x.Block().Preds {
				if pp == p {
					return evalBool(x.Edges[i])
				}
			}
		case *ssa.BinOp:
			if x.Op == token.EQL || x.Op == token.NEQ {
				// error comparisons
				var other ssa.Value
				if x.X == ssa.Value(errParam) {
					other = x.Y
				} else if x.Y == ssa.Value(errParam) {
					other = x.X
				}
				if other != nil {
					for _, s := range sentinels {
						if isLoadOfGlobal(other, s) {
							eq := errIs == s
							if x.Op == token.NEQ {
								eq = !eq
							}
							return eq, true
						}
					}
					if ir.IsNilConst(other) {
						eq := false // a rejection carries a non-nil error
						if x.Op == token.NEQ {
							eq = !eq
						}
						return eq, true
					}
					return false, false
				}
				a, oka := evalInt(x.X)
				bb, okb := evalInt(x.Y)
				if oka && okb {
					eq := a == bb
					if x.Op == token.NEQ {
						eq = !eq
					}
					return eq, true
				}
			}
		}
		return false, false
	}
	for {
		steps++
		if steps > 200 {
			return nil, "policy switch does not terminate within 200 blocks"
		}
		entered[b] = prev
		for _, in := range b.Instrs {
			switch x := in.(type) {
			case *ssa.Call:
				if isLoadOfGlobal(x.Call.Value, exiter) {
					prevSave := prev
					prev = entered[b]
					code, ok := evalInt(x.Call.Args[0])
					prev = prevSave
					if !ok {
						return nil, "exit status is not a constant on this path"
					}
					evs = append(evs, polEvent{kind: "exit", code: code})
				} else if bi, isB := x.Call.Value.(*ssa.Builtin); isB && (bi.Name() == "len") {
				} else {
					return nil, fmt.Sprintf("unexpected call in the policy switch: %s", x)
				}
			case *ssa.Panic:
				evs = append(evs, polEvent{kind: "panic", val: x.X})
				return evs, ""
			case *ssa.Return:
				evs = append(evs, polEvent{kind: "return"})
				return evs, ""
			case *ssa.Store, *ssa.MapUpdate, *ssa.Go, *ssa.Defer, *ssa.Send:
				return nil, fmt.Sprintf("unexpected effect in the policy switch: %s", x)
			case *ssa.If:
				prev = entered[b]
				t, ok := evalBool(x.Cond)
				if !ok {
					return nil, fmt.Sprintf("condition %s cannot be evaluated for this scenario", x.Cond)
				}
				next := b.Succs[1]
				if t {
					next = b.Succs[0]
				}
				prev = b
				b = next
			case *ssa.Jump:
				prev = b
				b = b.Succs[0]
			}
		}
	}
}

// helpScan returns the function of cli whose body compares tokens with "-h" and "--help".
func (c *Ctx) helpScan() *ssa.Function {
	for _, fn := range c.pkgFuncsDeep("") {
		if fn.Signature.Results().Len() != 1 {
			continue
		}
		if b, ok := fn.Signature.Results().At(0).Type().(*types.Basic); !ok || b.Kind() != types.Int {
			continue
		}
		h, hh := false, false
		ir.Instrs(fn, func(in ssa.Instruction) {
			for _, op := range in.Operands(nil) {
				if s, ok := ir.ConstString(*op); ok {
					if s == "-h" {
						h = true
					}
					if s == "--help" {
						hh = true
					}
				}
			}
		})
		if !(h && hh) {
			// the two names kept in a read-only package-level table
			ir.Instrs(fn, func(in ssa.Instruction) {
				if ld, ok := in.(*ssa.UnOp); ok && ld.Op == token.MUL {
					if g, isG := ld.X.(*ssa.Global); isG && (isStringSlice(ld.Type()) || isStringArray(ld.Type())) {
						if ss, okT := globalTableStrings(c, g); okT {
							for _, s := range ss {
								if s == "-h" {
									h = true
								}
								if s == "--help" {
									hh = true
								}
							}
						}
					}
				}
			})
		}
		if h && hh {
			return fn
		}
	}
	return nil
}

func cmd3(c *Ctx) {
	fn := c.dispatch()
	scan := c.helpScan()
	policy := c.policyFn()
	if fn == nil || scan == nil || policy == nil {
		c.Undecided("anchor:dispatch/help-scan", token.NoPos, "not found")
		return
	}
	c.Mark(fn)
	recv := fn.Params[0]
	var args *ssa.Parameter
	for _, p := range fn.Params {
		if isStringSlice(p.Type()) {
			args = p
		}
	}
	var h *ssa.Call
	for _, call := range ir.Calls(fn) {
		if cv, ok := call.(*ssa.Call); ok && ir.Static(cv) == scan {
			h = cv
		}
	}
	if h == nil || h.Block() != fn.Blocks[0] {
		c.Bad(Q(fn)+":scan-first", fn.Pos(), "the help scan is not made on entry of the dispatch function")
		return
	}
	okArgs := false
	for _, a := range h.Call.Args {
		if a == ssa.Value(args) {
			okArgs = true
		}
	}
	c.Check(okArgs && (scan.Signature.Recv() == nil || h.Call.Args[0] == ssa.Value(recv)), Q(fn)+":scan-first", h.Pos(), "the help scan runs first, on the remaining arguments of this level", "the help scan is not applied to this level's remaining arguments")
	// "found" predicate: h >= 0 (or variants)
	foundAt := func(b *ssa.BasicBlock, want bool) bool {
		for _, u := range *h.Referrers() {
			bo, ok := u.(*ssa.BinOp)
			if !ok {
				continue
			}
			z, isC := ir.ConstInt(bo.Y)
			if !isC {
				continue
			}
			switch {
			case bo.Op == token.GEQ && z == 0, bo.Op == token.GTR && z == -1, bo.Op == token.NEQ && z == -1:
				if ir.HoldsAt(bo, want, b) {
					return true
				}
			case bo.Op == token.LSS && z == 0, bo.Op == token.EQL && z == -1:
				if ir.HoldsAt(bo, !want, b) {
					return true
				}
			}
		}
		return false
	}
	parse := c.fnOpt("internal/fsm", "State.Parse")
	stepRun := c.fnOpt("internal/flow", "Step.Run")
	for _, call := range ir.Calls(fn) {
		f := ir.Static(call)
		if f == parse && parse != nil {
			c.Check(foundAt(call.Block(), false), Q(fn)+":no-validation-on-help", call.Pos(), "State.Parse is reached only when the scan found no help token", "arguments are validated although a help token was found")
		}
		if f == stepRun && stepRun != nil {
			c.Check(foundAt(call.Block(), false), Q(fn)+":no-hooks-on-help", call.Pos(), "Step.Run is reached only when the scan found no help token", "hooks can run although a help token was found")
		}
	}
	// help branch
	help := c.rootGlobal("errHelpRequested")
	okBranch := false
	var badSites []string
	why := "no branch prints the long help, signals the help sentinel and returns nil"
	for _, call := range ir.Calls(fn) {
		cv, ok := call.(*ssa.Call)
		if !ok || ir.Static(cv) != policy || !isLoadOfGlobal(cv.Call.Args[1], help) {
			continue
		}
		b := cv.Block()
		if !foundAt(b, true) {
			why = "the help sentinel is signalled without a help token having been found"
			badSites = append(badSites, why)
			continue
		}
		long := false
		for _, in := range b.Instrs {
			if l, ok := c.isHelpCallOn(in, recv); ok {
				long = l
				if ir.IndexIn(in) > ir.IndexIn(cv) {
					long = false
					why = "help is printed after the policy was applied"
				}
			}
		}
		ret, isRet := b.Instrs[len(b.Instrs)-1].(*ssa.Return)
		if !long || cv.Call.Args[0] != ssa.Value(recv) {
			if !strings.HasPrefix(why, "help is printed after") {
				why = "a help branch does not print the LONG help of this command before signalling on it"
			}
			badSites = append(badSites, why)
			continue
		}
		if !isRet || !ir.IsNilConst(ret.Results[0]) {
			why = "the help branch does not return nil"
			badSites = append(badSites, why)
			continue
		}
		okBranch = true
		// whose help: this level's iff the help token comes before the first sub-command name, i.e.
		// scan result < level split
		okWho := false
		ir.Instrs(fn, func(in ssa.Instruction) {
			bo, isBo := in.(*ssa.BinOp)
			if !isBo {
				return
			}
			isSplit := func(v ssa.Value) bool {
				sv, isCall := unclamp(v, args).(*ssa.Call)
				if !isCall {
					return false
				}
				f := ir.Static(sv)
				if f == nil || f.Pkg != fn.Pkg || f == scan {
					return false
				}
				bt, isB := sv.Type().(*types.Basic)
				if !isB || bt.Kind() != types.Int {
					return false
				}
				for _, a := range sv.Call.Args {
					if a == ssa.Value(args) {
						return true
					}
				}
				return false
			}
			var want bool
			switch {
			case bo.X == ssa.Value(h) && isSplit(bo.Y) && bo.Op == token.LSS: // h < n
				want = true
			case bo.X == ssa.Value(h) && isSplit(bo.Y) && bo.Op == token.GEQ: // h >= n
				want = false
			case bo.Y == ssa.Value(h) && isSplit(bo.X) && bo.Op == token.GTR: // n > h
				want = true
			case bo.Y == ssa.Value(h) && isSplit(bo.X) && bo.Op == token.LEQ: // n <= h
				want = false
			default:
				return
			}
			if ir.HoldsAt(bo, want, b) {
				okWho = true
			}
		})
		c.Check(okWho, Q(fn)+":help-addressee", cv.Pos(), "the help is this level's exactly when the help token precedes the first sub-command name (scan result < level split)",
			"the help request is attributed to this level without comparing the help token's position with the level split: a help token before or after a sub-command name addresses the wrong command")
	}
	if len(badSites) > 0 {
		okBranch, why = false, badSites[0]
	}
	c.Check(okBranch, Q(fn)+":help-branch", fn.Pos(), "help for this level: PrintLongHelp, onError(errHelpRequested), return nil; the sentinel is signalled nowhere else", why)
	// the sentinel is used nowhere else
	var uses []string
	for _, f := range c.ClosureFuncsDeep() {
		ir.Instrs(f, func(in ssa.Instruction) {
			if ld, ok := in.(*ssa.UnOp); ok && ld.Op == token.MUL && ld.X == ssa.Value(help) {
				for _, u := range *ld.Referrers() {
					if cv, isCall := u.(*ssa.Call); isCall && ir.Static(cv) == policy {
						continue
					}
					if bo, isBo := u.(*ssa.BinOp); isBo && f == policy && (bo.Op == token.EQL || bo.Op == token.NEQ) {
						continue
					}
					uses = append(uses, Q(f)+" at "+c.P.Pos(u.Pos()))
				}
			}
		})
	}
	c.Check(len(uses) == 0, "uses(errHelpRequested)", help.Pos(), "the help sentinel only goes to the policy switch", "other uses: "+strings.Join(uses, "; "))
}

func cmd4(c *Ctx) {
	fn := c.helpScan()
	if fn == nil {
		c.Undecided("anchor:help-scan", token.NoPos, "not found")
		return
	}
	c.Mark(fn)
	key := Q(fn)
	var args *ssa.Parameter
	for _, p := range fn.Params {
		if isStringSlice(p.Type()) {
			args = p
		}
	}
	// the ranged token
	var tok ssa.Value
	var hdr *ssa.BasicBlock
	ir.Instrs(fn, func(in ssa.Instruction) {
		if v, ok := in.(ssa.Value); ok {
			if sl, h, isR := rangeElemHeader(v); isR && sl == ssa.Value(args) {
				tok, hdr = v, h
			}
		}
	})
	if tok == nil {
		c.Bad(key+":scan", fn.Pos(), "the scan does not range over the argument vector in order")
		return
	}
	_, entry, _ := loopBody(hdr)
	idx := tok.(*ssa.UnOp).X.(*ssa.IndexAddr).Index
	// (b) `--` stops the scan: first test of each iteration, unconditional
	okDD := false
	why := "no test of the token against `--` at the start of each iteration"
	if iff, ok := entry.Instrs[len(entry.Instrs)-1].(*ssa.If); ok {
		if bo, isBo := iff.Cond.(*ssa.BinOp); isBo && bo.Op == token.EQL && sameElem(bo.X, tok) {
			if s, isS := ir.ConstString(bo.Y); isS && s == "--" {
				t := entry.Succs[0]
				if ir.IsReturn(t) {
					ret := t.Instrs[len(t.Instrs)-1].(*ssa.Return)
					if k, isK := ir.ConstInt(ret.Results[0]); isK && k == -1 {
						okDD = true
					} else {
						why = "a `--` does not make the scan return -1"
					}
				} else {
					why = "the `--` test has a further condition before giving up (a `--` must end the scan unconditionally)"
				}
			}
		}
	}
	// nothing may return an index before the `--` test in the iteration: entry block is the first block of the body by construction
	c.Check(okDD, key+":stops-at-dashdash", tok.Pos(), "each iteration first tests the token against `--` and returns -1", why)
	// (a) returns the index for -h / --help only
	okIdx, sawIdx := true, false
	okFound, whyFound := true, ""
	why = ""
	for _, r := range ir.ReturnPoints(fn) {
		v := r.Results[0]
		if k, isK := ir.ConstInt(v); isK {
			if k != -1 {
				okIdx, why = false, "returns a constant other than -1"
			}
			continue
		}
		if v != idx {
			okIdx, why = false, "returns something other than the index of the current token"
			continue
		}
		sawIdx = true
		// every way into this return must cross the true edge of a comparison of the token with -h or --help
		cut := map[ir.Edge]bool{}
		ir.Instrs(fn, func(in ssa.Instruction) {
			bo, ok := in.(*ssa.BinOp)
			if !ok || bo.Op != token.EQL {
				return
			}
			var other ssa.Value
			if sameElem(bo.X, tok) {
				other = bo.Y
			} else if sameElem(bo.Y, tok) {
				other = bo.X
			}
			if other == nil {
				return
			}
			okSet := false
			if s, isS := ir.ConstString(other); isS && (s == "-h" || s == "--help") {
				okSet = true
			} else if sl, isR := rangeElem(other); isR {
				elems := c.stringSet(sl)
				sort.Strings(elems)
				if len(elems) == 2 && elems[0] == "--help" && elems[1] == "-h" {
					okSet = true
				}
			}
			if okSet {
				for _, e := range ir.EdgesWhere(fn, bo, true) {
					cut[ir.Edge{From: e.From, To: e.To}] = true
					// and the converse: once the token was found equal, the only way on is returning its index
					for b := range ir.Reach(e.To, nil, nil) {
						if b.Dominates(e.From) {
							okFound, whyFound = false, "a token equal to -h or --help can be passed over (the scan goes on after the comparison succeeded)"
						}
						if ir.IsReturn(b) {
							if ret := b.Instrs[len(b.Instrs)-1].(*ssa.Return); ret.Results[0] != idx {
								okFound, whyFound = false, "a token equal to -h or --help does not make the scan return its index"
							}
						}
					}
				}
			}
		})
		if len(cut) == 0 || r.Block() == entry || ir.Reach(entry, nil, cut)[r.Block()] {
			okIdx, why = false, "an index is returned for a token that is not compared with exactly {-h, --help}"
		}
	}
	c.Check(okIdx && sawIdx, key+":index-of-help", fn.Pos(), "returns the position of the first token equal to -h or --help", why)
	c.Check(okFound, key+":help-token-found", fn.Pos(), "a token equal to -h or --help always ends the scan with its index", whyFound)
	// (a') no token is passed over untested: the scan moves on to the next token only after the token was
	// found different from -h and from --help
	{
		cutFor := map[string]map[ir.Edge]bool{"-h": {}, "--help": {}}
		setSkipped := false
		ir.Instrs(fn, func(in ssa.Instruction) {
			bo, ok := in.(*ssa.BinOp)
			if !ok || !(bo.Op == token.EQL || bo.Op == token.NEQ) {
				return
			}
			var other ssa.Value
			if sameElem(bo.X, tok) {
				other = bo.Y
			} else if sameElem(bo.Y, tok) {
				other = bo.X
			}
			if other == nil {
				return
			}
			if sp, isS := ir.ConstString(other); isS {
				if m, known := cutFor[sp]; known {
					for _, e := range ir.EdgesWhere(fn, bo, bo.Op == token.NEQ) {
						m[ir.Edge{From: e.From, To: e.To}] = true
					}
				}
				return
			}
			// compared with each element of a literal set: passing on means the inner loop was exhausted
			if sl, h, isR := rangeElemHeader(other); isR {
				_, ientry, exit := loopBody(h)
				if exit == nil {
					return
				}
				// ... provided no element of the set is passed over without the comparison
				if ientry != nil && ientry != bo.Block() && ir.Reach(ientry, map[*ssa.BasicBlock]bool{bo.Block(): true}, nil)[h] {
					setSkipped = true
					return
				}
				for _, sp := range c.stringSet(sl) {
					if m, known := cutFor[sp]; known {
						m[ir.Edge{From: h, To: exit}] = true
					}
				}
			}
		})
		var missing []string
		if setSkipped {
			missing = append(missing, "an element of the set {-h, --help} can be passed over without being compared with the token")
		}
		for _, sp := range []string{"-h", "--help"} {
			if len(cutFor[sp]) == 0 {
				missing = append(missing, sp+" is never compared")
				continue
			}
			blocked := map[*ssa.BasicBlock]bool{}
			reachHdr := false
			for e := range ir.ReachEdges(entry, blocked, cutFor[sp]) {
				if e.To == hdr && e.From != hdr && !cutFor[sp][e] {
					reachHdr = true
				}
			}
			if reachHdr {
				missing = append(missing, "the scan can move on to the next token without having compared this one with "+sp)
			}
		}
		sort.Strings(missing)
		reportP(c, key+":every-token-tested", fn.Pos(), missing, "a token is passed over only after it was found different from -h and --help")
		// the verdict is a function of the vector alone: the parent that found a help token behind the
		// level split enters the child without flow steps, relying on the child's scan finding the same
		// token (a scan that consults the command's own declarations can disagree: nil step dereference)
		if fn.Signature.Recv() != nil && len(fn.Params) > 0 {
			reads := false
			for _, u := range *fn.Params[0].Referrers() {
				if _, isDbg := u.(*ssa.DebugRef); !isDbg {
					reads = true
				}
			}
			c.Check(!reads, key+":vector-only", fn.Pos(), "the help scan reads nothing of the command it is called on: every level finds the same help token",
				"the help scan consults the command it is called on: a parent and the child it enters for help can disagree on whether help was requested (the child is entered without flow steps)")
		}
	}
	// (c) -1 at the end
	okEnd := false
	_, _, exit := loopBody(hdr)
	if ir.IsReturn(exit) {
		ret := exit.Instrs[len(exit.Instrs)-1].(*ssa.Return)
		if k, isK := ir.ConstInt(ret.Results[0]); isK && k == -1 {
			okEnd = true
		}
	}
	if okB, _ := noBreak(hdr); !okB {
		// the only way out of the loop besides exhaustion: the `--` test breaking into the same `return -1`
		onlyDD := exit != nil && len(exit.Instrs) == 1
		if onlyDD {
			for _, p := range exit.Preds {
				if p == hdr {
					continue
				}
				isDD := false
				if iff, ok := p.Instrs[len(p.Instrs)-1].(*ssa.If); ok && p.Succs[0] == exit {
					if bo, isBo := iff.Cond.(*ssa.BinOp); isBo && bo.Op == token.EQL && sameElem(bo.X, tok) {
						if sv, isS := ir.ConstString(bo.Y); isS && sv == "--" {
							isDD = true
						}
					}
				}
				if !isDD {
					onlyDD = false
				}
			}
		}
		if !onlyDD {
			okEnd = false
		}
	}
	c.Check(okEnd, key+":none-found", fn.Pos(), "-1 when the vector is exhausted", "the exhausted scan does not return -1")
}

// sliceLitStrings: v = slice of a local array literal; returns its constant strings.
// stringSet: the constant strings of a slice that is either a local literal or a read-only
// package-level table.
func (c *Ctx) stringSet(v ssa.Value) []string {
	if out := sliceLitStrings(v); out != nil {
		return out
	}
	if ld, ok := v.(*ssa.UnOp); ok && ld.Op == token.MUL {
		if g, isG := ld.X.(*ssa.Global); isG {
			if out, okT := globalTableStrings(c, g); okT {
				return out
			}
		}
	}
	return nil
}

func isStringArray(t types.Type) bool {
	a, ok := t.Underlying().(*types.Array)
	return ok && isStringType(a.Elem())
}

func sliceLitStrings(v ssa.Value) []string {
	var al *ssa.Alloc
	if sl, ok := v.(*ssa.Slice); ok {
		al, _ = sl.X.(*ssa.Alloc)
	} else if ld, ok := v.(*ssa.UnOp); ok && ld.Op == token.MUL && isStringArray(ld.Type()) {
		// a local array literal read as a value
		al, _ = ld.X.(*ssa.Alloc)
	}
	if al == nil {
		return nil
	}
	var out []string
	for _, u := range *al.Referrers() {
		if ia, isIA := u.(*ssa.IndexAddr); isIA {
			for _, uu := range *ia.Referrers() {
				if st, isSt := uu.(*ssa.Store); isSt {
					if s, isS := ir.ConstString(st.Val); isS {
						out = append(out, s)
					} else {
						return nil
					}
				}
			}
		}
	}
	return out
}

func cmd5(c *Ctx) {
	fn := c.fnOpt("", "Cli.parse")
	disp := c.dispatch()
	policy := c.policyFn()
	vers := c.rootGlobal("errVersionRequested")
	if fn == nil || disp == nil || policy == nil || vers == nil {
		c.Undecided("anchor:Cli.parse", token.NoPos, "not found")
		return
	}
	c.Mark(fn)
	var args *ssa.Parameter
	for _, p := range fn.Params {
		if isStringSlice(p.Type()) {
			args = p
		}
	}
	// the version test: a helper call deciding the entry block, or `version != nil && firstItem(args, names)` inline
	var test *ssa.Call
	inline := false
	// versionNil: v compares the version record with nil; declared is the outcome meaning "a version was declared"
	versionNil := func(v ssa.Value) (declared bool, ok bool) {
		bo, isBo := v.(*ssa.BinOp)
		if !isBo || (bo.Op != token.NEQ && bo.Op != token.EQL) || !ir.IsNilConst(bo.Y) {
			return false, false
		}
		_, f, isF := ir.FieldLoad(bo.X)
		return bo.Op == token.NEQ, isF && f == "version"
	}
	isVersionDeclaredAt := func(v ssa.Value, b *ssa.BasicBlock) bool {
		d, ok := versionNil(v)
		return ok && ir.HoldsAt(v, d, b)
	}
	stripNot := func(v ssa.Value) (ssa.Value, bool) {
		neg := false
		for {
			u, ok := v.(*ssa.UnOp)
			if !ok || u.Op != token.NOT {
				return v, neg
			}
			v, neg = u.X, !neg
		}
	}
	if iff, ok := fn.Blocks[0].Instrs[len(fn.Blocks[0].Instrs)-1].(*ssa.If); ok {
		cond, neg := stripNot(iff.Cond)
		if cv, isCall := cond.(*ssa.Call); isCall {
			test = cv
		} else if d, isV := versionNil(cond); isV {
			nb := fn.Blocks[0].Succs[0]
			if d == neg {
				nb = fn.Blocks[0].Succs[1]
			}
			if iff2, ok2 := nb.Instrs[len(nb.Instrs)-1].(*ssa.If); ok2 {
				c2, _ := stripNot(iff2.Cond)
				if cv, isCall := c2.(*ssa.Call); isCall && cv.Block() == nb {
					test, inline = cv, true
				}
			}
		}
	}
	if test == nil || ir.Static(test) == nil {
		c.Bad(Q(fn)+":version-first", fn.Pos(), "the first thing decided is not a version test")
		return
	}
	vt := ir.Static(test)
	c.Mark(vt)
	okFirst := true
	why := ""
	for _, e := range ir.EdgesWhere(fn, test, true) {
		region := ir.ReachVia(e.From, e.To, nil, nil)
		for _, call := range ir.Calls(fn) {
			if ir.Static(call) == disp && region[call.Block()] {
				okFirst, why = false, "the command parser can be entered although the version was requested"
			}
		}
	}
	// nothing but the test precedes the delegation
	for _, call := range ir.Calls(fn) {
		if ir.Static(call) == disp {
			for _, other := range ir.Calls(fn) {
				if other == call || other == ssa.CallInstruction(test) {
					continue
				}
				if other.Block().Dominates(call.Block()) && other.Block() != call.Block() {
					okFirst, why = false, "something other than the version test runs before the command parser"
				}
			}
		}
	}
	hasArgs := false
	for _, a := range test.Call.Args {
		if a == ssa.Value(args) {
			hasArgs = true
		}
	}
	if !hasArgs {
		okFirst, why = false, "the version test is not applied to the argument vector"
	}
	c.Check(okFirst, Q(fn)+":version-first", test.Pos(), "the version request is tested before delegating to the command parser", why)
	// branch
	okBranch := false
	why = "the version branch does not print the version, signal the version sentinel and return nil"
	for _, call := range ir.Calls(fn) {
		cv, ok := call.(*ssa.Call)
		if !ok || ir.Static(cv) != policy || !isLoadOfGlobal(cv.Call.Args[1], vers) {
			continue
		}
		b := cv.Block()
		if !ir.HoldsAt(test, true, b) {
			continue
		}
		printed := false
		for _, in := range b.Instrs {
			if pc, isCall := in.(*ssa.Call); isCall && ir.IndexIn(in) < ir.IndexIn(cv) {
				if f := ir.Static(pc); f != nil && printsVersion(c, f) {
					printed = true
				}
			}
		}
		ret, isRet := b.Instrs[len(b.Instrs)-1].(*ssa.Return)
		if printed && isRet && ir.IsNilConst(ret.Results[0]) {
			okBranch = true
		}
	}
	c.Check(okBranch, Q(fn)+":version-branch", fn.Pos(), "prints the version string, onError(errVersionRequested), return nil", why)
	// the test itself: version != nil && first-item(args, version.option.Names)
	okTest := false
	why = "the version test is not `declared && first argument among the version option's names`"
	var first *ssa.Function
	// checkFirstCall: callEdge = firstItem(args', names) evaluated under the nil test of the version record
	checkFirstCall := func(host *ssa.Function, callEdge *ssa.Call, vec ssa.Value) bool {
		guard := false
		ir.Instrs(host, func(in ssa.Instruction) {
			if v, ok := in.(ssa.Value); ok && isVersionDeclaredAt(v, callEdge.Block()) {
				guard = true
			}
		})
		if !guard {
			why = "the presence test is not a nil test of the record Version() creates (a declared version flag could be ignored)"
			return false
		}
		var vargs, names ssa.Value
		for _, a := range callEdge.Call.Args {
			if a == vec {
				vargs = a
			}
			if _, f, isF := ir.FieldLoad(a); isF && f == "Names" {
				names = a
			}
		}
		if vargs == nil || names == nil {
			why = "the first-item test is not applied to (args, version option names)"
			return false
		}
		first = ir.Static(callEdge)
		return first != nil
	}
	if inline {
		okTest = checkFirstCall(fn, test, ssa.Value(args))
	}
	{
		// the verdicts: false, or the first-item call
		var callEdge *ssa.Call
		falseEdge, other := false, false
		for _, r := range ir.ReturnPoints(vt) {
			if b, isC := ir.ConstBool(r.Results[0]); isC && !b {
				falseEdge = true
			} else if cv, isCall := r.Results[0].(*ssa.Call); isCall && callEdge == nil {
				callEdge = cv
			} else {
				other = true
			}
		}
		if inline || other || !falseEdge || callEdge == nil {
			goto doneTest
		}
		if len(vt.Params) >= 2 && checkFirstCall(vt, callEdge, ssa.Value(vt.Params[1])) {
			okTest = true
		}
		// the only ground for `false` is that no version was declared
		for _, r := range ir.ReturnWays(vt) {
			if b, isC := ir.ConstBool(r.Results[0]); !isC || b {
				continue
			}
			notDeclared := false
			ir.Instrs(vt, func(in ssa.Instruction) {
				if v, ok := in.(ssa.Value); ok {
					if d, isV := versionNil(v); isV && r.Holds(v, !d) {
						notDeclared = true
					}
				}
			})
			if !notDeclared {
				okTest, why = false, "the version test answers false although a version was declared (a further condition decides): the declared flag as first argument does not print the version"
			}
		}
	}
doneTest:
	testKey := Q(vt)
	if inline {
		testKey = Q(fn) + ":version-test"
	}
	c.Check(okTest, testKey, vt.Pos(), "requested iff a version was declared and the first argument is one of the option's names", why)
	if first != nil {
		c.Mark(first)
		cmd5first(c, first)
	}
	// Version() declares the option and records it
	if v := c.fnOpt("", "Cli.Version"); v != nil {
		c.Mark(v)
		stored := false
		ir.Instrs(v, func(in ssa.Instruction) {
			if st, ok := in.(*ssa.Store); ok {
				if _, f, isF := ir.FieldAddr(st.Addr); isF && f == "version" {
					if _, isAl := st.Val.(*ssa.Alloc); isAl {
						stored = true
					}
				}
			}
		})
		// the record keeps the version text it was given (what PrintVersion prints) and the option declared
		// under the given names
		if stored && len(v.Params) == 3 {
			textOK := false
			ir.Instrs(v, func(in ssa.Instruction) {
				st, ok := in.(*ssa.Store)
				if !ok || st.Val != ssa.Value(v.Params[2]) {
					return
				}
				if fa, isFA := st.Addr.(*ssa.FieldAddr); isFA {
					if _, isAl := fa.X.(*ssa.Alloc); isAl {
						textOK = true
					}
				}
			})
			if !textOK {
				stored = false
			}
		}
		declares := false
		fam := c.paramIfaceMethods()
		for _, call := range ir.Calls(v) {
			if f := ir.Static(call); f != nil && fam[f.Name()] == f {
				declares = true
				// on every path
				for _, r := range ir.Returns(v) {
					if call.Block() != r.Block() && !call.Block().Dominates(r.Block()) {
						declares = false
					}
				}
			}
		}
		// the record is stored on every path as well
		ir.Instrs(v, func(in ssa.Instruction) {
			if st, ok := in.(*ssa.Store); ok {
				if _, f, isF := ir.FieldAddr(st.Addr); isF && f == "version" {
					for _, r := range ir.Returns(v) {
						if st.Block() != r.Block() && !st.Block().Dominates(r.Block()) {
							stored = false
						}
					}
				}
			}
		})
		c.Check(stored && declares, Q(v), v.Pos(), "declares the option through the ordinary declaration path and records it, unconditionally", "Version() does not (always) declare its option through the declaration family and record it")
	}
}

func printsVersion(c *Ctx, f *ssa.Function) bool {
	stdErr, stdOut := c.rootGlobal("stdErr"), c.rootGlobal("stdOut")
	for _, call := range ir.Calls(f) {
		cf := ir.Static(call)
		if cf == nil || cf.Object() == nil || cf.Object().Pkg() == nil || cf.Object().Pkg().Path() != "fmt" || !strings.HasPrefix(cf.Name(), "Fprint") {
			continue
		}
		if !isLoadOfGlobal(call.Common().Args[0], stdErr) && !isLoadOfGlobal(call.Common().Args[0], stdOut) {
			continue
		}
		for _, a := range varargElems(call.Common().Args[len(call.Common().Args)-1]) {
			if _, fld, ok := ir.FieldLoad(a); ok && fld == "version" {
				return true
			}
		}
	}
	return false
}

func cmd5first(c *Ctx, fn *ssa.Function) {
	key := Q(fn)
	var vec *ssa.Parameter
	var set *ssa.Parameter
	for _, p := range fn.Params {
		if isStringSlice(p.Type()) {
			if vec == nil {
				vec = p
			} else {
				set = p
			}
		}
	}
	if vec == nil || set == nil {
		c.Bad(key, fn.Pos(), "expected (args, searchSet) parameters")
		return
	}
	var problems []string
	// only index 0 of vec is read
	var tok ssa.Value
	ir.Instrs(fn, func(in ssa.Instruction) {
		switch x := in.(type) {
		case *ssa.IndexAddr:
			if x.X == ssa.Value(vec) {
				if z, isC := ir.ConstInt(x.Index); !isC || z != 0 {
					problems = append(problems, "reads a position of the argument vector other than 0")
				} else {
					for _, u := range *x.Referrers() {
						if ld, ok := u.(*ssa.UnOp); ok {
							tok = ld
							if !lenNonZeroAt(fn, vec, ld.Block()) {
								problems = append(problems, "reads args[0] without a length guard")
							}
						}
					}
				}
			}
		case *ssa.Slice:
			if x.X == ssa.Value(vec) {
				problems = append(problems, "re-slices the argument vector")
			}
		case *ssa.Range:
			if x.X == ssa.Value(vec) {
				problems = append(problems, "ranges over the argument vector")
			}
		}
	})
	ir.Instrs(fn, func(in ssa.Instruction) {
		if v, ok := in.(ssa.Value); ok {
			if sl, isR := rangeElem(v); isR && sl == ssa.Value(vec) {
				problems = append(problems, "ranges over the argument vector (the version flag counts only in first position)")
			}
		}
	})
	var setLoop *ssa.BasicBlock
	var falses []*ir.RetPoint
	for _, r := range ir.ReturnPoints(fn) {
		b, isC := ir.ConstBool(r.Results[0])
		if !isC {
			problems = append(problems, "non-constant verdict")
			continue
		}
		if !b {
			falses = append(falses, r)
			continue
		}
		good := false
		ir.Instrs(fn, func(in ssa.Instruction) {
			bo, ok := in.(*ssa.BinOp)
			if !ok || bo.Op != token.EQL || !r.Holds(bo, true) {
				return
			}
			var other ssa.Value
			if bo.X == tok {
				other = bo.Y
			} else if bo.Y == tok {
				other = bo.X
			}
			if other == nil {
				return
			}
			if sl, h, isR := rangeElemHeader(other); isR && sl == ssa.Value(set) {
				good = true
				setLoop = h
				if _, entry, _ := loopBody(h); entry != nil && entry != bo.Block() && ir.Reach(entry, map[*ssa.BasicBlock]bool{bo.Block(): true}, nil)[h] {
					problems = append(problems, "an element of the set can be passed over without being compared with args[0]")
				}
			}
		})
		if !good {
			problems = append(problems, "true is returned without args[0] being equal to an element of the set")
		}
	}
	// false only for the empty vector, or after every element of the set was compared: with the edges
	// "the vector is empty" and "the loop over the set is exhausted" cut, no `return false` is reachable
	if len(falses) > 0 {
		cut := map[ir.Edge]bool{}
		for _, e := range lenOnlyZeroEdges(fn, vec) {
			cut[e] = true
		}
		if setLoop != nil {
			if _, _, exit := loopBody(setLoop); exit != nil {
				cut[ir.Edge{From: setLoop, To: exit}] = true
			}
		}
		// an empty set has been compared in full
		for _, e := range lenOnlyZeroEdges(fn, set) {
			cut[e] = true
		}
		reach := ir.Reach(fn.Blocks[0], nil, cut)
		for _, r := range falses {
			if r.ReachableUnder(reach, cut) {
				problems = append(problems, "false can be returned for a non-empty vector before args[0] was compared with every element of the set")
			}
		}
	}
	sort.Strings(problems)
	if len(problems) > 0 {
		c.Bad(key, fn.Pos(), "%s", strings.Join(problems, "; "))
	} else {
		c.OK(key, fn.Pos(), "true iff the vector is non-empty and args[0] equals an element of the set; no other position is read")
	}
}

// lenOnlyZeroEdges: the CFG edges taken on an outcome of a test len(v) op k that is possible for length 0
// and impossible for every positive length.
func lenOnlyZeroEdges(fn *ssa.Function, v ssa.Value) []ir.Edge {
	return lenOnlyZeroEdgesP(fn, func(x ssa.Value) bool { return x == v })
}

// lenOnlyZeroEdgesLike: the same for every read of the place v is read from (another load of the same
// field of the same object is the same collection as long as nothing is stored in between; the callers
// use it for collections the function does not write).
func lenOnlyZeroEdgesLike(fn *ssa.Function, v ssa.Value) []ir.Edge {
	k := ir.ExprKey(v)
	return lenOnlyZeroEdgesP(fn, func(x ssa.Value) bool { return x == v || ir.ExprKey(x) == k })
}

func lenOnlyZeroEdgesP(fn *ssa.Function, is func(ssa.Value) bool) []ir.Edge {
	var out []ir.Edge
	ir.Instrs(fn, func(in ssa.Instruction) {
		bo, ok := in.(*ssa.BinOp)
		if !ok {
			return
		}
		// a string compared with "": empty on the true edge of ==, on the false edge of !=
		if sv, isS := ir.ConstString(bo.Y); isS && sv == "" && (bo.Op == token.EQL || bo.Op == token.NEQ) && is(bo.X) {
			for _, e := range ir.EdgesWhere(fn, bo, bo.Op == token.EQL) {
				out = append(out, ir.Edge{From: e.From, To: e.To})
			}
			return
		}
		k, isC := ir.ConstInt(bo.Y)
		if !isC {
			return
		}
		lc, isCall := bo.X.(*ssa.Call)
		if !isCall {
			return
		}
		if bi, isB := lc.Call.Value.(*ssa.Builtin); !isB || bi.Name() != "len" || !is(lc.Call.Args[0]) {
			return
		}
		for _, want := range []bool{true, false} {
			z, okZ := lenCmp(bo.Op, 0, k)
			if !okZ || z != want {
				continue
			}
			only := true
			for n := int64(1); n <= k+2 || n <= 3; n++ {
				if o, okO := lenCmp(bo.Op, n, k); !okO || o == want {
					only = false
				}
			}
			if only {
				for _, e := range ir.EdgesWhere(fn, bo, want) {
					out = append(out, ir.Edge{From: e.From, To: e.To})
				}
			}
		}
	})
	return out
}

func lenOnlyZeroAtUnused(fn *ssa.Function, v ssa.Value, r *ir.RetPoint) bool {
	found := false
	ir.Instrs(fn, func(in ssa.Instruction) {
		bo, ok := in.(*ssa.BinOp)
		if !ok || found {
			return
		}
		k, isC := ir.ConstInt(bo.Y)
		if !isC {
			return
		}
		lc, isCall := bo.X.(*ssa.Call)
		if !isCall {
			return
		}
		if bi, isB := lc.Call.Value.(*ssa.Builtin); !isB || bi.Name() != "len" || lc.Call.Args[0] != v {
			return
		}
		for _, want := range []bool{true, false} {
			if !r.Holds(bo, want) {
				continue
			}
			z, okZ := lenCmp(bo.Op, 0, k)
			if !okZ || z != want {
				continue
			}
			only := true
			for n := int64(1); n <= k+2 || n <= 3; n++ {
				if o, okO := lenCmp(bo.Op, n, k); !okO || o == want {
					only = false
				}
			}
			if only {
				found = true
			}
		}
	})
	return found
}

func lenNonZeroAt(fn *ssa.Function, v ssa.Value, b *ssa.BasicBlock) bool {
	found := false
	ir.Instrs(fn, func(in ssa.Instruction) {
		bo, ok := in.(*ssa.BinOp)
		if !ok || found {
			return
		}
		k, isC := ir.ConstInt(bo.Y)
		if !isC {
			return
		}
		lc, isCall := bo.X.(*ssa.Call)
		if !isCall {
			return
		}
		if bi, isB := lc.Call.Value.(*ssa.Builtin); !isB || bi.Name() != "len" || lc.Call.Args[0] != v {
			return
		}
		for _, want := range []bool{true, false} {
			// the outcome `want` is impossible for length 0
			if z, okZ := lenCmp(bo.Op, 0, k); okZ && z != want && ir.HoldsAt(bo, want, b) {
				found = true
			}
		}
	})
	return found
}

// ---------- vector views: args[a:] as (base, offset) ----------

func (c *Ctx) vecView(v ssa.Value) (base ssa.Value, off lin, ok bool) {
	switch x := v.(type) {
	case *ssa.Slice:
		if x.High != nil {
			return nil, lin{}, false
		}
		b, o, ok := c.vecView(x.X)
		if !ok {
			return nil, lin{}, false
		}
		if x.Low == nil {
			return b, o, true
		}
		l, okl := linOf(x.Low, nil, func(ssa.Value) (lin, bool) { return lin{}, false })
		if !okl {
			return nil, lin{}, false
		}
		return b, o.add(l, 1), true
	default:
		return v, linConst(0), true
	}
}

// elemPos: v = vec[i] -> (base, offset+i)
func (c *Ctx) elemPos(v ssa.Value) (base ssa.Value, pos lin, ok bool) {
	ld, isLd := v.(*ssa.UnOp)
	if !isLd || ld.Op != token.MUL {
		return nil, lin{}, false
	}
	ia, isIA := ld.X.(*ssa.IndexAddr)
	if !isIA {
		return nil, lin{}, false
	}
	b, o, okv := c.vecView(ia.X)
	if !okv {
		return nil, lin{}, false
	}
	l, okl := linOf(ia.Index, nil, func(ssa.Value) (lin, bool) { return lin{}, false })
	if !okl {
		return nil, lin{}, false
	}
	return b, o.add(l, 1), true
}

func linEq(a, b lin) bool {
	d := a.add(b, -1)
	k, isC := d.isConst()
	return isC && k == 0
}

// aliasHolds: at block b it is established that `child` (an element of recv.commands, or a phi of
// such elements and nil that is known non-nil at b) answered isAlias(tok) with true. It returns the
// token value tested.
func (c *Ctx) aliasHolds(fn *ssa.Function, recv ssa.Value, child ssa.Value, b *ssa.BasicBlock) (tok ssa.Value, why string) {
	isAlias := c.fnOpt("", "Cmd.isAlias")
	direct := func(elem ssa.Value, at *ssa.BasicBlock) (ssa.Value, string) {
		sl, isR := rangeElem(elem)
		if !isR {
			return nil, "the child is not taken from the receiver's command list"
		}
		if lb, ok := fieldOf(sl, "commands"); !ok || lb != recv {
			return nil, "the child is not a direct sub-command of the receiver"
		}
		for _, c2 := range ir.Calls(fn) {
			av, ok := c2.(*ssa.Call)
			if !ok || ir.Static(av) != isAlias || isAlias == nil || len(av.Call.Args) != 2 || av.Call.Args[0] != elem {
				continue
			}
			if ir.HoldsAt(av, true, at) || edgeOutTrue(av, at) {
				return av.Call.Args[1], ""
			}
		}
		return nil, "the child is entered without its isAlias(token) being true"
	}
	phi, isPhi := child.(*ssa.Phi)
	if !isPhi {
		return direct(child, b)
	}
	// must be known non-nil at b
	nonNil := false
	for _, u := range *phi.Referrers() {
		if bo, ok := u.(*ssa.BinOp); ok && ir.IsNilConst(bo.Y) {
			if (bo.Op == token.NEQ && ir.HoldsAt(bo, true, b)) || (bo.Op == token.EQL && ir.HoldsAt(bo, false, b)) {
				nonNil = true
			}
		}
	}
	if !nonNil {
		return nil, "the child may be nil where it is entered"
	}
	var toks []ssa.Value
	var collect func(v ssa.Value, at *ssa.BasicBlock, depth int) string
	collect = func(v ssa.Value, at *ssa.BasicBlock, depth int) string {
		if ir.IsNilConst(v) {
			return ""
		}
		if p2, ok := v.(*ssa.Phi); ok && depth < 5 {
			for i, e := range p2.Edges {
				if w := collect(e, p2.Block().Preds[i], depth+1); w != "" {
					return w
				}
			}
			return ""
		}
		t, w := direct(v, at)
		if w != "" {
			return w
		}
		toks = append(toks, t)
		return ""
	}
	if w := collect(phi, b, 0); w != "" {
		return nil, w
	}
	if len(toks) == 0 {
		return nil, "the child is never a sub-command"
	}
	for _, t := range toks[1:] {
		if t != toks[0] && ir.ExprKey(t) != ir.ExprKey(toks[0]) {
			return nil, "the alias is tested against different tokens"
		}
	}
	return toks[0], ""
}

// edgeOutTrue: block at ends in `if v` and is left through its true edge only to continue (used for
// phi edges whose predecessor is the very block that tests v).
func edgeOutTrue(v ssa.Value, at *ssa.BasicBlock) bool {
	if len(at.Instrs) == 0 {
		return false
	}
	iff, ok := at.Instrs[len(at.Instrs)-1].(*ssa.If)
	return ok && iff.Cond == v && len(at.Succs) == 2 && at.Succs[0] != at.Succs[1] && false
}

// unclamp: v = min(x, len(vec)) written as `if x > len(vec) { x = len(vec) }` is x for a level split
// (CMD-7 shows the split never exceeds the length; the clamp is a guard that cannot fire).
func unclamp(v ssa.Value, vec ssa.Value) ssa.Value {
	phi, ok := v.(*ssa.Phi)
	if !ok || len(phi.Edges) != 2 {
		return v
	}
	for i := 0; i < 2; i++ {
		x, l := phi.Edges[i], phi.Edges[1-i]
		lc, isCall := l.(*ssa.Call)
		if !isCall {
			continue
		}
		if bi, isB := lc.Call.Value.(*ssa.Builtin); !isB || bi.Name() != "len" || lc.Call.Args[0] != vec {
			continue
		}
		pred := phi.Block().Preds[1-i]
		good := false
		if x.Referrers() != nil {
			for _, u := range *x.Referrers() {
				bo, isBo := u.(*ssa.BinOp)
				if !isBo {
					continue
				}
				yl, isYl := bo.Y.(*ssa.Call)
				if bo.X == x && isYl && bo.Op == token.GTR {
					if bi, isB := yl.Call.Value.(*ssa.Builtin); isB && bi.Name() == "len" && yl.Call.Args[0] == vec && ir.HoldsAt(bo, true, pred) {
						good = true
					}
				}
			}
		}
		if good {
			return x
		}
	}
	return v
}

func cmd6(c *Ctx) {
	fn := c.dispatch()
	if fn == nil {
		c.Undecided("anchor:dispatch", token.NoPos, "not found")
		return
	}
	c.Mark(fn)
	recv := fn.Params[0]
	var args *ssa.Parameter
	for _, p := range fn.Params {
		if isStringSlice(p.Type()) {
			args = p
		}
	}
	doInit := c.fnOpt("", "Cmd.doInit")
	parse := c.fnOpt("internal/fsm", "State.Parse")
	// the split
	var split *ssa.Call
	for _, call := range ir.Calls(fn) {
		cv, ok := call.(*ssa.Call)
		if !ok {
			continue
		}
		f := ir.Static(cv)
		if f == nil || f.Pkg != fn.Pkg || f.Signature.Recv() == nil || f == c.helpScan() {
			continue
		}
		if b, isB := cv.Type().(*types.Basic); isB && b.Kind() == types.Int && len(cv.Call.Args) == 2 && cv.Call.Args[0] == ssa.Value(recv) && cv.Call.Args[1] == ssa.Value(args) {
			split = cv
		}
	}
	if split == nil || doInit == nil || parse == nil {
		c.Undecided(Q(fn)+":split", fn.Pos(), "level split call / doInit / State.Parse not found")
		return
	}
	// the value used for the split: the call's result, or that result behind a clamp to len(args)
	var splitV ssa.Value = split
	ir.Instrs(fn, func(in ssa.Instruction) {
		if phi, ok := in.(*ssa.Phi); ok && unclamp(phi, args) == ssa.Value(split) {
			splitV = phi
		}
	})
	nLin := lin{t: map[linKey]int64{{splitV, false}: 1}}
	// validation call
	var val *ssa.Call
	for _, call := range ir.Calls(fn) {
		if cv, ok := call.(*ssa.Call); ok && ir.Static(cv) == parse {
			val = cv
		}
	}
	okVal := false
	if val != nil {
		if _, f, ok := ir.FieldLoad(val.Call.Args[0]); ok && f == "fsm" {
			if b, _, _ := ir.FieldLoad(val.Call.Args[0]); b == ssa.Value(recv) {
				if sl, isSl := val.Call.Args[1].(*ssa.Slice); isSl && sl.X == ssa.Value(args) && sl.Low == nil && sl.High == splitV {
					okVal = true
				}
			}
		}
	}
	c.Check(okVal, Q(fn)+":own-tokens", fn.Pos(), "this level's automaton validates exactly args[:n], n the level split", "the level does not validate exactly its own tokens args[:n] with its own automaton")
	// the command line reaches the root level as it was given: Run hands args[1:] to the root's parse,
	// which hands its vector on unchanged
	if run, rootParse := c.fnOpt("", "Cli.Run"), c.fnOpt("", "Cli.parse"); run != nil && rootParse != nil {
		c.Mark(run)
		okRun := false
		var rp *ssa.Parameter
		for _, p := range run.Params {
			if isStringSlice(p.Type()) {
				rp = p
			}
		}
		for _, cv := range callsTo(run, rootParse) {
			for _, a := range cv.Call.Args {
				if sl, isSl := a.(*ssa.Slice); isSl && sl.X == ssa.Value(rp) && sl.High == nil {
					if lo, isC := ir.ConstInt(sl.Low); isC && lo == 1 {
						okRun = true
					}
				}
			}
		}
		mk := len(c.Obs)
		c.Check(okRun, Q(run)+":vector", run.Pos(), "the root level receives args[1:] of the vector Run was given", "Run does not hand args[1:] of its own parameter to the root level: the command line is altered before it is routed")
		c.Scope(mk, "C01", "C02", "C04", "C09")
		okRoot := false
		var pp *ssa.Parameter
		for _, p := range rootParse.Params {
			if isStringSlice(p.Type()) {
				pp = p
			}
		}
		for _, cv := range callsTo(rootParse, fn) {
			for _, a := range cv.Call.Args {
				if a == ssa.Value(pp) {
					okRoot = true
				}
			}
		}
		mk = len(c.Obs)
		c.Check(okRoot, Q(rootParse)+":vector", rootParse.Pos(), "the root's parse hands its vector on unchanged", "the root's parse does not hand its own vector to the command parser")
		c.Scope(mk, "C01", "C02", "C04", "C09")
	}
	// recursive descents
	n := 0
	for _, call := range ir.Calls(fn) {
		cv, ok := call.(*ssa.Call)
		if !ok || ir.Static(cv) != fn {
			continue
		}
		n++
		sub := cv.Call.Args[0]
		helpDescent := ir.IsNilConst(cv.Call.Args[3]) && ir.IsNilConst(cv.Call.Args[4])
		kind := "descent"
		if helpDescent {
			kind = "help-descent"
		}
		key := fmt.Sprintf("%s:%s", Q(fn), kind)
		var problems []string
		// the child: a direct sub-command whose alias is the token at the level split
		tok, whyAlias := c.aliasHolds(fn, ssa.Value(recv), sub, cv.Block())
		if whyAlias != "" {
			problems = append(problems, whyAlias)
		} else {
			tb, tp, okT := c.elemPos(tok)
			vb, vo, okV := c.vecView(cv.Call.Args[1])
			if !okT || !okV || tb != ssa.Value(args) || vb != ssa.Value(args) {
				problems = append(problems, "token or tail are not views of the argument vector")
			} else {
				if !linEq(tp, nLin) {
					problems = append(problems, "the alias token is not the one at the level split")
				}
				if !linEq(vo, tp.add(linConst(1), 1)) {
					problems = append(problems, "the child does not receive exactly the tokens after the alias")
				}
			}
		}
		// doInit(sub) dominating, error panics
		okInit := false
		for _, c2 := range ir.Calls(fn) {
			iv, ok := c2.(*ssa.Call)
			if !ok || ir.Static(iv) != doInit || iv.Call.Args[0] != sub {
				continue
			}
			if errIsNilAt(iv, cv.Block()) {
				okInit = true
			}
		}
		if !okInit {
			problems = append(problems, "the child is entered without a successful doInit() on it")
		}
		// entry passed through
		if cv.Call.Args[2] != ssa.Value(ir.ParamNamed(fn, "entry")) && !isParamOfType(cv.Call.Args[2], fn) {
			problems = append(problems, "the entry step is not passed through")
		}
		if !helpDescent {
			if val == nil || !errIsNilAt(val, cv.Block()) {
				problems = append(problems, "the child is entered before this level's own tokens were validated")
			}
		}
		sort.Strings(problems)
		if len(problems) > 0 {
			c.Bad(key, cv.Pos(), "%s", strings.Join(problems, "; "))
		} else {
			c.OK(key, cv.Pos(), "child = direct sub-command whose alias is the token at the split, initialised first, gets the tokens after the alias")
		}
	}
	if n == 0 {
		c.Bad(Q(fn)+":descent", fn.Pos(), "no descent into sub-commands")
	}
	// fsm assigned only in doInit
	var writers []string
	for _, f := range c.ClosureFuncsDeep() {
		ir.Instrs(f, func(in ssa.Instruction) {
			if st, ok := in.(*ssa.Store); ok {
				if b, fld, isF := ir.FieldAddr(st.Addr); isF && fld == "fsm" && c.isNamed(b.Type(), "", "Cmd") {
					writers = append(writers, Q(f))
				}
			}
		})
	}
	sort.Strings(writers)
	c.Check(len(writers) == 1 && writers[0] == Q(doInit), "writers(Cmd.fsm)", token.NoPos, "the automaton is assigned only by doInit", "Cmd.fsm written by: "+strings.Join(writers, ","))
}

func isParamOfType(v ssa.Value, fn *ssa.Function) bool {
	p, ok := v.(*ssa.Parameter)
	return ok && p.Parent() == fn
}

func cmd7(c *Ctx) {
	disp := c.dispatch()
	if disp == nil {
		c.Undecided("anchor:dispatch", token.NoPos, "not found")
		return
	}
	// the split function: as in cmd6
	var splitFn *ssa.Function
	for _, call := range ir.Calls(disp) {
		cv, ok := call.(*ssa.Call)
		if !ok {
			continue
		}
		f := ir.Static(cv)
		if f == nil || f.Pkg != disp.Pkg || f.Signature.Recv() == nil || f == c.helpScan() {
			continue
		}
		if b, isB := cv.Type().(*types.Basic); isB && b.Kind() == types.Int && len(cv.Call.Args) == 2 {
			splitFn = f
		}
	}
	if splitFn == nil {
		c.Undecided("anchor:level-split", token.NoPos, "not found")
		return
	}
	fn := splitFn
	c.Mark(fn)
	key := Q(fn)
	recv := fn.Params[0]
	var args *ssa.Parameter
	for _, p := range fn.Params {
		if isStringSlice(p.Type()) {
			args = p
		}
	}
	var problems []string
	// counter phi
	var counter *ssa.Phi
	var tok ssa.Value
	var hdr *ssa.BasicBlock
	ir.Instrs(fn, func(in ssa.Instruction) {
		if v, ok := in.(ssa.Value); ok {
			if sl, h, isR := rangeElemHeader(v); isR && sl == ssa.Value(args) {
				tok, hdr = v, h
			}
		}
	})
	if tok == nil {
		c.Bad(key, fn.Pos(), "does not range over the argument vector in order")
		return
	}
	for _, in := range hdr.Instrs {
		if phi, ok := in.(*ssa.Phi); ok && phi.Comment != "rangeindex" {
			counter = phi
		}
	}
	retIsCount := func(v ssa.Value) bool {
		if counter != nil && v == ssa.Value(counter) {
			return true
		}
		// returning the range index itself is equivalent
		return v == tok.(*ssa.UnOp).X.(*ssa.IndexAddr).Index
	}
	if counter != nil {
		for i, e := range counter.Edges {
			p := hdr.Preds[i]
			if hdr.Dominates(p) {
				bo, ok := e.(*ssa.BinOp)
				if !ok || bo.Op != token.ADD || bo.X != ssa.Value(counter) {
					problems = append(problems, "the count is not increased by one per token")
					continue
				}
				if one, isC := ir.ConstInt(bo.Y); !isC || one != 1 {
					problems = append(problems, "the count is not increased by exactly one per token")
				}
			} else if z, isC := ir.ConstInt(e); !isC || z != 0 {
				problems = append(problems, "the count does not start at 0")
			}
		}
	}
	for _, r := range ir.ReturnPoints(fn) {
		if lc, isCall := r.Results[0].(*ssa.Call); isCall && hdr.Succs[1] != nil {
			if bi, isB := lc.Call.Value.(*ssa.Builtin); isB && bi.Name() == "len" && lc.Call.Args[0] == ssa.Value(args) {
				// after the scan is exhausted the count is len(args)
				if r.Block() == hdr.Succs[1] || ir.EdgeDominates(hdr, hdr.Succs[1], r.Block()) {
					continue
				}
				// so it is when there is no sub-command to stop at
				var cmds ssa.Value
				ir.Instrs(fn, func(in ssa.Instruction) {
					if v, ok := in.(ssa.Value); ok {
						if b, f, isF := ir.FieldLoad(v); isF && f == "commands" && b == ssa.Value(recv) {
							cmds = v
						}
					}
				})
				if cmds != nil {
					cut := map[ir.Edge]bool{}
					for _, e := range lenOnlyZeroEdgesLike(fn, cmds) {
						cut[e] = true
					}
					if len(cut) > 0 && !r.ReachableUnder(ir.Reach(fn.Blocks[0], nil, cut), cut) {
						continue
					}
				}
			}
		}
		if !retIsCount(r.Results[0]) {
			problems = append(problems, fmt.Sprintf("the return at %s is not the number of tokens scanned so far", c.P.Pos(r.Pos())))
			continue
		}
		if hdr.Dominates(r.Block()) && r.Block() != hdr.Succs[1] && !ir.Reach(hdr.Succs[1], nil, nil)[r.Block()] {
			// inside the loop: must be under isAlias(sub, tok) true with sub a direct sub-command
			good := false
			for _, call := range ir.Calls(fn) {
				av, ok := call.(*ssa.Call)
				if !ok {
					continue
				}
				f := ir.Static(av)
				if f == nil || f != c.fnOpt("", "Cmd.isAlias") || len(av.Call.Args) != 2 || av.Call.Args[1] != tok {
					continue
				}
				if sl, isR := rangeElem(av.Call.Args[0]); isR {
					if b, ok := fieldOf(sl, "commands"); ok && b == ssa.Value(recv) && r.Holds(av, true) {
						good = true
					}
				}
			}
			if !good {
				// found through a lookup that yields the matching sub-command or nil
				ir.Instrs(fn, func(in ssa.Instruction) {
					bo, ok := in.(*ssa.BinOp)
					if !ok || !ir.IsNilConst(bo.Y) {
						return
					}
					if _, isPhi := bo.X.(*ssa.Phi); !isPhi {
						return
					}
					if !((bo.Op == token.NEQ && r.Holds(bo, true)) || (bo.Op == token.EQL && r.Holds(bo, false))) {
						return
					}
					if t, w := c.aliasHolds(fn, ssa.Value(recv), bo.X, r.Block()); w == "" && (t == tok || ir.ExprKey(t) == ir.ExprKey(tok)) {
						good = true
					}
				})
			}
			if !good {
				problems = append(problems, fmt.Sprintf("the scan stops at %s for a reason other than the token being an alias of a direct sub-command", c.P.Pos(r.Pos())))
			}
		}
	}
	sort.Strings(problems)
	if len(problems) > 0 {
		c.Bad(key, fn.Pos(), "%s", strings.Join(problems, "; "))
	} else {
		c.OK(key, fn.Pos(), "counts the tokens before the first one that is an alias of a direct sub-command")
	}
	// isAlias
	if ia := c.fnOpt("", "Cmd.isAlias"); ia != nil {
		c.Mark(ia)
		ok := true
		why := ""
		sawTrue := false
		for _, r := range ir.ReturnPoints(ia) {
			b, isC := ir.ConstBool(r.Results[0])
			if !isC {
				ok, why = false, "non-constant verdict"
				continue
			}
			if !b {
				continue
			}
			sawTrue = true
			good := false
			ir.Instrs(ia, func(in ssa.Instruction) {
				bo, isBo := in.(*ssa.BinOp)
				if !isBo || bo.Op != token.EQL || !r.Holds(bo, true) {
					return
				}
				var other ssa.Value
				if bo.X == ssa.Value(ia.Params[1]) {
					other = bo.Y
				} else if bo.Y == ssa.Value(ia.Params[1]) {
					other = bo.X
				}
				if other == nil {
					return
				}
				if sl, isR := rangeElem(other); isR {
					if b, isF := fieldOf(sl, "aliases"); isF && b == ssa.Value(ia.Params[0]) {
						good = true
					}
				}
			})
			if !good {
				ok, why = false, "true without the token being equal to one of the command's aliases"
			}
		}
		// false only once every alias was compared: no alias passed over, no other way to `false`
		ir.Instrs(ia, func(in ssa.Instruction) {
			bo, isBo := in.(*ssa.BinOp)
			if !isBo || (bo.Op != token.EQL && bo.Op != token.NEQ) {
				return
			}
			var other ssa.Value
			if bo.X == ssa.Value(ia.Params[1]) {
				other = bo.Y
			} else if bo.Y == ssa.Value(ia.Params[1]) {
				other = bo.X
			}
			if other == nil {
				return
			}
			sl, h, isR := rangeElemHeader(other)
			if !isR || h == nil {
				return
			}
			_, entry, exit := loopBody(h)
			if entry != nil && entry != bo.Block() && ir.Reach(entry, map[*ssa.BasicBlock]bool{bo.Block(): true}, nil)[h] {
				ok, why = false, "an alias can be passed over without being compared with the token"
			}
			cut := map[ir.Edge]bool{{From: h, To: exit}: true}
			for _, e := range lenOnlyZeroEdgesLike(ia, sl) {
				cut[e] = true
			}
			reach := ir.Reach(ia.Blocks[0], nil, cut)
			for _, r := range ir.ReturnWays(ia) {
				if b, isC := ir.ConstBool(r.Results[0]); isC && !b && r.ReachableUnder(reach, cut) {
					ok, why = false, "false can be returned before every alias was compared with the token"
				}
			}
		})
		c.Check(ok && sawTrue, Q(ia), ia.Pos(), "true iff the token equals one of the command's aliases (all are compared)", why)
	} else {
		c.Undecided("anchor:Cmd.isAlias", token.NoPos, "not found")
	}
	// Command: aliases = strings.Fields(name)
	if cm := c.fnOpt("", "Cmd.Command"); cm != nil {
		c.Mark(cm)
		ok := false
		ir.Instrs(cm, func(in ssa.Instruction) {
			if st, isSt := in.(*ssa.Store); isSt {
				if _, f, isF := ir.FieldAddr(st.Addr); isF && f == "aliases" {
					if call := stdCall(st.Val, "strings", "Fields"); call != nil && call.Call.Args[0] == ssa.Value(ir.ParamNamed(cm, "name")) {
						ok = true
					}
				}
			}
		})
		c.Check(ok, Q(cm)+":aliases", cm.Pos(), "every blank-separated word of the name is an alias", "aliases are not strings.Fields(name)")
		// the new command is always added to the receiver's list
		okReg := false
		ir.Instrs(cm, func(in ssa.Instruction) {
			st, isSt := in.(*ssa.Store)
			if !isSt {
				return
			}
			b, f, isF := ir.FieldAddr(st.Addr)
			if !isF || f != "commands" || b != ssa.Value(cm.Params[0]) {
				return
			}
			if base, _, isApp := appendedSingle(st.Val); !isApp {
				return
			} else if bb, bf, isBF := ir.FieldLoad(base); !isBF || bf != "commands" || bb != ssa.Value(cm.Params[0]) {
				return
			}
			okReg = true
			for _, r := range ir.Returns(cm) {
				if st.Block() != r.Block() && !st.Block().Dominates(r.Block()) {
					okReg = false
				}
			}
		})
		c.Check(okReg, Q(cm)+":registers", cm.Pos(), "the new command is appended to the receiver's list on every path", "Command can return without having added the sub-command to the receiver's list")
	}
}

func cmd8(c *Ctx) {
	fn := c.dispatch()
	stepRun := c.fnOpt("internal/flow", "Step.Run")
	if fn == nil || stepRun == nil {
		c.Undecided("anchor:dispatch/Step.Run", token.NoPos, "not found")
		return
	}
	c.Mark(fn)
	recv := fn.Params[0]
	var runs []*ssa.Call
	for _, f := range c.pkgFuncsDeep("") {
		for _, call := range ir.Calls(f) {
			if ir.Static(call) == stepRun {
				if f != fn {
					c.Bad(Q(f)+":start", call.Pos(), "hook chain started outside the dispatch function")
					continue
				}
				runs = append(runs, call.(*ssa.Call))
			}
		}
	}
	if len(runs) != 1 {
		c.Bad(Q(fn)+":start", fn.Pos(), "%d Step.Run calls, expected exactly 1", len(runs))
		return
	}
	run := runs[0]
	var problems []string
	if ir.InLoop(run.Block()) {
		problems = append(problems, "the start is inside a loop")
	}
	entry := ir.ParamNamed(fn, "entry")
	if entry == nil || run.Call.Args[0] != ssa.Value(entry) {
		problems = append(problems, "the chain is not started at the entry step")
	}
	if !ir.IsNilConst(run.Call.Args[1]) {
		problems = append(problems, "the chain is not started with a nil panic value")
	}
	// guards
	actionNonNil := false
	noTokens := false
	ir.Instrs(fn, func(in ssa.Instruction) {
		bo, ok := in.(*ssa.BinOp)
		if !ok {
			return
		}
		if ir.IsNilConst(bo.Y) {
			if b, f, isF := ir.FieldLoad(bo.X); isF && f == "Action" && b == ssa.Value(recv) {
				if (bo.Op == token.NEQ && ir.HoldsAt(bo, true, run.Block())) || (bo.Op == token.EQL && ir.HoldsAt(bo, false, run.Block())) {
					actionNonNil = true
				}
			}
		}
		if z, isC := ir.ConstInt(bo.Y); isC && z == 0 && bo.Op == token.EQL {
			if lc, isCall := bo.X.(*ssa.Call); isCall {
				if bi, isB := lc.Call.Value.(*ssa.Builtin); isB && bi.Name() == "len" && isStringSlice(lc.Call.Args[0].Type()) && ir.HoldsAt(bo, true, run.Block()) {
					// must be the rest after the split
					if b, off, okV := c.vecView(lc.Call.Args[0]); okV {
						if _, isP := b.(*ssa.Parameter); isP {
							if _, isConst := off.isConst(); !isConst {
								noTokens = true
							}
						}
					}
				}
			}
		}
	})
	if !actionNonNil {
		problems = append(problems, "the chain is started without Action being non-nil")
	}
	if !noTokens {
		problems = append(problems, "the chain is started although tokens are left after this level's own")
	}
	ret, isRet := run.Block().Instrs[len(run.Block().Instrs)-1].(*ssa.Return)
	if !isRet || !ir.IsNilConst(ret.Results[0]) {
		problems = append(problems, "the start is not followed by return nil")
	}
	sort.Strings(problems)
	if len(problems) > 0 {
		c.Bad(Q(fn)+":start", run.Pos(), "%s", strings.Join(problems, "; "))
	} else {
		c.OK(Q(fn)+":start", run.Pos(), "entry.Run(nil) exactly once, at the addressed command (no token left, Action set), then return nil")
	}
}

func cmd9(c *Ctx) {
	doInit := c.fnOpt("", "Cmd.doInit")
	if doInit == nil {
		c.Undecided("anchor:Cmd.doInit", token.NoPos, "not found")
		return
	}
	for _, fn := range c.ClosureFuncsDeep() {
		for _, call := range ir.Calls(fn) {
			cv, ok := call.(*ssa.Call)
			if !ok || ir.Static(cv) != doInit {
				continue
			}
			c.Mark(fn)
			key := fmt.Sprintf("%s->doInit@%s", Q(fn), relLine(c, fn, cv.Pos()))
			good := false
			for _, u := range *cv.Referrers() {
				bo, isBo := u.(*ssa.BinOp)
				if !isBo || !ir.IsNilConst(bo.Y) {
					continue
				}
				for _, e := range ir.EdgesWhere(fn, bo, bo.Op == token.NEQ) {
					if p, isP := lastPanic(e.To); isP && ir.Unwrap(p.X) == ssa.Value(cv) {
						good = true
					}
				}
			}
			c.Check(good, key, cv.Pos(), "a spec error panics with that error", "a doInit() error is ignored or not raised as is: a malformed spec would not stop Run")
		}
	}
}

func lastPanic(b *ssa.BasicBlock) (*ssa.Panic, bool) {
	if len(b.Instrs) == 0 {
		return nil, false
	}
	p, ok := b.Instrs[len(b.Instrs)-1].(*ssa.Panic)
	return p, ok
}

func cmd10(c *Ctx) {
	fn := c.fnOpt("", "Cmd.doInit")
	if fn == nil {
		c.Undecided("anchor:Cmd.doInit", token.NoPos, "not found")
		return
	}
	c.Mark(fn)
	recv := fn.Params[0]
	// the root is initialised (its spec defaulted and compiled) before anything is routed or printed:
	// in Run every way to the root's parse goes through doInit
	if run, rootParse := c.fnOpt("", "Cli.Run"), c.fnOpt("", "Cli.parse"); run != nil && rootParse != nil {
		c.Mark(run)
		okInit, nCalls := true, 0
		for _, cv := range callsTo(run, rootParse) {
			nCalls++
			if !ir.MustPassBefore(cv, func(in ssa.Instruction) bool {
				call, isCall := in.(*ssa.Call)
				return isCall && ir.Static(call) == fn
			}) {
				okInit = false
			}
		}
		if nCalls > 0 {
			mk := len(c.Obs)
			c.Check(okInit, Q(run)+":init-first", run.Pos(), "every way to the root level's parse passes doInit (the usage line and the automaton come from the defaulted spec)",
				"the root level can be parsed (help, version or routing) without having been initialised: its usage line lacks the default spec")
			c.Scope(mk, "C16", "C04", "C01")
		}
	}
	// writers of Spec
	var writers []string
	for _, f := range c.ClosureFuncsDeep() {
		ir.Instrs(f, func(in ssa.Instruction) {
			if st, ok := in.(*ssa.Store); ok {
				if b, fld, isF := ir.FieldAddr(st.Addr); isF && fld == "Spec" && c.isNamed(b.Type(), "", "Cmd") {
					writers = append(writers, Q(f))
				}
			}
		})
	}
	sort.Strings(writers)
	okW := true
	for _, w := range writers {
		if w != Q(fn) {
			okW = false
		}
	}
	c.Check(okW && len(writers) > 0, "writers(Cmd.Spec)", token.NoPos, "the library writes Spec only in doInit", "Cmd.Spec written by: "+strings.Join(writers, ","))
	// the stores in doInit
	specEmptyAt := func(b *ssa.BasicBlock) bool {
		found := false
		ir.Instrs(fn, func(in ssa.Instruction) {
			bo, ok := in.(*ssa.BinOp)
			if !ok || bo.Op != token.EQL {
				return
			}
			if z, isC := ir.ConstInt(bo.Y); isC && z == 0 {
				if lc, isCall := bo.X.(*ssa.Call); isCall {
					if bi, isB := lc.Call.Value.(*ssa.Builtin); isB && bi.Name() == "len" {
						if b2, f, isF := ir.FieldLoad(lc.Call.Args[0]); isF && f == "Spec" && b2 == ssa.Value(recv) && ir.HoldsAt(bo, true, b) {
							found = true
						}
					}
				}
			}
			if s, isS := ir.ConstString(bo.Y); isS && s == "" {
				if b2, f, isF := ir.FieldLoad(bo.X); isF && f == "Spec" && b2 == ssa.Value(recv) && ir.HoldsAt(bo, true, b) {
					found = true
				}
			}
		})
		return found
	}
	sawOptions, sawArgs := false, false
	optionsGuardAt := func(b *ssa.BasicBlock, want bool) bool {
		found := false
		ir.Instrs(fn, func(in2 ssa.Instruction) {
			bo, ok := in2.(*ssa.BinOp)
			if !ok {
				return
			}
			if z, isC := ir.ConstInt(bo.Y); isC && z == 0 && (bo.Op == token.GTR || bo.Op == token.NEQ) {
				if lc, isCall := bo.X.(*ssa.Call); isCall {
					if bi, isB := lc.Call.Value.(*ssa.Builtin); isB && bi.Name() == "len" {
						if b2, f, isF := ir.FieldLoad(lc.Call.Args[0]); isF && f == "options" && b2 == ssa.Value(recv) {
							if ir.HoldsAt(bo, want, b) {
								found = true
							}
							// the block that ends in this very test knows nothing yet; its false edge is handled by the caller
						}
					}
				}
			}
		})
		return found
	}
	ir.Instrs(fn, func(in ssa.Instruction) {
		st, ok := in.(*ssa.Store)
		if !ok {
			return
		}
		b, fld, isF := ir.FieldAddr(st.Addr)
		if !isF || fld != "Spec" || b != ssa.Value(recv) {
			return
		}
		// built in a local accumulator and stored once: spec := ""; if options {spec = "[OPTIONS] "}; for args {spec += name + " "}; c.Spec = spec
		if acc, isPhi := st.Val.(*ssa.Phi); isPhi {
			var problems []string
			if !specEmptyAt(st.Block()) {
				problems = append(problems, "the default spec is stored although a spec was given")
			}
			h := acc.Block()
			var init ssa.Value
			okLoop := false
			for i, e := range acc.Edges {
				if h.Dominates(h.Preds[i]) {
					leaves := concatLeaves(e)
					if len(leaves) == 3 && leaves[0] == ssa.Value(acc) {
						if sp, isS := ir.ConstString(leaves[2]); isS && sp == " " {
							if ab, af, isF2 := ir.FieldLoad(leaves[1]); isF2 && af == "Name" {
								if sl, isR := rangeElem(ab); isR {
									if lb, ok3 := fieldOf(sl, "args"); ok3 && lb == ssa.Value(recv) {
										okLoop = true
									}
								}
							}
						}
					}
				} else {
					init = e
				}
			}
			if !okLoop {
				problems = append(problems, "the accumulated text is not <argument name> + \" \" for each declared argument in list order")
			}
			// the loop must be the loop over c.args and the stored value its final accumulator
			okInit := false
			if ip, isP := init.(*ssa.Phi); isP && len(ip.Edges) == 2 {
				var sawEmpty, sawOpt bool
				for i, e := range ip.Edges {
					sv, isS := ir.ConstString(e)
					if !isS {
						continue
					}
					pred := ip.Block().Preds[i]
					switch sv {
					case "[OPTIONS] ":
						if optionsGuardAt(pred, true) {
							sawOpt = true
						}
					case "":
						// arrives directly from the test's false edge
						sawEmpty = !optionsGuardAt(pred, true)
					}
				}
				okInit = sawEmpty && sawOpt
			}
			if !okInit {
				problems = append(problems, "the accumulator does not start as \"[OPTIONS] \" iff an option is declared (else empty)")
			}
			sawOptions, sawArgs = true, true
			if len(problems) > 0 {
				c.Bad(Q(fn)+":spec-options-part", st.Pos(), "%s", strings.Join(problems, "; "))
				c.Bad(Q(fn)+":spec-args-part", st.Pos(), "%s", strings.Join(problems, "; "))
			} else {
				c.OK(Q(fn)+":spec-options-part", st.Pos(), "\"[OPTIONS] \" iff the spec is empty and an option is declared (built in a local accumulator)")
				c.OK(Q(fn)+":spec-args-part", st.Pos(), "each declared argument's name and a blank are appended in declaration order, only when no spec was given (built in a local accumulator)")
			}
			return
		}
		if s, isS := ir.ConstString(st.Val); isS {
			key := Q(fn) + ":spec-options-part"
			sawOptions = true
			var problems []string
			if s != "[OPTIONS] " {
				problems = append(problems, fmt.Sprintf("the constant is %q, not \"[OPTIONS] \"", s))
			}
			if !specEmptyAt(st.Block()) {
				problems = append(problems, "written although a spec was given")
			}
			// iff len(options) > 0
			guard := false
			ir.Instrs(fn, func(in2 ssa.Instruction) {
				bo, ok := in2.(*ssa.BinOp)
				if !ok {
					return
				}
				if z, isC := ir.ConstInt(bo.Y); isC && z == 0 && (bo.Op == token.GTR || bo.Op == token.NEQ) {
					if lc, isCall := bo.X.(*ssa.Call); isCall {
						if bi, isB := lc.Call.Value.(*ssa.Builtin); isB && bi.Name() == "len" {
							if b2, f, isF := ir.FieldLoad(lc.Call.Args[0]); isF && f == "options" && b2 == ssa.Value(recv) && ir.HoldsAt(bo, true, st.Block()) {
								guard = true
							}
						}
					}
				}
			})
			if !guard {
				problems = append(problems, "not guarded by `the command declares at least one option`")
			}
			if len(problems) > 0 {
				c.Bad(key, st.Pos(), "%s", strings.Join(problems, "; "))
			} else {
				c.OK(key, st.Pos(), "\"[OPTIONS] \" iff the spec is empty and an option is declared")
			}
			return
		}
		key := Q(fn) + ":spec-args-part"
		sawArgs = true
		var problems []string
		// Spec + arg.Name + " " (in any association)
		leaves := concatLeaves(st.Val)
		good := false
		if len(leaves) == 3 {
			if sp, isS := ir.ConstString(leaves[2]); isS && sp == " " {
				if b2, f, isF := ir.FieldLoad(leaves[0]); isF && f == "Spec" && b2 == ssa.Value(recv) {
					if ab, af, isF2 := ir.FieldLoad(leaves[1]); isF2 && af == "Name" {
						if sl, isR := rangeElem(ab); isR {
							if lb, ok3 := fieldOf(sl, "args"); ok3 && lb == ssa.Value(recv) {
								good = true
							}
						}
					}
				}
			}
		}
		if !good {
			problems = append(problems, "the appended text is not exactly <argument name> + \" \" for each declared argument in list order")
		}
		if !specEmptyAt(st.Block()) {
			problems = append(problems, "arguments are appended although a spec was given (or on a later initialisation)")
		}
		if len(problems) > 0 {
			c.Bad(key, st.Pos(), "%s", strings.Join(problems, "; "))
		} else {
			c.OK(key, st.Pos(), "each declared argument's name and a blank are appended in declaration order, only when no spec was given")
		}
	})
	if !sawOptions {
		c.Bad(Q(fn)+":spec-options-part", fn.Pos(), "an empty spec never gets \"[OPTIONS] \"")
	}
	if !sawArgs {
		c.Bad(Q(fn)+":spec-args-part", fn.Pos(), "an empty spec never gets the argument names")
	}
	// scanner and parser inputs
	scanner := c.fnOpt("internal/lexer", "Tokenize")
	parser := c.fnOpt("internal/parser", "Parse")
	isSpecLoad := func(v ssa.Value) bool {
		b, f, ok := ir.FieldLoad(v)
		if ok && f == "Spec" && b == ssa.Value(recv) {
			return true
		}
		// the Spec field of a parameter record built here whose Spec is the command's (the scanner is
		// called by a helper that was handed the record)
		if ok && f == "Spec" {
			var lit *ssa.Alloc
			if al, isAl := b.(*ssa.Alloc); isAl {
				lit = al
			} else {
				lit = literalArg(b)
			}
			if lit != nil {
				fields, whole := litFields(lit)
				if vs := fields["Spec"]; len(whole) == 0 && len(vs) == 1 {
					b2, f2, ok2 := ir.FieldLoad(vs[0])
					return ok2 && f2 == "Spec" && b2 == ssa.Value(recv)
				}
			}
		}
		return false
	}
	var scan, pcall *ssa.Call
	for _, call := range ir.Calls(fn) {
		cv, ok := call.(*ssa.Call)
		if !ok {
			continue
		}
		if ir.Static(cv) == scanner && scanner != nil {
			scan = cv
		}
		if ir.Static(cv) == parser && parser != nil {
			pcall = cv
		}
	}
	c.Check(scan != nil && isSpecLoad(scan.Call.Args[0]), Q(fn)+":scanner-input", fn.Pos(), "the scanner gets the command's Spec as it stands after defaulting", "the scanner input is not the command's Spec itself (positions and contents would differ from what the parser and the usage line see)")
	okP := false
	why := "parser.Parse is not called with the scanner's tokens and a Params built from the command's own fields"
	if pcall != nil && scan != nil {
		toks := extractOf(scan, 0)
		lit := literalArg(pcall.Call.Args[1])
		if toks != nil && pcall.Call.Args[0] == toks && lit != nil {
			fields, _ := litFields(lit)
			want := map[string]string{"Spec": "Spec", "Options": "options", "OptionsIdx": "optionsIdx", "Args": "args", "ArgsIdx": "argsIdx"}
			okP = true
			for pf, cf := range want {
				vs := fields[pf]
				if len(vs) != 1 {
					okP, why = false, "Params."+pf+" is not set exactly once"
					continue
				}
				b, f, isF := ir.FieldLoad(vs[0])
				if !isF || f != cf || b != ssa.Value(recv) {
					okP, why = false, "Params."+pf+" is not the receiver's "+cf
				}
			}
			if errv := extractOf(scan, 1); errv == nil || !errIsNilAt(errv, pcall.Block()) {
				okP, why = false, "the parser runs although the scanner failed"
			}
		}
	}
	c.Check(okP, Q(fn)+":parser-input", fn.Pos(), "the parser gets the tokens of that Spec and the command's own option/argument lists and indexes", why)
	okStore := false
	var theStore *ssa.Store
	if pcall != nil {
		st0, err0 := extractOf(pcall, 0), extractOf(pcall, 1)
		ir.Instrs(fn, func(in ssa.Instruction) {
			if st, ok := in.(*ssa.Store); ok {
				if b, f, isF := ir.FieldAddr(st.Addr); isF && f == "fsm" && b == ssa.Value(recv) && err0 != nil && errIsNilAt(err0, st.Block()) {
					// the stored value is the parser's result, possibly merged with the (excluded) outcomes of
					// an earlier failure at a join
					if vs := ir.PhiValuesAt(st.Val, st.Block()); len(vs) == 1 && vs[0] == st0 {
						okStore = true
						theStore = st
					}
				}
			}
		})
		// errors returned
		for _, e := range []ssa.Value{extractOf(scan, 1), err0} {
			if e == nil {
				okStore = false
				continue
			}
			ret := false
			for _, r := range ir.ReturnPoints(fn) {
				if r.Results[0] == e && errIsNonNilH(e, r.Block(), r.Holds) {
					ret = true
				}
				// merged at a join: the merged error is returned whenever it is non-nil, and e is one of the
				// values that flow into it
				if q, isPhi := r.Results[0].(*ssa.Phi); isPhi && errCmpH(q, r.Holds, false) {
					for _, qe := range q.Edges {
						if qe == e {
							ret = true
						}
					}
				}
			}
			if !ret {
				okStore = false
			}
		}
	}
	why = "the compile result is not (only) stored on success, or an error is not returned"
	if okStore && theStore != nil {
		// every successful initialisation has compiled: no nil return around the store of the parser's result
		for _, r := range ir.ReturnPoints(fn) {
			if ir.IsNilConst(r.Results[0]) && !(theStore.Block() == r.At || theStore.Block().Dominates(r.At)) {
				okStore, why = false, "the initialiser can report success without having compiled the spec of this call (the declarations may have changed since an earlier call)"
			}
		}
	}
	c.Check(okStore, Q(fn)+":result", fn.Pos(), "a scanner or parser error is returned; otherwise the automaton is stored in the command", why)
}

// concatLeaves flattens a string concatenation tree into its operands, left to right.
func concatLeaves(v ssa.Value) []ssa.Value {
	if bo, ok := v.(*ssa.BinOp); ok && bo.Op == token.ADD {
		if b, isB := bo.Type().Underlying().(*types.Basic); isB && b.Info()&types.IsString != 0 {
			return append(concatLeaves(bo.X), concatLeaves(bo.Y)...)
		}
	}
	return []ssa.Value{v}
}

func cmd11(c *Ctx) {
	stdErr, stdOut := c.rootGlobal("stdErr"), c.rootGlobal("stdOut")
	if stdErr == nil || stdOut == nil {
		c.Undecided("anchor:stdErr/stdOut", token.NoPos, "not found")
		return
	}
	// writers built on the streams: results of tabwriter.NewWriter(stdErr|stdOut, ...) and parameters of
	// functions all of whose callers pass such writers.
	var okWriter func(v ssa.Value, depth int) bool
	okWriter = func(v ssa.Value, depth int) bool {
		v = ir.Unwrap(v)
		if isLoadOfGlobal(v, stdErr) || isLoadOfGlobal(v, stdOut) {
			return true
		}
		if call, ok := v.(*ssa.Call); ok {
			if f := ir.Static(call); f != nil && ir.IsStdFunc(f, "text/tabwriter", "NewWriter") {
				return okWriter(call.Call.Args[0], depth)
			}
		}
		if p, ok := v.(*ssa.Parameter); ok && depth > 0 {
			fn := p.Parent()
			idx := -1
			for i, pp := range fn.Params {
				if pp == p {
					idx = i
				}
			}
			n := 0
			for _, f := range c.ClosureFuncsDeep() {
				for _, call := range ir.Calls(f) {
					if ir.Static(call) == fn {
						n++
						if !okWriter(call.Common().Args[idx], depth-1) {
							return false
						}
					}
				}
			}
			return n > 0
		}
		return false
	}
	for _, fn := range c.pkgFuncsDeep("") {
		for _, call := range ir.Calls(fn) {
			f := ir.Static(call)
			if f == nil || f.Object() == nil || f.Object().Pkg() == nil || f.Object().Pkg().Path() != "fmt" {
				continue
			}
			name := f.Name()
			switch {
			case strings.HasPrefix(name, "Fprint"):
				c.Mark(fn)
				key := fmt.Sprintf("%s:fmt.%s@%s", Q(fn), name, relLine(c, fn, call.Pos()))
				c.Check(okWriter(call.Common().Args[0], 2), key, call.Pos(), "writes to stdErr/stdOut or a writer built on them", "writes to a stream other than the package's stdErr/stdOut indirections")
			case strings.HasPrefix(name, "Print"):
				c.Bad(fmt.Sprintf("%s:fmt.%s@%s", Q(fn), name, relLine(c, fn, call.Pos())), call.Pos(), "prints to the process's standard output directly")
			}
		}
	}
	// os.Stdout / os.Stderr only in the package initialiser
	pk := c.P.Pkg("")
	var direct []string
	for id, obj := range pk.TypesInfo.Uses {
		if obj.Pkg() != nil && obj.Pkg().Path() == "os" && (obj.Name() == "Stdout" || obj.Name() == "Stderr") {
			// inside a function body?
			for _, fn := range c.pkgFuncsDeep("") {
				if fn.Syntax() != nil && fn.Name() != "init" && fn.Syntax().Pos() <= id.Pos() && id.Pos() <= fn.Syntax().End() {
					direct = append(direct, c.P.Pos(id.Pos()))
				}
			}
		}
	}
	sort.Strings(direct)
	c.Check(len(direct) == 0, "uses(os.Stdout, os.Stderr)", token.NoPos, "only the initialisers of stdOut/stdErr mention the process streams", "direct uses at: "+strings.Join(direct, ", "))
}

func cmd12(c *Ctx) {
	for _, fn := range c.pkgFuncsDeep("") {
		ir.Instrs(fn, func(in ssa.Instruction) {
			al, ok := in.(*ssa.Alloc)
			if !ok || !c.isNamed(al.Type().(*types.Pointer).Elem(), "", "Cmd") || al.Comment != "complit" {
				return
			}
			c.Mark(fn)
			key := Q(fn) + ":Cmd-literal"
			fields, _ := litFields(al)
			var problems []string
			for _, m := range []string{"optionsIdx", "argsIdx"} {
				if len(fields[m]) != 1 {
					problems = append(problems, m+" is not initialised (declaring would write a nil map)")
				} else if _, isMk := fields[m][0].(*ssa.MakeMap); !isMk {
					problems = append(problems, m+" is not a fresh map")
				}
			}
			if fn.Signature.Recv() != nil {
				// Command: policy inherited
				vs := fields["ErrorHandling"]
				okP := false
				if len(vs) == 1 {
					if b, f, isF := ir.FieldLoad(vs[0]); isF && f == "ErrorHandling" && b == ssa.Value(fn.Params[0]) {
						okP = true
					}
				}
				if !okP {
					problems = append(problems, "the sub-command does not inherit the parent's ErrorHandling")
				}
			}
			if fn.Signature.Recv() == nil {
				// the constructor hands its literal out on every path
				for _, r := range ir.ReturnPoints(fn) {
					if len(r.Results) == 1 && ir.IsNilConst(r.Results[0]) {
						problems = append(problems, "the constructor can return nil instead of the application it was asked for")
					}
				}
			}
			if len(problems) > 0 {
				c.Bad(key, al.Pos(), "%s", strings.Join(problems, "; "))
			} else {
				c.OK(key, al.Pos(), "both index maps are created; a sub-command copies its parent's ErrorHandling")
			}
		})
	}
	// the policy of an existing command is the application's business: the library sets ErrorHandling only
	// when it builds a command
	var writers []string
	for _, fn := range c.ClosureFuncsDeep() {
		ir.Instrs(fn, func(in ssa.Instruction) {
			st, ok := in.(*ssa.Store)
			if !ok {
				return
			}
			fa, isFA := st.Addr.(*ssa.FieldAddr)
			if !isFA {
				return
			}
			b, f, isF := ir.FieldAddr(st.Addr)
			if !isF || f != "ErrorHandling" || !c.isNamed(b.Type(), "", "Cmd") {
				return
			}
			if al, isAl := fa.X.(*ssa.Alloc); isAl && al.Comment == "complit" {
				return
			}
			writers = append(writers, Q(fn)+" at "+c.P.Pos(st.Pos()))
		})
	}
	sort.Strings(writers)
	mk := len(c.Obs)
	c.Check(len(writers) == 0, "writers(Cmd.ErrorHandling)", token.NoPos, "the library sets a command's ErrorHandling only in the literal that creates it", "ErrorHandling of an existing command is overwritten by "+strings.Join(writers, ", ")+": a policy the application set on that command would be lost")
	c.Scope(mk, "C07", "C14")
}
