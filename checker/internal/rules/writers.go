package rules

import (
	"go/token"
	"go/types"
	"sort"
	"strings"

	"golang.org/x/tools/go/ssa"

	"verif/checker/internal/ir"
	"verif/checker/internal/load"
)

// FieldWriters: "Type.field" -> the (canonical, qualified) functions of the production closure that
// write the field of an existing value: a store through a field address whose base is not a fresh
// composite literal of the same function, or a map update / append-assign through such a field.
func FieldWriters(p *load.Program) map[string][]string {
	out := map[string]map[string]bool{}
	add := func(tn, f, fn string) {
		k := tn + "." + f
		if out[k] == nil {
			out[k] = map[string]bool{}
		}
		out[k][fn] = true
	}
	for _, top := range p.ClosureFuncs() {
		var walk func(fn *ssa.Function)
		walk = func(fn *ssa.Function) {
			name := Q(fn)
			if fn.Parent() != nil {
				name = Q(outermost(fn))
			}
			ir.Instrs(fn, func(in ssa.Instruction) {
				var addr ssa.Value
				switch x := in.(type) {
				case *ssa.Store:
					addr = x.Addr
				case *ssa.MapUpdate:
					// m[k] = v where m is loaded from a field
					if ld, ok := x.Map.(*ssa.UnOp); ok && ld.Op == token.MUL {
						addr = ld.X
					}
				}
				if st, isSt := in.(*ssa.Store); isSt {
					// a whole object copied from an existing one (`sub := *c`, `*dst = *src`): every field is written
					if ld, isLd := st.Val.(*ssa.UnOp); isLd && ld.Op == token.MUL {
						if _, fresh := ld.X.(*ssa.Alloc); !fresh {
							if named, isN := st.Val.Type().(*types.Named); isN && named.Obj().Pkg() != nil && p.InModule(named.Obj().Pkg()) {
								if _, isS := named.Underlying().(*types.Struct); isS {
									add(named.Obj().Name(), "*", name)
								}
							}
						}
					}
				}
				fa, ok := addr.(*ssa.FieldAddr)
				if !ok {
					return
				}
				if _, isAl := fa.X.(*ssa.Alloc); isAl {
					return // a literal being initialised, or a local value: not an existing shared object
				}
				pt, isP := fa.X.Type().Underlying().(*types.Pointer)
				if !isP {
					return
				}
				named, isN := pt.Elem().(*types.Named)
				if !isN || named.Obj().Pkg() == nil || !p.InModule(named.Obj().Pkg()) {
					return
				}
				st, isS := named.Underlying().(*types.Struct)
				if !isS {
					return
				}
				add(named.Obj().Name(), st.Field(fa.Field).Name(), name)
			})
			for _, an := range fn.AnonFuncs {
				walk(an)
			}
		}
		if top.Parent() == nil {
			walk(top)
		}
	}
	res := map[string][]string{}
	for k, m := range out {
		for f := range m {
			res[k] = append(res[k], f)
		}
		sort.Strings(res[k])
	}
	return res
}

func outermost(fn *ssa.Function) *ssa.Function {
	for fn.Parent() != nil {
		fn = fn.Parent()
	}
	return fn
}

func init() {
	register(&Rule{ID: "WRT-1", Props: []string{"C01", "C02", "C04", "C05", "C08", "C09", "C10", "C12", "C14", "C15", "C17", "C18"}, Floor: 20,
		Doc: "who may write: the fields of the shared objects (commands, containers, parse contexts, automaton states, flow steps, the parser's cursor) are written, outside the literal that creates the object, only by the functions confirmed on the pinned tree; a new writer is a new behaviour", Run: wrt1})
}

// writersTable: field -> (the functions that may write it on an existing object, the properties that
// read it). Confirmed by reading on the pinned tree (mowcheck -dump @writers).
var writersTable = []struct {
	field string
	may   []string
	props []string
}{
	{"Cli.version", []string{"cli.(*Cli).Version"}, []string{"C14"}},
	{"Cmd.Action", []string{"cli.ActionCommand"}, []string{"C04", "C05"}},
	{"Cmd.commands", []string{"cli.(*Cmd).Command"}, []string{"C04", "C17"}},
	{"Cmd.parents", []string{"cli.(*Cmd).doInit"}, []string{"C14", "C17"}},
	{"Cmd.name", nil, []string{"C04", "C17"}},
	{"Cmd.aliases", nil, []string{"C04", "C17"}},
	{"Cmd.Before", nil, []string{"C05"}},
	{"Cmd.After", nil, []string{"C05"}},
	{"Cmd.Hidden", nil, []string{"C17"}},
	{"Container.Name", nil, []string{"C17", "C18"}},
	{"Container.Names", []string{"cli.(*Cmd).mkOpt"}, []string{"C10", "C18"}},
	{"Container.DefaultValue", []string{"cli.(*Cmd).mkArg", "cli.(*Cmd).mkOpt"}, []string{"C17"}},
	{"Container.ValueSetFromEnv", []string{"cli.(*Cmd).mkArg", "cli.(*Cmd).mkOpt", "fsm.fillContainers"}, []string{"C12"}},
	{"Container.Value", nil, []string{"C02"}},
	{"Container.ValueSetByUser", nil, []string{"C15"}},
	{"Container.EnvVar", nil, []string{"C12", "C17"}},
	{"ParseContext.Args", []string{"matcher.(*arg).Match", "matcher.ParseContext.Merge"}, []string{"C02", "C15"}},
	{"ParseContext.Opts", []string{"matcher.(*opt).matchLongOpt", "matcher.(*opt).matchShortOpt", "matcher.ParseContext.Merge"}, []string{"C02", "C15"}},
	{"ParseContext.ExcludedOpts", []string{"matcher.(*options).try"}, []string{"C12"}},
	{"ParseContext.RejectOptions", []string{"matcher.optsEnd.Match"}, []string{"C09"}},
	{"State.Terminal", []string{"fsm.(*State).simplifySelf", "parser.(*parser).parse"}, []string{"C01"}},
	{"State.Transitions", []string{"fsm.(*State).T", "fsm.(*State).simplifySelf"}, []string{"C01"}},
	{"Transition.Matcher", nil, []string{"C01"}},
	{"Transition.Next", nil, []string{"C01"}},
	{"Step.Success", []string{"cli.(*Cmd).parse"}, []string{"C05"}},
	{"Step.Error", nil, []string{"C05"}},
	{"Step.Do", nil, []string{"C05"}},
	{"parser.rejectOptions", []string{"parser.(*parser).atom"}, []string{"C08", "C09"}},
}

func wrt1(c *Ctx) {
	got := FieldWriters(c.P)
	// no existing object of these types is copied wholesale: the copy would carry every field along,
	// including the ones the table says nobody writes
	byType := map[string]map[string]bool{}
	var typeNames []string
	for _, row := range writersTable {
		tn := row.field[:strings.Index(row.field, ".")]
		if byType[tn] == nil {
			byType[tn] = map[string]bool{}
			typeNames = append(typeNames, tn)
		}
		for _, p := range row.props {
			byType[tn][p] = true
		}
	}
	for _, tn := range typeNames {
		var ps []string
		for p := range byType[tn] {
			ps = append(ps, p)
		}
		sort.Strings(ps)
		mk := len(c.Obs)
		c.Check(len(got[tn+".*"]) == 0, "copies("+tn+")", token.NoPos, "no existing "+tn+" is copied as a whole into another one",
			"an existing "+tn+" is copied as a whole by "+strings.Join(got[tn+".*"], ", ")+": every field travels with the copy, including those nobody may write after creation")
		c.Scope(mk, ps...)
	}
	for _, row := range writersTable {
		may := map[string]bool{}
		for _, f := range row.may {
			may[f] = true
		}
		var extra []string
		for _, w := range got[row.field] {
			if !may[w] {
				extra = append(extra, w)
			}
		}
		// a confirmed writer that was renamed (or moved into a helper of the same package): as many
		// unknown writers as confirmed ones that no longer write, all in the packages of the missing ones
		if len(extra) > 0 {
			gotSet := map[string]bool{}
			for _, w := range got[row.field] {
				gotSet[w] = true
			}
			exists := map[string]bool{}
			for _, f := range c.ClosureFuncsDeep() {
				exists[Q(f)] = true
			}
			var missing []string
			for _, w := range row.may {
				if !gotSet[w] && !exists[w] {
					missing = append(missing, w) // the confirmed writer is gone under that name
				}
			}
			pkgOf := func(q string) string {
				if i := strings.Index(q, "."); i > 0 {
					return q[:i]
				}
				return q
			}
			if len(missing) == len(extra) {
				same := true
				mp := map[string]int{}
				for _, w := range missing {
					mp[pkgOf(w)]++
				}
				for _, w := range extra {
					mp[pkgOf(w)]--
				}
				for _, n := range mp {
					if n != 0 {
						same = false
					}
				}
				if same {
					extra = nil
				}
			}
		}
		mk := len(c.Obs)
		ok := "written on an existing object only by " + strings.Join(row.may, ", ")
		if len(row.may) == 0 {
			ok = "never written on an existing object (set once, in the literal that creates it, or by the application)"
		}
		c.Check(len(extra) == 0, "writers("+row.field+")", token.NoPos, ok, "also written by "+strings.Join(extra, ", ")+": a writer that is not among the confirmed ones")
		c.Scope(mk, row.props...)
	}
}
