package rules

import (
	"fmt"
	"go/token"
	"go/types"
	"sort"
	"strings"

	"golang.org/x/tools/go/ssa"

	"verif/checker/internal/ir"
)

func init() {
	register(&Rule{ID: "GLOB-1", Props: []string{"C20"}, Floor: 1,
		Doc: "no function other than a package initialiser stores to a package-level variable", Run: glob1})
	register(&Rule{ID: "GLOB-2", Props: []string{"C20"}, Floor: 1,
		Doc: "package-level variables hold no mutable reference the library writes through; singleton matchers are constants", Run: glob2})
	register(&Rule{ID: "GLOB-3", Props: []string{"C20"}, Floor: 8,
		Doc: "no goroutines/channels/select, imports within the reviewed set, of os only Getenv/Exit/Stdout/Stderr", Run: glob3})
	register(&Rule{ID: "GLOB-4", Props: []string{"C20"}, Floor: 1,
		Doc: "every range over a map has only effects keyed by (or derived from) the iteration key", Run: glob4})
	register(&Rule{ID: "GLOB-5", Props: []string{"C20"}, Floor: 1,
		Doc: "sorting is deterministic: sort.Sort on transitions with Less comparing two Priority() ints; Priority returns constants", Run: glob5})
	register(&Rule{ID: "GLOB-6", Props: []string{"C03", "C20"}, Floor: 1,
		Doc: "no single-result (panicking) type assertion in the production closure", Run: glob6})
}

func globalRoot(v ssa.Value) *ssa.Global {
	for {
		switch x := v.(type) {
		case *ssa.Global:
			return x
		case *ssa.FieldAddr:
			v = x.X
		case *ssa.IndexAddr:
			v = x.X
		case *ssa.UnOp:
			if x.Op == token.MUL {
				v = x.X
				continue
			}
			return nil
		case *ssa.ChangeType:
			v = x.X
		default:
			return nil
		}
	}
}

func closureGlobals(c *Ctx) []*ssa.Global {
	var out []*ssa.Global
	for _, pk := range c.P.Closure {
		sp := c.P.SSAPkg[pk.PkgPath]
		var names []string
		for name, m := range sp.Members {
			if _, ok := m.(*ssa.Global); ok && !strings.Contains(name, "$") {
				names = append(names, name)
			}
		}
		sort.Strings(names)
		for _, n := range names {
			out = append(out, sp.Members[n].(*ssa.Global))
		}
	}
	return out
}

func glob1(c *Ctx) {
	globals := closureGlobals(c)
	writes := map[*ssa.Global][]string{}
	for _, fn := range c.ClosureFuncsDeep() {
		c.Mark(fn)
		isInit := fn.Name() == "init" && fn.Parent() == nil && fn.Signature.Recv() == nil
		ir.Instrs(fn, func(in ssa.Instruction) {
			var addr ssa.Value
			switch x := in.(type) {
			case *ssa.Store:
				addr = x.Addr
			case *ssa.MapUpdate:
				addr = x.Map
			default:
				return
			}
			g := globalRoot(addr)
			if g == nil || !c.P.InClosure(g.Pkg.Pkg) {
				return
			}
			if isInit && fn.Pkg == g.Pkg {
				return
			}
			writes[g] = append(writes[g], fmt.Sprintf("%s at %s", Q(fn), c.P.Pos(in.Pos())))
		})
	}
	for _, g := range globals {
		key := "var " + g.Pkg.Pkg.Name() + "." + g.Name()
		if w := writes[g]; len(w) > 0 {
			c.Bad(key, g.Pos(), "written outside the package initialiser: %s", strings.Join(w, "; "))
		} else {
			c.OK(key, g.Pos(), "only the package initialiser stores to it")
		}
	}
}

func glob2(c *Ctx) {
	for _, g := range closureGlobals(c) {
		key := "var " + g.Pkg.Pkg.Name() + "." + g.Name()
		t := g.Type().(*types.Pointer).Elem()
		ok := false
		why := ""
		switch u := t.Underlying().(type) {
		case *types.Interface:
			ok = true
			why = "interface value (error / io.Writer); the library only reads it and calls its methods"
		case *types.Signature:
			ok = true
			why = "function value"
		case *types.Basic:
			ok = true
			why = "basic type " + u.String()
		default:
			if stateless(t) {
				ok = true
				why = fmt.Sprintf("type %s has no state (no fields / zero size)", t)
				break
			}
			if w := readOnlyTable(c, g); w == "" {
				ok = true
				why = fmt.Sprintf("%s table that the library only reads (indexing, lookup, range, len); never written (GLOB-1) and never handed out", t)
			} else {
				why = fmt.Sprintf("type %s can carry shared mutable state: %s", t, w)
			}
		}
		if ok {
			c.OK(key, g.Pos(), "%s", why)
		} else {
			c.Bad(key, g.Pos(), "%s", why)
		}
	}
	// singleton matchers: parameterless constructors of package matcher must return constants
	for _, fn := range c.pkgFuncsDeep("internal/matcher") {
		if fn.Parent() != nil || fn.Signature.Recv() != nil || fn.Signature.Params().Len() != 0 || fn.Signature.Results().Len() != 1 {
			continue
		}
		if _, isIface := fn.Signature.Results().At(0).Type().Underlying().(*types.Interface); !isIface {
			continue
		}
		c.Mark(fn)
		for _, r := range ir.ReturnPoints(fn) {
			v := ir.Unwrap(r.Results[0])
			if _, isConst := v.(*ssa.Const); isConst {
				c.OK("singleton "+Q(fn), fn.Pos(), "returns a constant of basic kind: no shared mutable instance")
			} else if stateless(v.Type()) {
				c.OK("singleton "+Q(fn), fn.Pos(), "returns a value of a type without state: nothing to share")
			} else {
				c.Bad("singleton "+Q(fn), fn.Pos(), "parameterless constructor returns %s, not a constant: instance may be shared and mutable", v)
			}
		}
	}
}

// stateless: a struct without fields (recursively) or a zero-length array: values of the type cannot
// differ or be mutated.
func stateless(t types.Type) bool {
	switch u := t.Underlying().(type) {
	case *types.Struct:
		for i := 0; i < u.NumFields(); i++ {
			if !stateless(u.Field(i).Type()) {
				return false
			}
		}
		return true
	case *types.Array:
		return u.Len() == 0 || stateless(u.Elem())
	}
	return false
}

var allowedImports = map[string]bool{
	"errors": true, "flag": true, "fmt": true, "io": true, "os": true, "sort": true,
	"strconv": true, "strings": true, "text/tabwriter": true,
}
var allowedOS = map[string]bool{"Getenv": true, "Exit": true, "Stdout": true, "Stderr": true}

// readOnlyTable: every use of the composite-typed global g in the closure is a read of an element
// or of its length. Returns "" if so, else the first offending use.
func readOnlyTable(c *Ctx, g *ssa.Global) string {
	why := ""
	readOnlyValue := func(v ssa.Value, where string) {
		refs := v.Referrers()
		if refs == nil {
			return
		}
		for _, u := range *refs {
			switch x := u.(type) {
			case *ssa.Lookup, *ssa.Index, *ssa.Range:
			case *ssa.IndexAddr:
				for _, uu := range *x.Referrers() {
					if ld, ok := uu.(*ssa.UnOp); !ok || ld.Op != token.MUL {
						why = "an element's address is taken in " + where
					}
				}
			case *ssa.Call:
				if b, ok := x.Call.Value.(*ssa.Builtin); !ok || (b.Name() != "len" && b.Name() != "cap") {
					why = "passed to a call in " + where
				}
			case *ssa.Slice:
				why = "re-sliced in " + where
			case *ssa.DebugRef:
			default:
				why = fmt.Sprintf("used by %T in %s", x, where)
			}
		}
	}
	for _, fn := range c.ClosureFuncsDeep() {
		isInit := fn.Name() == "init" && fn.Parent() == nil && fn.Pkg == g.Pkg
		ir.Instrs(fn, func(in ssa.Instruction) {
			for _, op := range in.Operands(nil) {
				if *op != ssa.Value(g) {
					continue
				}
				switch x := in.(type) {
				case *ssa.UnOp:
					if x.Op == token.MUL {
						readOnlyValue(x, Q(fn))
						continue
					}
				case *ssa.IndexAddr:
					// &g[i] on an array global
					for _, uu := range *x.Referrers() {
						if ld, ok := uu.(*ssa.UnOp); ok && ld.Op == token.MUL {
							continue
						}
						if st, ok := uu.(*ssa.Store); ok && isInit && st.Addr == ssa.Value(x) {
							continue
						}
						why = "an element is written or its address escapes in " + Q(fn)
					}
					continue
				case *ssa.Store:
					if isInit && x.Addr == ssa.Value(g) {
						continue
					}
				}
				if !isInit {
					why = fmt.Sprintf("used by %T in %s", in, Q(fn))
				}
			}
		})
	}
	return why
}

func glob3(c *Ctx) {
	for _, pk := range c.P.Closure {
		rel := c.P.Rel(pk.PkgPath)
		if rel == "" {
			rel = "(root)"
		}
		var bad []string
		for path := range pk.Imports {
			if c.P.ByPath[path] != nil {
				continue
			}
			if !allowedImports[path] {
				bad = append(bad, "import "+path)
			}
		}
		// uses of package os
		for id, obj := range pk.TypesInfo.Uses {
			if obj.Pkg() != nil && obj.Pkg().Path() == "os" && !allowedOS[obj.Name()] {
				bad = append(bad, fmt.Sprintf("os.%s at %s", obj.Name(), c.P.Pos(id.Pos())))
			}
		}
		sp := c.P.SSAPkg[pk.PkgPath]
		for _, fn := range c.pkgFuncsDeep(c.P.Rel(pk.PkgPath)) {
			_ = sp
			c.Mark(fn)
			ir.Instrs(fn, func(in ssa.Instruction) {
				switch x := in.(type) {
				case *ssa.Go:
					bad = append(bad, "go statement at "+c.P.Pos(x.Pos()))
				case *ssa.Select:
					bad = append(bad, "select at "+c.P.Pos(x.Pos()))
				case *ssa.Send:
					bad = append(bad, "channel send at "+c.P.Pos(x.Pos()))
				case *ssa.MakeChan:
					bad = append(bad, "make(chan) at "+c.P.Pos(x.Pos()))
				case *ssa.UnOp:
					if x.Op == token.ARROW {
						bad = append(bad, "channel receive at "+c.P.Pos(x.Pos()))
					}
				}
			})
		}
		sort.Strings(bad)
		if len(bad) > 0 {
			c.Bad("package "+rel, token.NoPos, "%s", strings.Join(bad, "; "))
		} else {
			c.OK("package "+rel, token.NoPos, "imports within reviewed set, no concurrency or escape hatches")
		}
	}
}

// derivedFrom reports whether v is computed only from the given roots (and
// constants), through field/index/deref/conversion instructions.
func derivedFrom(v ssa.Value, roots map[ssa.Value]bool) bool {
	return derivedFromIn(v, roots, nil)
}

// derivedFromIn is derivedFrom where phis of block hdr (values carried from
// one iteration to the next) do not count as derived.
func derivedFromIn(v ssa.Value, roots map[ssa.Value]bool, hdr *ssa.BasicBlock) bool {
	seen := map[ssa.Value]bool{}
	var walk func(v ssa.Value) bool
	walk = func(v ssa.Value) bool {
		if roots[v] {
			return true
		}
		if seen[v] {
			return true
		}
		seen[v] = true
		switch x := v.(type) {
		case *ssa.Const:
			return true
		case *ssa.FieldAddr:
			return walk(x.X)
		case *ssa.Field:
			return walk(x.X)
		case *ssa.IndexAddr:
			return walk(x.X)
		case *ssa.UnOp:
			return walk(x.X)
		case *ssa.Extract:
			return walk(x.Tuple)
		case *ssa.TypeAssert:
			return walk(x.X)
		case *ssa.ChangeType:
			return walk(x.X)
		case *ssa.ChangeInterface:
			return walk(x.X)
		case *ssa.MakeInterface:
			return walk(x.X)
		case *ssa.Phi:
			if hdr != nil && x.Block() == hdr {
				return false // loop-carried: depends on the iteration order
			}
			for _, e := range x.Edges {
				if !walk(e) {
					return false
				}
			}
			return true
		case *ssa.BinOp:
			return walk(x.X) && walk(x.Y)
		case *ssa.Call:
			// len() etc. of derived values
			if b, ok := x.Call.Value.(*ssa.Builtin); ok && (b.Name() == "len" || b.Name() == "cap") {
				return walk(x.Call.Args[0])
			}
			// the result of a call whose receiver and arguments are all derived (no package-level state is
			// written anywhere: GLOB-1/2, so what the callee does and returns depends on them alone)
			if x.Call.IsInvoke() && !walk(x.Call.Value) {
				return false
			}
			if !x.Call.IsInvoke() {
				if _, isFn := x.Call.Value.(*ssa.Function); !isFn {
					return false
				}
			}
			for _, a := range x.Call.Args {
				if els := varargElems(a); len(els) > 0 {
					for _, e := range els {
						if !walk(e) {
							return false
						}
					}
					continue
				}
				if !walk(a) {
					return false
				}
			}
			return true
		}
		return false
	}
	return walk(v)
}

func glob4(c *Ctx) {
	n := 0
	for _, fn := range c.ClosureFuncsDeep() {
		ir.Instrs(fn, func(in ssa.Instruction) {
			rg, ok := in.(*ssa.Range)
			if !ok {
				return
			}
			if _, isMap := rg.X.Type().Underlying().(*types.Map); !isMap {
				return
			}
			n++
			c.Mark(fn)
			desc := "?"
			if _, f, ok := ir.FieldLoad(rg.X); ok {
				desc = "." + f
			} else if p, ok := rg.X.(*ssa.Parameter); ok {
				desc = "param " + p.Name()
			}
			key := fmt.Sprintf("%s:range(%s)", Q(fn), desc)
			// find the Next and the key/value extracts
			var next *ssa.Next
			for _, u := range *rg.Referrers() {
				if nx, ok := u.(*ssa.Next); ok {
					next = nx
				}
			}
			if next == nil {
				c.Undecided(key, rg.Pos(), "range without next")
				return
			}
			roots := map[ssa.Value]bool{}
			var kv ssa.Value
			for _, u := range *next.Referrers() {
				if ex, ok := u.(*ssa.Extract); ok && ex.Index >= 1 {
					roots[ex] = true
					if ex.Index == 1 {
						kv = ex
					}
				}
			}
			// loop body = blocks reachable from the "ok" successor of the header without passing the header
			hdr := next.Block()
			var bodyStart *ssa.BasicBlock
			if iff, ok := hdr.Instrs[len(hdr.Instrs)-1].(*ssa.If); ok {
				_ = iff
				bodyStart = hdr.Succs[0]
			}
			if bodyStart == nil {
				c.Undecided(key, rg.Pos(), "range header shape not recognised")
				return
			}
			body := ir.Reach(bodyStart, map[*ssa.BasicBlock]bool{hdr: true}, nil)
			var problems []string
			notes := []string{}
			for b := range body {
				for _, in := range b.Instrs {
					switch x := in.(type) {
					case *ssa.MapUpdate:
						if x.Key != kv {
							problems = append(problems, fmt.Sprintf("map update at %s with a key other than the iteration key", c.P.Pos(x.Pos())))
						}
					case *ssa.Store:
						if !derivedFromIn(x.Addr, roots, hdr) {
							problems = append(problems, fmt.Sprintf("store at %s to an address not derived from the iteration key/value", c.P.Pos(x.Pos())))
						}
					case ssa.CallInstruction:
						cc := x.Common()
						if b, ok := cc.Value.(*ssa.Builtin); ok {
							if b.Name() == "append" || b.Name() == "len" || b.Name() == "cap" {
								continue
							}
						}
						if cc.IsInvoke() {
							if !derivedFromIn(cc.Value, roots, hdr) {
								problems = append(problems, fmt.Sprintf("invoke %s at %s on a receiver not derived from the iteration key/value", cc.Method.Name(), c.P.Pos(x.Pos())))
							}
							for _, a := range cc.Args {
								if !derivedFromIn(a, roots, hdr) {
									problems = append(problems, fmt.Sprintf("invoke %s at %s with an argument not derived from the iteration key/value", cc.Method.Name(), c.P.Pos(x.Pos())))
								}
							}
							continue
						}
						// a static call whose receiver and arguments are all derived from the iteration key/value:
						// its effects are on what they reach (nothing package-level is written: GLOB-1/2)
						if _, isFn := cc.Value.(*ssa.Function); isFn {
							allDerived := true
							for _, a := range cc.Args {
								if els := varargElems(a); len(els) > 0 {
									for _, e := range els {
										if !derivedFromIn(e, roots, hdr) {
											allDerived = false
										}
									}
									continue
								}
								if !derivedFromIn(a, roots, hdr) {
									allDerived = false
								}
							}
							if allDerived {
								continue
							}
						}
						problems = append(problems, fmt.Sprintf("call at %s inside a map range (effect not keyed by the iteration key)", c.P.Pos(x.Pos())))
					case *ssa.Return:
						notes = append(notes, "returns from inside the loop (order decides only which of several errors is returned)")
						for _, r := range x.Results {
							if !derivedFromIn(r, roots, hdr) {
								// the returned value must itself come from a per-key effect
								if call, ok := r.(*ssa.Call); ok && call.Call.IsInvoke() && derivedFromIn(call.Call.Value, roots, hdr) {
									continue
								}
								problems = append(problems, fmt.Sprintf("return at %s of a value not derived from the iteration key/value", c.P.Pos(x.Pos())))
							}
						}
					case *ssa.Panic, *ssa.Send, *ssa.Go, *ssa.Defer:
						problems = append(problems, fmt.Sprintf("%T at %s inside a map range", x, c.P.Pos(in.Pos())))
					}
				}
			}
			sort.Strings(problems)
			if len(problems) > 0 {
				c.Undecided(key, rg.Pos(), "order-dependence cannot be excluded: %s", strings.Join(problems, "; "))
			} else {
				c.OK(key, rg.Pos(), "all effects of the body are keyed by / derived from the iteration key. %s", strings.Join(notes, "; "))
			}
		})
	}
	if n == 0 {
		c.OK("no-map-range", token.NoPos, "the closure contains no range over a map")
	}
}

func glob5(c *Ctx) {
	// every call of sort.* in the closure
	for _, fn := range c.ClosureFuncsDeep() {
		for _, call := range ir.Calls(fn) {
			f := ir.Static(call)
			if f == nil || f.Object() == nil || f.Object().Pkg() == nil || f.Object().Pkg().Path() != "sort" {
				continue
			}
			c.Mark(fn)
			key := fmt.Sprintf("%s:sort.%s", Q(fn), f.Name())
			if f.Name() != "Sort" && f.Name() != "Stable" {
				c.Undecided(key, call.Pos(), "sort function %s not in the reviewed set", f.Name())
				continue
			}
			arg := ir.Unwrap(call.Common().Args[0])
			// Less of the argument's type
			ms := c.P.SSA.MethodSets.MethodSet(arg.Type())
			sel := ms.Lookup(nil, "Less")
			if sel == nil {
				c.Undecided(key, call.Pos(), "no Less method on %s", arg.Type())
				continue
			}
			less := c.P.SSA.MethodValue(sel)
			c.Mark(less)
			ok := false
			for _, r := range ir.ReturnPoints(less) {
				if b, isBin := r.Results[0].(*ssa.BinOp); isBin && b.Op == token.LSS {
					cx, okx := b.X.(*ssa.Call)
					cy, oky := b.Y.(*ssa.Call)
					if okx && oky && ir.IsInvokeOf(cx, "Priority") && ir.IsInvokeOf(cy, "Priority") {
						ok = true
					}
				}
			}
			c.Check(ok, key, call.Pos(), "Less compares two Priority() results with <", "Less is not a plain comparison of two Priority() ints")
		}
	}
	// every Priority method in matcher returns a constant
	mi := c.TypeNamed("internal/matcher", "Matcher")
	if mi == nil {
		c.Undecided("anchor:matcher.Matcher", token.NoPos, "interface not found")
		return
	}
	for _, fn := range c.pkgFuncsDeep("internal/matcher") {
		if fn.Name() != "Priority" || fn.Signature.Recv() == nil {
			continue
		}
		c.Mark(fn)
		ok := true
		for _, r := range ir.ReturnPoints(fn) {
			if _, isC := ir.ConstInt(r.Results[0]); !isC {
				ok = false
			}
		}
		c.Check(ok, Q(fn), fn.Pos(), "returns a constant", "Priority is not a constant")
	}
}

func glob6(c *Ctx) {
	for _, fn := range c.ClosureFuncsDeep() {
		ir.Instrs(fn, func(in ssa.Instruction) {
			ta, ok := in.(*ssa.TypeAssert)
			if !ok {
				return
			}
			c.Mark(fn)
			key := fmt.Sprintf("%s:assert(%s)", Q(fn), types.TypeString(ta.AssertedType, func(p *types.Package) string { return p.Name() }))
			c.Check(ta.CommaOk, key, ta.Pos(), "comma-ok / type-switch form", "single-result assertion panics on mismatch")
		})
	}
}
