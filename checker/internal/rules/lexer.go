package rules

import (
	"fmt"
	"go/constant"
	"go/token"
	"go/types"
	"sort"
	"strings"

	"golang.org/x/tools/go/ssa"

	"verif/checker/internal/ir"
)

func init() {
	register(&Rule{ID: "LEX-1", Props: []string{"C03"}, Floor: 12,
		Doc: "scanner bounds: the position only grows by +1 from a value known < len (so pos <= len always); every byte read usage[pos] is behind a guard that puts the same content of pos strictly below len; every usage[a:b] has a an earlier value of pos and b a value of pos", Run: lex1})
	register(&Rule{ID: "LEX-2", Props: []string{"C03"}, Floor: 4,
		Doc: "scanner progress: every cycle of the scanner's CFG contains an increment of the position", Run: lex2})
	register(&Rule{ID: "LEX-3", Props: []string{"C08", "C18"}, Floor: 1,
		Doc: "consume => emit: no iteration of the main loop advances the position without emitting a token, except in the blank cases", Run: lex3})
	register(&Rule{ID: "LEX-4", Props: []string{"C08", "C18"}, Floor: 6,
		Doc: "faithful tokens: the position given to an emit is the position at the start of the iteration; the text is usage[start:pos] (or a suffix of it) or a constant; one-byte tokens carry the character that selected the case", Run: lex4})
	register(&Rule{ID: "LEX-5", Props: []string{"C03", "C08"}, Floor: 3,
		Doc: "error positions: every ParseError takes Pos from the scanner position, a token's Pos or len(spec), and Input from the string those positions refer to", Run: lex5})
	register(&Rule{ID: "LEX-6", Props: []string{"C08", "C18"}, Floor: 1,
		Doc: "the set of token kinds the scanner emits equals the set declared", Run: lex6})
}

// lexModel holds the anchors of the scanner function.
type lexModel struct {
	fn        *ssa.Function
	pos       *ssa.Alloc // position cell
	usage     ssa.Value  // the input: parameter or its cell
	usageCell *ssa.Alloc
	eof       map[ssa.Value]bool // values equal to len(usage)
	emits     map[*ssa.Function]bool
	errFn     map[*ssa.Function]bool
	g         *lexGraph
	stores    []*ssa.Store
	ltStores  map[*ssa.Store]bool // stores after which the content is known < len
	// scanner state kept in a local struct instead of captured locals: the struct and the field indices
	state      *ssa.Alloc
	posField   int
	usageField int
	tokenT     *types.Named
}

// emitSite is one place where the scanner produces a token: a call of an emitter closure, or (when
// the emitter was a method that got inlined) a Token literal built in the scanner itself.
type emitSite struct {
	in       ssa.Instruction
	kind     ssa.Value
	text     ssa.Value
	pos      ssa.Value // nil when the emitter reads the position itself
	implicit bool
}

func (m *lexModel) emitSites() []emitSite {
	var out []emitSite
	implicitPos := map[*ssa.Function]bool{}
	for f := range m.emits {
		ir.Instrs(f, func(in ssa.Instruction) {
			if ld, ok := in.(*ssa.UnOp); ok && ld.Op == token.MUL && m.pos != nil && ir.CellAlloc(ld.X) == m.pos {
				implicitPos[f] = true
			}
		})
	}
	for _, call := range ir.Calls(m.fn) {
		cv, ok := call.(*ssa.Call)
		if !ok {
			continue
		}
		f := ir.Static(cv)
		if f == nil || !m.emits[f] || len(cv.Call.Args) < 2 {
			continue
		}
		es := emitSite{in: cv, kind: cv.Call.Args[0], text: cv.Call.Args[1]}
		if implicitPos[f] {
			es.implicit = true
		} else if len(cv.Call.Args) >= 3 {
			es.pos = cv.Call.Args[2]
		}
		out = append(out, es)
	}
	// Token literals of the scanner function itself
	if m.tokenT != nil {
		ir.Instrs(m.fn, func(in ssa.Instruction) {
			al, ok := in.(*ssa.Alloc)
			if !ok || al.Comment != "complit" {
				return
			}
			pt, isP := al.Type().(*types.Pointer)
			if !isP {
				return
			}
			n, isN := pt.Elem().(*types.Named)
			if !isN || n.Obj() != m.tokenT.Obj() {
				return
			}
			fields, _ := litFields(al)
			one := func(name string) ssa.Value {
				if len(fields[name]) == 1 {
					return fields[name][0]
				}
				return nil
			}
			if one("Typ") == nil || one("Val") == nil || one("Pos") == nil {
				return
			}
			out = append(out, emitSite{in: al, kind: one("Typ"), text: one("Val"), pos: one("Pos")})
		})
	}
	return out
}

// fieldAddrOf: v is &state.f for the scanner's state struct.
func (m *lexModel) fieldAddrOf(v ssa.Value) (int, bool) {
	fa, ok := v.(*ssa.FieldAddr)
	if !ok || m.state == nil || fa.X != ssa.Value(m.state) {
		return 0, false
	}
	return fa.Field, true
}

// isPosAddr: v addresses the scanner position (the cell, or the state struct's field).
func (m *lexModel) isPosAddr(v ssa.Value) bool {
	if m.pos != nil && v == ssa.Value(m.pos) {
		return true
	}
	if f, ok := m.fieldAddrOf(v); ok && m.pos == nil && f == m.posField {
		return true
	}
	return false
}

// lexGraph is the scanner's CFG with infeasible boolean-phi paths threaded out.
type lexGraph struct {
	succ map[*ssa.BasicBlock][]*ssa.BasicBlock
}

func (g *lexGraph) reach(from []*ssa.BasicBlock, blockedB map[*ssa.BasicBlock]bool, blockedE map[ir.Edge]bool) map[*ssa.BasicBlock]bool {
	seen := map[*ssa.BasicBlock]bool{}
	var stack []*ssa.BasicBlock
	for _, f := range from {
		if !blockedB[f] && !seen[f] {
			seen[f] = true
			stack = append(stack, f)
		}
	}
	for len(stack) > 0 {
		b := stack[len(stack)-1]
		stack = stack[:len(stack)-1]
		for _, s := range g.succ[b] {
			if seen[s] || blockedB[s] || blockedE[ir.Edge{From: b, To: s}] {
				continue
			}
			seen[s] = true
			stack = append(stack, s)
		}
	}
	return seen
}

// possibleBool returns which truth values boolean v can have when control is
// at the end of block at (after at's own instructions).
func possibleBool(v ssa.Value, at *ssa.BasicBlock, depth int) (canT, canF bool) {
	if b, ok := ir.ConstBool(v); ok {
		return b, !b
	}
	if depth > 6 {
		return true, true
	}
	if ir.HoldsAt(v, true, at) {
		return true, false
	}
	if ir.HoldsAt(v, false, at) {
		return false, true
	}
	// at itself ends with `if v`: not informative here
	if phi, ok := v.(*ssa.Phi); ok {
		for i, e := range phi.Edges {
			t, f := possibleBool(e, phi.Block().Preds[i], depth+1)
			canT = canT || t
			canF = canF || f
		}
		return
	}
	return true, true
}

func buildLexGraph(fn *ssa.Function) *lexGraph {
	g := &lexGraph{succ: map[*ssa.BasicBlock][]*ssa.BasicBlock{}}
	for _, b := range fn.Blocks {
		g.succ[b] = append([]*ssa.BasicBlock(nil), b.Succs...)
	}
	// thread blocks that consist only of phis and an If on one of those phis
	for _, b := range fn.Blocks {
		if len(b.Instrs) == 0 {
			continue
		}
		iff, ok := b.Instrs[len(b.Instrs)-1].(*ssa.If)
		if !ok {
			continue
		}
		phi, isPhi := iff.Cond.(*ssa.Phi)
		if !isPhi || phi.Block() != b {
			continue
		}
		pure := true
		for _, in := range b.Instrs[:len(b.Instrs)-1] {
			if _, isP := in.(*ssa.Phi); !isP {
				pure = false
			}
		}
		if !pure {
			continue
		}
		for i, p := range b.Preds {
			canT, canF := possibleBool(phi.Edges[i], p, 0)
			var repl []*ssa.BasicBlock
			for _, s := range g.succ[p] {
				if s != b {
					repl = append(repl, s)
					continue
				}
				if canT {
					repl = append(repl, b.Succs[0])
				}
				if canF {
					repl = append(repl, b.Succs[1])
				}
			}
			g.succ[p] = repl
		}
		g.succ[b] = nil
	}
	// results of inlined helpers travel through two joins (`inlR = ..; break L` then the caller's
	// `if perr != nil`): follow a nil-tested phi back through the jump-only join that feeds it
	for _, t := range fn.Blocks {
		if len(t.Instrs) == 0 || len(t.Succs) != 2 {
			continue
		}
		iff, ok := t.Instrs[len(t.Instrs)-1].(*ssa.If)
		if !ok {
			continue
		}
		bo, ok := iff.Cond.(*ssa.BinOp)
		if !ok || !(bo.Op == token.EQL || bo.Op == token.NEQ) || !ir.IsNilConst(bo.Y) || bo.Block() != t {
			continue
		}
		phi, ok := bo.X.(*ssa.Phi)
		if !ok || phi.Block() != t {
			continue
		}
		pureT := true
		for _, in := range t.Instrs {
			switch in.(type) {
			case *ssa.Phi, *ssa.BinOp, *ssa.If, *ssa.DebugRef:
			default:
				pureT = false
			}
		}
		if !pureT {
			continue
		}
		for i, p := range t.Preds {
			inner, isPhi := phi.Edges[i].(*ssa.Phi)
			if !isPhi || inner.Block() != p || len(p.Succs) != 1 {
				continue
			}
			pureP := true
			for _, in := range p.Instrs {
				switch in.(type) {
				case *ssa.Phi, *ssa.Jump, *ssa.DebugRef:
				default:
					pureP = false
				}
			}
			if !pureP {
				continue
			}
			for j, q := range p.Preds {
				e := inner.Edges[j]
				var isNil, known bool
				if ir.IsNilConst(e) {
					isNil, known = true, true
				} else {
					switch x := e.(type) {
					case *ssa.Alloc, *ssa.MakeInterface:
						_ = x
						isNil, known = false, true
					}
				}
				if !known {
					continue
				}
				outcome := isNil == (bo.Op == token.EQL)
				only := t.Succs[1]
				if outcome {
					only = t.Succs[0]
				}
				var repl []*ssa.BasicBlock
				for _, sc := range g.succ[q] {
					if sc == p {
						repl = append(repl, only)
					} else {
						repl = append(repl, sc)
					}
				}
				g.succ[q] = repl
			}
		}
	}
	// the general threading table (nil tests of merged results, index results, ...): an edge p->t into a
	// block that only computes its branch condition is redirected to the successor it forces
	thr := ir.ThreadInfo(fn)
	for e, only := range thr {
		pure := true
		for _, in := range e.To.Instrs {
			switch in.(type) {
			case *ssa.Phi, *ssa.BinOp, *ssa.UnOp, *ssa.If, *ssa.DebugRef:
			default:
				pure = false
			}
		}
		if !pure {
			continue
		}
		var repl []*ssa.BasicBlock
		for _, sc := range g.succ[e.From] {
			if sc == e.To {
				repl = append(repl, only)
			} else {
				repl = append(repl, sc)
			}
		}
		g.succ[e.From] = repl
	}
	return g
}

func (c *Ctx) lexModel() (*lexModel, string) {
	fn := c.fnOpt("internal/lexer", "Tokenize")
	if fn == nil {
		return nil, "scanner function lexer.Tokenize not found"
	}
	m := &lexModel{fn: fn, eof: map[ssa.Value]bool{}, emits: map[*ssa.Function]bool{}, errFn: map[*ssa.Function]bool{}}
	// the input string: parameter of type string, possibly spilled to a cell
	var param *ssa.Parameter
	for _, p := range fn.Params {
		if b, ok := p.Type().Underlying().(*types.Basic); ok && b.Kind() == types.String {
			param = p
		}
	}
	if param == nil {
		return nil, "no string parameter"
	}
	m.usage = param
	for _, u := range *param.Referrers() {
		if st, ok := u.(*ssa.Store); ok && st.Val == ssa.Value(param) {
			if al, isAl := st.Addr.(*ssa.Alloc); isAl {
				m.usageCell = al
			}
		}
	}
	// or kept in a field of a local state struct: `s := &scanner{usage: usage, ...}`
	m.usageField = -1
	for _, u := range *param.Referrers() {
		if st, ok := u.(*ssa.Store); ok && st.Val == ssa.Value(param) {
			if fa, isFA := st.Addr.(*ssa.FieldAddr); isFA {
				if al, isAl := fa.X.(*ssa.Alloc); isAl && al.Parent() == fn {
					// only a struct whose copy of the input is what the scanner reads bytes from
					indexed := false
					for _, u2 := range *al.Referrers() {
						if fa2, ok2 := u2.(*ssa.FieldAddr); ok2 && fa2.Field == fa.Field {
							for _, u3 := range *fa2.Referrers() {
								if ld, isLd := u3.(*ssa.UnOp); isLd && ld.Op == token.MUL {
									for _, u4 := range *ld.Referrers() {
										if ix, isIx := u4.(*ssa.Index); isIx && ix.X == ssa.Value(ld) {
											indexed = true
										}
									}
								}
							}
						}
					}
					if indexed {
						m.state, m.usageField = al, fa.Field
					}
				}
			}
		}
	}
	if m.state == nil {
		// or the struct only keeps the position (and a copy of the input that is not what is indexed): an
		// int field of a local struct whose loads index the input parameter
		ir.Instrs(fn, func(in ssa.Instruction) {
			lk, ok := in.(*ssa.Index)
			if !ok || lk.X != ssa.Value(param) || m.state != nil {
				return
			}
			ld, isLd := lk.Index.(*ssa.UnOp)
			if !isLd || ld.Op != token.MUL {
				return
			}
			fa, isFA := ld.X.(*ssa.FieldAddr)
			if !isFA {
				return
			}
			if al, isAl := fa.X.(*ssa.Alloc); isAl && al.Parent() == fn {
				m.state = al
				for _, u := range *param.Referrers() {
					if st, okS := u.(*ssa.Store); okS && st.Val == ssa.Value(param) {
						if fa2, isFA2 := st.Addr.(*ssa.FieldAddr); isFA2 && fa2.X == ssa.Value(al) {
							m.usageField = fa2.Field
						}
					}
				}
			}
		})
	}
	if m.state != nil {
		// the struct must stay local: only field addresses are taken; the input field is stored once
		nUsage := 0
		for _, u := range *m.state.Referrers() {
			switch x := u.(type) {
			case *ssa.FieldAddr:
				if x.Field == m.usageField {
					for _, uu := range *x.Referrers() {
						if st, isSt := uu.(*ssa.Store); isSt && st.Addr == ssa.Value(x) {
							nUsage++
						}
					}
				}
			case *ssa.DebugRef:
			default:
				return nil, "the scanner state struct is used other than through its fields (method not inlined, or it escapes)"
			}
		}
		if nUsage != 1 && m.usageField >= 0 {
			return nil, "the input string is re-assigned during scanning"
		}
	}
	if m.usageCell != nil {
		// the cell must never be re-assigned
		n := 0
		for _, ref := range ir.CellRefs(m.usageCell) {
			for _, u := range *ref.Referrers() {
				if st, ok := u.(*ssa.Store); ok && st.Addr == ref {
					n++
				}
			}
		}
		if n != 1 {
			return nil, "the input string is re-assigned during scanning"
		}
	}
	// the position cell: an int Alloc whose loads index the input
	posInState := false
	ir.Instrs(fn, func(in ssa.Instruction) {
		lk, ok := in.(*ssa.Index)
		if !ok || !m.isUsage(lk.X) {
			return
		}
		if ld, isLd := lk.Index.(*ssa.UnOp); isLd && ld.Op == token.MUL {
			if al, isAl := ld.X.(*ssa.Alloc); isAl {
				if b, isB := al.Type().(*types.Pointer).Elem().Underlying().(*types.Basic); isB && b.Kind() == types.Int {
					m.pos = al
				}
			}
			if f, isF := m.fieldAddrOf(ld.X); isF && m.pos == nil {
				m.posField = f
				posInState = true
			}
		}
	})
	if m.pos == nil && !posInState {
		return nil, "no position cell indexing the input found"
	}
	// eof values: len(usage)
	ir.Instrs(fn, func(in ssa.Instruction) {
		if call, ok := in.(*ssa.Call); ok {
			if b, isB := call.Call.Value.(*ssa.Builtin); isB && b.Name() == "len" && m.isUsage(call.Call.Args[0]) {
				m.eof[call] = true
			}
		}
	})
	if m.state != nil {
		// a state field that is stored once, with len(usage): its loads are eof values too
		stores := map[int][]ssa.Value{}
		for _, u := range *m.state.Referrers() {
			if fa, ok := u.(*ssa.FieldAddr); ok {
				for _, uu := range *fa.Referrers() {
					if st, isSt := uu.(*ssa.Store); isSt && st.Addr == ssa.Value(fa) {
						stores[fa.Field] = append(stores[fa.Field], st.Val)
					}
				}
			}
		}
		for f, vs := range stores {
			if len(vs) == 1 && m.eof[vs[0]] {
				for _, u := range *m.state.Referrers() {
					if fa, ok := u.(*ssa.FieldAddr); ok && fa.Field == f {
						for _, uu := range *fa.Referrers() {
							if ld, isLd := uu.(*ssa.UnOp); isLd && ld.Op == token.MUL {
								m.eof[ld] = true
							}
						}
					}
				}
			}
		}
	}
	m.tokenT = c.TypeNamed("internal/lexer", "Token")
	// closures: emitters append to a token slice cell; error builders return a ParseError
	for _, an := range fn.AnonFuncs {
		appends := false
		ir.Instrs(an, func(in ssa.Instruction) {
			if call, ok := in.(*ssa.Call); ok {
				if b, isB := call.Call.Value.(*ssa.Builtin); isB && b.Name() == "append" {
					appends = true
				}
			}
		})
		if appends {
			m.emits[an] = true
		} else if an.Signature.Results().Len() == 1 && c.isNamed(an.Signature.Results().At(0).Type(), "internal/lexer", "ParseError") {
			m.errFn[an] = true
		}
	}
	// stores to pos, including from closures
	if m.pos != nil {
		for _, ref := range ir.CellRefs(m.pos) {
			for _, u := range *ref.Referrers() {
				if st, ok := u.(*ssa.Store); ok && st.Addr == ref {
					if st.Parent() != fn {
						return nil, "a closure writes the scanner position"
					}
					m.stores = append(m.stores, st)
				}
			}
		}
	} else {
		ir.Instrs(fn, func(in ssa.Instruction) {
			if st, ok := in.(*ssa.Store); ok && m.isPosAddr(st.Addr) {
				m.stores = append(m.stores, st)
			}
		})
	}
	m.g = buildLexGraph(fn)
	m.ltStores = map[*ssa.Store]bool{}
	for _, st := range m.stores {
		if m.indexOfStore(st) {
			m.ltStores[st] = true
		}
	}
	return m, ""
}

// indexOfStore: `pos = pos + k` with k = strings.IndexByte/Index(usage[pos:], x) known >= 0: the new
// position is that of a byte of the input, hence < len.
func (m *lexModel) indexOfStore(st *ssa.Store) bool {
	bo, ok := st.Val.(*ssa.BinOp)
	if !ok || bo.Op != token.ADD || !m.isPosLoad(bo.X) {
		return false
	}
	call, ok := bo.Y.(*ssa.Call)
	if !ok {
		return false
	}
	f := call.Call.StaticCallee()
	if f == nil || !(ir.IsStdFunc(f, "strings", "IndexByte") || ir.IsStdFunc(f, "strings", "Index") || ir.IsStdFunc(f, "strings", "IndexRune")) {
		return false
	}
	sl, ok := call.Call.Args[0].(*ssa.Slice)
	if !ok || !m.isUsage(sl.X) || sl.High != nil || sl.Low == nil || !m.isPosLoad(sl.Low) {
		return false
	}
	// no store to pos between the slice's load, the added load and this store
	if !m.sameVersion(sl.Low, bo.X) {
		if !m.noStoreBetween(sl.Low.(ssa.Instruction), bo.X.(ssa.Instruction)) {
			return false
		}
	}
	li := bo.X.(ssa.Instruction)
	if li.Block() != st.Block() || m.storeIn(st.Block(), ir.IndexIn(li), ir.IndexIn(st)) >= 0 {
		return false
	}
	// k >= 0 at the store
	okGuard := false
	ir.Instrs(m.fn, func(in ssa.Instruction) {
		c, isBo := in.(*ssa.BinOp)
		if !isBo || c.X != ssa.Value(call) {
			return
		}
		k, isK := ir.ConstInt(c.Y)
		if !isK {
			return
		}
		for _, want := range []bool{true, false} {
			if ir.HoldsAt(c, want, st.Block()) {
				// (k' op k) == want must exclude every negative k'
				if t, okT := lenCmp(c.Op, -1, k); okT && t != want {
					okGuard = true
				}
			}
		}
	})
	return okGuard
}

// advancedSince: every path from the load `from` to instruction `to` executes at least one store to pos
// (each store is pos+1 or more, checked separately), so the content at `to` is >= the loaded one + 1.
func (m *lexModel) advancedSince(from, to ssa.Instruction) bool {
	fb, tb := from.Block(), to.Block()
	if !fb.Dominates(tb) {
		return false
	}
	if fb == tb {
		lo, hi := ir.IndexIn(from), ir.IndexIn(to)
		return lo < hi && m.storeIn(fb, lo, hi) >= 0
	}
	if m.storeIn(fb, ir.IndexIn(from), len(fb.Instrs)) >= 0 {
		return true
	}
	if m.storeIn(tb, 0, ir.IndexIn(to)) >= 0 {
		return true
	}
	blocked := map[*ssa.BasicBlock]bool{fb: true}
	for _, b := range m.fn.Blocks {
		if b != tb && m.kill(b) {
			blocked[b] = true
		}
	}
	return !m.g.reach(m.g.succ[fb], blocked, nil)[tb]
}

// advancesThrough: over all ways from the main loop header through call `at` back to the header, the
// minimum and maximum number of stores to pos (each is +1 by LEX-1); unbounded if a cycle with a store
// lies on such a way.
func (m *lexModel) advancesThrough(main *ssa.BasicBlock, at ssa.Instruction) (lo, hi int64, unbounded bool) {
	count := func(b *ssa.BasicBlock, from, to int) int64 {
		var n int64
		for i := from; i < to && i < len(b.Instrs); i++ {
			if st, ok := b.Instrs[i].(*ssa.Store); ok && m.isPosAddr(st.Addr) {
				step := int64(1)
				if bo, isBo := st.Val.(*ssa.BinOp); isBo && bo.Op == token.ADD && m.isPosLoad(bo.X) {
					if k, isK := ir.ConstInt(bo.Y); isK && k > 1 {
						step = k // `pos += len("...")`: that many bytes at once
					}
				}
				n += step
			}
		}
		return n
	}
	ab := at.Block()
	ai := ir.IndexIn(at)
	type res struct {
		lo, hi int64
		ok     bool
	}
	budget := 20000
	var walk func(b, target *ssa.BasicBlock, acc int64, onPath map[*ssa.BasicBlock]bool, out *res)
	walk = func(b, target *ssa.BasicBlock, acc int64, onPath map[*ssa.BasicBlock]bool, out *res) {
		budget--
		if budget < 0 {
			unbounded = true
			return
		}
		if b == target {
			if !out.ok || acc < out.lo {
				out.lo = acc
			}
			if !out.ok || acc > out.hi {
				out.hi = acc
			}
			out.ok = true
			return
		}
		if onPath[b] {
			// an inner cycle: unbounded if it contains a store
			if m.kill(b) {
				unbounded = true
			}
			return
		}
		if b == main {
			return
		}
		onPath[b] = true
		n := acc + count(b, 0, len(b.Instrs))
		for _, sc := range m.g.succ[b] {
			walk(sc, target, n, onPath, out)
		}
		delete(onPath, b)
	}
	var before, after res
	for _, sc := range m.g.succ[main] {
		walk(sc, ab, 0, map[*ssa.BasicBlock]bool{}, &before)
	}
	if !before.ok {
		return 0, 0, true
	}
	pre := count(ab, 0, ai)
	post := count(ab, ai, len(ab.Instrs))
	// from the emit block onwards, back to the header (returns do not count: the scan ends there)
	onPath := map[*ssa.BasicBlock]bool{ab: true}
	for _, sc := range m.g.succ[ab] {
		if sc == main {
			if !after.ok || 0 < after.lo {
				after.lo = 0
			}
			after.ok = true
			if after.hi < 0 {
				after.hi = 0
			}
			continue
		}
		walk2 := func() {
			var w func(b *ssa.BasicBlock, acc int64)
			w = func(b *ssa.BasicBlock, acc int64) {
				budget--
				if budget < 0 {
					unbounded = true
					return
				}
				if b == main {
					if !after.ok || acc < after.lo {
						after.lo = acc
					}
					if !after.ok || acc > after.hi {
						after.hi = acc
					}
					after.ok = true
					return
				}
				if onPath[b] {
					if m.kill(b) {
						unbounded = true
					}
					return
				}
				onPath[b] = true
				n := acc + count(b, 0, len(b.Instrs))
				for _, s2 := range m.g.succ[b] {
					w(s2, n)
				}
				delete(onPath, b)
			}
			w(sc, 0)
		}
		walk2()
	}
	if !after.ok {
		// the iteration always ends the scan after this emit: nothing more to count
		return before.lo + pre + post, before.hi + pre + post, unbounded
	}
	return before.lo + pre + post + after.lo, before.hi + pre + post + after.hi, unbounded
}

// noStoreBetween: a dominates b and no store to pos can execute between them.
func (m *lexModel) noStoreBetween(a, b ssa.Instruction) bool {
	if a.Block() == b.Block() {
		lo, hi := ir.IndexIn(a), ir.IndexIn(b)
		if lo > hi {
			lo, hi = hi, lo
		}
		return m.storeIn(a.Block(), lo, hi) < 0
	}
	if !a.Block().Dominates(b.Block()) {
		return false
	}
	if m.storeIn(a.Block(), ir.IndexIn(a), len(a.Block().Instrs)) >= 0 || m.storeIn(b.Block(), 0, ir.IndexIn(b)) >= 0 {
		return false
	}
	r := m.g.reach(a.Block().Succs, map[*ssa.BasicBlock]bool{a.Block(): true, b.Block(): true}, nil)
	for x := range r {
		if x != a.Block() && x != b.Block() && m.kill(x) {
			// only if b can still be reached from x (without going through a again)
			if m.g.reach(m.g.succ[x], map[*ssa.BasicBlock]bool{a.Block(): true}, nil)[b.Block()] {
				return false
			}
		}
	}
	return true
}

func (m *lexModel) isUsage(v ssa.Value) bool {
	if v == m.usage {
		return true
	}
	if ld, ok := v.(*ssa.UnOp); ok && ld.Op == token.MUL && m.usageCell != nil && ld.X == ssa.Value(m.usageCell) {
		return true
	}
	if ld, ok := v.(*ssa.UnOp); ok && ld.Op == token.MUL && m.state != nil {
		if f, isF := m.fieldAddrOf(ld.X); isF && f == m.usageField {
			return true
		}
	}
	return false
}

func (m *lexModel) isPosLoad(v ssa.Value) bool {
	ld, ok := v.(*ssa.UnOp)
	return ok && ld.Op == token.MUL && m.isPosAddr(ld.X)
}

// storeIn returns the index of the first store to pos in block b at or after index from, or -1.
func (m *lexModel) storeIn(b *ssa.BasicBlock, from, to int) int {
	for i := from; i < to && i < len(b.Instrs); i++ {
		if st, ok := b.Instrs[i].(*ssa.Store); ok && m.isPosAddr(st.Addr) {
			return i
		}
	}
	return -1
}

// sameVersion: two loads of pos in one block with no store between them.
func (m *lexModel) sameVersion(a, b ssa.Value) bool {
	ia, ib := a.(ssa.Instruction), b.(ssa.Instruction)
	if ia.Block() != ib.Block() {
		return false
	}
	lo, hi := ir.IndexIn(ia), ir.IndexIn(ib)
	if lo > hi {
		lo, hi = hi, lo
	}
	return m.storeIn(ia.Block(), lo, hi) < 0
}

func (m *lexModel) kill(b *ssa.BasicBlock) bool { return m.storeIn(b, 0, len(b.Instrs)) >= 0 }

// lastStoreLT: the last store to pos in b[0:to) exists and leaves a content known < len.
func (m *lexModel) lastStoreLT(b *ssa.BasicBlock, to int) bool {
	for i := to - 1; i >= 0; i-- {
		if i >= len(b.Instrs) {
			continue
		}
		if st, ok := b.Instrs[i].(*ssa.Store); ok && m.isPosAddr(st.Addr) {
			return m.ltStores[st]
		}
	}
	return false
}

// guardEdges: CFG edges on which the current content of pos is known < len,
// given the invariant pos <= len.
func (m *lexModel) guardEdges() map[ir.Edge]bool {
	out := map[ir.Edge]bool{}
	for _, b := range m.fn.Blocks {
		if len(b.Instrs) == 0 {
			continue
		}
		iff, ok := b.Instrs[len(b.Instrs)-1].(*ssa.If)
		if !ok {
			continue
		}
		bo, ok := iff.Cond.(*ssa.BinOp)
		if !ok {
			continue
		}
		var ld ssa.Value
		op := bo.Op
		switch {
		case m.isPosLoad(bo.X) && m.eof[bo.Y]:
			ld = bo.X
		case m.isPosLoad(bo.Y) && m.eof[bo.X]:
			ld = bo.Y
			// mirror the operator
			switch op {
			case token.LSS:
				op = token.GTR
			case token.GTR:
				op = token.LSS
			case token.LEQ:
				op = token.GEQ
			case token.GEQ:
				op = token.LEQ
			}
		default:
			continue
		}
		li := ld.(ssa.Instruction)
		if li.Block() != b || m.storeIn(b, ir.IndexIn(li), len(b.Instrs)) >= 0 {
			continue // the tested value is not the cell's content at the branch
		}
		switch op {
		case token.LSS: // pos < len : true edge
			out[ir.Edge{From: b, To: b.Succs[0]}] = true
		case token.GEQ, token.EQL: // pos >= len, pos == len : false edge
			out[ir.Edge{From: b, To: b.Succs[1]}] = true
		case token.NEQ: // pos != len : true edge
			out[ir.Edge{From: b, To: b.Succs[0]}] = true
		}
	}
	return out
}

// unguardedEntry computes the blocks that can be entered with the content of
// pos not known to be < len.
func (m *lexModel) unguardedEntry() map[*ssa.BasicBlock]bool {
	guards := m.guardEdges()
	u := map[*ssa.BasicBlock]bool{m.fn.Blocks[0]: true}
	changed := true
	for changed {
		changed = false
		for _, b := range m.fn.Blocks {
			if !(u[b] || m.kill(b)) {
				continue
			}
			if m.kill(b) && m.lastStoreLT(b, len(b.Instrs)) {
				continue // leaves b with a content known < len
			}
			for _, s := range m.g.succ[b] {
				if guards[ir.Edge{From: b, To: s}] {
					// a threaded edge keeps the guard of the original edge only if it is the same edge
					continue
				}
				if !u[s] {
					u[s] = true
					changed = true
				}
			}
		}
	}
	// blocks removed by threading keep no instructions of interest
	return u
}

// ltAt reports whether the load ld of pos reads a content known < len.
func (m *lexModel) ltAt(ld ssa.Value, unguarded map[*ssa.BasicBlock]bool) bool {
	li := ld.(ssa.Instruction)
	b := li.Block()
	if m.storeIn(b, 0, ir.IndexIn(li)) >= 0 {
		return m.lastStoreLT(b, ir.IndexIn(li))
	}
	return !unguarded[b]
}

// A scan cursor is a local index q = phi[init, q+1] of a loop that runs over the input beside the
// position cell (the shape left by a "skip while" helper): init is a content of pos, or such a
// content known < len plus one, and the step is taken only under q < len. Then q <= len always.
func (m *lexModel) cursorLT(q ssa.Value, at *ssa.BasicBlock) bool {
	for _, cd := range ir.DominatingConds(at) {
		bo, ok := cd.V.(*ssa.BinOp)
		if !ok {
			continue
		}
		op := bo.Op
		switch {
		case bo.X == q && m.eof[bo.Y]:
		case bo.Y == q && m.eof[bo.X]:
			switch op {
			case token.LSS:
				op = token.GTR
			case token.GTR:
				op = token.LSS
			case token.LEQ:
				op = token.GEQ
			case token.GEQ:
				op = token.LEQ
			}
		default:
			continue
		}
		if (op == token.LSS && cd.Want) || (op == token.GEQ && !cd.Want) {
			return true
		}
	}
	return false
}

// boundedIndex: v <= len(usage) by construction.
func (m *lexModel) boundedIndex(v ssa.Value, unguarded map[*ssa.BasicBlock]bool, seen map[ssa.Value]bool) bool {
	if seen[v] {
		return true // inductive hypothesis round a phi cycle
	}
	if m.isPosLoad(v) || m.eof[v] {
		return true
	}
	switch x := v.(type) {
	case *ssa.BinOp:
		one, isC := ir.ConstInt(x.Y)
		if x.Op != token.ADD || !isC || one != 1 {
			return false
		}
		if m.isPosLoad(x.X) {
			return m.ltAt(x.X, unguarded)
		}
		if _, isPhi := x.X.(*ssa.Phi); isPhi {
			seen[v] = true
			return m.cursorLT(x.X, x.Block()) && m.boundedIndex(x.X, unguarded, seen)
		}
	case *ssa.Phi:
		seen[v] = true
		for _, e := range x.Edges {
			if !m.boundedIndex(e, unguarded, seen) {
				return false
			}
		}
		return true
	}
	return false
}

// cursorInitLoads collects the loads of pos a cursor value starts from.
func (m *lexModel) cursorInitLoads(v ssa.Value, seen map[ssa.Value]bool, out *[]*ssa.UnOp) {
	if seen[v] {
		return
	}
	seen[v] = true
	switch x := v.(type) {
	case *ssa.UnOp:
		if m.isPosLoad(x) {
			*out = append(*out, x)
		}
	case *ssa.BinOp:
		m.cursorInitLoads(x.X, seen, out)
	case *ssa.Phi:
		for _, e := range x.Edges {
			m.cursorInitLoads(e, seen, out)
		}
	}
}

// cursorStoreOK: `*pos = q` keeps 0 <= old pos <= pos <= len: q is a bounded index that starts from the
// content of pos and pos is not written between that load and this store.
func (m *lexModel) cursorStoreOK(st *ssa.Store, unguarded map[*ssa.BasicBlock]bool) (bool, string) {
	if _, isPhi := st.Val.(*ssa.Phi); !isPhi {
		return false, "the position is not updated as pos+1"
	}
	if !m.boundedIndex(st.Val, unguarded, map[ssa.Value]bool{}) {
		return false, "the position is set to a scan index that is not bounded by len (init from pos, +1 only under index < len)"
	}
	var loads []*ssa.UnOp
	m.cursorInitLoads(st.Val, map[ssa.Value]bool{}, &loads)
	if len(loads) == 0 {
		return false, "the scan index does not start from the position"
	}
	for _, ld := range loads {
		lb, sb := ld.Block(), st.Block()
		if !lb.Dominates(sb) || lb == sb {
			return false, "the scan index starts from a position read that does not precede the store on every path"
		}
		if m.storeIn(lb, ir.IndexIn(ld), len(lb.Instrs)) >= 0 || m.storeIn(sb, 0, ir.IndexIn(st)) >= 0 {
			return false, "the position is written between the start of the scan index and this store (it could move backwards)"
		}
		r := m.g.reach(lb.Succs, map[*ssa.BasicBlock]bool{lb: true, sb: true}, nil)
		for b := range r {
			if b != sb && b != lb && m.kill(b) {
				return false, "the position is written between the start of the scan index and this store (it could move backwards)"
			}
		}
	}
	return true, ""
}

// cursorLoop: the loop headed by h advances a bounded scan index on every back edge.
func (m *lexModel) cursorLoop(h *ssa.BasicBlock, unguarded map[*ssa.BasicBlock]bool) bool {
	for _, in := range h.Instrs {
		phi, ok := in.(*ssa.Phi)
		if !ok {
			break
		}
		if !m.boundedIndex(phi, unguarded, map[ssa.Value]bool{}) {
			continue
		}
		all := true
		for i, p := range h.Preds {
			if !h.Dominates(p) {
				continue
			}
			bo, isBo := phi.Edges[i].(*ssa.BinOp)
			if !isBo || bo.Op != token.ADD || bo.X != ssa.Value(phi) {
				all = false
			}
		}
		if all {
			return true
		}
	}
	return false
}

func lex1(c *Ctx) {
	m, why := c.lexModel()
	if m == nil {
		c.Undecided("anchor:scanner", token.NoPos, "%s", why)
		return
	}
	fn := m.fn
	c.Mark(fn)
	unguarded := m.unguardedEntry()
	pl := &lexLin{m: m, unguarded: unguarded}
	// stores
	for _, st := range m.stores {
		key := fmt.Sprintf("%s:pos=@%s", Q(fn), relLine(c, fn, st.Pos()))
		if k, isC := ir.ConstInt(st.Val); isC {
			// the initial store: before every other access of the cell, not in a loop
			first := k == 0 && !ir.InLoop(st.Block())
			for _, other := range m.stores {
				if other != st && !(st.Block() == other.Block() && ir.IndexIn(st) < ir.IndexIn(other)) && !(st.Block() != other.Block() && st.Block().Dominates(other.Block())) {
					first = false
				}
			}
			c.Check(first, key, st.Pos(), "initialised to 0 before anything else touches it", "the position is set to a constant other than the initial 0")
			continue
		}
		if m.eof[st.Val] {
			c.OK(key, st.Pos(), "set to len(usage): old pos <= pos <= len")
			continue
		}
		if m.ltStores[st] {
			c.OK(key, st.Pos(), "advanced by a non-negative index into usage[pos:]: the new position is that of a byte of the input (< len)")
			continue
		}
		bo, ok := st.Val.(*ssa.BinOp)
		if !ok || bo.Op != token.ADD || !m.isPosLoad(bo.X) {
			good, whyNot := m.cursorStoreOK(st, unguarded)
			if good {
				c.OK(key, st.Pos(), "set to a scan index that starts at pos and is advanced by 1 only while < len: old pos <= pos <= len")
			} else if pl.le(st.Val, nil, true, 0, st.Block()) {
				c.OK(key, st.Pos(), "set to a value that linear arithmetic over the scan indices bounds by len")
			} else {
				c.Bad(key, st.Pos(), "%s", whyNot)
			}
			continue
		}
		one, isC := ir.ConstInt(bo.Y)
		if !isC || one != 1 {
			if pl.le(st.Val, nil, true, 0, st.Block()) {
				c.OK(key, st.Pos(), "set to a value that linear arithmetic over the scan indices bounds by len")
				continue
			}
			c.Bad(key, st.Pos(), "the position is advanced by something other than 1 (pos <= len can no longer be maintained)")
			continue
		}
		// the incremented value must be the current content and < len
		li := bo.X.(ssa.Instruction)
		if li.Block() != st.Block() || m.storeIn(st.Block(), ir.IndexIn(li), ir.IndexIn(st)) >= 0 {
			c.Bad(key, st.Pos(), "the incremented value is not the current position")
			continue
		}
		c.Check(m.ltAt(bo.X, unguarded), key, st.Pos(), "pos+1 from a position known < len: pos <= len is preserved", "the position is advanced from a value not known to be < len: it can run past the end of the spec")
	}
	// byte reads
	ir.InstrsDeep(fn, func(f *ssa.Function, in ssa.Instruction) {
		lk, ok := in.(*ssa.Index)
		if !ok {
			return
		}
		if b, isB := lk.X.Type().Underlying().(*types.Basic); !isB || b.Kind() != types.String {
			return
		}
		key := fmt.Sprintf("%s:read@%s", Q(fn), relLine(c, fn, lk.Pos()))
		if f != fn || !m.isUsage(lk.X) {
			c.Undecided(key, lk.Pos(), "byte read of something other than the input at the scanner position")
			return
		}
		if !m.isPosLoad(lk.Index) {
			if _, isPhi := lk.Index.(*ssa.Phi); isPhi && m.boundedIndex(lk.Index, unguarded, map[ssa.Value]bool{}) {
				c.Check(m.cursorLT(lk.Index, lk.Block()), key, lk.Pos(), "read at a scan index under a dominating index < len test", "this byte read at a scan index is not dominated by an index < len test (index out of range)")
				return
			}
			if pl.le(lk.Index, nil, true, 1, lk.Block()) {
				c.OK(key, lk.Pos(), "the index is below len by linear arithmetic over the scan indices and the dominating tests")
				return
			}
			c.Undecided(key, lk.Pos(), "the index is not the scanner position")
			return
		}
		c.Check(m.ltAt(lk.Index, unguarded), key, lk.Pos(), "guarded: on every path the last thing known about pos is pos < len", "this byte read can be reached with pos == len (index out of range)")
	})
	// slices
	ir.InstrsDeep(fn, func(f *ssa.Function, in ssa.Instruction) {
		sl, ok := in.(*ssa.Slice)
		if !ok {
			return
		}
		if b, isB := sl.X.Type().Underlying().(*types.Basic); !isB || b.Kind() != types.String {
			return
		}
		key := fmt.Sprintf("%s:slice@%s", Q(fn), relLine(c, fn, sl.Pos()))
		if m.isUsage(sl.X) {
			// usage[pos:pos+1]: the byte at a guarded position
			if bo, isBo := sl.High.(*ssa.BinOp); isBo && bo.Op == token.ADD && sl.Low != nil && m.isPosLoad(sl.Low) && m.isPosLoad(bo.X) {
				if one, isC := ir.ConstInt(bo.Y); isC && one == 1 && m.sameVersion(sl.Low, bo.X) {
					c.Check(m.ltAt(sl.Low, unguarded) && m.ltAt(bo.X, unguarded), key, sl.Pos(), "usage[p:p+1] with p known < len", "one-byte slice at a position not known to be < len")
					return
				}
			}
			if sl.High == nil && sl.Low != nil && m.isPosLoad(sl.Low) {
				c.OK(key, sl.Pos(), "usage[pos:] with pos <= len")
				return
			}
			okHi := sl.High != nil && m.isPosLoad(sl.High)
			okLo := sl.Low != nil && m.isPosLoad(sl.Low) && sl.Low.(ssa.Instruction).Block().Dominates(sl.Block())
			// usage[a+1:b]: a an earlier content, and the position was advanced at least once in between
			if bo, isBo := sl.Low.(*ssa.BinOp); isBo && !okLo && bo.Op == token.ADD && m.isPosLoad(bo.X) {
				if one, isC := ir.ConstInt(bo.Y); isC && one == 1 && m.advancedSince(bo.X.(ssa.Instruction), sl) {
					okLo = true
				}
			}
			if !(okHi && okLo) {
				// linear fallback: lo <= hi <= len
				okLin := true
				if sl.High != nil {
					okLin = pl.le(sl.High, nil, true, 0, sl.Block())
					if okLin && sl.Low != nil {
						okLin = pl.le(sl.Low, sl.High, false, 0, sl.Block())
					}
				} else if sl.Low != nil {
					okLin = pl.le(sl.Low, nil, true, 0, sl.Block())
				}
				if okLin {
					c.OK(key, sl.Pos(), "slice bounds in order and within the input by linear arithmetic over the scan indices")
					return
				}
			}
			c.Check(okHi && okLo, key, sl.Pos(), "usage[a:b] with a an earlier and b a later content of pos (0 <= a <= b <= len)", "slice bounds are not two contents of the position cell in order")
			return
		}
		// re-slice of a token text: x[k:] needs len(x) >= k
		inner, isInner := sl.X.(*ssa.Slice)
		k, isK := ir.ConstInt(sl.Low)
		if !isInner || !m.isUsage(inner.X) || sl.High != nil || !isK {
			c.Undecided(key, sl.Pos(), "slice form not recognised")
			return
		}
		good := false
		// len(text) compared with a constant so that len(text) >= k
		for _, cd := range ir.DominatingConds(sl.Block()) {
			bo, isBo := cd.V.(*ssa.BinOp)
			if !isBo {
				continue
			}
			lc, isCall := bo.X.(*ssa.Call)
			if !isCall {
				continue
			}
			if bi, isB := lc.Call.Value.(*ssa.Builtin); !isB || bi.Name() != "len" || lc.Call.Args[0] != sl.X {
				continue
			}
			lim, isC := ir.ConstInt(bo.Y)
			if !isC {
				continue
			}
			// the fact excludes every length below k
			excl := true
			for n := int64(0); n < k; n++ {
				if t, okT := lenCmp(bo.Op, n, lim); !okT || t == cd.Want {
					excl = false
				}
			}
			if excl {
				good = true
			}
		}
		for _, cd := range ir.DominatingConds(sl.Block()) {
			bo, isBo := cd.V.(*ssa.BinOp)
			if !isBo || bo.Op != token.GTR || !cd.Want {
				continue
			}
			lim, isC := ir.ConstInt(bo.Y)
			sub, isSub := bo.X.(*ssa.BinOp)
			if !isC || !isSub || sub.Op != token.SUB || lim+1 < k {
				continue
			}
			if m.isPosLoad(sub.X) && sub.Y == inner.Low && inner.High != nil && m.isPosLoad(inner.High) {
				// both loads in one block without a store in between
				a, b := sub.X.(ssa.Instruction), inner.High.(ssa.Instruction)
				if a.Block() == b.Block() && m.storeIn(a.Block(), min(ir.IndexIn(a), ir.IndexIn(b)), max(ir.IndexIn(a), ir.IndexIn(b))) < 0 {
					good = true
				}
			}
		}
		c.Check(good, key, sl.Pos(), fmt.Sprintf("text[%d:] under a guard that the text is longer than %d", k, k), "a token text is re-sliced without a length guard")
	})
}

func lex2(c *Ctx) {
	m, why := c.lexModel()
	if m == nil {
		c.Undecided("anchor:scanner", token.NoPos, "%s", why)
		return
	}
	fn := m.fn
	c.Mark(fn)
	// loop headers
	for _, h := range fn.Blocks {
		isHdr := false
		for _, p := range h.Preds {
			if h.Dominates(p) {
				isHdr = true
			}
		}
		if !isHdr {
			continue
		}
		key := fmt.Sprintf("%s:loop@%s", Q(fn), relLine(c, fn, firstPos(h)))
		// is there a cycle through h that avoids every block with an increment?
		blocked := map[*ssa.BasicBlock]bool{}
		for _, b := range fn.Blocks {
			if m.kill(b) {
				blocked[b] = true
			}
		}
		stuck := false
		if !blocked[h] {
			r := m.g.reach(m.g.succ[h], blocked, nil)
			if r[h] {
				stuck = true
			}
		}
		if stuck && m.cursorLoop(h, m.unguardedEntry()) {
			c.OK(key, firstPos(h), "every way round this loop advances a scan index that is bounded by len")
			continue
		}
		c.Check(!stuck, key, firstPos(h), "every way round this loop advances the position", "this loop can go round without advancing the position (the scanner would hang)")
	}
}

func lex3(c *Ctx) {
	m, why := c.lexModel()
	if m == nil {
		c.Undecided("anchor:scanner", token.NoPos, "%s", why)
		return
	}
	fn := m.fn
	c.Mark(fn)
	// main loop header: the loop header that dominates all other loop headers
	var main *ssa.BasicBlock
	for _, h := range fn.Blocks {
		isHdr := false
		for _, p := range h.Preds {
			if h.Dominates(p) {
				isHdr = true
			}
		}
		if isHdr && (main == nil || h.Dominates(main)) {
			main = h
		}
	}
	if main == nil {
		c.Bad(Q(fn)+":main-loop", fn.Pos(), "no scanning loop")
		return
	}
	// success only at the end of the input: a nil error is returned only once the main loop has run out
	// (or the input is empty); an early "nothing to report" would drop the rest of the spec unread
	{
		cut := map[ir.Edge]bool{}
		if len(main.Succs) == 2 {
			cut[ir.Edge{From: main, To: main.Succs[1]}] = true
		}
		for _, e := range lenOnlyZeroEdgesP(fn, m.isUsage) {
			cut[e] = true
		}
		reach := ir.Reach(fn.Blocks[0], nil, cut)
		okEnd, whyEnd := true, ""
		for _, r := range ir.ReturnWays(fn) {
			if len(r.Results) == 2 && ir.IsNilConst(r.Results[1]) && r.ReachableUnder(reach, cut) {
				okEnd, whyEnd = false, "the scanner can report success at "+c.P.Pos(r.Pos())+" before the input is exhausted: the rest of the spec is dropped unread"
			}
		}
		c.Check(okEnd, Q(fn)+":success-at-end", fn.Pos(), "a nil error is returned only when the input is exhausted", whyEnd)
	}
	emitBlock := map[*ssa.BasicBlock]bool{}
	for _, es := range m.emitSites() {
		emitBlock[es.in.Block()] = true
	}
	// the dispatched character and the blank cases
	blankEdges := map[ir.Edge]bool{}
	caseOf := func(b *ssa.BasicBlock) string {
		best := ""
		for _, cd := range ir.DominatingConds(b) {
			bo, ok := cd.V.(*ssa.BinOp)
			if !ok || bo.Op != token.EQL || !cd.Want {
				continue
			}
			if k, isC := ir.ConstInt(bo.Y); isC {
				if isLkIn(bo.X, main) {
					best = fmt.Sprintf("%q", rune(k))
				}
			}
		}
		return best
	}
	for _, b := range fn.Blocks {
		if len(b.Instrs) == 0 {
			continue
		}
		iff, ok := b.Instrs[len(b.Instrs)-1].(*ssa.If)
		if !ok {
			continue
		}
		bo, ok := iff.Cond.(*ssa.BinOp)
		if !ok || bo.Op != token.EQL {
			continue
		}
		if k, isC := ir.ConstInt(bo.Y); isC && (k == ' ' || k == '\t') {
			if lk, isLk := bo.X.(*ssa.Index); isLk && m.isUsage(lk.X) {
				blankEdges[ir.Edge{From: b, To: b.Succs[0]}] = true
			}
		}
	}
	// paths of one iteration that avoid emits and blank cases
	blocked := map[*ssa.BasicBlock]bool{main: true}
	for b := range emitBlock {
		blocked[b] = true
	}
	body := m.g.succ[main]
	var entry []*ssa.BasicBlock
	for _, s := range body {
		entry = append(entry, s)
	}
	r := m.g.reach(entry, blocked, blankEdges)
	var bad []string
	for b := range r {
		if !m.kill(b) {
			continue
		}
		// can b get back to the header without an emit?
		r2 := m.g.reach(m.g.succ[b], map[*ssa.BasicBlock]bool{}, blankEdges)
		_ = r2
		back := false
		rr := m.g.reach([]*ssa.BasicBlock{b}, emitBlockMinus(emitBlock, b), blankEdges)
		for x := range rr {
			for _, s := range m.g.succ[x] {
				if s == main {
					back = true
				}
			}
		}
		if back {
			// find the fall-out point: the block that jumps back to the header
			cs := caseOf(b)
			bad = append(bad, fmt.Sprintf("case %s: position advanced at %s and the iteration can end without any token", cs, c.P.Pos(firstPos(b))))
		}
	}
	sort.Strings(bad)
	c.Check(len(bad) == 0, Q(fn)+":consume=>emit", firstPos(main), "every iteration that advances the position emits a token (blank cases excepted)", strings.Join(bad, "; "))
}

func isLkIn(v ssa.Value, main *ssa.BasicBlock) bool {
	lk, ok := v.(*ssa.Index)
	return ok && main.Dominates(lk.Block())
}

func emitBlockMinus(e map[*ssa.BasicBlock]bool, keep *ssa.BasicBlock) map[*ssa.BasicBlock]bool {
	out := map[*ssa.BasicBlock]bool{}
	for b := range e {
		if b != keep {
			out[b] = true
		}
	}
	return out
}

func lex4(c *Ctx) {
	m, why := c.lexModel()
	if m == nil {
		c.Undecided("anchor:scanner", token.NoPos, "%s", why)
		return
	}
	fn := m.fn
	c.Mark(fn)
	var main *ssa.BasicBlock
	for _, h := range fn.Blocks {
		isHdr := false
		for _, p := range h.Preds {
			if h.Dominates(p) {
				isHdr = true
			}
		}
		if isHdr && (main == nil || h.Dominates(main)) {
			main = h
		}
	}
	if main == nil {
		c.Bad(Q(fn)+":main-loop", fn.Pos(), "no scanning loop")
		return
	}
	// blocks that can be reached, within one iteration, after a store to pos
	blocked := map[*ssa.BasicBlock]bool{main: true}
	afterStore := map[*ssa.BasicBlock]bool{}
	for _, b := range fn.Blocks {
		if m.kill(b) && main.Dominates(b) {
			for x := range m.g.reach(m.g.succ[b], blocked, nil) {
				afterStore[x] = true
			}
		}
	}
	// iterationStart: a load of pos that reads the position the iteration started with
	iterationStart := func(v ssa.Value) bool {
		if !m.isPosLoad(v) {
			return false
		}
		li := v.(ssa.Instruction)
		return !afterStore[li.Block()] && m.storeIn(li.Block(), 0, ir.IndexIn(li)) < 0
	}
	for _, es := range m.emitSites() {
		cv := es.in
		kinds := kindsOfAt(es.kind, es.in.Block())
		key := fmt.Sprintf("%s:emit[%s]@%s", Q(fn), strings.Join(kinds, "|"), relLine(c, fn, cv.Pos()))
		var problems []string
		text := es.text
		var start ssa.Value
		if es.implicit {
			// position = current content of the cell: must still be the iteration's start
			if afterStore[cv.Block()] || m.storeIn(cv.Block(), 0, ir.IndexIn(cv)) >= 0 {
				problems = append(problems, "the token's position is read after the position was advanced")
			}
		} else if es.pos != nil {
			start = es.pos
			if !iterationStart(start) {
				problems = append(problems, "the token's position is not the position at which the iteration started")
			}
		} else {
			problems = append(problems, "emit without a position")
		}
		// text
		if s, isC := ir.ConstString(text); isC {
			if len(s) == 1 {
				// must equal the character that selected the case
				okTag := false
				for _, cd := range ir.DominatingConds(cv.Block()) {
					bo, isBo := cd.V.(*ssa.BinOp)
					if isBo && bo.Op == token.EQL && cd.Want {
						if k, isK := ir.ConstInt(bo.Y); isK && string(rune(k)) == s {
							okTag = true
						}
					}
				}
				if !okTag {
					problems = append(problems, fmt.Sprintf("the one-byte token text %q is not the character that selected this case", s))
				}
			}
		} else {
			// usage[start:pos], optionally re-sliced, possibly through a phi of both
			var check func(v ssa.Value) bool
			check = func(v ssa.Value) bool {
				switch x := v.(type) {
				case *ssa.Phi:
					for _, e := range x.Edges {
						if !check(e) {
							return false
						}
					}
					return true
				case *ssa.Field, *ssa.UnOp:
					// table[c].text with c the byte the iteration started at, found (comma-ok) in a
					// package-level map of struct literals in which every entry's text is its own key,
					// one ASCII character: one byte of the input
					lk, fi, okF := tableField(x)
					if !okF || !lk.CommaOk {
						return false
					}
					ix, isIx := lk.Index.(*ssa.Index)
					if !isIx || !m.isUsage(ix.X) || !iterationStart(ix.Index) {
						return false
					}
					found := false
					for _, cd := range ir.DominatingConds(cv.Block()) {
						if ex, isEx := cd.V.(*ssa.Extract); isEx && ex.Index == 1 && cd.Want && ex.Tuple == ssa.Value(lk) {
							found = true
						}
					}
					ents, okE := mapTableStructEntries(lk.X)
					if !found || !okE {
						return false
					}
					for k, flds := range ents {
						if flds[fi] == nil {
							return false
						}
						sv, isS := ir.ConstString(flds[fi])
						if !isS || k < 0 || k >= 0x80 || sv != string(rune(k)) {
							return false
						}
					}
					return true
				case *ssa.Convert:
					// string(c) with c the byte the iteration started at, found (comma-ok) among the
					// keys of a package-level table whose keys are all ASCII: one byte of the input
					bt, isB := x.Type().Underlying().(*types.Basic)
					if !isB || bt.Kind() != types.String {
						return false
					}
					var byteV ssa.Value = x.X
					if cv2, isCv := byteV.(*ssa.Convert); isCv {
						byteV = cv2.X
					}
					ix, isIx := byteV.(*ssa.Index)
					if !isIx || !m.isUsage(ix.X) || !iterationStart(ix.Index) {
						return false
					}
					for _, cd := range ir.DominatingConds(cv.Block()) {
						ex, isEx := cd.V.(*ssa.Extract)
						if !isEx || ex.Index != 1 || !cd.Want {
							continue
						}
						lk, isLk := ex.Tuple.(*ssa.Lookup)
						if !isLk || !lk.CommaOk || lk.Index != byteV {
							continue
						}
						if keys, okK := mapTableIntKeys(lk.X); okK && len(keys) > 0 {
							ascii := true
							for _, k := range keys {
								if k < 0 || k >= 0x80 {
									ascii = false
								}
							}
							if ascii {
								return true
							}
						}
					}
					return false
				case *ssa.Slice:
					if m.isUsage(x.X) {
						if start != nil && x.Low == start && x.High != nil && m.isPosLoad(x.High) {
							return true
						}
						// usage[start:end] with end the value the position is set to right after the emit
						// (a scan helper said where the token ends; the cursor follows)
						if start != nil && x.High != nil && (x.Low == start || (x.Low != nil && m.isPosLoad(x.Low) && m.isPosLoad(start) && m.sameVersion(x.Low, start))) {
							follows := false
							for _, st := range m.stores {
								if st.Val == x.High && st.Block() == cv.Block() && ir.IndexIn(st) > ir.IndexIn(cv) {
									follows = true
									for i := ir.IndexIn(cv) + 1; i < ir.IndexIn(st); i++ {
										if other, isSt := cv.Block().Instrs[i].(*ssa.Store); isSt && m.isPosAddr(other.Addr) {
											follows = false
										}
									}
								}
							}
							if follows {
								return true
							}
						}
						// a suffix taken directly: usage[start+k:pos]
						if bo, isBo := x.Low.(*ssa.BinOp); isBo && bo.Op == token.ADD && start != nil && bo.X == start && x.High != nil && m.isPosLoad(x.High) {
							if k, isK := ir.ConstInt(bo.Y); isK && k >= 0 {
								return true
							}
						}
						// the single byte at the token's own position
						if bo, isBo := x.High.(*ssa.BinOp); isBo && bo.Op == token.ADD && x.Low != nil && m.isPosLoad(x.Low) && m.isPosLoad(bo.X) {
							if one, isC := ir.ConstInt(bo.Y); isC && one == 1 && m.sameVersion(x.Low, bo.X) {
								if start != nil {
									return x.Low == start || (iterationStart(x.Low) && iterationStart(start))
								}
								return iterationStart(x.Low)
							}
						}
						return false
					}
					return check(x.X)
				}
				return false
			}
			if !check(text) {
				problems = append(problems, "the token text is not the input between the token's position and the current position")
			}
		}
		if s, isC := ir.ConstString(text); isC && len(s) >= 1 {
			// a constant text stands for exactly len(text) bytes of the input: every way round the main loop
			// through this emit advances the position exactly that many times
			lo, hi, unbounded := m.advancesThrough(main, cv)
			if unbounded || lo != int64(len(s)) || hi != int64(len(s)) {
				got := fmt.Sprintf("%d..%d", lo, hi)
				if unbounded {
					got = fmt.Sprintf("%d or more", lo)
				}
				problems = append(problems, fmt.Sprintf("the constant text %q stands for %d byte(s) but the iteration consumes %s", s, len(s), got))
			}
		}
		reportP(c, key, cv.Pos(), problems, "position = start of the iteration; text = the input from there to the current position (or the selecting character)")
		// short option names are delimited: a '-' glued to the name (`-a-b`) is a syntax error, i.e. the
		// scan goes on after this emit only past a test that the next byte is not '-' (or there is none)
		isShort := false
		for _, k := range kinds {
			if k == "ShortOpt" || k == "OptSeq" {
				isShort = true
			}
		}
		if isShort {
			cut := map[ir.Edge]bool{}
			ir.Instrs(fn, func(in ssa.Instruction) {
				bo, isBo := in.(*ssa.BinOp)
				if !isBo {
					return
				}
				// usage[pos] == '-' : false edge;  != : true edge
				if k, isK := ir.ConstInt(bo.Y); isK && k == '-' && (bo.Op == token.EQL || bo.Op == token.NEQ) {
					if ix, isIx := bo.X.(*ssa.Index); isIx && m.isUsage(ix.X) && m.isPosLoad(ix.Index) {
						for _, e := range ir.EdgesWhere(fn, bo, bo.Op == token.NEQ) {
							cut[ir.Edge{From: e.From, To: e.To}] = true
						}
					}
				}
				// pos at the end of the input: `pos < eof` false, `pos >= eof` / `pos == eof` true
				if m.isPosLoad(bo.X) && m.eof[bo.Y] {
					switch bo.Op {
					case token.LSS, token.NEQ:
						for _, e := range ir.EdgesWhere(fn, bo, false) {
							cut[ir.Edge{From: e.From, To: e.To}] = true
						}
					case token.GEQ, token.EQL:
						for _, e := range ir.EdgesWhere(fn, bo, true) {
							cut[ir.Edge{From: e.From, To: e.To}] = true
						}
					}
				}
			})
			free := false
			for _, sc := range m.g.succ[cv.Block()] {
				if cut[ir.Edge{From: cv.Block(), To: sc}] {
					continue
				}
				if sc == main || m.g.reach([]*ssa.BasicBlock{sc}, nil, cut)[main] {
					free = true
				}
			}
			c.Check(!free, key+":delimited", cv.Pos(), "after a short option name the scan resumes only if the next byte is not '-' (or the input ends)",
				"after this short option token the scan can resume without testing that the next byte is not '-': `-a-b` would be accepted")
		}
		// options: what follows the leading '-' decides the kind: a second '-' for `--` and long names, a
		// letter for short names and folded groups. The byte tested is a later one than the byte that
		// selected the case.
		{
			isDash, isLetterKind := len(kinds) > 0, len(kinds) > 0
			for _, k := range kinds {
				if k != "DblDash" && k != "LongOpt" {
					isDash = false
				}
				if k != "ShortOpt" && k != "OptSeq" {
					isLetterKind = false
				}
			}
			laterByte := func(v ssa.Value) bool {
				ix, isIx := v.(*ssa.Index)
				if !isIx || !m.isUsage(ix.X) {
					return false
				}
				return m.isPosLoad(ix.Index) && !iterationStart(ix.Index)
			}
			if isDash || isLetterKind {
				okSecond := false
				ir.Instrs(fn, func(in ssa.Instruction) {
					switch x := in.(type) {
					case *ssa.BinOp:
						if isDash && (x.Op == token.EQL || x.Op == token.NEQ) && laterByte(x.X) {
							if k, isK := ir.ConstInt(x.Y); isK && k == '-' && ir.HoldsAt(x, x.Op == token.EQL, cv.Block()) {
								okSecond = true
							}
						}
					case *ssa.Call:
						if isLetterKind && len(x.Call.Args) == 1 && laterByte(x.Call.Args[0]) && ir.HoldsAt(x, true, cv.Block()) {
							if g := ir.Static(x); g != nil {
								if cl, okC := byteClass(g); okC && cl == "A-Za-z" {
									okSecond = true
								}
							}
						}
					}
				})
				what, bad := "a second '-'", "this token is emitted without the byte after the leading '-' having been found to be '-': `-1` or `-=` could be read as `--`"
				if isLetterKind {
					what, bad = "a letter", "this token is emitted without the byte after the leading '-' having been found to be a letter"
				}
				c.Check(okSecond, key+":second-byte", cv.Pos(), "emitted only after the byte behind the leading '-' was found to be "+what, bad)
			}
		}
		// argument names: the byte that starts one is an upper-case letter. The bytes for which this emit
		// can be reached are tabulated from the branch outcomes that dominate it and depend on nothing but
		// the byte at the iteration's start (an outcome that cannot be evaluated admits every byte).
		isArgKind := false
		for _, k := range kinds {
			if k == "Arg" {
				isArgKind = true
			}
		}
		if isArgKind {
			firstByte := func(v ssa.Value) bool {
				ix, isIx := v.(*ssa.Index)
				return isIx && m.isUsage(ix.X) && iterationStart(ix.Index)
			}
			if admitted, opaque := admittedBytes(ir.DominatingConds(cv.Block()), firstByte); !opaque {
				got := renderClass(admitted)
				c.Check(got == "A-Z", key+":first-byte", cv.Pos(), "reached only when the byte at the start of the token is in [A-Z]: an argument name starts with an upper-case letter",
					fmt.Sprintf("an argument name can start with a byte outside [A-Z] (or not with every upper-case letter): the bytes admitted by the tests that dominate this emit are [%s]", got))
			}
		}
		// names scanned by a loop: the scan goes on to the next byte only over a byte of the name's class
		// (argument names [0-9A-Z_], long option names [-0-9A-Za-z_]). The stores that advance the position
		// inside a loop of this arm are looked at: the bytes admitted by the branch outcomes that dominate
		// such a store and depend on the byte under the cursor only. A flag argument of a class that
		// cannot be evaluated (`first`) is tried both ways.
		{
			wantClass := ""
			for _, k := range kinds {
				switch k {
				case "Arg":
					wantClass = "0-9A-Z_"
				case "LongOpt":
					wantClass = "-0-9A-Z_a-z"
				}
			}
			if wantClass != "" {
				n := 0
				for _, st := range m.stores {
					st := st
					// the byte under the cursor as it stands when the store runs
					curByte := func(v ssa.Value) bool {
						ix, isIx := v.(*ssa.Index)
						if !isIx || !m.isUsage(ix.X) || !m.isPosLoad(ix.Index) {
							return false
						}
						return m.noStoreBetween(ix.Index.(ssa.Instruction), st)
					}
					sb := st.Block()
					if sb.Parent() != fn || sb == main {
						continue
					}
					inner := false
					for _, sc := range sb.Succs {
						if sc == sb || (sc != main && ir.Reach(sc, map[*ssa.BasicBlock]bool{main: true}, nil)[sb]) {
							inner = true
						}
					}
					if !inner || !(sb == cv.Block() || ir.Reach(sb, map[*ssa.BasicBlock]bool{main: true}, nil)[cv.Block()]) {
						continue
					}
					admitted, opaque := admittedBytes(ir.DominatingConds(sb), curByte)
					if opaque {
						continue
					}
					n++
					got := renderClass(admitted)
					k2 := key + ":name-bytes"
					if n > 1 {
						k2 += fmt.Sprintf("#%d", n)
					}
					c.Check(got == wantClass, k2, st.Pos(), "the scan steps over a byte only when it is in ["+wantClass+"]",
						fmt.Sprintf("the scan of this name steps over bytes [%s], expected [%s]", got, wantClass))
				}
			}
		}
		// `=<text>`: the text is free: in the case selected by '=' the bytes of the input are tested
		// against '<' and '>' only (no character class decides where the annotation ends)
		isOptValue := false
		for _, k := range kinds {
			if k == "OptValue" {
				isOptValue = true
			}
		}
		if isOptValue {
			var sel ssa.Value
			for _, cd := range ir.DominatingConds(cv.Block()) {
				if bo, isBo := cd.V.(*ssa.BinOp); isBo && bo.Op == token.EQL && cd.Want {
					if k, isK := ir.ConstInt(bo.Y); isK && k == '=' {
						sel = bo
					}
				}
			}
			bad := ""
			if sel == nil {
				bad = "the case is not selected by the byte '='"
			} else {
				isInputByte := func(v ssa.Value) bool {
					ix, isIx := v.(*ssa.Index)
					return isIx && m.isUsage(ix.X)
				}
				ir.Instrs(fn, func(in ssa.Instruction) {
					if bad != "" || !ir.HoldsAt(sel, true, in.Block()) {
						return
					}
					switch x := in.(type) {
					case *ssa.BinOp:
						if !isInputByte(x.X) && !isInputByte(x.Y) {
							return
						}
						k, isK := ir.ConstInt(x.Y)
						if !isK {
							k, isK = ir.ConstInt(x.X)
						}
						if !isK || (x.Op != token.EQL && x.Op != token.NEQ) || (k != '<' && k != '>') {
							bad = "a byte of the annotation is tested against something other than '<' or '>' at " + c.P.Pos(x.Pos())
						}
					case *ssa.Call:
						for _, a := range x.Call.Args {
							if !isInputByte(a) {
								continue
							}
							// a class that tells '<' and '>' from the rest and nothing else is the same test
							uniform := false
							if g := ir.Static(x); g != nil && len(g.Params) == 1 {
								uniform = true
								first, have := false, false
								for b := 0; b < 256 && uniform; b++ {
									if b == '<' || b == '>' {
										continue
									}
									r, okR := evalBytePred(g, []constant.Value{constant.MakeInt64(int64(b))}, 0)
									if !okR || (have && r != first) {
										uniform = false
									}
									first, have = r, true
								}
							}
							if !uniform {
								bad = "a byte of the annotation is handed to a character class at " + c.P.Pos(x.Pos())
							}
						}
					}
				})
			}
			c.Check(bad == "", key+":any-text", cv.Pos(), "inside `=<...>` only '<' and '>' are looked for: the text is free", bad)
			// and the byte after '=' was found to be '<' before the token is emitted
			opened := false
			ir.Instrs(fn, func(in ssa.Instruction) {
				x, isBo := in.(*ssa.BinOp)
				if !isBo || (x.Op != token.EQL && x.Op != token.NEQ) {
					return
				}
				ix, isIx := x.X.(*ssa.Index)
				if !isIx || !m.isUsage(ix.X) {
					return
				}
				if k, isK := ir.ConstInt(x.Y); isK && k == '<' && ir.HoldsAt(x, x.Op == token.EQL, cv.Block()) {
					opened = true
				}
			})
			// the same test spelt strings.HasPrefix(usage[p:], "<")
			ir.Instrs(fn, func(in ssa.Instruction) {
				call, isCall := in.(*ssa.Call)
				if !isCall {
					return
				}
				if f := ir.Static(call); f == nil || !ir.IsStdFunc(f, "strings", "HasPrefix") {
					return
				}
				if k, isK := ir.ConstString(call.Call.Args[1]); !isK || k != "<" {
					return
				}
				if sl, isSl := call.Call.Args[0].(*ssa.Slice); isSl && m.isUsage(sl.X) && sl.High == nil && ir.HoldsAt(call, true, cv.Block()) {
					opened = true
				}
			})
			c.Check(opened, key+":opened", cv.Pos(), "the annotation is emitted only after a '<' was found behind the '='", "an `=` that is not followed by `<` can become an option value annotation (`-f=x>` would compile)")
		}
	}
}

// kindsOf lists the constant token kinds a value can be.
func kindsOf(v ssa.Value) []string { return kindsOfAt(v, nil) }

// phiEdgeExcluded: edge i of phi x cannot be the one taken when control is at block `at`, because a
// boolean phi of the same block carries a constant on that edge and is known to have the other value
// at `at` (`typ, ok := helper(c); if ok { emit(typ) }` once the helper is inlined: the edge that brings
// the "nothing" kind also brings ok == false).
func phiEdgeExcluded(x *ssa.Phi, i int, at *ssa.BasicBlock) bool {
	if at == nil {
		return false
	}
	for _, in := range x.Block().Instrs {
		g, ok := in.(*ssa.Phi)
		if !ok {
			break
		}
		if g == x || len(g.Edges) != len(x.Edges) {
			continue
		}
		k, isK := g.Edges[i].(*ssa.Const)
		if !isK || k.Value == nil || k.Value.Kind() != constant.Bool {
			continue
		}
		if ir.HoldsAt(g, !constant.BoolVal(k.Value), at) {
			return true
		}
	}
	return false
}

func kindsOfAt(v ssa.Value, at *ssa.BasicBlock) []string {
	var out []string
	var walk func(v ssa.Value)
	seen := map[ssa.Value]bool{}
	walk = func(v ssa.Value) {
		if seen[v] {
			return
		}
		seen[v] = true
		switch x := v.(type) {
		case *ssa.Const:
			if x.Value != nil && x.Value.Kind() == constant.String {
				out = append(out, constant.StringVal(x.Value))
			}
		case *ssa.Phi:
			for i, e := range x.Edges {
				if phiEdgeExcluded(x, i, at) {
					continue
				}
				walk(e)
			}
		case *ssa.Extract:
			if lk, isLk := x.Tuple.(*ssa.Lookup); isLk && x.Index == 0 {
				walk(lk)
				return
			}
			out = append(out, "?")
		case *ssa.Lookup:
			ks := mapTableValues(x.X)
			if len(ks) == 0 {
				out = append(out, "?")
			}
			out = append(out, ks...)
		case *ssa.Field:
			// table[c].kind with table a package-level map of struct literals
			if lk, fi, okF := tableField(x); okF {
				if ks, okK := structTableStrings(lk, fi); okK {
					out = append(out, ks...)
					return
				}
			}
			out = append(out, "?")
		case *ssa.UnOp:
			if lk, fi, okF := tableField(x); okF {
				if ks, okK := structTableStrings(lk, fi); okK {
					out = append(out, ks...)
					return
				}
			}
			// table[c]: a package-level array filled by the initialiser, read at the byte values the
			// enclosing case admits
			if ks := arrayTableValuesAt(x); len(ks) > 0 {
				out = append(out, ks...)
				return
			}
			out = append(out, "?")
		default:
			out = append(out, "?")
		}
	}
	walk(v)
	sort.Strings(out)
	return out
}

// arrayTableValuesAt: ld = *(&table[idx]) with table a package-level array that only the package
// initialiser writes (constant strings at constant positions) and idx a value that, on every way into
// the block of ld, has just been found equal to a constant (the cases of a switch on idx): the entries
// at those constants. nil when any of this cannot be established.
func arrayTableValuesAt(ld *ssa.UnOp) []string {
	if ld.Op != token.MUL {
		return nil
	}
	ia, ok := ld.X.(*ssa.IndexAddr)
	if !ok {
		return nil
	}
	g, ok := ia.X.(*ssa.Global)
	if !ok || g.Pkg == nil {
		return nil
	}
	table := map[int64]string{}
	okT := true
	for _, mem := range g.Pkg.Members {
		f, isF := mem.(*ssa.Function)
		if !isF {
			continue
		}
		var visit func(fn *ssa.Function)
		visit = func(fn *ssa.Function) {
			ir.Instrs(fn, func(in ssa.Instruction) {
				st, isSt := in.(*ssa.Store)
				if !isSt {
					return
				}
				a, isIA := st.Addr.(*ssa.IndexAddr)
				if st.Addr == ssa.Value(g) || (isIA && a.X == ssa.Value(g)) {
					k, isK := int64(0), false
					if isIA {
						k, isK = ir.ConstInt(a.Index)
					}
					sv, isS := ir.ConstString(st.Val)
					if fn.Name() != "init" || !isK || !isS {
						okT = false
						return
					}
					table[k] = sv
				}
			})
			for _, an := range fn.AnonFuncs {
				visit(an)
			}
		}
		visit(f)
	}
	if !okT || len(table) == 0 {
		return nil
	}
	// the index: which constants can it be here?
	idx := ia.Index
	if cv, isConv := idx.(*ssa.Convert); isConv {
		idx = cv.X
	}
	var out []string
	b := ld.Block()
	var preds func(b *ssa.BasicBlock, depth int) bool
	preds = func(b *ssa.BasicBlock, depth int) bool {
		if len(b.Preds) == 0 || depth > 3 {
			return false
		}
		for _, p := range b.Preds {
			iff, isIf := p.Instrs[len(p.Instrs)-1].(*ssa.If)
			if !isIf {
				// a block that only jumps on
				if len(p.Instrs) == 1 {
					if !preds(p, depth+1) {
						return false
					}
					continue
				}
				return false
			}
			bo, isBo := iff.Cond.(*ssa.BinOp)
			if !isBo || bo.Op != token.EQL || bo.X != idx || p.Succs[0] != b {
				return false
			}
			k, isK := ir.ConstInt(bo.Y)
			if !isK {
				return false
			}
			v, has := table[k]
			if !has {
				return false // the zero value: no kind
			}
			out = append(out, v)
		}
		return true
	}
	if !preds(b, 0) {
		return nil
	}
	return out
}

// mapTableValues: m is the load of a package-level map that the package initialiser fills with
// constant string values; returns those values.
// mapTableIntKeys: the constant integer keys of a package-level map that only its literal fills.
func mapTableIntKeys(m ssa.Value) ([]int64, bool) {
	ld, ok := m.(*ssa.UnOp)
	if !ok {
		return nil, false
	}
	g, ok := ld.X.(*ssa.Global)
	if !ok || g.Pkg == nil {
		return nil, false
	}
	init, _ := g.Pkg.Members["init"].(*ssa.Function)
	if init == nil {
		return nil, false
	}
	// written nowhere but by the initialiser, and no update outside it
	for _, mem := range g.Pkg.Members {
		f, isF := mem.(*ssa.Function)
		if !isF {
			continue
		}
		bad := false
		ir.InstrsDeep(f, func(fn *ssa.Function, in ssa.Instruction) {
			if fn == init {
				return
			}
			switch x := in.(type) {
			case *ssa.Store:
				if x.Addr == ssa.Value(g) {
					bad = true
				}
			case *ssa.MapUpdate:
				if l2, isL := x.Map.(*ssa.UnOp); isL && l2.X == ssa.Value(g) {
					bad = true
				}
			}
		})
		if bad {
			return nil, false
		}
	}
	var out []int64
	bad := false
	ir.Instrs(init, func(in ssa.Instruction) {
		mu, ok := in.(*ssa.MapUpdate)
		if !ok {
			return
		}
		mk, isMk := mu.Map.(*ssa.MakeMap)
		if !isMk {
			return
		}
		stored := false
		for _, u := range *mk.Referrers() {
			if st, isSt := u.(*ssa.Store); isSt && st.Addr == ssa.Value(g) {
				stored = true
			}
		}
		if !stored {
			return
		}
		if k, isK := ir.ConstInt(mu.Key); isK {
			out = append(out, k)
		} else {
			bad = true
		}
	})
	if bad {
		return nil, false
	}
	return out, true
}

// mapTableStructEntries: for a package-level map from constant integers to struct literals of constants,
// filled by its literal only: key -> field index -> constant. ok=false when any of this fails.
func mapTableStructEntries(m ssa.Value) (map[int64]map[int]*ssa.Const, bool) {
	if _, okK := mapTableIntKeys(m); !okK {
		return nil, false
	}
	g := m.(*ssa.UnOp).X.(*ssa.Global)
	init := g.Pkg.Members["init"].(*ssa.Function)
	out := map[int64]map[int]*ssa.Const{}
	bad := false
	ir.Instrs(init, func(in ssa.Instruction) {
		mu, ok := in.(*ssa.MapUpdate)
		if !ok {
			return
		}
		mk, isMk := mu.Map.(*ssa.MakeMap)
		if !isMk {
			return
		}
		stored := false
		for _, u := range *mk.Referrers() {
			if st, isSt := u.(*ssa.Store); isSt && st.Addr == ssa.Value(g) {
				stored = true
			}
		}
		if !stored {
			return
		}
		k, isK := ir.ConstInt(mu.Key)
		ld, isLd := mu.Value.(*ssa.UnOp)
		if !isK || !isLd || ld.Op != token.MUL {
			bad = true
			return
		}
		al, isAl := ld.X.(*ssa.Alloc)
		if !isAl {
			bad = true
			return
		}
		fields := map[int]*ssa.Const{}
		for _, u := range *al.Referrers() {
			switch x := u.(type) {
			case *ssa.FieldAddr:
				for _, uu := range *x.Referrers() {
					st, isSt := uu.(*ssa.Store)
					if !isSt {
						bad = true
						continue
					}
					cst, isC := st.Val.(*ssa.Const)
					if !isC {
						bad = true
						continue
					}
					if _, dup := fields[x.Field]; dup {
						bad = true
					}
					fields[x.Field] = cst
				}
			case *ssa.UnOp, *ssa.DebugRef:
			default:
				bad = true
			}
		}
		out[k] = fields
	})
	if bad || len(out) == 0 {
		return nil, false
	}
	return out, true
}

// structTableStrings: the constant strings in field fi of every entry of the table lk reads.
func structTableStrings(lk *ssa.Lookup, fi int) ([]string, bool) {
	ents, okE := mapTableStructEntries(lk.X)
	if !okE {
		return nil, false
	}
	var ks []string
	for _, flds := range ents {
		if flds[fi] == nil {
			return nil, false
		}
		sv, isS := ir.ConstString(flds[fi])
		if !isS {
			return nil, false
		}
		ks = append(ks, sv)
	}
	return ks, true
}

// tableField: v = punctuation[c].f (through a comma-ok lookup or not): the lookup and the field index.
func tableField(v ssa.Value) (*ssa.Lookup, int, bool) {
	// a struct local that is not promoted to a register: *(&p.f) with p stored once, as a whole
	if ld, isLd := v.(*ssa.UnOp); isLd && ld.Op == token.MUL {
		fa, isFA := ld.X.(*ssa.FieldAddr)
		if !isFA {
			return nil, 0, false
		}
		al, isAl := fa.X.(*ssa.Alloc)
		if !isAl || al.Heap {
			return nil, 0, false
		}
		var whole ssa.Value
		for _, u := range *al.Referrers() {
			switch x := u.(type) {
			case *ssa.Store:
				if x.Addr != ssa.Value(al) || whole != nil {
					return nil, 0, false
				}
				whole = x.Val
			case *ssa.FieldAddr:
				for _, uu := range *x.Referrers() {
					if l2, isL := uu.(*ssa.UnOp); !isL || l2.Op != token.MUL {
						if _, isDbg := uu.(*ssa.DebugRef); !isDbg {
							return nil, 0, false
						}
					}
				}
			case *ssa.DebugRef:
			default:
				return nil, 0, false
			}
		}
		switch x := whole.(type) {
		case *ssa.Extract:
			if lk, isLk := x.Tuple.(*ssa.Lookup); isLk && x.Index == 0 {
				return lk, fa.Field, true
			}
		case *ssa.Lookup:
			return x, fa.Field, true
		}
		return nil, 0, false
	}
	fl, ok := v.(*ssa.Field)
	if !ok {
		return nil, 0, false
	}
	switch x := fl.X.(type) {
	case *ssa.Extract:
		if lk, isLk := x.Tuple.(*ssa.Lookup); isLk && x.Index == 0 {
			return lk, fl.Field, true
		}
	case *ssa.Lookup:
		return x, fl.Field, true
	}
	return nil, 0, false
}

func mapTableValues(m ssa.Value) []string {
	ld, ok := m.(*ssa.UnOp)
	if !ok {
		return nil
	}
	g, ok := ld.X.(*ssa.Global)
	if !ok {
		return nil
	}
	init, _ := g.Pkg.Members["init"].(*ssa.Function)
	if init == nil {
		return nil
	}
	var out []string
	bad := false
	ir.Instrs(init, func(in ssa.Instruction) {
		mu, ok := in.(*ssa.MapUpdate)
		if !ok {
			return
		}
		mk, isMk := mu.Map.(*ssa.MakeMap)
		if !isMk {
			return
		}
		stored := false
		for _, u := range *mk.Referrers() {
			if st, isSt := u.(*ssa.Store); isSt && st.Addr == ssa.Value(g) {
				stored = true
			}
		}
		if !stored {
			return
		}
		if sv, isS := ir.ConstString(mu.Value); isS {
			out = append(out, sv)
		} else {
			bad = true
		}
	})
	if bad {
		return nil
	}
	return out
}

func lex5(c *Ctx) {
	m, _ := c.lexModel()
	n := 0
	for _, rel := range []string{"internal/lexer", "internal/parser", ""} {
		for _, fn := range c.pkgFuncsDeep(rel) {
			ir.Instrs(fn, func(in ssa.Instruction) {
				al, ok := in.(*ssa.Alloc)
				if !ok || al.Comment != "complit" || !c.isNamed(al.Type().(*types.Pointer).Elem(), "internal/lexer", "ParseError") {
					return
				}
				n++
				c.Mark(fn)
				key := fmt.Sprintf("%s:ParseError@%s", Q(fn), relLine(c, fn, al.Pos()))
				f, _ := litFields(al)
				pos, input := single(f, "Pos"), single(f, "Input")
				if pos == nil || input == nil {
					c.Bad(key, al.Pos(), "Pos or Input not set exactly once")
					return
				}
				// resolve phis
				var srcs []ssa.Value
				var walk func(v ssa.Value)
				walk = func(v ssa.Value) {
					if phi, isPhi := v.(*ssa.Phi); isPhi {
						for _, e := range phi.Edges {
							walk(e)
						}
						return
					}
					srcs = append(srcs, v)
				}
				walk(pos)
				var problems []string
				for _, s := range srcs {
					switch {
					case m != nil && (m.isPosLoad(s) || (m.pos != nil && isCellLoad(s, m.pos))):
						if !(m.isUsage(input) || (m.usageCell != nil && isCellLoadV(input, m.usageCell))) {
							problems = append(problems, "Pos is the scanner position but Input is not the scanned string")
						}
					case isFieldNamed(s, "Pos") && c.isNamed(fieldBaseType(s), "internal/lexer", "Token"):
						if !isSpecOfParser(input) {
							problems = append(problems, "Pos is a token position but Input is not the parser's spec")
						}
					default:
						if call, isCall := s.(*ssa.Call); isCall && isLenOfSpec(call) && isSpecOfParser(input) {
							continue
						}
						problems = append(problems, "Pos comes from something other than the scanner position, a token's Pos or len(spec)")
					}
				}
				reportP(c, key, al.Pos(), problems, "Pos <= len(Input) by construction (scanner position / token position / len(spec))")
			})
		}
	}
	// ParseError.ident slices Input[:Pos]: the only consumer
	if id := c.fnOpt("internal/lexer", "ParseError.ident"); id != nil {
		c.Mark(id)
		ok := false
		ir.Instrs(id, func(in ssa.Instruction) {
			if sl, isSl := in.(*ssa.Slice); isSl {
				if isFieldNamed(sl.X, "Input") && sl.Low == nil && sl.High != nil && isFieldNamed(sl.High, "Pos") {
					ok = true
				}
			}
		})
		c.Check(ok, Q(id), id.Pos(), "renders Input[:Pos], safe given Pos <= len(Input)", "the error renderer slices something other than Input[:Pos]")
	}
	if n == 0 {
		c.Bad("ParseError-literals", token.NoPos, "no ParseError is ever built")
	}
}

func isCellLoad(v ssa.Value, cell *ssa.Alloc) bool {
	ld, ok := v.(*ssa.UnOp)
	return ok && ld.Op == token.MUL && cell != nil && ir.CellAlloc(ld.X) == cell
}

func isCellLoadV(v ssa.Value, cell *ssa.Alloc) bool { return isCellLoad(v, cell) }

func isFieldNamed(v ssa.Value, name string) bool {
	_, f, ok := ir.FieldLoad(v)
	return ok && f == name
}

func fieldBaseType(v ssa.Value) types.Type {
	b, _, ok := ir.FieldLoad(v)
	if !ok {
		return types.Typ[types.Invalid]
	}
	return b.Type()
}

func lex6(c *Ctx) {
	m, why := c.lexModel()
	if m == nil {
		c.Undecided("anchor:scanner", token.NoPos, "%s", why)
		return
	}
	emitted := map[string]bool{}
	scanned, fixed := map[string]bool{}, map[string]bool{}
	for _, es := range m.emitSites() {
		_, isConst := ir.ConstString(es.text)
		for _, k := range kindsOfAt(es.kind, es.in.Block()) {
			emitted[k] = true
			if isConst {
				fixed[k] = true
			} else {
				scanned[k] = true
			}
		}
	}
	// a kind whose extent is decided by a scan (its text is the input between two positions) is not also
	// emitted with a constant text somewhere else: the second site would decide where the token ends by
	// a rule of its own
	{
		var both []string
		for k := range scanned {
			if fixed[k] {
				both = append(both, k)
			}
		}
		sort.Strings(both)
		mk := len(c.Obs)
		c.Check(len(both) == 0, "extent(scanned kinds)", m.fn.Pos(), "a kind emitted with the scanned text is emitted nowhere with a constant text",
			"emitted both with the scanned text and with a constant text: "+strings.Join(both, ", ")+" (two rules for where such a token ends)")
		c.Scope(mk, "C08", "C18")
	}
	declared := declaredKinds(c)
	mk := len(c.Obs)
	c.Check(sameSet(emitted, declared) && len(declared) > 0, "kinds(scanner)=kinds(declared)", m.fn.Pos(),
		fmt.Sprintf("the scanner emits exactly the %d declared kinds", len(declared)),
		fmt.Sprintf("declared {%s}, emitted {%s}", setStr(declared), setStr(emitted)))
	c.Scope(mk, "C08")
	// the byte classes the scanner is built on are plain ASCII range tests: nothing outside ASCII is a
	// letter or a digit (argument names, option names)
	isBytePred := func(f *ssa.Function) bool {
		if f == nil || f.Signature.Recv() != nil || len(f.Params) == 0 || len(f.Blocks) == 0 || f.Signature.Results().Len() != 1 {
			return false
		}
		if b, ok := f.Signature.Results().At(0).Type().Underlying().(*types.Basic); !ok || b.Kind() != types.Bool {
			return false
		}
		b, ok := f.Params[0].Type().Underlying().(*types.Basic)
		return ok && (b.Kind() == types.Uint8 || b.Kind() == types.Int32)
	}
	for _, f := range c.pkgFuncsDeep("internal/lexer") {
		if !isBytePred(f) || f.Parent() != nil {
			continue
		}
		c.Mark(f)
		bad := ""
		ir.Instrs(f, func(in ssa.Instruction) {
			switch x := in.(type) {
			case *ssa.BinOp:
				switch x.Op {
				case token.EQL, token.NEQ, token.LSS, token.LEQ, token.GTR, token.GEQ:
					_, cx := x.X.(*ssa.Const)
					_, cy := x.Y.(*ssa.Const)
					px := x.X == ssa.Value(f.Params[0])
					py := x.Y == ssa.Value(f.Params[0])
					if !((px && cy) || (py && cx)) {
						bad = "a comparison of something other than the byte with a constant"
					}
				default:
					bad = "arithmetic on the byte"
				}
			case *ssa.UnOp:
				if x.Op != token.NOT {
					bad = "an operation other than a comparison"
				}
			case *ssa.Call:
				if g := ir.Static(x); g == nil || !isBytePred(g) || g.Pkg != f.Pkg || len(x.Call.Args) == 0 || x.Call.Args[0] != ssa.Value(f.Params[0]) {
					bad = "a call of something other than another byte class of the scanner on the same byte"
				}
			case *ssa.Phi, *ssa.If, *ssa.Jump, *ssa.Return, *ssa.DebugRef:
			default:
				bad = fmt.Sprintf("an instruction that is not a comparison (%T)", in)
			}
		})
		mk2 := len(c.Obs)
		c.Check(bad == "", Q(f)+":ascii-ranges", f.Pos(), "a byte class defined only by comparisons of the byte with constants",
			"the byte class is not a plain comparison of the byte with constants ("+bad+"): bytes outside ASCII could count as letters or digits")
		c.Scope(mk2, "C08", "C18")
	}
	// the classes themselves, tabulated over all 256 bytes: the characters of argument names, of short
	// and of long option names are the documented ones (confirmed on the pinned tree)
	want := []struct {
		name  string
		flags []bool
		class string
		what  string
	}{
		{"isLowercase", nil, "a-z", "lower-case letters"},
		{"isUppercase", nil, "A-Z", "upper-case letters (first byte of an argument name)"},
		{"isDigit", nil, "0-9", "digits"},
		{"isLetter", nil, "A-Za-z", "letters (short option names)"},
		{"isOkInArg", nil, "0-9A-Z_", "bytes of an argument name after the first"},
		{"isOkLongOpt", []bool{true}, "0-9A-Z_a-z", "first byte of a long option name"},
		{"isOkLongOpt", []bool{false}, "-0-9A-Z_a-z", "later bytes of a long option name"},
	}
	for _, w := range want {
		f := c.fnOpt("internal/lexer", w.name)
		if f == nil || len(f.Params) != 1+len(w.flags) {
			continue // the class was folded into something else: its uses are checked where they are (LEX-4)
		}
		key := Q(f) + ":class"
		if len(w.flags) > 0 {
			key += fmt.Sprintf("[%v]", w.flags[0])
		}
		got, ok := byteClass(f, w.flags...)
		mk3 := len(c.Obs)
		if !ok {
			c.Undecided(key, f.Pos(), "the class cannot be tabulated (not a composition of comparisons with constants)")
		} else {
			c.Check(got == w.class, key, f.Pos(), "accepts exactly ["+w.class+"]: "+w.what, "accepts ["+got+"], expected ["+w.class+"] ("+w.what+")")
		}
		c.Scope(mk3, "C08", "C18")
	}
}

// admittedBytes tabulates, over all 256 values of one byte of the input (the values isByte recognises
// as reads of it), the branch outcomes conds that depend on that byte alone: comparisons with constants,
// negations, calls of byte classes (through the LEX-6 interpreter; a boolean argument that cannot be
// evaluated is tried both ways and the outcomes united). An outcome that does not mention the byte is
// ignored (it admits every byte); one that mentions it and cannot be evaluated makes the result opaque.
func admittedBytes(conds []ir.Cond, isByte func(ssa.Value) bool) (admitted [256]bool, opaque bool) {
	mentions := func(v ssa.Value) bool {
		seen := map[ssa.Value]bool{}
		var walk func(v ssa.Value, d int) bool
		walk = func(v ssa.Value, d int) bool {
			if v == nil || seen[v] || d > 8 {
				return false
			}
			seen[v] = true
			if isByte(v) {
				return true
			}
			in, isIn := v.(ssa.Instruction)
			if !isIn {
				return false
			}
			if _, isPhi := v.(*ssa.Phi); isPhi {
				return false
			}
			for _, op := range in.Operands(nil) {
				if op != nil && walk(*op, d+1) {
					return true
				}
			}
			return false
		}
		return walk(v, 0)
	}
	// eval returns the possible outcomes (at most two: a flag tried both ways)
	var eval func(v ssa.Value, b int, depth int) ([]constant.Value, bool)
	eval = func(v ssa.Value, b int, depth int) ([]constant.Value, bool) {
		if depth > 8 {
			return nil, false
		}
		if isByte(v) {
			return []constant.Value{constant.MakeInt64(int64(b))}, true
		}
		switch x := v.(type) {
		case *ssa.Const:
			if x.Value == nil {
				return nil, false
			}
			return []constant.Value{x.Value}, true
		case *ssa.Convert:
			return eval(x.X, b, depth+1)
		case *ssa.UnOp:
			if x.Op == token.NOT {
				if os, ok := eval(x.X, b, depth+1); ok {
					var out []constant.Value
					for _, o := range os {
						if o.Kind() != constant.Bool {
							return nil, false
						}
						out = append(out, constant.MakeBool(!constant.BoolVal(o)))
					}
					return out, true
				}
			}
		case *ssa.BinOp:
			switch x.Op {
			case token.EQL, token.NEQ, token.LSS, token.LEQ, token.GTR, token.GEQ:
				ls, okL := eval(x.X, b, depth+1)
				rs, okR := eval(x.Y, b, depth+1)
				if okL && okR && len(ls) == 1 && len(rs) == 1 && ls[0].Kind() == constant.Int && rs[0].Kind() == constant.Int {
					return []constant.Value{constant.MakeBool(constant.Compare(ls[0], x.Op, rs[0]))}, true
				}
			}
		case *ssa.Call:
			g := ir.Static(x)
			if g == nil {
				return nil, false
			}
			combos := [][]constant.Value{nil}
			for _, a := range x.Call.Args {
				var opts []constant.Value
				if os, ok := eval(a, b, depth+1); ok {
					opts = os
				} else if bt, isB := a.Type().Underlying().(*types.Basic); isB && bt.Kind() == types.Bool && !mentions(a) {
					opts = []constant.Value{constant.MakeBool(true), constant.MakeBool(false)}
				} else {
					return nil, false
				}
				var next [][]constant.Value
				for _, cmb := range combos {
					for _, o := range opts {
						next = append(next, append(append([]constant.Value(nil), cmb...), o))
					}
				}
				combos = next
				if len(combos) > 4 {
					return nil, false
				}
			}
			var out []constant.Value
			for _, cmb := range combos {
				r, ok := evalBytePred(g, cmb, 0)
				if !ok {
					return nil, false
				}
				out = append(out, constant.MakeBool(r))
			}
			return out, true
		}
		return nil, false
	}
	for _, cd := range conds {
		if _, ok := eval(cd.V, 0, 0); !ok && mentions(cd.V) {
			return admitted, true
		}
	}
	for b := 0; b < 256; b++ {
		admitted[b] = true
		for _, cd := range conds {
			rs, ok := eval(cd.V, b, 0)
			if !ok {
				continue
			}
			can := false
			for _, r := range rs {
				if r.Kind() == constant.Bool && constant.BoolVal(r) == cd.Want {
					can = true
				}
			}
			if !can {
				admitted[b] = false
				break
			}
		}
	}
	return admitted, false
}
