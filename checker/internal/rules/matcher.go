package rules

import (
	"fmt"
	"go/token"
	"go/types"
	"sort"
	"strings"

	"golang.org/x/tools/go/ssa"

	"verif/checker/internal/ir"
)

func init() {
	register(&Rule{ID: "MAT-1", Props: []string{"C01", "C02", "C10", "C19", "C11"}, Floor: 5,
		Doc: "the argument vector is immutable during backtracking: no element store, copy destination or append base is a []string that is not freshly made in the same function", Run: mat1})
	register(&Rule{ID: "MAT-2", Props: []string{"C02", "C09", "C13", "C15", "C10", "C19"}, Floor: 3,
		Doc: "every string recorded into the context is a sub-slice of a command-line token or the literal \"true\"; the positional matcher records exactly args[0] and returns args[1:]", Run: mat2})
	register(&Rule{ID: "MAT-3", Props: []string{"C01", "C09", "C02", "C15"}, Floor: 4,
		Doc: "every matcher consults the options-ended flag", Run: mat3})
	register(&Rule{ID: "MAT-4", Props: []string{"C12", "C01", "C10", "C11"}, Floor: 2,
		Doc: "every non-matching exit of the option matcher yields the env flag with the vector unchanged; a true verdict carries a matched sub-call's vector", Run: mat4})
	register(&Rule{ID: "MAT-5", Props: []string{"C12"}, Floor: 2,
		Doc: "consuming an occurrence never consults the env flag", Run: mat5})
	register(&Rule{ID: "MAT-6", Props: []string{"C12", "C03", "C10", "C01", "C11"}, Floor: 1,
		Doc: "the group matcher excludes an env-backed option only after a match that recorded no value for it", Run: mat6})
	register(&Rule{ID: "MAT-7", Props: []string{"C10", "C11", "C02", "C01", "C06", "C09", "C12"}, Floor: 6,
		Doc: "a foreign occurrence is skipped over exactly the tokens an own occurrence of that form consumes; an own match reports the number of tokens it dropped", Run: mat7})
	register(&Rule{ID: "MAT-8", Props: []string{"C10", "C19", "C01", "C02", "C13", "C11", "C06", "C12"}, Floor: 3,
		Doc: "sibling guards: own option only; empty '=' value is no match; separate value starting with '-' is no match; a flag (IsBool of the looked-up option) records \"true\"", Run: mat8})
	register(&Rule{ID: "MAT-11", Props: []string{"C11", "C01", "C10", "C12"}, Floor: 4,
		Doc: "group retry: (false, input) if the first try fails, else try again on each new vector until a try fails, returning the last vector", Run: mat11})
	register(&Rule{ID: "MAT-12", Props: []string{"C03", "C11"}, Floor: 3,
		Doc: "matcher loops progress: every back edge adds a positive amount to the loop counter", Run: mat12})
}

func isStringSlice(t types.Type) bool {
	sl, ok := t.Underlying().(*types.Slice)
	if !ok {
		return false
	}
	b, ok := sl.Elem().Underlying().(*types.Basic)
	return ok && b.Kind() == types.String
}

// vecRoots returns the roots of a []string value through slicing and phis.
func vecRoots(v ssa.Value) []ssa.Value {
	seen := map[ssa.Value]bool{}
	var out []ssa.Value
	var walk func(v ssa.Value)
	walk = func(v ssa.Value) {
		if seen[v] {
			return
		}
		seen[v] = true
		switch x := v.(type) {
		case *ssa.Slice:
			walk(x.X)
		case *ssa.Phi:
			for _, e := range x.Edges {
				walk(e)
			}
		case *ssa.ChangeType:
			walk(x.X)
		default:
			out = append(out, v)
		}
	}
	walk(v)
	return out
}

func localRoot(v ssa.Value) bool {
	switch x := v.(type) {
	case *ssa.MakeSlice:
		return true
	case *ssa.Alloc:
		return true
	case *ssa.Const:
		return true
	case *ssa.Lookup:
		_, isMap := x.X.Type().Underlying().(*types.Map)
		return isMap
	case *ssa.Call:
		// append(...) results: judged at their own site
		if b, ok := x.Call.Value.(*ssa.Builtin); ok && b.Name() == "append" {
			return true
		}
		// strings.Fields / SplitN results are fresh
		if f := ir.Static(x); f != nil && f.Object() != nil && f.Object().Pkg() != nil && f.Object().Pkg().Path() == "strings" {
			return true
		}
	}
	return false
}

func mat1(c *Ctx) {
	for _, rel := range []string{"internal/matcher", "internal/fsm"} {
		for _, fn := range c.pkgFuncsDeep(rel) {
			touches := false
			for _, p := range fn.Params {
				if isStringSlice(p.Type()) {
					touches = true
				}
			}
			if !touches {
				continue
			}
			c.Mark(fn)
			var problems []string
			ir.Instrs(fn, func(in ssa.Instruction) {
				switch x := in.(type) {
				case *ssa.Store:
					ia, ok := x.Addr.(*ssa.IndexAddr)
					if !ok || !isStringSlice(ia.X.Type()) {
						return
					}
					for _, r := range vecRoots(ia.X) {
						if !localRoot(r) {
							problems = append(problems, fmt.Sprintf("element store at %s into a vector not made in this function", c.P.Pos(x.Pos())))
						}
					}
				case *ssa.Call:
					b, ok := x.Call.Value.(*ssa.Builtin)
					if !ok {
						return
					}
					if b.Name() == "copy" && isStringSlice(x.Call.Args[0].Type()) {
						for _, r := range vecRoots(x.Call.Args[0]) {
							if !localRoot(r) {
								problems = append(problems, fmt.Sprintf("copy at %s writes into a vector not made in this function", c.P.Pos(x.Pos())))
							}
						}
					}
					if b.Name() == "append" && isStringSlice(x.Call.Args[0].Type()) {
						for _, r := range vecRoots(x.Call.Args[0]) {
							if !localRoot(r) {
								problems = append(problems, fmt.Sprintf("append at %s may write into the backing array of a vector not made in this function", c.P.Pos(x.Pos())))
							}
						}
					}
				}
			})
			sort.Strings(problems)
			if len(problems) > 0 {
				c.Bad(Q(fn), fn.Pos(), "%s", strings.Join(problems, "; "))
			} else {
				c.OK(Q(fn), fn.Pos(), "never writes through a vector it did not allocate")
			}
		}
	}
}

// ctxRecords returns the MapUpdates into c.Opts / c.Args of a *ParseContext
// with the string appended by each.
type ctxRecord struct {
	mu    *ssa.MapUpdate
	field string
	val   ssa.Value
	ok    bool
}

func (c *Ctx) ctxRecords(fn *ssa.Function) []ctxRecord {
	var out []ctxRecord
	ir.Instrs(fn, func(in ssa.Instruction) {
		mu, ok := in.(*ssa.MapUpdate)
		if !ok {
			return
		}
		b, f, isF := ir.FieldLoad(mu.Map)
		if !isF || !c.isNamed(b.Type(), "internal/matcher", "ParseContext") || (f != "Opts" && f != "Args") {
			return
		}
		rec := ctxRecord{mu: mu, field: f}
		base, el, isApp := appendedSingle(mu.Value)
		if isApp {
			if lk, isLk := base.(*ssa.Lookup); isLk && sameLoad(lk.Index, mu.Key) {
				if b2, f2, ok2 := ir.FieldLoad(lk.X); ok2 && f2 == f && b2 == b {
					rec.val, rec.ok = el, true
				}
			}
		}
		out = append(out, rec)
	})
	return out
}

// tokenProvenance: the roots of a recorded string, looking through string
// slicing, indexing of vectors and strings.SplitN.
func tokenProvenance(v ssa.Value) []ssa.Value {
	return ir.Roots(v, func(call *ssa.Call) []ssa.Value {
		if f := ir.Static(call); f != nil && splitsToken(f) {
			return []ssa.Value{call.Call.Args[0]}
		}
		return nil
	})
}

// lossyConversion: on the way from its roots, v passes a conversion between string and []rune, or from
// an integer to a string (conversions to and from []byte keep the bytes and are not meant).
func lossyConversion(v ssa.Value) bool {
	seen := map[ssa.Value]bool{}
	var walk func(v ssa.Value) bool
	isRunes := func(t types.Type) bool {
		sl, ok := t.Underlying().(*types.Slice)
		if !ok {
			return false
		}
		b, ok := sl.Elem().Underlying().(*types.Basic)
		return ok && b.Kind() == types.Int32
	}
	isStr := func(t types.Type) bool {
		b, ok := t.Underlying().(*types.Basic)
		return ok && b.Info()&types.IsString != 0
	}
	isInt := func(t types.Type) bool {
		b, ok := t.Underlying().(*types.Basic)
		return ok && b.Info()&types.IsInteger != 0
	}
	walk = func(v ssa.Value) bool {
		if v == nil || seen[v] {
			return false
		}
		seen[v] = true
		switch x := v.(type) {
		case *ssa.Phi:
			for _, e := range x.Edges {
				if walk(e) {
					return true
				}
			}
		case *ssa.Convert:
			from, to := x.X.Type(), x.Type()
			if (isStr(from) && isRunes(to)) || (isRunes(from) && isStr(to)) || (isInt(from) && isStr(to)) {
				return true
			}
			return walk(x.X)
		case *ssa.Slice:
			return walk(x.X)
		case *ssa.ChangeType:
			return walk(x.X)
		case *ssa.BinOp:
			if x.Op == token.ADD {
				return walk(x.X) || walk(x.Y)
			}
		}
		return false
	}
	return walk(v)
}

func mat2(c *Ctx) {
	for _, fn := range c.pkgFuncsDeep("internal/matcher") {
		recs := c.ctxRecords(fn)
		if len(recs) == 0 {
			continue
		}
		c.Mark(fn)
		var args *ssa.Parameter
		for _, p := range fn.Params {
			if isStringSlice(p.Type()) {
				args = p
			}
		}
		for i, r := range recs {
			key := fmt.Sprintf("%s:record#%d(%s)", Q(fn), i, r.field)
			if !r.ok {
				if fn.Name() == "Merge" {
					continue // Merge copies whole lists; covered by FSM-4
				}
				c.Bad(key, r.mu.Pos(), "the context entry is not extended by append(entry, value)")
				continue
			}
			if s, isC := ir.ConstString(r.val); isC {
				c.Check(s == "true", key, r.mu.Pos(), "records the flag literal \"true\"", fmt.Sprintf("records the invented constant %q", s))
				continue
			}
			good := true
			n := 0
			if lossyConversion(r.val) {
				// string -> []rune -> string (or string(byte)) re-encodes: bytes that are not valid UTF-8
				// come back as U+FFFD
				c.Bad(key, r.mu.Pos(), "the recorded string went through a []rune / integer-to-string conversion: it is re-encoded, not a sub-slice of the command-line token (bytes that are not valid UTF-8 are replaced)")
				continue
			}
			for _, v := range ir.PhiValuesAt(r.val, r.mu.Block()) {
				for _, root := range tokenProvenance(v) {
					n++
					if root != ssa.Value(args) {
						good = false
					}
				}
			}
			if n == 0 {
				good = false
			}
			c.Check(good, key, r.mu.Pos(), "the recorded string is a sub-slice of a token of the argument vector", "the recorded string is not (only) a sub-slice of a command-line token: it is transformed, concatenated or comes from elsewhere")
		}
	}
	// the positional matcher
	fn := c.fnOpt("internal/matcher", "arg.Match")
	if fn == nil {
		c.Undecided("anchor:matcher.arg.Match", token.NoPos, "not found")
		return
	}
	recs := c.ctxRecords(fn)
	var args *ssa.Parameter
	for _, p := range fn.Params {
		if isStringSlice(p.Type()) {
			args = p
		}
	}
	okPos := len(recs) == 1 && recs[0].ok && recs[0].field == "Args"
	if okPos {
		ld, isLd := recs[0].val.(*ssa.UnOp)
		okPos = false
		if isLd {
			if ia, isIA := ld.X.(*ssa.IndexAddr); isIA && ia.X == ssa.Value(args) {
				if z, isC := ir.ConstInt(ia.Index); isC && z == 0 {
					okPos = true
				}
			}
		}
		// key = the matcher's own container
		if _, f, ok := ir.FieldLoad(recs[0].mu.Key); !ok || f != "arg" {
			okPos = false
		}
	}
	if okPos {
		for _, r := range ir.ReturnPoints(fn) {
			if v, isC := ir.ConstBool(r.Results[0]); isC && v {
				sl, isSl := r.Results[1].(*ssa.Slice)
				if !isSl || sl.X != ssa.Value(args) || sl.High != nil {
					okPos = false
					continue
				}
				if lo, isC := ir.ConstInt(sl.Low); !isC || lo != 1 {
					okPos = false
				}
				if r.Block() != recs[0].mu.Block() && !recs[0].mu.Block().Dominates(r.Block()) {
					okPos = false
				}
			} else if isC && !v {
				if r.Results[1] != ssa.Value(args) {
					okPos = false
				}
			} else {
				okPos = false
			}
		}
	}
	c.Check(okPos, Q(fn)+":verbatim", fn.Pos(), "binds exactly args[0] to its own argument and returns args[1:]; a refusal returns the vector unchanged", "the positional matcher does not bind args[0] verbatim and return args[1:]")
}

// rejectLoad returns the loads of c.RejectOptions in fn.
func rejectLoads(c *Ctx, fn *ssa.Function) []ssa.Value {
	var out []ssa.Value
	ir.Instrs(fn, func(in ssa.Instruction) {
		if v, ok := in.(ssa.Value); ok {
			if b, f, isF := ir.FieldLoad(v); isF && f == "RejectOptions" && c.isNamed(b.Type(), "internal/matcher", "ParseContext") {
				out = append(out, v)
			}
		}
	})
	return out
}

func flagFalseAt(c *Ctx, fn *ssa.Function, b *ssa.BasicBlock) bool {
	return flagFalseH(c, fn, func(v ssa.Value, want bool) bool { return ir.HoldsAt(v, want, b) })
}

func flagFalseH(c *Ctx, fn *ssa.Function, holds func(ssa.Value, bool) bool) bool {
	for _, l := range rejectLoads(c, fn) {
		if holds(l, false) {
			return true
		}
	}
	return false
}

func mat3(c *Ctx) {
	// the shortcut matcher: always matches, hands the vector back untouched (what `[x]` and `x...` rely on)
	if fn := c.fnOpt("internal/matcher", "shortcut.Match"); fn != nil {
		c.Mark(fn)
		ok := len(ir.ReturnPoints(fn)) > 0
		for _, r := range ir.ReturnPoints(fn) {
			b, isC := ir.ConstBool(r.Results[0])
			if !isC || !b || len(r.Results) != 2 {
				ok = false
				continue
			}
			if p, isP := r.Results[1].(*ssa.Parameter); !isP || !isStringSlice(p.Type()) {
				ok = false
			}
		}
		mk := len(c.Obs)
		c.Check(ok, Q(fn)+":always", fn.Pos(), "matches every vector and returns it unchanged", "the shortcut matcher can decline or change the vector: optional and repeated parts of a spec stop being optional / repeatable")
		c.Scope(mk, "C01")
	}
	// option matcher: every sub-matcher call under !RejectOptions
	if fn := c.Fn("internal/matcher", "opt.Match"); fn != nil {
		ok := true
		n := 0
		for _, call := range ir.Calls(fn) {
			f := ir.Static(call)
			if f == nil || f.Pkg != fn.Pkg || f.Signature.Recv() == nil {
				continue
			}
			n++
			if !flagFalseAt(c, fn, call.Block()) {
				ok = false
			}
		}
		// the flag-true edge returns the vector unchanged
		for _, l := range rejectLoads(c, fn) {
			for _, e := range ir.EdgesWhere(fn, l, true) {
				for r := range ir.ReachVia(e.From, e.To, nil, nil) {
					if ir.IsReturn(r) {
						ret := r.Instrs[len(r.Instrs)-1].(*ssa.Return)
						if _, isP := ret.Results[1].(*ssa.Parameter); !isP && e.To == r {
							ok = false
						}
					}
				}
			}
		}
		c.Check(ok && n >= 2, Q(fn), fn.Pos(), "no occurrence is looked for once options are ended", "the option matcher scans for occurrences although options are ended")
		// the scan ends at a `--` token: it is neither handed to a sub-matcher nor stepped over
		var args *ssa.Parameter
		for _, p := range fn.Params {
			if isStringSlice(p.Type()) {
				args = p
			}
		}
		type ddTest struct {
			v  ssa.Value
			eq bool // outcome meaning "the token is --"
		}
		var tests []ddTest
		ir.Instrs(fn, func(in ssa.Instruction) {
			bo, isBo := in.(*ssa.BinOp)
			if !isBo || (bo.Op != token.EQL && bo.Op != token.NEQ) {
				return
			}
			x, y := bo.X, bo.Y
			if _, isC := x.(*ssa.Const); isC {
				x, y = y, x
			}
			if sv, isS := ir.ConstString(y); !isS || sv != "--" {
				return
			}
			ld, isLd := x.(*ssa.UnOp)
			if !isLd {
				return
			}
			if ia, isIA := ld.X.(*ssa.IndexAddr); isIA && ia.X == ssa.Value(args) {
				tests = append(tests, ddTest{bo, bo.Op == token.EQL})
			}
		})
		okDD, whyDD := len(tests) > 0, "the scan never compares the token with `--`"
		for _, t := range tests {
			for _, e := range ir.EdgesWhere(fn, t.v, t.eq) {
				for r := range ir.ReachVia(e.From, e.To, nil, nil) {
					if r == e.From && ir.InLoop(e.From) {
						okDD, whyDD = false, "after a `--` token the scan goes on (a later token would be taken as an option)"
					}
					if ir.IsReturn(r) {
						ret := r.Instrs[len(r.Instrs)-1].(*ssa.Return)
						if _, isP := stripConv(ret.Results[1]).(*ssa.Parameter); !isP {
							okDD, whyDD = false, "the exit taken at a `--` token does not hand the vector back unchanged"
						}
					}
				}
			}
		}
		if okDD {
			for _, call := range ir.Calls(fn) {
				f := ir.Static(call)
				if f == nil || f.Pkg != fn.Pkg || f.Signature.Recv() == nil {
					continue
				}
				guarded := false
				for _, t := range tests {
					if ir.HoldsAt(t.v, !t.eq, call.Block()) {
						guarded = true
					}
				}
				if !guarded {
					okDD, whyDD = false, "a sub-matcher can be handed a `--` token"
				}
			}
		}
		c.Check(okDD, Q(fn)+":stops-at-dashdash", fn.Pos(), "the scan for an occurrence ends at a `--` token, which is neither matched nor stepped over", whyDD)
	}
	if fn := c.Fn("internal/matcher", "options.try"); fn != nil {
		ok := true
		n := 0
		for _, call := range ir.Calls(fn) {
			f := ir.Static(call)
			if f == nil || f.Pkg != fn.Pkg || f.Name() != "Match" {
				continue
			}
			n++
			if !flagFalseAt(c, fn, call.Block()) {
				ok = false
			}
		}
		for _, l := range rejectLoads(c, fn) {
			for _, e := range ir.EdgesWhere(fn, l, true) {
				if !allPathsReturnConstAt(e.To, 0, false) {
					ok = false
				}
			}
		}
		c.Check(ok && n >= 1, Q(fn), fn.Pos(), "the group matcher matches nothing once options are ended", "the group matcher ignores the options-ended flag")
	}
	if fn := c.Fn("internal/matcher", "arg.Match"); fn != nil {
		recs := c.ctxRecords(fn)
		ok := len(recs) == 1
		why := "positional matcher shape not recognised"
		if ok {
			acc := recs[0].mu.Block()
			// with the flag set, acceptance must not depend on the token's shape
			for _, l := range rejectLoads(c, fn) {
				for _, e := range ir.EdgesWhere(fn, l, true) {
					if e.To != acc {
						for r := range ir.ReachVia(e.From, e.To, map[*ssa.BasicBlock]bool{acc: true}, nil) {
							if ir.IsReturn(r) {
								ok, why = false, "after options ended a token can still be refused"
							}
						}
					}
				}
			}
			if len(rejectLoads(c, fn)) == 0 {
				ok, why = false, "the positional matcher never reads the options-ended flag"
			}
			// refusals (other than empty input) need !flag, HasPrefix(args[0],"-"), args[0] != "-"
			for _, r := range ir.ReturnWays(fn) {
				v, isC := ir.ConstBool(r.Results[0])
				if !isC || v {
					continue
				}
				if lenZeroH(fn, r.Holds) {
					continue
				}
				okRefuse := flagFalseH(c, fn, r.Holds)
				hasPrefix, notDash := optionLikeH(fn, r.Holds)
				if !okRefuse || !hasPrefix || !notDash {
					ok, why = false, "a positional token is refused under a condition other than: options not ended, starts with '-', is not '-'"
				}
			}
		}
		c.Check(ok, Q(fn), fn.Pos(), "a dash-prefixed token other than '-' is refused only while options are not ended", why)
	}
	if fn := c.Fn("internal/matcher", "optsEnd.Match"); fn != nil {
		stores, guarded := false, false
		ir.Instrs(fn, func(in ssa.Instruction) {
			if st, ok := in.(*ssa.Store); ok {
				if b, f, isF := ir.FieldAddr(st.Addr); isF && f == "RejectOptions" && c.isNamed(b.Type(), "internal/matcher", "ParseContext") {
					if v, isC := ir.ConstBool(st.Val); isC && v && st.Block() == fn.Blocks[0] {
						stores = true
					}
					// `if !c.RejectOptions { c.RejectOptions = true }`: skipped only when the flag is set already
					if v, isC := ir.ConstBool(st.Val); isC && v && st.Block() != fn.Blocks[0] {
						cut := map[ir.Edge]bool{}
						for _, l := range rejectLoads(c, fn) {
							for _, e := range ir.EdgesWhere(fn, l, true) {
								cut[ir.Edge{From: e.From, To: e.To}] = true
							}
						}
						around := false
						for _, ret := range ir.Returns(fn) {
							if ir.Reach(fn.Blocks[0], map[*ssa.BasicBlock]bool{st.Block(): true}, cut)[ret.Block()] {
								around = true
							}
						}
						if !around && len(cut) > 0 {
							stores, guarded = true, true
						}
					}
				}
			}
		})
		okRet := true
		for _, r := range ir.ReturnPoints(fn) {
			if v, isC := ir.ConstBool(r.Results[0]); !isC || !v || r.Results[1] != ssa.Value(fn.Params[len(fn.Params)-2]) {
				okRet = false
			}
		}
		c.Check(stores && okRet && (len(fn.Blocks) == 1 || guarded), Q(fn), fn.Pos(), "a spec `--` always matches, sets the flag and leaves the vector alone", "the spec-level `--` matcher does not unconditionally set the options-ended flag and return its input")
	}
}

func lenZeroAt(fn *ssa.Function, b *ssa.BasicBlock) bool {
	return lenZeroH(fn, func(v ssa.Value, want bool) bool { return ir.HoldsAt(v, want, b) })
}

func lenZeroH(fn *ssa.Function, holds func(ssa.Value, bool) bool) bool {
	found := false
	ir.Instrs(fn, func(in ssa.Instruction) {
		bo, ok := in.(*ssa.BinOp)
		if !ok || found {
			return
		}
		k, isC := ir.ConstInt(bo.Y)
		if !isC {
			return
		}
		lc, isCall := bo.X.(*ssa.Call)
		if !isCall {
			return
		}
		if bi, isB := lc.Call.Value.(*ssa.Builtin); !isB || bi.Name() != "len" {
			return
		}
		for _, want := range []bool{true, false} {
			// the outcome `want` is possible for length 0 and impossible for lengths 1, 2, 3
			z, okZ := lenCmp(bo.Op, 0, k)
			if !okZ || z != want {
				continue
			}
			only := true
			for n := int64(1); n <= 3; n++ {
				if t, _ := lenCmp(bo.Op, n, k); t == want {
					only = false
				}
			}
			if only && holds(bo, want) {
				found = true
			}
		}
	})
	return found
}

// allPathsReturnConstAt: every return reachable from b has constant bool `want` as result idx.
func allPathsReturnConstAt(b *ssa.BasicBlock, idx int, want bool) bool {
	for r := range ir.Reach(b, nil, nil) {
		if ir.IsReturn(r) {
			ret := r.Instrs[len(r.Instrs)-1].(*ssa.Return)
			if v, isC := ir.ConstBool(ret.Results[idx]); !isC || v != want {
				return false
			}
		}
	}
	return true
}

// dashPrefixPredicate: f(s string) bool answers "s starts with '-'" and nothing else: each way out is
// the test itself (strings.HasPrefix(s, "-") or s[0] == '-'), a constant that agrees with that test, or
// `false` for the empty string.
func dashPrefixPredicate(f *ssa.Function) bool {
	if f == nil || len(f.Blocks) == 0 || len(f.Params) != 1 || !isStringType(f.Params[0].Type()) || f.Signature.Results().Len() != 1 {
		return false
	}
	p := f.Params[0]
	isTest := func(v ssa.Value) bool {
		if call, ok := v.(*ssa.Call); ok {
			if g := ir.Static(call); g != nil && ir.IsStdFunc(g, "strings", "HasPrefix") && call.Call.Args[0] == ssa.Value(p) {
				k, isK := ir.ConstString(call.Call.Args[1])
				return isK && k == "-"
			}
		}
		if bo, ok := v.(*ssa.BinOp); ok && bo.Op == token.EQL {
			if ix, isIx := bo.X.(*ssa.Index); isIx && ix.X == ssa.Value(p) {
				z, isZ := ir.ConstInt(ix.Index)
				k, isK := ir.ConstInt(bo.Y)
				return isZ && z == 0 && isK && k == '-'
			}
		}
		return false
	}
	empty := map[ir.Edge]bool{}
	for _, e := range lenOnlyZeroEdges(f, p) {
		empty[e] = true
	}
	ways := ir.ReturnWays(f)
	if len(ways) == 0 {
		return false
	}
	for _, r := range ways {
		v := r.Results[0]
		if isTest(v) {
			continue
		}
		b, isC := ir.ConstBool(v)
		if !isC {
			return false
		}
		good := false
		ir.Instrs(f, func(in ssa.Instruction) {
			if x, isV := in.(ssa.Value); isV && isTest(x) && r.Holds(x, b) {
				good = true
			}
		})
		if !good && !b && len(empty) > 0 && !r.ReachableUnder(ir.Reach(f.Blocks[0], nil, empty), empty) {
			good = true
		}
		if !good {
			return false
		}
	}
	return true
}

// optMatchDeclinesOnly: the option matcher reports "no occurrence" (the vector unchanged) only on the
// grounds the scan has: nothing to scan, options ended, the token is `--` or does not start with '-', a
// sub-matcher gave the scan up (consumed 0), or the vector is exhausted. A further ground (a pre-scan,
// a fast path) can hide an occurrence that is there.
func (c *Ctx) optMatchDeclinesOnly(fn *ssa.Function, args *ssa.Parameter) {
	if args == nil {
		return
	}
	cut := map[ir.Edge]bool{}
	add := func(v ssa.Value, want bool) {
		for _, e := range ir.EdgesWhere(fn, v, want) {
			cut[ir.Edge{From: e.From, To: e.To}] = true
		}
	}
	for _, e := range lenOnlyZeroEdges(fn, args) {
		cut[e] = true
	}
	// the scan's own position: the index the sub-matchers are handed
	mainIdx := map[ssa.Value]bool{}
	for _, call := range ir.Calls(fn) {
		cv, ok := call.(*ssa.Call)
		if !ok {
			continue
		}
		f := ir.Static(cv)
		if f == nil || f.Pkg != fn.Pkg || f.Signature.Results().Len() != 3 {
			continue
		}
		for _, a := range cv.Call.Args {
			if b, isB := a.Type().Underlying().(*types.Basic); isB && b.Kind() == types.Int {
				mainIdx[a] = true
			}
		}
	}
	isTok := func(v ssa.Value) bool {
		ld, ok := v.(*ssa.UnOp)
		if !ok || ld.Op != token.MUL {
			return false
		}
		ia, isIA := ld.X.(*ssa.IndexAddr)
		if !isIA || ia.X != ssa.Value(args) {
			return false
		}
		if z, isZ := ir.ConstInt(ia.Index); isZ && z == 0 {
			return true // where the scan starts
		}
		return mainIdx[ia.Index]
	}
	ir.Instrs(fn, func(in ssa.Instruction) {
		v, isV := in.(ssa.Value)
		if !isV {
			return
		}
		if _, f, isF := ir.FieldLoad(v); isF && f == "RejectOptions" {
			add(v, true)
		}
		switch x := v.(type) {
		case *ssa.Call:
			if f := ir.Static(x); f != nil && ir.IsStdFunc(f, "strings", "HasPrefix") && isTok(x.Call.Args[0]) {
				if k, isK := ir.ConstString(x.Call.Args[1]); isK && k == "-" {
					add(x, false)
				}
			}
			if f := ir.Static(x); f != nil && len(x.Call.Args) == 1 && isTok(x.Call.Args[0]) && dashPrefixPredicate(f) {
				add(x, false)
			}
		case *ssa.BinOp:
			// tok == "--"
			if k, isK := ir.ConstString(x.Y); isK && isTok(x.X) && (x.Op == token.EQL || x.Op == token.NEQ) {
				if k == "--" {
					add(x, x.Op == token.EQL)
				}
				if k == "" {
					add(x, x.Op == token.EQL) // an empty token is no option
				}
			}
			// tok[0] == '-'
			if ix, isIx := x.X.(*ssa.Index); isIx && isTok(ix.X) {
				if z, isZ := ir.ConstInt(ix.Index); isZ && z == 0 {
					if k, isK := ir.ConstInt(x.Y); isK && k == '-' && (x.Op == token.EQL || x.Op == token.NEQ) {
						add(x, x.Op == token.NEQ)
					}
				}
			}
			// len(tok) == 0
			if lc, isCall := x.X.(*ssa.Call); isCall && len(lc.Call.Args) == 1 && isTok(lc.Call.Args[0]) {
				if bi, isB := lc.Call.Value.(*ssa.Builtin); isB && bi.Name() == "len" {
					if k, isK := ir.ConstInt(x.Y); isK {
						for _, want := range []bool{true, false} {
							z, okZ := lenCmp(x.Op, 0, k)
							o, _ := lenCmp(x.Op, 1, k)
							if okZ && z == want && o != want {
								add(x, want)
							}
						}
					}
				}
			}
			// consumed == 0 (second result of a sub-matcher), idx < len(args) exhausted
			isConsumed := false
			if ex, isEx := x.X.(*ssa.Extract); isEx && ex.Index == 1 {
				isConsumed = true
			} else if calls, k := extractPhi(x.X); calls != nil && k == 1 {
				isConsumed = true // the counts of the two sub-matchers merged
			}
			if isConsumed {
				if z, isZ := ir.ConstInt(x.Y); isZ && z == 0 && (x.Op == token.EQL || x.Op == token.NEQ) {
					add(x, x.Op == token.EQL)
				}
			}
			if lc, isCall := x.Y.(*ssa.Call); isCall && len(lc.Call.Args) == 1 && lc.Call.Args[0] == ssa.Value(args) && mainIdx[x.X] {
				if bi, isB := lc.Call.Value.(*ssa.Builtin); isB && bi.Name() == "len" {
					switch x.Op {
					case token.LSS:
						add(x, false)
					case token.GEQ:
						add(x, true)
					}
				}
			}
		}
	})
	reach := ir.Reach(fn.Blocks[0], nil, cut)
	ok, why := true, ""
	for _, r := range ir.ReturnWays(fn) {
		if b, isC := ir.ConstBool(r.Results[0]); isC && b {
			continue
		}
		if r.ReachableUnder(reach, cut) {
			ok, why = false, "the matcher reports no occurrence at "+c.P.Pos(r.Pos())+" on a ground other than: nothing to scan, options ended, a `--` or non-option token, a sub-matcher giving up, the vector exhausted"
		}
	}
	mk := len(c.Obs)
	c.Check(ok, Q(fn)+":declines-only", fn.Pos(), "no occurrence is reported only on the scan's own grounds", why)
	c.Scope(mk, "C01", "C10", "C11", "C12")
}

func mat4(c *Ctx) {
	fn := c.Fn("internal/matcher", "opt.Match")
	if fn == nil {
		return
	}
	var args *ssa.Parameter
	for _, p := range fn.Params {
		if isStringSlice(p.Type()) {
			args = p
		}
	}
	recv := fn.Params[0]
	c.optMatchDeclinesOnly(fn, args)
	nUnchanged, nMatched := 0, 0
	defer func() {
		if nUnchanged == 0 || nMatched == 0 {
			c.Bad(Q(fn)+":exits", fn.Pos(), "expected at least one non-matching exit and one matching exit, found %d and %d", nUnchanged, nMatched)
		}
	}()
	for i, r := range ir.ReturnPoints(fn) {
		verdict, vec := r.Results[0], r.Results[1]
		if vec == ssa.Value(args) {
			nUnchanged++
			key := fmt.Sprintf("%s:exit#%d[unchanged]", Q(fn), i)
			good := false
			if b, f, ok := ir.FieldLoad(verdict); ok && f == "ValueSetFromEnv" {
				if bb, ff, ok2 := ir.FieldLoad(b); ok2 && ff == "theOne" && bb == ssa.Value(recv) {
					good = true
				}
			}
			c.Check(good, key, r.Pos(), "a non-matching exit yields the option's env flag", "a non-matching exit does not return theOne.ValueSetFromEnv: a required option absent from the command line would not be satisfied by its environment value")
			continue
		}
		key := fmt.Sprintf("%s:exit#%d[matched]", Q(fn), i)
		good := false
		if v, isC := ir.ConstBool(verdict); isC && v {
			if ex, isEx := vec.(*ssa.Extract); isEx {
				if call, isCall := ex.Tuple.(*ssa.Call); isCall {
					if m := extractOf(call, 0); m != nil && r.Holds(m, true) {
						good = true
					}
				}
			}
			// the two sub-matcher calls merged: vec = phi[call_i #k], tested verdict = phi[call_i #0] of the same join
			if calls, _ := extractPhi(vec); calls != nil {
				vp := vec.(*ssa.Phi)
				for _, in := range vp.Block().Instrs {
					mp, isPhi := in.(*ssa.Phi)
					if !isPhi || mp == vp {
						continue
					}
					mc, idx := extractPhi(mp)
					if mc == nil || idx != 0 || len(mc) != len(calls) {
						continue
					}
					same := true
					for i := range mc {
						if mc[i] != calls[i] {
							same = false
						}
					}
					if same && r.Holds(mp, true) {
						good = true
					}
				}
			}
		}
		c.Check(good, key, r.Pos(), "a true verdict carries the vector of the sub-matcher that matched", "a return with a changed vector is not `true` with the vector of a matched sub-call")
		nMatched++
	}
}

func mat5(c *Ctx) {
	top := c.fnOpt("internal/matcher", "opt.Match")
	if top == nil {
		c.Undecided("anchor:matcher.opt.Match", token.NoPos, "not found")
		return
	}
	seen := map[*ssa.Function]bool{top: true}
	var todo []*ssa.Function
	for _, call := range ir.Calls(top) {
		if f := ir.Static(call); f != nil && f.Pkg == top.Pkg && !seen[f] {
			seen[f] = true
			todo = append(todo, f)
		}
	}
	for len(todo) > 0 {
		fn := todo[0]
		todo = todo[1:]
		c.Mark(fn)
		reads := false
		ir.Instrs(fn, func(in ssa.Instruction) {
			if fa, ok := in.(*ssa.FieldAddr); ok {
				if _, f, _ := ir.FieldAddr(fa); f == "ValueSetFromEnv" {
					reads = true
				}
			}
		})
		if len(c.ctxRecords(fn)) > 0 || fn.Signature.Recv() != nil {
			c.Check(!reads, Q(fn), fn.Pos(), "matching an occurrence does not look at the env flag", "an occurrence matcher reads ValueSetFromEnv: an option written on the command line could be rejected because it has an environment value")
		}
		for _, call := range ir.Calls(fn) {
			if f := ir.Static(call); f != nil && f.Pkg == top.Pkg && !seen[f] {
				seen[f] = true
				todo = append(todo, f)
			}
		}
	}
}

func mat6(c *Ctx) {
	n := 0
	for _, fn := range c.pkgFuncsDeep("internal/matcher") {
		ir.Instrs(fn, func(in ssa.Instruction) {
			mu, ok := in.(*ssa.MapUpdate)
			if !ok {
				return
			}
			b, f, isF := ir.FieldLoad(mu.Map)
			if !isF || f != "ExcludedOpts" || !c.isNamed(b.Type(), "internal/matcher", "ParseContext") {
				return
			}
			n++
			c.Mark(fn)
			key := Q(fn) + ":exclude"
			// the Match call on this option
			var match *ssa.Call
			for _, call := range ir.Calls(fn) {
				if cv, ok := call.(*ssa.Call); ok {
					if f := ir.Static(cv); f != nil && f.Name() == "Match" && cv.Block().Dominates(mu.Block()) {
						match = cv
					}
				}
			}
			if match == nil {
				c.Undecided(key, mu.Pos(), "no Match call dominates the exclusion")
				return
			}
			// accepted idiom: len(c.Opts[o]) after == len(c.Opts[o]) before, o the excluded option
			good := false
			ir.Instrs(fn, func(in2 ssa.Instruction) {
				bo, ok := in2.(*ssa.BinOp)
				if !ok || bo.Op != token.EQL || !ir.HoldsAt(bo, true, mu.Block()) {
					return
				}
				lx, okx := lenOfOptsLookup(c, bo.X, mu.Key)
				ly, oky := lenOfOptsLookup(c, bo.Y, mu.Key)
				if !okx || !oky {
					return
				}
				before := func(v ssa.Instruction) bool {
					return v.Block() == match.Block() && ir.IndexIn(v) < ir.IndexIn(match) || (v.Block() != match.Block() && v.Block().Dominates(match.Block()))
				}
				after := func(v ssa.Instruction) bool {
					return (v.Block() == match.Block() && ir.IndexIn(v) > ir.IndexIn(match)) || (v.Block() != match.Block() && match.Block().Dominates(v.Block()))
				}
				if (before(lx) && after(ly)) || (before(ly) && after(lx)) {
					good = true
				}
			})
			envGuard := false
			ir.Instrs(fn, func(in2 ssa.Instruction) {
				if v, ok := in2.(ssa.Value); ok {
					if bb, ff, isF := ir.FieldLoad(v); isF && ff == "ValueSetFromEnv" && bb == mu.Key && ir.HoldsAt(v, true, mu.Block()) {
						envGuard = true
					}
				}
			})
			switch {
			case good && envGuard:
				c.OK(key, mu.Pos(), "an env-backed option is excluded only when the match recorded no value for it (len(c.Opts[o]) unchanged across Match)")
			case !good:
				c.Bad(key, mu.Pos(), "the exclusion does not depend on whether the match consumed an occurrence (accepted idiom: len(c.Opts[o]) unchanged across the Match call): an env-backed option written twice on the command line is rejected")
			default:
				c.Bad(key, mu.Pos(), "the exclusion is not limited to env-backed options")
			}
			// an excluded option only steps itself aside: the loop over the group's options is not left
			// early (other than by returning a match)
			if sl, h, isR := rangeElemHeader(mu.Key); isR && h != nil {
				okB, _ := noBreak(h)
				c.Check(okB, Q(fn)+":every-option-offered", mu.Pos(), "every option of the group is offered the arguments; an excluded one is passed over alone",
					"the loop over the group's options can stop early: an excluded (env-backed) option would keep the options behind it from being matched")
				// ... and nothing but its exclusion keeps an option from being offered the arguments: from
				// the start of an iteration, with the edges on which the option is found excluded cut, the
				// next iteration is not reached around the Match call
				if _, entry, _ := loopBody(h); entry != nil {
					cutX := map[ir.Edge]bool{}
					ir.Instrs(fn, func(in2 ssa.Instruction) {
						lk, isLk := in2.(*ssa.Lookup)
						if !isLk || lk.Index != mu.Key {
							return
						}
						if _, ff, isF := ir.FieldLoad(lk.X); !isF || ff != "ExcludedOpts" {
							return
						}
						vals := []ssa.Value{lk}
						if lk.CommaOk {
							vals = nil
							for _, u := range *lk.Referrers() {
								if ex, isEx := u.(*ssa.Extract); isEx {
									vals = append(vals, ex)
								}
							}
						}
						for _, v := range vals {
							for _, e := range ir.EdgesWhere(fn, v, true) {
								cutX[ir.Edge{From: e.From, To: e.To}] = true
							}
						}
					})
					skipped := entry != match.Block() && ir.Reach(entry, map[*ssa.BasicBlock]bool{match.Block(): true}, cutX)[h]
					c.Check(!skipped, Q(fn)+":offered-unless-excluded", match.Pos(), "an option of the group is passed over only when it is excluded (matched through its environment value before)",
						"an option of the group can be passed over although it is not excluded: an occurrence of it on the command line is left behind")
				}
				// the group gives up only when there is nothing to offer (empty vector, options rejected
				// after `--`) or when every option of the group has declined: no other way to `false`
				_, _, ex := loopBody(h)
				cut := map[ir.Edge]bool{}
				if ex != nil {
					cut[ir.Edge{From: h, To: ex}] = true
				}
				// an empty group has been offered to in full
				for _, e := range lenOnlyZeroEdgesLike(fn, sl) {
					cut[e] = true
				}
				for _, p := range fn.Params {
					if isStringSlice(p.Type()) {
						for _, e := range lenOnlyZeroEdges(fn, p) {
							cut[e] = true
						}
					}
				}
				ir.Instrs(fn, func(in2 ssa.Instruction) {
					if v, ok := in2.(ssa.Value); ok {
						if bb, ff, isF := ir.FieldLoad(v); isF && ff == "RejectOptions" && c.isNamed(bb.Type(), "internal/matcher", "ParseContext") {
							for _, e := range ir.EdgesWhere(fn, v, true) {
								cut[ir.Edge{From: e.From, To: e.To}] = true
							}
						}
					}
				})
				reach := ir.Reach(fn.Blocks[0], nil, cut)
				okG, whyG := ex != nil, "loop shape not recognised"
				for _, r := range ir.ReturnWays(fn) {
					if v, isC := ir.ConstBool(r.Results[0]); isC && v {
						continue
					}
					if r.ReachableUnder(reach, cut) {
						okG, whyG = false, fmt.Sprintf("the group declines at %s although the vector is not empty, options are not rejected and its options have not all been offered the arguments: an occurrence of one of its options behind another option is not found", c.P.Pos(r.Pos()))
					}
				}
				c.Check(okG, Q(fn)+":gives-up", fn.Pos(), "the group declines only on an empty vector, after `--`, or when each of its options has declined", whyG)
			}
		})
	}
	if n == 0 {
		c.Bad("matcher:exclude", token.NoPos, "no exclusion of env-backed options: the group matcher can loop forever on a non-consuming match")
	}
}

// lenOfOptsLookup: v = len(c.Opts[key]); returns the Lookup instruction.
func lenOfOptsLookup(c *Ctx, v ssa.Value, key ssa.Value) (ssa.Instruction, bool) {
	call, ok := v.(*ssa.Call)
	if !ok {
		return nil, false
	}
	if b, isB := call.Call.Value.(*ssa.Builtin); !isB || b.Name() != "len" {
		return nil, false
	}
	lk, ok := call.Call.Args[0].(*ssa.Lookup)
	if !ok || lk.Index != key {
		return nil, false
	}
	b, f, isF := ir.FieldLoad(lk.X)
	if !isF || f != "Opts" || !c.isNamed(b.Type(), "internal/matcher", "ParseContext") {
		return nil, false
	}
	return lk, true
}

// ---------- linear expressions ----------

type linKey struct {
	v     ssa.Value
	isLen bool
}
type lin struct {
	c int64
	t map[linKey]int64
}

func linConst(k int64) lin { return lin{c: k, t: map[linKey]int64{}} }
func (a lin) add(b lin, sign int64) lin {
	r := lin{c: a.c + sign*b.c, t: map[linKey]int64{}}
	for k, v := range a.t {
		r.t[k] += v
	}
	for k, v := range b.t {
		r.t[k] += sign * v
	}
	for k, v := range r.t {
		if v == 0 {
			delete(r.t, k)
		}
	}
	return r
}
func (a lin) isConst() (int64, bool) { return a.c, len(a.t) == 0 }

// linOf normalises an int SSA value; env maps parameters to expressions.
func linOf(v ssa.Value, env map[ssa.Value]lin, vecLen func(ssa.Value) (lin, bool)) (lin, bool) {
	if e, ok := env[v]; ok {
		return e, true
	}
	switch x := v.(type) {
	case *ssa.Const:
		if k, ok := ir.ConstInt(x); ok {
			return linConst(k), true
		}
	case *ssa.BinOp:
		a, oka := linOf(x.X, env, vecLen)
		b, okb := linOf(x.Y, env, vecLen)
		if oka && okb {
			switch x.Op {
			case token.ADD:
				return a.add(b, 1), true
			case token.SUB:
				return a.add(b, -1), true
			}
		}
	case *ssa.Call:
		if bi, ok := x.Call.Value.(*ssa.Builtin); ok && bi.Name() == "len" {
			return vecLen(x.Call.Args[0])
		}
	case *ssa.Parameter:
		return lin{t: map[linKey]int64{{x, false}: 1}}, true
	}
	return lin{t: map[linKey]int64{{v, false}: 1}}, true
}

// vecLenIn computes len(v) for a []string value v in fn as a linear
// expression over len(<vector parameter>) and int parameters, expanding calls
// to vector-rebuilding helpers.
func (c *Ctx) vecLenIn(v ssa.Value, env map[ssa.Value]lin, depth int) (lin, bool) {
	if e, ok := env[v]; ok {
		return e, true
	}
	switch x := v.(type) {
	case *ssa.Parameter:
		return lin{t: map[linKey]int64{{x, true}: 1}}, true
	case *ssa.ChangeType:
		return c.vecLenIn(x.X, env, depth)
	case *ssa.MakeSlice:
		return linOf(x.Len, env, func(a ssa.Value) (lin, bool) { return c.vecLenIn(a, env, depth) })
	case *ssa.Slice:
		vl := func(a ssa.Value) (lin, bool) { return c.vecLenIn(a, env, depth) }
		hi, okH := c.vecLenIn(x.X, env, depth)
		if x.High != nil {
			hi, okH = linOf(x.High, env, vl)
		}
		lo, okL := linConst(0), true
		if x.Low != nil {
			lo, okL = linOf(x.Low, env, vl)
		}
		if !okH || !okL {
			return lin{}, false
		}
		return hi.add(lo, -1), true
	case *ssa.Call:
		f := ir.Static(x)
		if f == nil || depth <= 0 || len(f.Blocks) == 0 {
			return lin{}, false
		}
		// bind callee parameters
		sub := map[ssa.Value]lin{}
		for i, p := range f.Params {
			a := x.Call.Args[i]
			if isStringSlice(p.Type()) {
				l, ok := c.vecLenIn(a, env, depth)
				if !ok {
					return lin{}, false
				}
				// len(p) in callee == l; represent by mapping the key {p,true}
				sub[p] = l
			} else if b, isB := p.Type().Underlying().(*types.Basic); isB && b.Info()&types.IsInteger != 0 {
				l, ok := linOf(a, env, func(a2 ssa.Value) (lin, bool) { return c.vecLenIn(a2, env, depth) })
				if !ok {
					return lin{}, false
				}
				sub[p] = l
			}
		}
		rs := ir.ReturnPoints(f)
		if len(rs) != 1 {
			return lin{}, false
		}
		return c.vecLenCallee(stripConv(rs[0].Results[0]), sub, depth-1)
	}
	return lin{}, false
}

// vecLenCallee: like vecLenIn but inside a callee where `sub` gives, for a
// vector parameter p, the caller-side expression of len(p) and for int
// parameters their caller-side expression.
func (c *Ctx) vecLenCallee(v ssa.Value, sub map[ssa.Value]lin, depth int) (lin, bool) {
	var lenOf func(a ssa.Value) (lin, bool)
	lenOf = func(a ssa.Value) (lin, bool) {
		if p, ok := a.(*ssa.Parameter); ok {
			if l, ok2 := sub[p]; ok2 {
				return l, true
			}
		}
		return c.vecLenCallee(a, sub, depth)
	}
	switch x := v.(type) {
	case *ssa.Parameter:
		if l, ok := sub[x]; ok {
			return l, true
		}
		return lin{}, false
	case *ssa.MakeSlice:
		return linOf(x.Len, sub, lenOf)
	case *ssa.ChangeType:
		return c.vecLenCallee(x.X, sub, depth)
	case *ssa.Call:
		return c.vecLenIn(x, sub, depth)
	}
	return lin{}, false
}

func mat7(c *Ctx) {
	top := c.fnOpt("internal/matcher", "opt.Match")
	if top == nil {
		c.Undecided("anchor:matcher.opt.Match", token.NoPos, "not found")
		return
	}
	// the scan itself steps over a token only on a sub-matcher's count, or over the lone "-"
	{
		c.Mark(top)
		var targs *ssa.Parameter
		for _, p := range top.Params {
			if isStringSlice(p.Type()) {
				targs = p
			}
		}
		ir.Instrs(top, func(in ssa.Instruction) {
			phi, ok := in.(*ssa.Phi)
			if !ok {
				return
			}
			if b, isB := phi.Type().Underlying().(*types.Basic); !isB || b.Kind() != types.Int {
				return
			}
			// the scan index: it indexes the vector
			indexes := false
			for _, u := range *phi.Referrers() {
				if ia, isIA := u.(*ssa.IndexAddr); isIA && ia.X == ssa.Value(targs) && ia.Index == ssa.Value(phi) {
					indexes = true
				}
			}
			if !indexes {
				return
			}
			for i, e := range phi.Edges {
				if !phi.Block().Dominates(phi.Block().Preds[i]) {
					continue
				}
				key := fmt.Sprintf("%s:step@%s", Q(top), relLine(c, top, e.Pos()))
				bo, isBo := e.(*ssa.BinOp)
				if !isBo || bo.Op != token.ADD || bo.X != ssa.Value(phi) {
					c.Bad(key, e.Pos(), "the scan index is not advanced by adding to it")
					continue
				}
				isCount := func(v ssa.Value) bool {
					ex, isEx := v.(*ssa.Extract)
					if !isEx || ex.Index != 1 {
						return false
					}
					call, isCall := ex.Tuple.(*ssa.Call)
					if !isCall {
						return false
					}
					f := ir.Static(call)
					return f != nil && f.Pkg == top.Pkg && f.Signature.Recv() != nil
				}
				counts := isCount(bo.Y)
				if cphi, isPhi := bo.Y.(*ssa.Phi); isPhi && len(cphi.Edges) > 0 {
					// the counts of the two sub-matchers merged into one variable
					counts = true
					for _, ce := range cphi.Edges {
						if !isCount(ce) {
							counts = false
						}
					}
				}
				if counts {
					c.OK(key, e.Pos(), "advanced by the number of tokens a sub-matcher reports for the foreign occurrence")
					continue
				}
				if one, isC := ir.ConstInt(bo.Y); isC && one == 1 {
					lone := false
					ir.Instrs(top, func(in2 ssa.Instruction) {
						cmp, isCmp := in2.(*ssa.BinOp)
						if !isCmp || (cmp.Op != token.EQL && cmp.Op != token.NEQ) {
							return
						}
						if sv, isS := ir.ConstString(cmp.Y); isS && sv == "-" && ir.HoldsAt(cmp, cmp.Op == token.EQL, bo.Block()) {
							lone = true
						}
					})
					c.Check(lone, key, e.Pos(), "steps over one token only when it is the lone \"-\"", "the scan steps over a token by itself, without a sub-matcher having said how many tokens the occurrence occupies (a value behind it would be read as the next token)")
					continue
				}
				c.Bad(key, e.Pos(), "the scan index is advanced by something other than a sub-matcher's count")
			}
		})
	}
	for _, call := range ir.Calls(top) {
		fn := ir.Static(call)
		if fn == nil || fn.Pkg != top.Pkg || fn.Signature.Recv() == nil || fn.Signature.Results().Len() != 3 {
			continue
		}
		c.Mark(fn)
		var args *ssa.Parameter
		for _, p := range fn.Params {
			if isStringSlice(p.Type()) {
				args = p
			}
		}
		env := map[ssa.Value]lin{}
		dropped := func(vec ssa.Value) (int64, bool) {
			if vec == ssa.Value(args) {
				return 0, true
			}
			l, ok := c.vecLenIn(vec, env, 3)
			if !ok {
				return 0, false
			}
			d := lin{t: map[linKey]int64{{args, true}: 1}}.add(l, -1)
			return d.isConst()
		}
		// own-match returns and their counts
		type own struct {
			r       *ir.RetPoint
			drop    int64
			touched int64
		}
		var idxParam *ssa.Parameter
		for _, p := range fn.Params {
			if b, ok := p.Type().Underlying().(*types.Basic); ok && b.Kind() == types.Int {
				idxParam = p
			}
		}
		recs := c.ctxRecords(fn)
		touchedOf := func(r *ir.RetPoint) int64 {
			var t int64 = 1
			for _, rec := range recs {
				if !rec.ok || !(rec.mu.Block() == r.Block() || rec.mu.Block().Dominates(r.Block())) {
					continue
				}
				if usesOtherElement(rec.val, args, idxParam) {
					t = 2
				}
			}
			return t
		}
		var owns []own
		for _, r := range ir.ReturnPoints(fn) {
			if v, isC := ir.ConstBool(r.Results[0]); isC && v {
				d, ok := dropped(r.Results[2])
				key := fmt.Sprintf("%s:own@%s", Q(fn), relLine(c, fn, r.Pos()))
				if !ok {
					c.Undecided(key, r.Pos(), "cannot compute how many tokens the returned vector drops")
					continue
				}
				owns = append(owns, own{r, d, touchedOf(r)})
				k, isK := ir.ConstInt(r.Results[1])
				c.Check(isK && k == d, key, r.Pos(), fmt.Sprintf("an own match drops %d token(s) and reports %d", d, k), fmt.Sprintf("an own match drops %d token(s) from the vector but reports %d consumed", d, k))
				// content: everything before the occurrence and everything behind it is handed on untouched and
				// in order; in between at most one new token (what is left of a folded group)
				if idxParam != nil {
					tch := touchedOf(r)
					seq, okS := c.evalSeq(stripConv(r.Results[2]), 0)
					ckey := key + ":content"
					if !okS {
						c.Undecided(ckey, r.Pos(), "cannot read off how the returned vector is assembled (the copies into the new vector do not tile it exactly, or an operation the model does not cover is used)")
					} else {
						seq = seq.normal()
						I := lin{t: map[linKey]int64{{idxParam, false}: 1}}
						L := lin{t: map[linKey]int64{{args, true}: 1}}
						okC := false
						isIvl := func(p seqPiece, lo, hi lin) bool {
							return p.base == ssa.Value(args) && linEq(p.lo, lo) && linEq(p.hi, hi)
						}
						after := I.add(linConst(tch), 1)
						switch len(seq) {
						case 1:
							// nothing before or nothing behind the occurrence cannot be told statically; one interval
							// is right only if it is the whole vector minus nothing (never for an own match)
						case 2:
							okC = isIvl(seq[0], linConst(0), I) && isIvl(seq[1], after, L)
						case 3:
							okC = isIvl(seq[0], linConst(0), I) && seq[1].base == nil && isIvl(seq[2], after, L)
						}
						c.Check(okC, ckey, r.Pos(), fmt.Sprintf("returns args[:idx] ++ (at most one rewritten token) ++ args[idx+%d:]", tch),
							fmt.Sprintf("the returned vector is %s, expected args[:idx] ++ (at most one rewritten token) ++ args[idx+%d:]: tokens before or behind the occurrence are lost, duplicated or reordered", seq, tch))
					}
				}
			}
		}
		// foreign branches
		isOne := func(v ssa.Value) bool { _, f, ok := ir.FieldLoad(v); return ok && f == "theOne" }
		isBoolFn := c.fnOpt("internal/values", "IsBool")
		foreignRegion := map[*ssa.BasicBlock]bool{}
		scanHdrs := map[*ssa.BasicBlock]bool{} // headers of loops that go on past a foreign flag
		defer func(fn *ssa.Function) {
			// every "not mine, step over K tokens" verdict must come from a foreign-option branch, or be the
			// end of the in-token scan (every letter was a foreign flag)
			for _, rp := range ir.ReturnPoints(fn) {
				if len(rp.Results) != 3 {
					continue
				}
				v, isC := ir.ConstBool(rp.Results[0])
				k, isK := ir.ConstInt(rp.Results[1])
				if !isC || v || !isK || k == 0 {
					continue
				}
				if foreignRegion[rp.At] {
					continue
				}
				scanEnd := false
				for h := range scanHdrs {
					_, _, exit := loopBody(h)
					if exit == nil {
						continue
					}
					if !ir.Reach(fn.Blocks[0], nil, map[ir.Edge]bool{{From: h, To: exit}: true})[rp.At] {
						scanEnd = true
					}
				}
				key := fmt.Sprintf("%s:skip@%s", Q(fn), relLine(c, fn, rp.Anchor().Pos()))
				c.Check(scanEnd, key, rp.Pos(), "a skip verdict outside the foreign branches is the end of the in-token scan",
					fmt.Sprintf("returns (false, %d, args) for a token that was not looked up as a foreign option: the skip count cannot be justified (a following token may be skipped or read wrongly)", k))
			}
		}(fn)
		ir.Instrs(fn, func(in ssa.Instruction) {
			bo, ok := in.(*ssa.BinOp)
			if !ok || !(bo.Op == token.NEQ || bo.Op == token.EQL) {
				return
			}
			if !isOne(bo.X) && !isOne(bo.Y) {
				return
			}
			foreign := bo.Op == token.NEQ
			for _, e := range ir.EdgesWhere(fn, bo, foreign) {
				// stay inside the current iteration of any enclosing loop
				headers := map[*ssa.BasicBlock]bool{}
				for _, h := range fn.Blocks {
					isHdr := false
					for _, p := range h.Preds {
						if h.Dominates(p) {
							isHdr = true
						}
					}
					if isHdr && h.Dominates(e.From) {
						headers[h] = true
					}
				}
				region := ir.ReachVia(e.From, e.To, headers, nil)
				for b := range region {
					foreignRegion[b] = true
				}
				continues := headers[e.To]
				if continues {
					scanHdrs[e.To] = true
				}
				for b := range region {
					for _, sc := range b.Succs {
						if headers[sc] {
							continues = true
							scanHdrs[sc] = true
						}
					}
				}
				if continues {
					key := fmt.Sprintf("%s:foreign-continues@%s", Q(fn), relLine(c, fn, bo.Pos()))
					flag := false
					for _, c2 := range ir.Calls(fn) {
						if cv, ok := c2.(*ssa.Call); ok && ir.Static(cv) == isBoolFn && isBoolFn != nil && ir.HoldsAt(cv, true, e.From) {
							flag = true
						}
					}
					c.Check(flag, key, bo.Pos(), "the scan goes on inside the token only past a foreign FLAG", "the scan continues inside the token past a foreign option that takes a value: letters of that value would be read as options")
				}
				for _, ret := range ir.ReturnPoints(fn) {
					b := ret.At
					if !region[b] {
						continue
					}
					key := fmt.Sprintf("%s:foreign@%s", Q(fn), relLine(c, fn, ret.Anchor().Pos()))
					k, isK := ir.ConstInt(ret.Results[1])
					v, isC := ir.ConstBool(ret.Results[0])
					if !isK || !isC || v || ret.Results[2] != ssa.Value(args) {
						c.Bad(key, ret.Pos(), "a foreign occurrence does not return (false, constant, unchanged vector)")
						continue
					}
					if k == 0 {
						// gives the scan up: only because the vector has run out (the foreign option's value is
						// missing), never at a complete foreign occurrence, behind which the own one may follow
						outOfTokens := false
						for _, cd := range ir.DominatingConds(b) {
							bo2, isBo := cd.V.(*ssa.BinOp)
							if !isBo {
								continue
							}
							for _, side := range []ssa.Value{bo2.X, bo2.Y} {
								if lc, isCall := side.(*ssa.Call); isCall {
									if bi, isB := lc.Call.Value.(*ssa.Builtin); isB && bi.Name() == "len" {
										a := lc.Call.Args[0]
										if sl, isSl := a.(*ssa.Slice); isSl {
											a = sl.X
										}
										if a == ssa.Value(args) {
											outOfTokens = true
										}
									}
								}
							}
							// idx+1 == len(args) style tests mention len(args) on one side as well (covered above)
						}
						c.Check(outOfTokens, key, ret.Pos(), "gives the scan up at a foreign option only because the vector has run out of tokens",
							"the scan is given up at a complete occurrence of another option: an occurrence of this option behind it would not be found (the order of options would matter)")
						continue
					}
					sf := map[string]bool{}
					for _, cd := range ir.DominatingConds(b) {
						if !strings.Contains(cd.Key, ".theOne") {
							sf[cd.Key] = cd.Want
						}
					}
					n := 0
					var mismatch []string
					// an own match is compatible with this foreign branch if it can be reached, within one
					// iteration of the scan, without taking a branch edge that contradicts the foreign branch's facts
					contra := ir.EdgesContradicting(fn, sf)
					hdrs := map[*ssa.BasicBlock]bool{}
					for _, h := range fn.Blocks {
						if isLoopHeader(h) {
							for _, p := range h.Preds {
								if h.Dominates(p) {
									contra[ir.Edge{From: p, To: h}] = true
								}
							}
							hdrs[h] = true
						}
					}
					feasible := ir.Reach(fn.Blocks[0], nil, contra)
					for _, o := range owns {
						if !feasible[o.r.Block()] {
							continue
						}
						// and the other way round: this foreign branch under the own match's facts
						of := map[string]bool{}
						for _, cd := range ir.DominatingConds(o.r.Block()) {
							if !strings.Contains(cd.Key, ".theOne") {
								of[cd.Key] = cd.Want
							}
						}
						contra2 := ir.EdgesContradicting(fn, of)
						for h := range hdrs {
							for _, p := range h.Preds {
								if h.Dominates(p) {
									contra2[ir.Edge{From: p, To: h}] = true
								}
							}
						}
						if !ir.Reach(fn.Blocks[0], nil, contra2)[b] {
							continue
						}
						n++
						if o.touched != k {
							mismatch = append(mismatch, fmt.Sprintf("own match at %s occupies %d token(s)", c.P.Pos(o.r.Pos()), o.touched))
						}
					}
					if n == 0 {
						c.Bad(key, ret.Pos(), "no own-match path is compatible with the conditions of this foreign branch (skip count %d cannot be justified)", k)
						continue
					}
					sort.Strings(mismatch)
					c.Check(len(mismatch) == 0, key, ret.Pos(), fmt.Sprintf("skips %d token(s): every spelling this branch covers occupies exactly that many when it is an own occurrence", k),
						fmt.Sprintf("skips %d token(s) but covers spellings that occupy a different number as own occurrences (%s): a foreign occurrence is classified differently from an own one, so adjacent occurrences of different options no longer commute", k, strings.Join(mismatch, "; ")))
				}
			}
		})
	}
}

// usesOtherElement reports whether recorded value v derives from an element of
// args other than args[idx].
func usesOtherElement(v ssa.Value, args, idx *ssa.Parameter) bool {
	other := false
	seen := map[ssa.Value]bool{}
	var walk func(v ssa.Value)
	walk = func(v ssa.Value) {
		if seen[v] {
			return
		}
		seen[v] = true
		switch x := v.(type) {
		case *ssa.UnOp:
			if ia, ok := x.X.(*ssa.IndexAddr); ok {
				if ia.X == ssa.Value(args) {
					if ia.Index != ssa.Value(idx) {
						other = true
					}
					return
				}
				walk(ia.X)
			}
		case *ssa.Slice:
			walk(x.X)
		case *ssa.Phi:
			for _, e := range x.Edges {
				walk(e)
			}
		case *ssa.Extract:
			walk(x.Tuple)
		case *ssa.Call:
			if f := ir.Static(x); f != nil && splitsToken(f) {
				walk(x.Call.Args[0])
			}
		}
	}
	walk(v)
	return other
}

// relLine gives a line number relative to the function start (stable under
// edits elsewhere in the file).
func relLine(c *Ctx, fn *ssa.Function, pos token.Pos) string {
	if !pos.IsValid() || !fn.Pos().IsValid() {
		return "?"
	}
	return fmt.Sprintf("+%d", c.P.Fset.Position(pos).Line-c.P.Fset.Position(fn.Pos()).Line)
}

// subMatcherGivesUpOnly: a sub-matcher answers (false, 0, _) — "stop scanning, nothing here" — only on
// the grounds the forms have: the name is not a declared option, an `=` value is empty, a separate value
// is missing or starts with '-', the token is too short to be an option. Any test of a length, of a
// byte of the token, of emptiness, of a leading dash or of the name lookup is taken as such a ground;
// a return that can be reached around all of them has a ground of another kind (the option's type, the
// value's content): an occurrence the spellings allow would be refused.
// lenMinus: v = len(x) - e (what is left behind a position).
func lenMinus(v ssa.Value) bool {
	bo, ok := v.(*ssa.BinOp)
	if !ok || bo.Op != token.SUB {
		return false
	}
	call, isCall := bo.X.(*ssa.Call)
	if !isCall {
		return false
	}
	bi, isB := call.Call.Value.(*ssa.Builtin)
	return isB && bi.Name() == "len"
}

func (c *Ctx) subMatcherGivesUpOnly(fn *ssa.Function) {
	cut := map[ir.Edge]bool{}
	add := func(v ssa.Value, want bool) {
		for _, e := range ir.EdgesWhere(fn, v, want) {
			cut[ir.Edge{From: e.From, To: e.To}] = true
		}
	}
	isLen := func(v ssa.Value) bool {
		call, ok := v.(*ssa.Call)
		if !ok {
			return false
		}
		bi, isB := call.Call.Value.(*ssa.Builtin)
		return isB && bi.Name() == "len"
	}
	ir.Instrs(fn, func(in ssa.Instruction) {
		switch x := in.(type) {
		case *ssa.Extract:
			if lk, isLk := x.Tuple.(*ssa.Lookup); isLk && lk.CommaOk && x.Index == 1 {
				add(x, false) // not a declared name
			}
		case *ssa.Call:
			if f := ir.Static(x); f != nil && ir.IsStdFunc(f, "strings", "HasPrefix") {
				if k, isK := ir.ConstString(x.Call.Args[1]); isK && k == "-" {
					add(x, true) // a value that looks like an option
				}
			}
			if f := ir.Static(x); f != nil && len(x.Call.Args) == 1 && dashPrefixPredicate(f) {
				add(x, true)
			}
		case *ssa.BinOp:
			if k, isK := ir.ConstString(x.Y); isK && k == "" && (x.Op == token.EQL || x.Op == token.NEQ) {
				add(x, x.Op == token.EQL) // an empty value
			}
			if k, isK := ir.ConstInt(x.Y); isK && (isLen(x.X) || lenMinus(x.X)) {
				if o, okO := lenCmp(x.Op, 0, k); okO {
					add(x, o) // the outcome a too short input produces
				}
			}
			if isLen(x.Y) {
				switch x.Op {
				case token.GEQ, token.GTR, token.EQL:
					add(x, true) // a position at or past the end
				case token.LSS, token.LEQ, token.NEQ:
					add(x, false)
				}
			}
			if ix, isIx := x.X.(*ssa.Index); isIx {
				if z, isZ := ir.ConstInt(ix.Index); isZ && z == 0 {
					if k, isK := ir.ConstInt(x.Y); isK && k == '-' && (x.Op == token.EQL || x.Op == token.NEQ) {
						// the token itself: not dash-prefixed; any other string (a separate value): dash-prefixed
						tokItself := false
						if ld, isLd := ix.X.(*ssa.UnOp); isLd && ld.Op == token.MUL {
							if ia, isIA := ld.X.(*ssa.IndexAddr); isIA {
								_, tokItself = ia.Index.(*ssa.Parameter)
							}
						}
						if tokItself {
							add(x, x.Op == token.NEQ)
						} else {
							add(x, x.Op == token.EQL)
						}
					}
				}
			}
			if p, isP := x.X.(*ssa.Parameter); isP {
				if b, isB := p.Type().Underlying().(*types.Basic); isB && b.Kind() == types.Int {
					if z, isZ := ir.ConstInt(x.Y); isZ && z == 0 && x.Op == token.LSS {
						add(x, true) // a negative position
					}
				}
			}
		}
	})
	reach := ir.Reach(fn.Blocks[0], nil, cut)
	ok, why := true, ""
	for _, r := range ir.ReturnWays(fn) {
		if len(r.Results) != 3 {
			continue
		}
		b, isC := ir.ConstBool(r.Results[0])
		k, isK := ir.ConstInt(r.Results[1])
		if !isC || b || !isK || k != 0 {
			continue
		}
		if r.ReachableUnder(reach, cut) {
			ok, why = false, "the scan is given up at "+c.P.Pos(r.Pos())+" on a ground that is not one of: undeclared name, empty `=` value, missing or dash-prefixed separate value, token too short"
		}
	}
	c.Check(ok, Q(fn)+":gives-up-only", fn.Pos(), "(false, 0) only on the grounds the option forms have", why)
}

func mat8(c *Ctx) {
	top := c.fnOpt("internal/matcher", "opt.Match")
	if top == nil {
		c.Undecided("anchor:matcher.opt.Match", token.NoPos, "not found")
		return
	}
	isBool := c.fnOpt("internal/values", "IsBool")
	c.loneDash(top)
	type classes struct{ eq, sep, flag int }
	perFn := map[string]*classes{}
	for _, call := range ir.Calls(top) {
		fn := ir.Static(call)
		if fn == nil || fn.Pkg != top.Pkg || fn.Signature.Recv() == nil || fn.Signature.Results().Len() != 3 {
			continue
		}
		c.Mark(fn)
		c.subMatcherGivesUpOnly(fn)
		cl := &classes{}
		perFn[Q(fn)] = cl
		var args *ssa.Parameter
		var idx *ssa.Parameter
		for _, p := range fn.Params {
			if isStringSlice(p.Type()) {
				args = p
			}
			if b, ok := p.Type().Underlying().(*types.Basic); ok && b.Kind() == types.Int {
				idx = p
			}
		}
		ownAt := func(b *ssa.BasicBlock) bool {
			found := false
			ir.Instrs(fn, func(in ssa.Instruction) {
				bo, ok := in.(*ssa.BinOp)
				if !ok || !(bo.Op == token.NEQ || bo.Op == token.EQL) {
					return
				}
				isOne := func(v ssa.Value) bool { _, f, ok := ir.FieldLoad(v); return ok && f == "theOne" }
				if !isOne(bo.X) && !isOne(bo.Y) {
					return
				}
				if ir.HoldsAt(bo, bo.Op == token.EQL, b) {
					found = true
				}
			})
			return found
		}
		for i, r := range c.ctxRecords(fn) {
			key := fmt.Sprintf("%s:record#%d", Q(fn), i)
			if !r.ok {
				c.Bad(key, r.mu.Pos(), "record shape not recognised")
				continue
			}
			var problems []string
			// key must be theOne
			if _, f, ok := ir.FieldLoad(r.mu.Key); !ok || f != "theOne" {
				problems = append(problems, "the value is recorded under something other than the matcher's own option")
			}
			if !ownAt(r.mu.Block()) {
				problems = append(problems, "a value is recorded without the looked-up option being the matcher's own")
			}
			kind := ""
			if s, isC := ir.ConstString(r.val); isC && s == "true" {
				kind = "flag"
				cl.flag++
				okB := false
				for _, c2 := range ir.Calls(fn) {
					cv, ok := c2.(*ssa.Call)
					if !ok || ir.Static(cv) != isBool || isBool == nil {
						continue
					}
					// IsBool(<looked-up>.Value)
					if b, f, isF := ir.FieldLoad(cv.Call.Args[0]); isF && f == "Value" {
						if ex, isEx := b.(*ssa.Extract); isEx {
							if _, isLk := ex.Tuple.(*ssa.Lookup); isLk && ir.HoldsAt(cv, true, r.mu.Block()) {
								okB = true
							}
						}
					}
				}
				if !okB {
					problems = append(problems, "\"true\" is recorded without values.IsBool of the looked-up option being true")
				}
			} else {
				// where does the value come from: args[idx] (a substring) or another element?
				fromOther := false
				var walk func(v ssa.Value, seen map[ssa.Value]bool)
				elemIdx := []ssa.Value{}
				walk = func(v ssa.Value, seen map[ssa.Value]bool) {
					if seen[v] {
						return
					}
					seen[v] = true
					switch x := v.(type) {
					case *ssa.UnOp:
						if ia, ok := x.X.(*ssa.IndexAddr); ok {
							if ia.X == ssa.Value(args) {
								elemIdx = append(elemIdx, ia.Index)
								return
							}
							walk(ia.X, seen)
						}
					case *ssa.Slice:
						walk(x.X, seen)
					case *ssa.Phi:
						for _, e := range x.Edges {
							walk(e, seen)
						}
					case *ssa.Extract:
						walk(x.Tuple, seen)
					case *ssa.Call:
						if f := ir.Static(x); f != nil && splitsToken(f) {
							walk(x.Call.Args[0], seen)
						}
					}
				}
				walk(r.val, map[ssa.Value]bool{})
				for _, ix := range elemIdx {
					if ix != ssa.Value(idx) {
						fromOther = true
					}
				}
				if fromOther {
					kind = "separate"
					cl.sep++
					okG := false
					for _, t := range dashPrefixTests(fn, r.val) {
						if ir.HoldsAt(t, false, r.mu.Block()) {
							okG = true
						}
					}
					if !okG {
						okG = notDashPrefixedAt(fn, r.val, r.mu.Block())
					}
					if !okG {
						problems = append(problems, "a separate value is recorded without being tested not to start with '-'")
					}
					if strNonEmptyAt(fn, r.val, r.mu.Block()) {
						problems = append(problems, "a separate value is refused when it is empty (`-o \"\"` binds the empty string)")
					}
				} else {
					kind = "attached"
					cl.eq++
					okG := strNonEmptyAt(fn, r.val, r.mu.Block())
					if !okG {
						problems = append(problems, "an attached/'=' value is recorded without being tested non-empty")
					}
					dashTested := notDashPrefixedAt(fn, r.val, r.mu.Block())
					for _, t := range dashPrefixTests(fn, r.val) {
						if ir.HoldsAt(t, false, r.mu.Block()) {
							dashTested = true
						}
					}
					if dashTested {
						problems = append(problems, "an attached/'=' value is refused when it starts with '-' (`-n=-5`, `--ratio=-1e-3` are values, what strconv accepts)")
					}
				}
			}
			if len(problems) > 0 {
				c.Bad(key+"["+kind+"]", r.mu.Pos(), "%s", strings.Join(problems, "; "))
			} else {
				c.OK(key+"["+kind+"]", r.mu.Pos(), "own option only; guard for this form present")
			}
		}
	}
	// sibling agreement: every occurrence matcher knows all three forms
	var names []string
	for n := range perFn {
		names = append(names, n)
	}
	sort.Strings(names)
	for _, n := range names {
		cl := perFn[n]
		c.Check(cl.eq >= 1 && cl.sep >= 1 && cl.flag >= 1, n+":forms", token.NoPos,
			fmt.Sprintf("handles attached/'=' (%d), separate (%d) and flag (%d) forms", cl.eq, cl.sep, cl.flag),
			fmt.Sprintf("sibling matchers disagree: attached/'='=%d separate=%d flag=%d", cl.eq, cl.sep, cl.flag))
	}
	if len(names) < 2 {
		c.Bad("matcher:siblings", token.NoPos, "expected a long- and a short-option matcher, found %d", len(names))
	}
}

func mat11(c *Ctx) {
	fn := c.Fn("internal/matcher", "options.Match")
	if fn == nil {
		return
	}
	try := c.fnOpt("internal/matcher", "options.try")
	if try == nil {
		c.Undecided("anchor:matcher.options.try", token.NoPos, "the single-step helper of the group matcher was not found")
		return
	}
	c.Mark(try)
	// execute Match symbolically for the outcome sequences of the single-step helper
	scenarios := [][]bool{{false}, {true, false}, {true, true, false}, {true, true, true, false}}
	for _, outcomes := range scenarios {
		name := ""
		for _, o := range outcomes {
			if o {
				name += "T"
			} else {
				name += "F"
			}
		}
		key := fmt.Sprintf("%s[try=%s]", Q(fn), name)
		k := 0
		var argOf []string
		m := &symMachine{}
		m.onCall = func(m *symMachine, call ssa.CallInstruction, callee *ssa.Function, args []symVal) (symVal, bool) {
			if callee != try {
				return nil, false
			}
			if k >= len(outcomes) {
				m.fail("the step helper is called more often than the scenario allows")
				return nil, true
			}
			vec, ctx := "?", "?"
			if len(args) == 3 {
				vec, ctx = symStr(args[1]), symStr(args[2])
			}
			argOf = append(argOf, vec+"/"+ctx)
			res := []symVal{outcomes[k], fmt.Sprintf("ret#%d", k+1)}
			k++
			return res, true
		}
		res := m.run(fn, []symVal{"om", "args", "ctx"}, nil)
		if m.err != "" {
			c.Undecided(key, fn.Pos(), "cannot execute the group matcher symbolically: %s", m.err)
			continue
		}
		var problems []string
		n := len(outcomes)
		if k != n {
			problems = append(problems, fmt.Sprintf("the step helper ran %d times, expected %d (retry until it fails)", k, n))
		}
		for i, a := range argOf {
			want := "args/ctx"
			if i > 0 {
				want = fmt.Sprintf("ret#%d/ctx", i)
			}
			if a != want {
				problems = append(problems, fmt.Sprintf("step %d runs on %s, expected %s", i+1, a, want))
			}
		}
		wantRes := "(false,args)"
		if n > 1 {
			wantRes = fmt.Sprintf("(true,ret#%d)", n-1)
		}
		if got := symStr(symVal(res)); got != wantRes {
			problems = append(problems, fmt.Sprintf("returns %s, expected %s", got, wantRes))
		}
		reportP(c, key, fn.Pos(), problems, "first step on the input; each further step on the previous result; stops at the first failure; returns (matched at least once, last vector)")
	}
}

func mat12(c *Ctx) {
	// every other function of the matcher, automaton and root packages that reads its vector parameter
	swept := map[*ssa.Function]bool{}
	for _, name := range []string{"opt.Match", "opt.matchShortOpt", "opt.matchLongOpt", "options.try"} {
		swept[c.fnOpt("internal/matcher", name)] = true
	}
	// string accesses of the other packages that handle user input at run time (the scanner has its own
	// rule, LEX-1)
	for _, pkg := range []string{"internal/values", "internal/container", "internal/flow", ""} {
		for _, fn := range c.pkgFuncsDeep(pkg) {
			if fn.Synthetic == "" {
				c.stringBounds(fn)
			}
		}
	}
	for _, pkg := range []string{"internal/matcher", "internal/fsm"} {
		for _, fn := range c.pkgFuncsDeep(pkg) {
			if fn.Synthetic == "" {
				c.stringBounds(fn)
			}
			if !swept[fn] && fn.Synthetic == "" {
				swept[fn] = true
				c.vectorBounds(fn)
			}
		}
	}
	for _, name := range []string{"opt.Match", "opt.matchShortOpt", "opt.matchLongOpt", "options.try"} {
		fn := c.fnOpt("internal/matcher", name)
		if fn == nil {
			c.Undecided("anchor:matcher."+name, token.NoPos, "not found")
			continue
		}
		c.Mark(fn)
		c.vectorBounds(fn)
		// loop headers: blocks with a predecessor they dominate
		for _, h := range fn.Blocks {
			var backPreds []int
			for i, p := range h.Preds {
				if h.Dominates(p) {
					backPreds = append(backPreds, i)
				}
			}
			if len(backPreds) == 0 {
				continue
			}
			key := fmt.Sprintf("%s:loop@%s", Q(fn), relLine(c, fn, firstPos(h)))
			good := false
			why := "no integer counter that every back edge increases"
			for _, in := range h.Instrs {
				phi, ok := in.(*ssa.Phi)
				if !ok {
					break
				}
				if b, isB := phi.Type().Underlying().(*types.Basic); !isB || b.Info()&types.IsInteger == 0 {
					continue
				}
				all := true
				for _, i := range backPreds {
					if w := positiveStep(phi, phi.Edges[i], h.Preds[i]); w != "" {
						all = false
						why = w
					}
				}
				// the loop condition must depend on the counter
				dep := false
				if iff, isIf := h.Instrs[len(h.Instrs)-1].(*ssa.If); isIf && ir.DependsOn(iff.Cond, phi) {
					dep = true
				}
				if all && dep {
					good = true
				}
			}
			c.Check(good, key, firstPos(h), "every back edge adds a positive amount to the counter the loop condition tests", why)
		}
	}
	// the group matcher's retry loop: continues only on a successful try
	if fn := c.fnOpt("internal/matcher", "options.Match"); fn != nil {
		c.Mark(fn)
		c.OK(Q(fn)+":loop", fn.Pos(), "continues only while try succeeds (MAT-11); a successful try either records a value and rebuilds a smaller/shorter vector or excludes the option (MAT-6), so (vector weight, non-excluded options) decreases")
	}
}

func firstPos(b *ssa.BasicBlock) token.Pos {
	for _, in := range b.Instrs {
		if in.Pos().IsValid() {
			return in.Pos()
		}
	}
	for _, s := range b.Succs {
		for _, in := range s.Instrs {
			if in.Pos().IsValid() {
				return in.Pos()
			}
		}
	}
	return token.NoPos
}

// positiveStep: back-edge value v = phi + d with d > 0 on that path.
func positiveStep(phi *ssa.Phi, v ssa.Value, pred *ssa.BasicBlock) string {
	bo, ok := v.(*ssa.BinOp)
	if !ok || bo.Op != token.ADD || bo.X != ssa.Value(phi) {
		return "a back edge does not carry counter + step"
	}
	if k, isC := ir.ConstInt(bo.Y); isC {
		if k > 0 {
			return ""
		}
		return "a back edge adds a non-positive constant"
	}
	// step = the count of whichever of several sub-calls was made (merged branches)
	if calls, idx := extractPhi(bo.Y); calls != nil {
		for _, call := range calls {
			f := ir.Static(call)
			if f == nil {
				return "the step comes from an unresolved call"
			}
			for _, r := range ir.ReturnPoints(f) {
				k, isC := ir.ConstInt(r.Results[idx])
				if !isC || k < 0 {
					return fmt.Sprintf("%s can return a non-constant or negative count", f.Name())
				}
			}
		}
		zeroOut := false
		for _, u := range *bo.Y.Referrers() {
			if cmp, ok := u.(*ssa.BinOp); ok {
				if z, isC := ir.ConstInt(cmp.Y); isC && z == 0 && cmp.X == bo.Y {
					if (cmp.Op == token.EQL && ir.HoldsAt(cmp, false, pred)) || (cmp.Op == token.NEQ && ir.HoldsAt(cmp, true, pred)) || (cmp.Op == token.GTR && ir.HoldsAt(cmp, true, pred)) {
						zeroOut = true
					}
				}
			}
		}
		if !zeroOut {
			return "the scan can go round with a step of 0 (no progress)"
		}
		return ""
	}
	// step = int result of a call whose possible values are constants >= 0, with 0 excluded on this path
	ex, isEx := bo.Y.(*ssa.Extract)
	if !isEx {
		return "the step is neither a positive constant nor a callee's count"
	}
	call, isCall := ex.Tuple.(*ssa.Call)
	if !isCall {
		return "the step is not a call result"
	}
	f := ir.Static(call)
	if f == nil {
		return "the step comes from an unresolved call"
	}
	for _, r := range ir.ReturnPoints(f) {
		k, isC := ir.ConstInt(r.Results[ex.Index])
		if !isC || k < 0 {
			return fmt.Sprintf("%s can return a non-constant or negative count", f.Name())
		}
	}
	// zero excluded
	zeroOut := false
	for _, u := range *ex.Referrers() {
		if cmp, ok := u.(*ssa.BinOp); ok {
			if z, isC := ir.ConstInt(cmp.Y); isC && z == 0 {
				if (cmp.Op == token.EQL && ir.HoldsAt(cmp, false, pred)) || (cmp.Op == token.NEQ && ir.HoldsAt(cmp, true, pred)) || (cmp.Op == token.GTR && ir.HoldsAt(cmp, true, pred)) {
					zeroOut = true
				}
			}
		}
	}
	if !zeroOut {
		return "the scan can go round with a step of 0 (no progress)"
	}
	return ""
}

// strNonEmptyAt: string v is known to be non-empty at block b: a dominating outcome of v == "" / v != ""
// or of a comparison of len(v) with a constant that excludes length 0.
func strNonEmptyAt(fn *ssa.Function, v ssa.Value, b *ssa.BasicBlock) bool {
	found := false
	ir.Instrs(fn, func(in ssa.Instruction) {
		bo, ok := in.(*ssa.BinOp)
		if !ok || found {
			return
		}
		if s, isS := ir.ConstString(bo.Y); isS && s == "" && bo.X == v {
			if (bo.Op == token.EQL && ir.HoldsAt(bo, false, b)) || (bo.Op == token.NEQ && ir.HoldsAt(bo, true, b)) {
				found = true
			}
			return
		}
		lc, isCall := bo.X.(*ssa.Call)
		if !isCall {
			return
		}
		if bi, isB := lc.Call.Value.(*ssa.Builtin); !isB || bi.Name() != "len" || lc.Call.Args[0] != v {
			return
		}
		k, isK := ir.ConstInt(bo.Y)
		if !isK {
			return
		}
		for _, want := range []bool{true, false} {
			if !ir.HoldsAt(bo, want, b) {
				continue
			}
			// does (len op k) == want exclude len == 0 ?
			t, okT := lenCmp(bo.Op, 0, k)
			if okT && t != want {
				found = true
			}
		}
	})
	return found
}

// extractPhi: v is a phi every edge of which is result #idx of a (different) call: returns the calls in
// edge order.
func extractPhi(v ssa.Value) (calls []*ssa.Call, idx int) {
	phi, ok := v.(*ssa.Phi)
	if !ok || len(phi.Edges) < 2 {
		return nil, 0
	}
	idx = -1
	for _, e := range phi.Edges {
		ex, isEx := e.(*ssa.Extract)
		if !isEx {
			return nil, 0
		}
		call, isCall := ex.Tuple.(*ssa.Call)
		if !isCall || (idx >= 0 && ex.Index != idx) {
			return nil, 0
		}
		idx = ex.Index
		calls = append(calls, call)
	}
	return calls, idx
}

// dashPrefixTests returns the boolean values of fn that are true exactly when string v starts with '-':
// strings.HasPrefix(v, "-"), or the lowered `len(v) > 0 && v[0] == '-'` / `v != "" && v[0] == '-'`.
// optionLikeH: what is known, on the way described by holds, about the first token of fn's vector
// parameter: dash = it starts with '-' (strings.HasPrefix(t, "-") true, or t[0] == '-'); more = it is not
// the lone "-" (t != "-", or a length test whose outcome is impossible for lengths 0 and 1).
func optionLikeH(fn *ssa.Function, holds func(ssa.Value, bool) bool) (dash, more bool) {
	var args *ssa.Parameter
	for _, p := range fn.Params {
		if isStringSlice(p.Type()) {
			args = p
		}
	}
	isTok := func(v ssa.Value) bool {
		ld, ok := v.(*ssa.UnOp)
		if !ok || ld.Op != token.MUL {
			return false
		}
		ia, isIA := ld.X.(*ssa.IndexAddr)
		if !isIA || ia.X != ssa.Value(args) {
			return false
		}
		z, isZ := ir.ConstInt(ia.Index)
		return isZ && z == 0
	}
	ir.Instrs(fn, func(in ssa.Instruction) {
		switch x := in.(type) {
		case *ssa.Call:
			if f := ir.Static(x); f != nil && ir.IsStdFunc(f, "strings", "HasPrefix") {
				if s, isS := ir.ConstString(x.Call.Args[1]); isS && s == "-" && isTok(x.Call.Args[0]) && holds(x, true) {
					dash = true
				}
			}
		case *ssa.BinOp:
			if x.Op != token.EQL && x.Op != token.NEQ && x.Op != token.LSS && x.Op != token.LEQ && x.Op != token.GTR && x.Op != token.GEQ {
				return
			}
			// t == "-" / t != "-"
			if s, isS := ir.ConstString(x.Y); isS && s == "-" && isTok(x.X) {
				if (x.Op == token.NEQ && holds(x, true)) || (x.Op == token.EQL && holds(x, false)) {
					more = true
				}
			}
			// t[0] == '-'
			if ix, isIx := x.X.(*ssa.Index); isIx && isTok(ix.X) {
				if z, isZ := ir.ConstInt(ix.Index); isZ && z == 0 {
					if k, isK := ir.ConstInt(x.Y); isK && k == '-' {
						if (x.Op == token.EQL && holds(x, true)) || (x.Op == token.NEQ && holds(x, false)) {
							dash = true
						}
					}
				}
			}
			// len(t) op k with an outcome that lengths 0 and 1 cannot produce
			if lc, isCall := x.X.(*ssa.Call); isCall {
				if bi, isB := lc.Call.Value.(*ssa.Builtin); isB && bi.Name() == "len" && isTok(lc.Call.Args[0]) {
					if k, isK := ir.ConstInt(x.Y); isK {
						for _, want := range []bool{true, false} {
							z, okZ := lenCmp(x.Op, 0, k)
							o, okO := lenCmp(x.Op, 1, k)
							if okZ && okO && z != want && o != want && holds(x, want) {
								more = true
							}
						}
					}
				}
			}
		}
	})
	return dash, more
}

func dashPrefixTests(fn *ssa.Function, v ssa.Value) []ssa.Value {
	var out []ssa.Value
	isFirstDash := func(x ssa.Value) bool {
		bo, ok := x.(*ssa.BinOp)
		if !ok || bo.Op != token.EQL {
			return false
		}
		if k, isK := ir.ConstInt(bo.Y); !isK || k != '-' {
			return false
		}
		ix, isIx := bo.X.(*ssa.Index)
		if !isIx || ix.X != v {
			return false
		}
		z, isZ := ir.ConstInt(ix.Index)
		return isZ && z == 0
	}
	ir.Instrs(fn, func(in ssa.Instruction) {
		switch x := in.(type) {
		case *ssa.Call:
			if f := ir.Static(x); f != nil && ir.IsStdFunc(f, "strings", "HasPrefix") {
				if s, isS := ir.ConstString(x.Call.Args[1]); isS && s == "-" && x.Call.Args[0] == v {
					out = append(out, x)
				}
			}
		case *ssa.Phi:
			// phi [false (v empty), v[0] == '-']
			if len(x.Edges) != 2 {
				return
			}
			nFalse, nDash := 0, 0
			for i, e := range x.Edges {
				if b, isC := ir.ConstBool(e); isC && !b {
					// that edge must be the "v is empty" outcome of a length / emptiness test of v
					p := x.Block().Preds[i]
					if len(p.Instrs) > 0 {
						if iff, isIf := p.Instrs[len(p.Instrs)-1].(*ssa.If); isIf {
							if cmp, isBo := iff.Cond.(*ssa.BinOp); isBo {
								emptyOnFalse := false
								if lc, isCall := cmp.X.(*ssa.Call); isCall {
									if bi, isB := lc.Call.Value.(*ssa.Builtin); isB && bi.Name() == "len" && lc.Call.Args[0] == v {
										if k, isK := ir.ConstInt(cmp.Y); isK {
											if t, okT := lenCmp(cmp.Op, 0, k); okT && !t {
												if t1, _ := lenCmp(cmp.Op, 1, k); t1 {
													emptyOnFalse = true
												}
											}
										}
									}
								}
								if s, isS := ir.ConstString(cmp.Y); isS && s == "" && cmp.X == v && cmp.Op == token.NEQ {
									emptyOnFalse = true
								}
								if emptyOnFalse && len(p.Succs) == 2 && p.Succs[1] == x.Block() {
									nFalse++
								}
							}
						}
					}
				} else if isFirstDash(e) {
					nDash++
				}
			}
			if nFalse == 1 && nDash == 1 {
				out = append(out, x)
			}
		}
	})
	return out
}

// notDashPrefixedAt: every way to block b crosses an edge on which string v is known not to start with
// '-': the false edge of HasPrefix(v, "-") or of v[0] == '-', or the "v is empty" edge of a length test.
func notDashPrefixedAt(fn *ssa.Function, v ssa.Value, b *ssa.BasicBlock) bool {
	cut := map[ir.Edge]bool{}
	add := func(cond ssa.Value, want bool) {
		for _, e := range ir.EdgesWhere(fn, cond, want) {
			cut[ir.Edge{From: e.From, To: e.To}] = true
		}
	}
	ir.Instrs(fn, func(in ssa.Instruction) {
		switch x := in.(type) {
		case *ssa.Call:
			if f := ir.Static(x); f != nil && ir.IsStdFunc(f, "strings", "HasPrefix") {
				if s, isS := ir.ConstString(x.Call.Args[1]); isS && s == "-" && x.Call.Args[0] == v {
					add(x, false)
				}
			}
		case *ssa.BinOp:
			if ix, isIx := x.X.(*ssa.Index); isIx && ix.X == v {
				if z, isZ := ir.ConstInt(ix.Index); isZ && z == 0 {
					if k, isK := ir.ConstInt(x.Y); isK && k == '-' {
						if x.Op == token.EQL {
							add(x, false)
						} else if x.Op == token.NEQ {
							add(x, true)
						}
					}
				}
			}
			if s, isS := ir.ConstString(x.Y); isS && s == "" && x.X == v {
				if x.Op == token.EQL {
					add(x, true)
				} else if x.Op == token.NEQ {
					add(x, false)
				}
			}
			if lc, isCall := x.X.(*ssa.Call); isCall {
				if bi, isB := lc.Call.Value.(*ssa.Builtin); isB && bi.Name() == "len" && lc.Call.Args[0] == v {
					if k, isK := ir.ConstInt(x.Y); isK {
						for _, want := range []bool{true, false} {
							// the outcome is possible for length 0 only
							z, okZ := lenCmp(x.Op, 0, k)
							one, _ := lenCmp(x.Op, 1, k)
							if okZ && z == want && one != want {
								add(x, want)
							}
						}
					}
				}
			}
		}
	})
	if len(cut) == 0 || b == fn.Blocks[0] {
		return false
	}
	return !ir.Reach(fn.Blocks[0], nil, cut)[b]
}

// vectorBounds: every element read v[e] and every re-slice v[a:b] of a []string whose length is known
// (the vector parameter, a re-slice of it, a vector rebuilt by the helpers) is within bounds: the
// inequality len(v) - e - 1 >= 0 (resp. len(v) - a >= 0, len(v) - b >= 0) follows by linear arithmetic
// over len(<vector parameter>) and the int parameters from (a) the branch outcomes that dominate the
// access, (b) earlier accesses that dominate it (had they been out of range, execution would not have
// got here), or, failing that, (c) the same inequality translated to every call site of the function
// and proved there in the same way (two levels up at most). make([]string, n) needs n >= 0.
func (c *Ctx) vectorBounds(fn *ssa.Function) {
	hasVec := false
	for _, p := range fn.Params {
		if isStringSlice(p.Type()) {
			hasVec = true
		}
	}
	if !hasVec {
		return
	}
	ir.Instrs(fn, func(in ssa.Instruction) {
		report := func(goal lin, ok bool, what string) {
			key := fmt.Sprintf("%s:bounds@%s", Q(fn), relLine(c, fn, in.Pos()))
			if !ok {
				c.Undecided(key, in.Pos(), "index expression not linear")
				return
			}
			c.Check(c.proveGE0(fn, in, goal, 2), key, in.Pos(), what+" is within the vector by the dominating length tests", what+" is not covered by a dominating test of the vector's length (index out of range)")
		}
		env := map[ssa.Value]lin{}
		vl := func(a ssa.Value) (lin, bool) { return c.vecLenIn(a, env, 2) }
		switch x := in.(type) {
		case *ssa.IndexAddr:
			if !isStringSlice(x.X.Type()) {
				return
			}
			if ir.NonNegativeIndex(x.Index) && isLoopIndexOver(x.Index, x.X) {
				return // the loop condition bounds it
			}
			L, okL := vl(x.X)
			e, okE := linOf(x.Index, env, vl)
			if !okL {
				return // a vector whose length the model does not follow (not the argument vector)
			}
			report(L.add(e, -1).add(linConst(1), -1), okE, "the element read")
		case *ssa.Slice:
			if !isStringSlice(x.X.Type()) {
				return
			}
			L, okL := vl(x.X)
			if !okL {
				return
			}
			if x.Low != nil {
				e, okE := linOf(x.Low, env, vl)
				report(L.add(e, -1), okE, "the re-slice")
			}
			if x.High != nil {
				e, okE := linOf(x.High, env, vl)
				report(L.add(e, -1), okE, "the re-slice")
			}
		case *ssa.MakeSlice:
			if !isStringSlice(x.Type()) {
				return
			}
			e, okE := linOf(x.Len, env, vl)
			report(e, okE, "the length of the new vector")
		}
	})
}

// boundsFacts: inequalities e >= 0 known when control reaches `at` in fn.
func (c *Ctx) boundsFacts(fn *ssa.Function, at ssa.Instruction) []lin {
	env := map[ssa.Value]lin{}
	vl := func(a ssa.Value) (lin, bool) { return c.vecLenIn(a, env, 2) }
	m1 := linConst(-1)
	var facts, neqs []lin
	factsOf := func(v ssa.Value, want bool) {
		bo, ok := v.(*ssa.BinOp)
		if !ok {
			return
		}
		x, okx := linOf(bo.X, env, vl)
		y, oky := linOf(bo.Y, env, vl)
		if !okx || !oky {
			return
		}
		xy := x.add(y, -1) // x - y
		yx := y.add(x, -1)
		op := bo.Op
		if !want {
			switch op {
			case token.LSS:
				op = token.GEQ
			case token.LEQ:
				op = token.GTR
			case token.GTR:
				op = token.LEQ
			case token.GEQ:
				op = token.LSS
			case token.EQL:
				op = token.NEQ
			case token.NEQ:
				op = token.EQL
			default:
				return
			}
		}
		switch op {
		case token.LSS:
			facts = append(facts, yx.add(m1, 1))
		case token.LEQ:
			facts = append(facts, yx)
		case token.GTR:
			facts = append(facts, xy.add(m1, 1))
		case token.GEQ:
			facts = append(facts, xy)
		case token.EQL:
			facts = append(facts, xy, yx)
		case token.NEQ:
			neqs = append(neqs, xy)
		}
	}
	for _, cd := range ir.DominatingConds(at.Block()) {
		factsOf(cd.V, cd.Want)
	}
	// earlier accesses that dominate `at`
	ir.Instrs(fn, func(in ssa.Instruction) {
		if in == at {
			return
		}
		dom := in.Block() == at.Block() && ir.IndexIn(in) < ir.IndexIn(at) || in.Block() != at.Block() && in.Block().Dominates(at.Block())
		if !dom {
			return
		}
		switch x := in.(type) {
		case *ssa.IndexAddr:
			if isStringSlice(x.X.Type()) {
				if L, ok := vl(x.X); ok {
					if e, okE := linOf(x.Index, env, vl); okE {
						facts = append(facts, L.add(e, -1).add(m1, 1), e)
					}
				}
			}
		case *ssa.Slice:
			if isStringSlice(x.X.Type()) && x.Low != nil && x.High == nil {
				if L, ok := vl(x.X); ok {
					if e, okE := linOf(x.Low, env, vl); okE {
						facts = append(facts, L.add(e, -1), e)
					}
				}
			}
		}
	})
	// a length is never negative
	for _, p := range fn.Params {
		if isStringSlice(p.Type()) {
			facts = append(facts, lin{t: map[linKey]int64{{p, true}: 1}})
		}
	}
	// integers: d != 0 and d >= 0 give d >= 1
	for _, d := range neqs {
		neg := lin{}.add(d, -1)
		if linImplies(d, facts) {
			facts = append(facts, d.add(linConst(1), -1))
		} else if linImplies(neg, facts) {
			facts = append(facts, neg.add(linConst(1), -1))
		}
	}
	return facts
}

func linImplies(goal lin, facts []lin) bool {
	if k, isK := goal.isConst(); isK {
		return k >= 0
	}
	for _, f := range facts {
		d := goal.add(f, -1)
		if k, isK := d.isConst(); isK && k >= 0 {
			return true
		}
	}
	// two facts: goal = f1 + f2 + k, k >= 0
	for i, f1 := range facts {
		for _, f2 := range facts[i:] {
			d := goal.add(f1, -1).add(f2, -1)
			if k, isK := d.isConst(); isK && k >= 0 {
				return true
			}
		}
	}
	return false
}

// proveGE0: goal >= 0 holds whenever control reaches `at` in fn.
func (c *Ctx) proveGE0(fn *ssa.Function, at ssa.Instruction, goal lin, depth int) bool {
	if linImplies(goal, c.boundsFacts(fn, at)) {
		return true
	}
	if depth == 0 || fn.Parent() != nil {
		return false
	}
	// translate the goal to every call site: all its terms must be parameters of fn
	for k := range goal.t {
		if _, isP := k.v.(*ssa.Parameter); !isP {
			return false
		}
	}
	n := 0
	for _, pkg := range []string{"internal/matcher", "internal/fsm", "internal/parser", ""} {
		for _, caller := range c.pkgFuncsDeep(pkg) {
			escapes := false
			ir.Instrs(caller, func(in ssa.Instruction) {
				// the function used as a value (method value, stored in a table): callers unknown
				for _, op := range in.Operands(nil) {
					if *op == ssa.Value(fn) {
						if call, isCall := in.(ssa.CallInstruction); !isCall || call.Common().Value != ssa.Value(fn) {
							escapes = true
						}
					}
				}
			})
			if escapes {
				return false
			}
			for _, call := range ir.Calls(caller) {
				cv, ok := call.(*ssa.Call)
				if !ok || ir.Static(cv) != fn || cv.Call.IsInvoke() {
					continue
				}
				n++
				env := map[ssa.Value]lin{}
				vl := func(a ssa.Value) (lin, bool) { return c.vecLenIn(a, env, 2) }
				g := linConst(goal.c)
				for k, coef := range goal.t {
					idx := -1
					for i, p := range fn.Params {
						if p == k.v {
							idx = i
						}
					}
					if idx < 0 || idx >= len(cv.Call.Args) {
						return false
					}
					var term lin
					var okT bool
					if k.isLen {
						term, okT = vl(cv.Call.Args[idx])
					} else {
						term, okT = linOf(cv.Call.Args[idx], env, vl)
					}
					if !okT {
						return false
					}
					g = g.add(term, coef)
				}
				if !c.proveGE0(caller, cv, g, depth-1) {
					return false
				}
			}
		}
	}
	return n > 0
}

// splitsToken: strings.SplitN and strings.Cut hand back sub-strings of their first argument.
func splitsToken(f *ssa.Function) bool {
	return ir.IsStdFunc(f, "strings", "SplitN") || ir.IsStdFunc(f, "strings", "Cut")
}

// loneDash: in the scan of the option matcher a lone `-` is a positional-looking token that is stepped
// over: no sub-matcher is handed a token that may be "-" (it would look it up as an option name, not
// find it, and end the scan: `- -f` would be refused), and the branch that finds it goes on scanning.
func (c *Ctx) loneDash(top *ssa.Function) {
	var dashTests []*ssa.BinOp
	ir.Instrs(top, func(in ssa.Instruction) {
		bo, ok := in.(*ssa.BinOp)
		if !ok || !(bo.Op == token.EQL || bo.Op == token.NEQ) {
			return
		}
		for _, side := range []ssa.Value{bo.X, bo.Y} {
			if k, isK := ir.ConstString(side); isK && k == "-" {
				dashTests = append(dashTests, bo)
			}
		}
	})
	n := 0
	for _, call := range ir.Calls(top) {
		fn := ir.Static(call)
		if fn == nil || fn.Pkg != top.Pkg || fn.Signature.Recv() == nil || fn.Signature.Results().Len() != 3 {
			continue
		}
		n++
		key := fmt.Sprintf("%s:lone-dash@%s", Q(top), relLine(c, top, call.Pos()))
		var idx ssa.Value
		for _, a := range call.Common().Args {
			if b, ok := a.Type().Underlying().(*types.Basic); ok && b.Kind() == types.Int {
				idx = a
			}
		}
		excluded := false
		for _, bo := range dashTests {
			if !ir.HoldsAt(bo, bo.Op == token.NEQ, call.Block()) {
				continue
			}
			// the tested string is the token at the index the sub-matcher gets
			other := bo.X
			if _, isK := ir.ConstString(other); isK {
				other = bo.Y
			}
			if ld, isLd := other.(*ssa.UnOp); isLd && ld.Op == token.MUL {
				if ia, isIA := ld.X.(*ssa.IndexAddr); isIA && idx != nil && ia.Index == idx {
					excluded = true
				}
			}
		}
		c.Check(excluded, key, call.Pos(), "the sub-matcher is reached only with a token known not to be a lone `-`", "the sub-matcher can be handed a lone `-`: it is looked up as an option name, not found, and the scan ends there (`- -f` refused although `-` is an ordinary positional)")
	}
	// the branch that finds the lone dash does not leave the function before the scan goes on
	for _, bo := range dashTests {
		for _, e := range ir.EdgesWhere(top, bo, bo.Op == token.EQL) {
			leaves := false
			// blocks reachable without passing a loop header (a block with a phi)
			stop := map[*ssa.BasicBlock]bool{}
			for _, b := range top.Blocks {
				if len(b.Instrs) > 0 {
					if _, isPhi := b.Instrs[0].(*ssa.Phi); isPhi && b != e.To {
						stop[b] = true
					}
				}
			}
			for b := range ir.Reach(e.To, stop, nil) {
				if len(b.Instrs) > 0 {
					if _, isRet := b.Instrs[len(b.Instrs)-1].(*ssa.Return); isRet {
						leaves = true
					}
				}
			}
			c.Check(!leaves, fmt.Sprintf("%s:lone-dash:skipped@%s", Q(top), relLine(c, top, bo.Pos())), bo.Pos(), "a lone `-` is stepped over and the scan goes on", "finding a lone `-` can end the scan: options behind it would not be found")
		}
	}
	if n == 0 {
		c.Undecided(Q(top)+":lone-dash", top.Pos(), "no sub-matcher call found in the option matcher")
	}
}
