package rules

// A small symbolic interpreter over go/ssa, used to decide the shape of short
// control functions (retry loops, sequence builders) independently of how
// their loops and helpers are written: the function is *executed* on symbolic
// inputs for a handful of oracle outcomes and the sequence of abstract events
// and the results are compared with the expected ones. Nothing of mow.cli is
// run; only the SSA of the function under analysis is walked.

import (
	"fmt"
	"go/token"
	"go/types"

	"golang.org/x/tools/go/ssa"

	"verif/checker/internal/ir"
)

type symVal interface{}

type symCell struct {
	v symVal
	// a local (non-escaping) struct variable: one cell per field
	local  bool
	fields map[string]*symCell
}

// symStruct is a struct value read out of (or about to be copied into) a local struct variable.
type symStruct map[string]symVal

func (c *symCell) field(name string) *symCell {
	if c.fields == nil {
		c.fields = map[string]*symCell{}
	}
	if c.fields[name] == nil {
		c.fields[name] = &symCell{}
	}
	return c.fields[name]
}

type symFieldAddr struct {
	base  symVal
	field string
}

type symClosure struct {
	fn    *ssa.Function
	binds []symVal
}

type symMachine struct {
	// onCall may handle a static call: it returns the result (a []symVal for tuples).
	onCall func(m *symMachine, call ssa.CallInstruction, callee *ssa.Function, args []symVal) (res symVal, handled bool)
	// onLoop may summarise a loop whose header is hdr: it returns the block to continue at.
	onLoop func(m *symMachine, hdr *ssa.BasicBlock, eval func(ssa.Value) symVal) (exit *ssa.BasicBlock, handled bool)
	events []string
	steps  int
	err    string
	fresh  int
}

func (m *symMachine) event(format string, args ...interface{}) {
	m.events = append(m.events, fmt.Sprintf(format, args...))
}

func (m *symMachine) fail(format string, args ...interface{}) {
	if m.err == "" {
		m.err = fmt.Sprintf(format, args...)
	}
}

func symStr(v symVal) string {
	switch x := v.(type) {
	case nil:
		return "nil"
	case string:
		return x
	case bool:
		return fmt.Sprintf("%v", x)
	case int64:
		return fmt.Sprintf("%d", x)
	case *symCell:
		return "&cell"
	case symFieldAddr:
		return "&" + symStr(x.base) + "." + x.field
	case []symVal:
		s := "("
		for i, e := range x {
			if i > 0 {
				s += ","
			}
			s += symStr(e)
		}
		return s + ")"
	case *symClosure:
		return "closure"
	}
	return fmt.Sprintf("%v", v)
}

// run interprets fn with the given parameter values (receiver first) and closure bindings.
func (m *symMachine) run(fn *ssa.Function, params []symVal, binds []symVal) []symVal {
	if len(fn.Blocks) == 0 {
		m.fail("no body for %s", fn.Name())
		return nil
	}
	env := map[ssa.Value]symVal{}
	for i, p := range fn.Params {
		if i < len(params) {
			env[p] = params[i]
		} else {
			env[p] = "?" + p.Name()
		}
	}
	for i, fv := range fn.FreeVars {
		if i < len(binds) {
			env[fv] = binds[i]
		}
	}
	var eval func(v ssa.Value) symVal
	eval = func(v ssa.Value) symVal {
		if x, ok := env[v]; ok {
			return x
		}
		switch x := v.(type) {
		case *ssa.Const:
			if x.Value == nil {
				return nil
			}
			if b, ok := ir.ConstBool(x); ok {
				return b
			}
			if i, ok := ir.ConstInt(x); ok {
				return i
			}
			if s, ok := ir.ConstString(x); ok {
				return "\"" + s + "\""
			}
			return x.Value.ExactString()
		case *ssa.Function:
			return &symClosure{fn: x}
		case *ssa.Global:
			return "global:" + x.Name()
		}
		return "?" + v.Name()
	}
	b := fn.Blocks[0]
	var prev *ssa.BasicBlock
	for {
		m.steps++
		if m.steps > 2000 || m.err != "" {
			m.fail("interpretation did not finish")
			return nil
		}
		// loop summaries
		if m.onLoop != nil && isLoopHeader(b) {
			if exit, handled := m.onLoop(m, b, eval); handled {
				prev, b = b, exit
				continue
			}
		}
		// phis first, simultaneously
		newVals := map[ssa.Value]symVal{}
		for _, in := range b.Instrs {
			phi, ok := in.(*ssa.Phi)
			if !ok {
				break
			}
			found := false
			for i, p := range b.Preds {
				if p == prev {
					newVals[phi] = eval(phi.Edges[i])
					found = true
					break
				}
			}
			if !found {
				m.fail("phi without a matching predecessor")
				return nil
			}
		}
		for k, v := range newVals {
			env[k] = v
		}
		var next *ssa.BasicBlock
		for _, in := range b.Instrs {
			switch x := in.(type) {
			case *ssa.Phi, *ssa.DebugRef:
			case *ssa.Alloc:
				_, isStruct := x.Type().Underlying().(*types.Pointer).Elem().Underlying().(*types.Struct)
				env[x] = &symCell{local: isStruct && !x.Heap}
			case *ssa.Store:
				switch a := eval(x.Addr).(type) {
				case *symCell:
					if sv, isS := eval(x.Val).(symStruct); isS && a.local {
						for k, fv := range sv {
							a.field(k).v = fv
						}
					} else {
						a.v = eval(x.Val)
					}
				case symFieldAddr:
					m.event("store %s.%s = %s", symStr(a.base), a.field, symStr(eval(x.Val)))
				default:
					m.fail("store through an unknown address at %v", x.Pos())
				}
			case *ssa.UnOp:
				switch x.Op {
				case token.MUL:
					switch a := eval(x.X).(type) {
					case *symCell:
						if a.local && a.fields != nil {
							sv := symStruct{}
							for k, fc := range a.fields {
								sv[k] = fc.v
							}
							env[x] = sv
						} else {
							env[x] = a.v
						}
					case symFieldAddr:
						env[x] = symStr(a.base) + "." + a.field
					default:
						env[x] = "*" + symStr(a)
					}
				case token.NOT:
					if bv, ok := eval(x.X).(bool); ok {
						env[x] = !bv
					} else {
						env[x] = "!" + symStr(eval(x.X))
					}
				default:
					env[x] = "?" + x.Name()
				}
			case *ssa.FieldAddr:
				_, f, _ := ir.FieldAddr(x)
				if lc, isL := eval(x.X).(*symCell); isL && lc.local {
					env[x] = lc.field(f)
				} else {
					env[x] = symFieldAddr{eval(x.X), f}
				}
			case *ssa.Field:
				_, f, _ := ir.FieldLoad(x)
				if sv, isS := eval(x.X).(symStruct); isS {
					env[x] = sv[f]
				} else {
					env[x] = symStr(eval(x.X)) + "." + f
				}
			case *ssa.Extract:
				if tup, ok := eval(x.Tuple).([]symVal); ok && x.Index < len(tup) {
					env[x] = tup[x.Index]
				} else {
					env[x] = fmt.Sprintf("%s#%d", symStr(eval(x.Tuple)), x.Index)
				}
			case *ssa.MakeClosure:
				cl := &symClosure{fn: x.Fn.(*ssa.Function)}
				for _, bnd := range x.Bindings {
					cl.binds = append(cl.binds, eval(bnd))
				}
				env[x] = cl
			case *ssa.MakeInterface:
				env[x] = eval(x.X)
			case *ssa.ChangeType:
				env[x] = eval(x.X)
			case *ssa.ChangeInterface:
				env[x] = eval(x.X)
			case *ssa.Convert:
				env[x] = eval(x.X)
			case *ssa.BinOp:
				l, r := eval(x.X), eval(x.Y)
				switch x.Op {
				case token.EQL, token.NEQ:
					eq, known := symEqual(l, r)
					if known {
						env[x] = eq == (x.Op == token.EQL)
					} else {
						env[x] = fmt.Sprintf("(%s %s %s)", symStr(l), x.Op, symStr(r))
					}
				default:
					env[x] = fmt.Sprintf("(%s %s %s)", symStr(l), x.Op, symStr(r))
				}
			case *ssa.Call:
				var args []symVal
				for _, a := range x.Call.Args {
					args = append(args, eval(a))
				}
				if x.Call.IsInvoke() {
					env[x] = fmt.Sprintf("%s.%s(...)", symStr(eval(x.Call.Value)), x.Call.Method.Name())
					m.event("invoke %s", env[x])
					continue
				}
				if bi, isB := x.Call.Value.(*ssa.Builtin); isB {
					env[x] = bi.Name() + "(" + symStr(symVal(args)) + ")"
					continue
				}
				var callee *ssa.Function
				var binds2 []symVal
				if cl, ok := eval(x.Call.Value).(*symClosure); ok {
					callee, binds2 = cl.fn, cl.binds
				} else if f := x.Call.StaticCallee(); f != nil {
					callee = f
				}
				if callee == nil {
					m.fail("call of an unknown function value at %v", x.Pos())
					return nil
				}
				if m.onCall != nil {
					if res, handled := m.onCall(m, x, callee, args); handled {
						env[x] = res
						continue
					}
				}
				if callee.Parent() != nil || (callee.Pkg == fn.Pkg && len(callee.Blocks) > 0 && callee != fn) {
					res := m.run(callee, args, binds2)
					if m.err != "" {
						return nil
					}
					if len(res) == 1 {
						env[x] = res[0]
					} else {
						env[x] = res
					}
					continue
				}
				m.fail("unexpected call to %s", callee.Name())
				return nil
			case *ssa.If:
				bv, ok := eval(x.Cond).(bool)
				if !ok {
					m.fail("branch on a value the scenario does not determine: %s", symStr(eval(x.Cond)))
					return nil
				}
				if bv {
					next = b.Succs[0]
				} else {
					next = b.Succs[1]
				}
			case *ssa.Jump:
				next = b.Succs[0]
			case *ssa.Return:
				var res []symVal
				for _, r := range x.Results {
					res = append(res, eval(r))
				}
				return res
			case *ssa.Panic:
				m.event("panic %s", symStr(eval(x.X)))
				return nil
			case *ssa.RunDefers:
			default:
				if v, ok := in.(ssa.Value); ok {
					env[v] = "?" + v.Name()
				} else {
					m.fail("unsupported instruction %T", in)
					return nil
				}
			}
		}
		if next == nil {
			m.fail("block without a terminator")
			return nil
		}
		prev, b = b, next
	}
}

func symEqual(l, r symVal) (eq, known bool) {
	if l == nil && r == nil {
		return true, true
	}
	switch a := l.(type) {
	case bool:
		if b, ok := r.(bool); ok {
			return a == b, true
		}
	case int64:
		if b, ok := r.(int64); ok {
			return a == b, true
		}
	}
	return false, false
}

func isLoopHeader(b *ssa.BasicBlock) bool {
	for _, p := range b.Preds {
		if b.Dominates(p) {
			return true
		}
	}
	return false
}

// loopOverTransitions recognises a loop whose header is hdr and that visits every element of
// X.Transitions calling T(recv, tr.Matcher, tr.Next) and doing nothing else; it returns X, recv and
// the loop exit.
func (c *Ctx) loopOverTransitions(hdr *ssa.BasicBlock) (from, onto ssa.Value, exit *ssa.BasicBlock, ok bool) {
	tfn := c.fnOpt("internal/fsm", "State.T")
	body, _, ex := loopBody(hdr)
	if body == nil || tfn == nil {
		return nil, nil, nil, false
	}
	if okB, _ := noBreak(hdr); !okB {
		return nil, nil, nil, false
	}
	var tcall *ssa.Call
	n := 0
	for b := range body {
		for _, in := range b.Instrs {
			switch x := in.(type) {
			case *ssa.Call:
				if ir.Static(x) == tfn {
					tcall = x
					n++
				} else if _, isB := x.Call.Value.(*ssa.Builtin); !isB {
					return nil, nil, nil, false
				}
			case *ssa.Store, *ssa.MapUpdate, *ssa.Return, *ssa.Panic, *ssa.Defer, *ssa.Go:
				return nil, nil, nil, false
			}
		}
	}
	if n != 1 {
		return nil, nil, nil, false
	}
	mb, okM := fieldOf(tcall.Call.Args[1], "Matcher")
	nb, okN := fieldOf(tcall.Call.Args[2], "Next")
	if !okM || !okN || (mb != nb && !sameElemLoad(mb, nb)) {
		return nil, nil, nil, false
	}
	sl, h, isR := rangeElemHeader(mb)
	if !isR || h != hdr {
		return nil, nil, nil, false
	}
	x, okT := fieldOf(stripConv(sl), "Transitions")
	if !okT {
		return nil, nil, nil, false
	}
	// every iteration reaches the call
	_, entry, _ := loopBody(hdr)
	if entry != tcall.Block() && ir.Reach(entry, map[*ssa.BasicBlock]bool{tcall.Block(): true}, nil)[hdr] {
		return nil, nil, nil, false
	}
	return x, tcall.Call.Args[0], ex, true
}

// sameElemLoad: a and b are two loads of the same element x[i] (the body has no stores, so they
// read the same value).
func sameElemLoad(a, b ssa.Value) bool {
	la, okA := a.(*ssa.UnOp)
	lb, okB := b.(*ssa.UnOp)
	if !okA || !okB || la.Op != token.MUL || lb.Op != token.MUL {
		return false
	}
	ia, okA := la.X.(*ssa.IndexAddr)
	ib, okB := lb.X.(*ssa.IndexAddr)
	return okA && okB && ia.X == ib.X && ia.Index == ib.Index
}

var _ = types.Typ
