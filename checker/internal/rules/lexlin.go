package rules

import (
	"go/token"

	"golang.org/x/tools/go/ssa"

	"verif/checker/internal/ir"
)

// lexLin proves inequalities between scan indices of the scanner by linear arithmetic, for the code that
// the position-cell model does not cover (a helper that works on a private copy of the position and
// hands back where it stopped, end = start+1 … end += strings.IndexByte(…) … pos = end). Terms are the
// int SSA values of the scanner; len(usage) is one term. What is known:
//   - the branch outcomes that dominate the point of use (comparisons of linear expressions);
//   - a content of the position cell is >= 0 and <= len (the invariant the other LEX-1 obligations
//     maintain), and < len where the guard analysis says so;
//   - r = strings.IndexByte/Index(usage[a:], x) satisfies -1 <= r <= len - a - 1;
//   - a value merged at a join (a result variable of an inlined helper) is handled edge by edge.
type lexLin struct {
	m         *lexModel
	unguarded map[*ssa.BasicBlock]bool
}

func (p *lexLin) lenTerm() lin { return lin{t: map[linKey]int64{{p.m.usage, true}: 1}} }

func (p *lexLin) of(v ssa.Value) (lin, bool) {
	switch x := v.(type) {
	case *ssa.Const:
		if k, ok := ir.ConstInt(x); ok {
			return linConst(k), true
		}
		return lin{}, false
	case *ssa.BinOp:
		if x.Op == token.ADD || x.Op == token.SUB {
			a, okA := p.of(x.X)
			b, okB := p.of(x.Y)
			if okA && okB {
				if x.Op == token.ADD {
					return a.add(b, 1), true
				}
				return a.add(b, -1), true
			}
		}
	case *ssa.Call:
		if p.m.eof[x] {
			return p.lenTerm(), true
		}
		if bi, isB := x.Call.Value.(*ssa.Builtin); isB && bi.Name() == "len" {
			if sl, isSl := x.Call.Args[0].(*ssa.Slice); isSl && p.m.isUsage(sl.X) {
				hi := p.lenTerm()
				okH := true
				if sl.High != nil {
					hi, okH = p.of(sl.High)
				}
				lo, okL := linConst(0), true
				if sl.Low != nil {
					lo, okL = p.of(sl.Low)
				}
				if okH && okL {
					return hi.add(lo, -1), true
				}
			}
		}
	case *ssa.Convert:
		return p.of(x.X)
	}
	if v == nil {
		return lin{}, false
	}
	if p.m.isPosLoad(v) {
		v = p.rep(v)
	}
	return lin{t: map[linKey]int64{{v, false}: 1}}, true
}

// rep: the earliest read of the position cell that is known to have seen the same content as v: it
// dominates v and no store to the cell can run in between.
func (p *lexLin) rep(v ssa.Value) ssa.Value {
	vi, ok := v.(ssa.Instruction)
	if !ok {
		return v
	}
	best := v
	ir.Instrs(p.m.fn, func(in ssa.Instruction) {
		u, isV := in.(ssa.Value)
		if !isV || best != v || u == v || !p.m.isPosLoad(u) || in.Parent() != vi.Parent() {
			return
		}
		ub, vb := in.Block(), vi.Block()
		if ub == vb {
			if ir.IndexIn(in) < ir.IndexIn(vi) && p.m.storeIn(ub, ir.IndexIn(in), ir.IndexIn(vi)) < 0 {
				best = u
			}
			return
		}
		if !ub.Dominates(vb) || p.m.storeIn(ub, ir.IndexIn(in), len(ub.Instrs)) >= 0 || p.m.storeIn(vb, 0, ir.IndexIn(vi)) >= 0 {
			return
		}
		// the blocks strictly between: reachable from u's block, able to reach v's block
		fromU := map[*ssa.BasicBlock]bool{}
		for _, sc := range ub.Succs {
			for b := range ir.Reach(sc, map[*ssa.BasicBlock]bool{vb: true, ub: true}, nil) {
				fromU[b] = true
			}
		}
		for b := range fromU {
			if b == vb {
				continue
			}
			reaches := false
			for _, sc := range b.Succs {
				if sc == vb || ir.Reach(sc, map[*ssa.BasicBlock]bool{ub: true}, nil)[vb] {
					reaches = true
				}
			}
			if reaches && p.m.kill(b) {
				return // a store in between (ways back through u's own block read the cell afresh)
			}
		}
		best = u
	})
	return best
}

// intrinsic facts about the opaque terms of l.
func (p *lexLin) intrinsic(l lin, out *[]lin, seen map[ssa.Value]bool) {
	for k := range l.t {
		if k.isLen {
			*out = append(*out, p.lenTerm())
			continue
		}
		v := k.v
		if seen[v] {
			continue
		}
		seen[v] = true
		t := lin{t: map[linKey]int64{{v, false}: 1}}
		if p.m.isPosLoad(v) {
			*out = append(*out, t, p.lenTerm().add(t, -1))
			if p.m.ltAt(v, p.unguarded) {
				*out = append(*out, p.lenTerm().add(t, -1).add(linConst(1), -1))
			}
		}
		if call, ok := v.(*ssa.Call); ok {
			if f := ir.Static(call); f != nil && (ir.IsStdFunc(f, "strings", "IndexByte") || ir.IsStdFunc(f, "strings", "Index") || ir.IsStdFunc(f, "strings", "IndexRune")) {
				*out = append(*out, t.add(linConst(1), 1)) // r + 1 >= 0
				if sl, isSl := call.Call.Args[0].(*ssa.Slice); isSl && p.m.isUsage(sl.X) && sl.High == nil {
					lo, okL := linConst(0), true
					if sl.Low != nil {
						lo, okL = p.of(sl.Low)
					}
					if okL {
						// len - lo - r - 1 >= 0
						*out = append(*out, p.lenTerm().add(lo, -1).add(t, -1).add(linConst(1), -1))
						p.intrinsic(lo, out, seen)
					}
				}
			}
		}
	}
}

func (p *lexLin) condFacts(v ssa.Value, want bool, facts *[]lin, neqs *[]lin) {
	// strings.HasPrefix(usage[a:], "k") true: the input has len("k") more bytes from a
	if call, isCall := v.(*ssa.Call); isCall && want {
		if f := ir.Static(call); f != nil && ir.IsStdFunc(f, "strings", "HasPrefix") {
			if k, isK := ir.ConstString(call.Call.Args[1]); isK {
				if sl, isSl := call.Call.Args[0].(*ssa.Slice); isSl && p.m.isUsage(sl.X) && sl.High == nil && sl.Low != nil {
					if lo, okLo := p.of(sl.Low); okLo {
						*facts = append(*facts, p.lenTerm().add(lo, -1).add(linConst(int64(len(k))), -1))
					}
				}
			}
		}
		return
	}
	bo, ok := v.(*ssa.BinOp)
	if !ok {
		return
	}
	x, okx := p.of(bo.X)
	y, oky := p.of(bo.Y)
	if !okx || !oky {
		return
	}
	xy, yx := x.add(y, -1), y.add(x, -1)
	m1 := linConst(1)
	op := bo.Op
	if !want {
		switch op {
		case token.LSS:
			op = token.GEQ
		case token.LEQ:
			op = token.GTR
		case token.GTR:
			op = token.LEQ
		case token.GEQ:
			op = token.LSS
		case token.EQL:
			op = token.NEQ
		case token.NEQ:
			op = token.EQL
		default:
			return
		}
	}
	switch op {
	case token.LSS:
		*facts = append(*facts, yx.add(m1, -1))
	case token.LEQ:
		*facts = append(*facts, yx)
	case token.GTR:
		*facts = append(*facts, xy.add(m1, -1))
	case token.GEQ:
		*facts = append(*facts, xy)
	case token.EQL:
		*facts = append(*facts, xy, yx)
	case token.NEQ:
		*neqs = append(*neqs, xy)
	}
}

// prove: goal >= 0 whenever control is at the end of block at (having come along edge from->at when from != nil).
func (p *lexLin) prove(goal lin, at *ssa.BasicBlock, extra []ir.Cond, depth int) bool {
	var facts, neqs []lin
	for _, cd := range ir.DominatingConds(at) {
		p.condFacts(cd.V, cd.Want, &facts, &neqs)
	}
	for _, cd := range extra {
		p.condFacts(cd.V, cd.Want, &facts, &neqs)
	}
	seen := map[ssa.Value]bool{}
	p.intrinsic(goal, &facts, seen)
	for _, f := range append([]lin(nil), facts...) {
		p.intrinsic(f, &facts, seen)
	}
	for _, d := range neqs {
		neg := lin{}.add(d, -1)
		if linImplies(d, facts) {
			facts = append(facts, d.add(linConst(1), -1))
		} else if linImplies(neg, facts) {
			facts = append(facts, neg.add(linConst(1), -1))
		}
	}
	if linImplies(goal, facts) {
		return true
	}
	if depth == 0 {
		return false
	}
	// a value merged at a join: edge by edge
	for k, coef := range goal.t {
		phi, isPhi := k.v.(*ssa.Phi)
		if !isPhi || k.isLen {
			continue
		}
		b := phi.Block()
		loop := false
		for _, pr := range b.Preds {
			if b.Dominates(pr) {
				loop = true
			}
		}
		if loop {
			continue
		}
		all := true
		for i, e := range phi.Edges {
			ev, okE := p.of(e)
			if !okE {
				all = false
				break
			}
			g := goal.add(lin{t: map[linKey]int64{k: 1}}, -coef).add(ev, coef)
			pr := b.Preds[i]
			var ex []ir.Cond
			if len(pr.Instrs) > 0 {
				if iff, isIf := pr.Instrs[len(pr.Instrs)-1].(*ssa.If); isIf && len(pr.Succs) == 2 && pr.Succs[0] != pr.Succs[1] {
					ex = append(ex, ir.Cond{V: iff.Cond, Want: pr.Succs[0] == b})
				}
			}
			if !p.prove(g, pr, ex, depth-1) {
				all = false
				break
			}
		}
		if all {
			return true
		}
	}
	return false
}

// le: a <= b at the end of block at.
func (p *lexLin) le(a, b ssa.Value, bIsLen bool, slack int64, at *ssa.BasicBlock) bool {
	la, okA := p.of(a)
	if !okA {
		return false
	}
	lb := p.lenTerm()
	if !bIsLen {
		var okB bool
		lb, okB = p.of(b)
		if !okB {
			return false
		}
	}
	return p.prove(lb.add(la, -1).add(linConst(slack), -1), at, nil, 3)
}
