package rules

// Canonical naming layer. The rules speak about unexported functions, types
// and fields of mow.cli by the names they have on the pinned tree. Renaming an
// unexported identifier does not change behaviour, so before the rules run the
// names are re-resolved *by role* whenever the canonical name is missing:
// e.g. "the field of Cmd that doInit hands to parser.Params.OptionsIdx" is
// optionsIdx whatever it is called. When a canonical name exists nothing is
// resolved (identity), so the layer cannot change a verdict on a tree that uses
// the pinned names.

import (
	"go/token"
	"go/types"
	"strings"

	"golang.org/x/tools/go/ssa"

	"verif/checker/internal/ir"
	"verif/checker/internal/load"
	"verif/checker/internal/normalize"
)

type canonT struct {
	p       *load.Program
	field   map[*types.Var]string      // actual field -> canonical name
	fn      map[string]*ssa.Function   // "pkgRel:Recv.name" -> function
	fnName  map[*ssa.Function]string   // function -> canonical qualified name
	typ     map[string]*types.Named    // "pkgRel:name" -> type
	typName map[*types.TypeName]string // type -> canonical name
	flatten map[*types.Var]map[string]string
	notes   []string
}

var canon *canonT

// setupCanon computes the aliases for program p and installs the field hook.
func setupCanon(p *load.Program) {
	if canon != nil && canon.p == p {
		return
	}
	c := &canonT{p: p, field: map[*types.Var]string{}, fn: map[string]*ssa.Function{}, fnName: map[*ssa.Function]string{},
		typ: map[string]*types.Named{}, typName: map[*types.TypeName]string{}, flatten: map[*types.Var]map[string]string{}}
	canon = c
	ir.FieldNameHook = func(v *types.Var) string {
		if a, ok := c.field[v]; ok {
			return a
		}
		return v.Name()
	}
	ir.FuncNameHook = func(f *ssa.Function) string { return c.fnName[f] }
	ir.FlattenHook = func(v *types.Var) map[string]string { return c.flatten[v] }
	ir.TypeNameHook = func(tn *types.TypeName) string {
		if a, ok := c.typName[tn]; ok {
			return a
		}
		return tn.Name()
	}
	defer func() {
		if r := recover(); r != nil {
			c.notes = append(c.notes, "canon resolver panicked; falling back to literal names")
		}
	}()
	c.resolve()
}

func (c *canonT) pkgT(rel string) *types.Package {
	pk := c.p.Pkg(rel)
	if pk == nil {
		return nil
	}
	return pk.Types
}

func (c *canonT) named(rel, name string) *types.Named {
	if t, ok := c.typ[rel+":"+name]; ok {
		return t
	}
	tp := c.pkgT(rel)
	if tp == nil {
		return nil
	}
	obj := tp.Scope().Lookup(name)
	if obj == nil {
		return nil
	}
	n, _ := obj.Type().(*types.Named)
	return n
}

func (c *canonT) aliasType(rel, canonical string, n *types.Named) {
	if n == nil || n.Obj().Name() == canonical {
		return
	}
	c.typ[rel+":"+canonical] = n
	c.typName[n.Obj()] = canonical
	c.notes = append(c.notes, "type "+rel+"."+n.Obj().Name()+" plays the role of "+canonical)
}

func structOf(n *types.Named) *types.Struct {
	if n == nil {
		return nil
	}
	st, _ := n.Underlying().(*types.Struct)
	return st
}

func hasField(st *types.Struct, name string) bool {
	for i := 0; i < st.NumFields(); i++ {
		if st.Field(i).Name() == name {
			return true
		}
	}
	return false
}

// aliasField records that actual field v plays the role `canonical` unless the struct already has that name.
func (c *canonT) aliasField(st *types.Struct, canonical string, v *types.Var) {
	if st == nil || v == nil || v.Name() == canonical || hasField(st, canonical) {
		return
	}
	if _, taken := c.field[v]; taken {
		return
	}
	c.field[v] = canonical
	c.notes = append(c.notes, "field "+v.Name()+" plays the role of "+canonical)
}

// uniqueFieldOfType returns the only field of st whose type satisfies pred.
func uniqueField(st *types.Struct, pred func(types.Type) bool) *types.Var {
	var found *types.Var
	for i := 0; i < st.NumFields(); i++ {
		f := st.Field(i)
		if f.Embedded() {
			continue
		}
		if pred(f.Type()) {
			if found != nil {
				return nil
			}
			found = f
		}
	}
	return found
}

func (c *canonT) isNamedT(t types.Type, rel, name string) bool {
	if p, ok := t.(*types.Pointer); ok {
		t = p.Elem()
	}
	n, ok := t.(*types.Named)
	if !ok {
		return false
	}
	want := c.named(rel, name)
	return want != nil && n.Obj() == want.Obj()
}

func (c *canonT) aliasFn(rel, canonical string, f *ssa.Function) {
	if f == nil {
		return
	}
	c.fn[rel+":"+canonical] = f
	// canonical qualified name, in QualifiedName's format
	pkgName := ""
	if f.Pkg != nil {
		pkgName = f.Pkg.Pkg.Name()
	}
	q := pkgName + "." + canonical
	if i := strings.Index(canonical, "."); i >= 0 && f.Signature.Recv() != nil {
		tn, mn := canonical[:i], canonical[i+1:]
		if _, isPtr := f.Signature.Recv().Type().(*types.Pointer); isPtr {
			q = pkgName + ".(*" + tn + ")." + mn
		} else {
			q = pkgName + "." + tn + "." + mn
		}
	}
	c.fnName[f] = q
	c.notes = append(c.notes, "function "+ir.RawQualifiedName(f)+" plays the role of "+canonical)
}

// methodsOf returns the declared methods (value and pointer receiver) of n.
func (c *canonT) methodsOf(n *types.Named) []*ssa.Function {
	var out []*ssa.Function
	for i := 0; i < n.NumMethods(); i++ {
		if f := c.p.SSA.FuncValue(n.Method(i)); f != nil {
			out = append(out, f)
		}
	}
	return out
}

func (c *canonT) method(n *types.Named, name string) *ssa.Function {
	if n == nil {
		return nil
	}
	for _, f := range c.methodsOf(n) {
		if f.Name() == name {
			return f
		}
	}
	return nil
}

func funcsOf(p *load.Program, rel string) []*ssa.Function {
	sp := p.SPkg(rel)
	if sp == nil {
		return nil
	}
	return p.Funcs(sp)
}

func callsStatic(fn, callee *ssa.Function) bool {
	for _, call := range ir.Calls(fn) {
		if ir.Static(call) == callee {
			return true
		}
	}
	return false
}

func (c *canonT) resolve() {
	p := c.p
	contT := c.named("internal/container", "Container")
	isCont := func(t types.Type) bool {
		pt, ok := t.(*types.Pointer)
		if !ok || contT == nil {
			return false
		}
		n, ok := pt.Elem().(*types.Named)
		return ok && n.Obj() == contT.Obj()
	}
	isContSlice := func(t types.Type) bool {
		sl, ok := t.Underlying().(*types.Slice)
		return ok && isCont(sl.Elem())
	}
	isContMap := func(t types.Type) bool {
		m, ok := t.Underlying().(*types.Map)
		if !ok {
			return false
		}
		b, isB := m.Key().Underlying().(*types.Basic)
		return isB && b.Kind() == types.String && isCont(m.Elem())
	}
	isBasic := func(k types.BasicKind) func(types.Type) bool {
		return func(t types.Type) bool { b, ok := t.(*types.Basic); return ok && b.Kind() == k }
	}

	// ---------- matcher implementations ----------
	if mi := c.named("internal/matcher", "Matcher"); mi != nil {
		iface, _ := mi.Underlying().(*types.Interface)
		tp := c.pkgT("internal/matcher")
		var impls []*types.Named
		for _, name := range tp.Scope().Names() {
			tn, ok := tp.Scope().Lookup(name).(*types.TypeName)
			if !ok {
				continue
			}
			n, ok := tn.Type().(*types.Named)
			if !ok || iface == nil {
				continue
			}
			if _, isI := n.Underlying().(*types.Interface); isI {
				continue
			}
			if types.Implements(n, iface) || types.Implements(types.NewPointer(n), iface) {
				impls = append(impls, n)
			}
		}
		for _, n := range impls {
			st := structOf(n)
			m := c.method(n, "Match")
			if m == nil {
				continue
			}
			switch {
			case st != nil && uniqueField(st, isContSlice) != nil && uniqueField(st, isContMap) != nil:
				c.aliasType("internal/matcher", "options", n)
				c.aliasField(st, "options", uniqueField(st, isContSlice))
				c.aliasField(st, "index", uniqueField(st, isContMap))
				// the helper called by Match
				for _, f := range c.methodsOf(n) {
					if f != m && f.Signature.Results().Len() == 2 && callsStatic(m, f) && f.Name() != "try" && c.method(n, "try") == nil {
						c.aliasFn("internal/matcher", "options.try", f)
					}
				}
			case st != nil && uniqueField(st, isCont) != nil && uniqueField(st, isContMap) != nil:
				c.aliasType("internal/matcher", "opt", n)
				c.aliasField(st, "theOne", uniqueField(st, isCont))
				c.aliasField(st, "index", uniqueField(st, isContMap))
			case st != nil && st.NumFields() == 1 && isCont(st.Field(0).Type()):
				c.aliasType("internal/matcher", "arg", n)
				c.aliasField(st, "arg", st.Field(0))
			case st == nil:
				// basic-kind singletons: the one whose Match stores to the context is optsEnd
				stores := false
				ir.Instrs(m, func(in ssa.Instruction) {
					if _, ok := in.(*ssa.Store); ok {
						stores = true
					}
				})
				if stores {
					c.aliasType("internal/matcher", "optsEnd", n)
				} else {
					c.aliasType("internal/matcher", "shortcut", n)
				}
			}
		}
	}

	// ---------- parser ----------
	if parse := exportedFn(p, "internal/parser", "Parse"); parse != nil {
		var inner *ssa.Function
		var lit *ssa.Alloc
		for _, call := range ir.Calls(parse) {
			if f := ir.Static(call); f != nil && f.Pkg == parse.Pkg && f.Signature.Recv() != nil {
				inner = f
			}
		}
		ir.Instrs(parse, func(in ssa.Instruction) {
			if al, ok := in.(*ssa.Alloc); ok && al.Comment == "complit" {
				lit = al
			}
		})
		if inner != nil {
			rt := inner.Signature.Recv().Type()
			if pt, ok := rt.(*types.Pointer); ok {
				rt = pt.Elem()
			}
			pn, _ := rt.(*types.Named)
			c.aliasType("internal/parser", "parser", pn)
			st := structOf(pn)
			if inner.Name() != "parse" {
				c.aliasFn("internal/parser", "parser.parse", inner)
			}
			if st != nil && lit != nil {
				// fields initialised from Params.X get the lower-case role names
				roles := map[string]string{"Spec": "spec", "Options": "options", "OptionsIdx": "optionsIdx", "Args": "args", "ArgsIdx": "argsIdx"}
				fields, _ := litFields(lit)
				for fname, vs := range fields {
					if len(vs) != 1 {
						continue
					}
					if _, pf, ok := structFieldSource(vs[0]); ok {
						if role, known := roles[pf]; known {
							for i := 0; i < st.NumFields(); i++ {
								if st.Field(i).Name() == fname {
									c.aliasField(st, role, st.Field(i))
								}
							}
						}
					}
				}
				// the parameters kept as one struct-typed field instead of five copies
				if st != nil {
					if pf := uniqueField(st, func(t types.Type) bool { return c.isNamedT(t, "internal/parser", "Params") && !isPtr(t) }); pf != nil {
						c.flatten[pf] = map[string]string{"Spec": "spec", "Options": "options", "OptionsIdx": "optionsIdx", "Args": "args", "ArgsIdx": "argsIdx"}
						c.notes = append(c.notes, "fields of parser."+pf.Name()+" (Params) play the roles of spec/options/optionsIdx/args/argsIdx")
					}
				}
				c.aliasField(st, "tkpos", uniqueField(st, isBasic(types.Int)))
				c.aliasField(st, "rejectOptions", uniqueField(st, isBasic(types.Bool)))
				c.aliasField(st, "matchedToken", uniqueField(st, func(t types.Type) bool { return c.isNamedT(t, "internal/lexer", "Token") && isPtr(t) }))
				c.aliasField(st, "tokens", uniqueField(st, func(t types.Type) bool {
					sl, ok := t.Underlying().(*types.Slice)
					return ok && c.isNamedT(sl.Elem(), "internal/lexer", "Token")
				}))
			}
			if pn != nil {
				c.resolveParserMethods(pn)
			}
		}
	}

	// ---------- root package ----------
	cmdT := c.named("", "Cmd")
	cliT := c.named("", "Cli")
	if cmdST := structOf(cmdT); cmdST != nil {
		c.aliasField(cmdST, "fsm", uniqueField(cmdST, func(t types.Type) bool { return c.isNamedT(t, "internal/fsm", "State") }))
		c.aliasField(cmdST, "commands", uniqueField(cmdST, func(t types.Type) bool {
			sl, ok := t.Underlying().(*types.Slice)
			return ok && c.isNamedT(sl.Elem(), "", "Cmd")
		}))
		c.aliasField(cmdST, "init", uniqueField(cmdST, func(t types.Type) bool { return c.isNamedT(t, "", "CmdInitializer") }))
		// doInit: the function storing the *fsm.State field
		var doInit *ssa.Function
		for _, fn := range funcsOf(p, "") {
			ir.Instrs(fn, func(in ssa.Instruction) {
				if st, ok := in.(*ssa.Store); ok {
					if fa, isFA := st.Addr.(*ssa.FieldAddr); isFA {
						if c.isNamedT(fa.X.Type(), "", "Cmd") && c.isNamedT(st.Val.Type(), "internal/fsm", "State") {
							if _, isAlloc := fa.X.(*ssa.Alloc); !isAlloc {
								doInit = fn
							}
						}
					}
				}
			})
		}
		if doInit != nil && doInit.Name() != "doInit" {
			c.aliasFn("", "Cmd.doInit", doInit)
		}
		// index/list fields from the parser.Params literal in doInit
		if doInit != nil {
			ir.Instrs(doInit, func(in ssa.Instruction) {
				al, ok := in.(*ssa.Alloc)
				if !ok || al.Comment != "complit" || !c.isNamedT(al.Type(), "internal/parser", "Params") {
					return
				}
				roles := map[string]string{"Options": "options", "OptionsIdx": "optionsIdx", "Args": "args", "ArgsIdx": "argsIdx"}
				fields, _ := litFields(al)
				for pf, vs := range fields {
					role, known := roles[pf]
					if !known || len(vs) != 1 {
						continue
					}
					if ld, isLd := vs[0].(*ssa.UnOp); isLd {
						if fa, isFA := ld.X.(*ssa.FieldAddr); isFA && c.isNamedT(fa.X.Type(), "", "Cmd") {
							c.aliasField(cmdST, role, cmdST.Field(fa.Field))
						}
					}
				}
			})
		}
		// Command: aliases <- strings.Fields(param0); name <- aliases[0]; desc <- param1
		if cm := c.method(cmdT, "Command"); cm != nil {
			ir.Instrs(cm, func(in ssa.Instruction) {
				st, ok := in.(*ssa.Store)
				if !ok {
					return
				}
				fa, isFA := st.Addr.(*ssa.FieldAddr)
				if !isFA || !c.isNamedT(fa.X.Type(), "", "Cmd") {
					return
				}
				f := cmdST.Field(fa.Field)
				if call := stdCall(st.Val, "strings", "Fields"); call != nil {
					c.aliasField(cmdST, "aliases", f)
					return
				}
				if ld, isLd := st.Val.(*ssa.UnOp); isLd {
					if ia, isIA := ld.X.(*ssa.IndexAddr); isIA && stdCall(ia.X, "strings", "Fields") != nil {
						c.aliasField(cmdST, "name", f)
					}
				}
				if prm, isP := st.Val.(*ssa.Parameter); isP && len(cm.Params) >= 3 && prm == cm.Params[2] {
					c.aliasField(cmdST, "desc", f)
				}
			})
		}
		// parents: the remaining []string field
		var strSlices []*types.Var
		for i := 0; i < cmdST.NumFields(); i++ {
			if isStringSlice(cmdST.Field(i).Type()) {
				strSlices = append(strSlices, cmdST.Field(i))
			}
		}
		if len(strSlices) == 2 {
			for i, f := range strSlices {
				if c.field[f] == "aliases" || f.Name() == "aliases" {
					c.aliasField(cmdST, "parents", strSlices[1-i])
				}
			}
		}
		// printHelp: method of Cmd with one bool parameter mentioning "Usage:"
		for _, fn := range c.methodsOf(cmdT) {
			if len(fn.Params) == 2 {
				if b, ok := fn.Params[1].Type().(*types.Basic); ok && b.Kind() == types.Bool && mentions(fn, "Usage:") && fn.Name() != "printHelp" {
					c.aliasFn("", "Cmd.printHelp", fn)
				}
			}
		}
		// isAlias: (c *Cmd) f(string) bool ranging over the aliases field
		for _, fn := range c.methodsOf(cmdT) {
			if len(fn.Params) == 2 && fn.Signature.Results().Len() == 1 && fn.Name() != "isAlias" && c.method(cmdT, "isAlias") == nil {
				if b, ok := fn.Signature.Results().At(0).Type().(*types.Basic); ok && b.Kind() == types.Bool {
					reads := false
					ir.Instrs(fn, func(in ssa.Instruction) {
						if fa, isFA := in.(*ssa.FieldAddr); isFA && c.isNamedT(fa.X.Type(), "", "Cmd") {
							f := cmdST.Field(fa.Field)
							if f.Name() == "aliases" || c.field[f] == "aliases" {
								reads = true
							}
						}
					})
					if reads {
						c.aliasFn("", "Cmd.isAlias", fn)
					}
				}
			}
		}
	}
	if cliST := structOf(cliT); cliST != nil {
		vf := uniqueField(cliST, func(t types.Type) bool {
			pt, ok := t.(*types.Pointer)
			if !ok {
				return false
			}
			_, isSt := pt.Elem().Underlying().(*types.Struct)
			return isSt
		})
		c.aliasField(cliST, "version", vf)
		if vf != nil {
			if vn, ok := vf.Type().(*types.Pointer).Elem().(*types.Named); ok {
				c.aliasType("", "cliVersion", vn)
				if vst := structOf(vn); vst != nil {
					c.aliasField(vst, "version", uniqueField(vst, isBasic(types.String)))
					c.aliasField(vst, "option", uniqueField(vst, isCont))
				}
			}
		}
		// Cli.parse: the method of Cli (other than Run) whose parameters include *flow.Step
		for _, fn := range c.methodsOf(cliT) {
			if fn.Name() == "parse" || c.method(cliT, "parse") != nil {
				continue
			}
			for _, prm := range fn.Params {
				if c.isNamedT(prm.Type(), "internal/flow", "Step") {
					c.aliasFn("", "Cli.parse", fn)
					break
				}
			}
		}
	}
	// package variables of the root package by role
	c.resolveRootGlobals()

	// ---------- flow ----------
	if stepT := c.named("internal/flow", "Step"); stepT != nil && c.method(stepT, "callDo") == nil {
		for _, fn := range c.methodsOf(stepT) {
			hasDefer := false
			ir.Instrs(fn, func(in ssa.Instruction) {
				if _, ok := in.(*ssa.Defer); ok {
					hasDefer = true
				}
			})
			if hasDefer {
				c.aliasFn("internal/flow", "Step.callDo", fn)
			}
		}
	}
	defer c.resolveRenamedBySignature()
	defer c.resolveRenamedFields()
	// ---------- lexer ----------
	if peT := c.named("internal/lexer", "ParseError"); peT != nil && c.method(peT, "ident") == nil {
		for _, fn := range c.methodsOf(peT) {
			if fn.Name() == "Error" {
				continue
			}
			slices := false
			ir.Instrs(fn, func(in ssa.Instruction) {
				if _, ok := in.(*ssa.Slice); ok {
					slices = true
				}
			})
			if slices {
				c.aliasFn("internal/lexer", "ParseError.ident", fn)
			}
		}
	}
}

func isPtr(t types.Type) bool { _, ok := t.(*types.Pointer); return ok }

// resolveRenamedFields: a field that the pinned tree's struct of the same (canonical) name does not have
// is the absent field of the same type, matched in declaration order when there are several.
func (c *canonT) resolveRenamedFields() {
	fv := normalize.FieldVocab()
	q := func(p *types.Package) string { return p.Name() }
	// renamed types first: an unknown struct or interface type whose member list is exactly that of one
	// absent type of the same package
	for _, pk := range c.p.Closure {
		sc := pk.Types.Scope()
		sig := func(tn *types.TypeName) (string, bool) {
			var parts []string
			switch u := tn.Type().Underlying().(type) {
			case *types.Interface:
				for i := 0; i < u.NumMethods(); i++ {
					parts = append(parts, normalize.MemberKey(u.Method(i).Name(), u.Method(i).Type(), true))
				}
			case *types.Struct:
				for i := 0; i < u.NumFields(); i++ {
					parts = append(parts, normalize.MemberKey(u.Field(i).Name(), u.Field(i).Type(), false))
				}
			default:
				return "", false
			}
			return strings.Join(parts, "|"), len(parts) > 0
		}
		present := map[string]bool{}
		var unknown []*types.TypeName
		for _, name := range sc.Names() {
			tn, ok := sc.Lookup(name).(*types.TypeName)
			if !ok {
				continue
			}
			cn := ir.TypeNameHook(tn)
			present[cn] = true
			if _, known := fv[pk.Types.Name()+"."+cn]; !known {
				unknown = append(unknown, tn)
			}
		}
		for _, tn := range unknown {
			sg, ok := sig(tn)
			if !ok {
				continue
			}
			var cands []string
			for key, members := range fv {
				if !strings.HasPrefix(key, pk.Types.Name()+".") {
					continue
				}
				nm := strings.TrimPrefix(key, pk.Types.Name()+".")
				if present[nm] {
					continue
				}
				if strings.Join(members, "|") == sg {
					cands = append(cands, nm)
				}
			}
			if len(cands) == 1 {
				if n, isN := tn.Type().(*types.Named); isN {
					c.aliasType(c.p.Rel(pk.PkgPath), cands[0], n)
				}
			}
		}
	}
	for _, pk := range c.p.Closure {
		sc := pk.Types.Scope()
		for _, name := range sc.Names() {
			tn, ok := sc.Lookup(name).(*types.TypeName)
			if !ok {
				continue
			}
			st, ok := tn.Type().Underlying().(*types.Struct)
			if !ok {
				continue
			}
			want, known := fv[pk.Types.Name()+"."+ir.TypeNameHook(tn)]
			if !known {
				continue
			}
			wantName := map[string]string{} // name -> type
			var wantOrder []string
			for _, w := range want {
				i := strings.Index(w, ":")
				wantName[w[:i]] = w[i+1:]
				wantOrder = append(wantOrder, w[:i])
			}
			have := map[string]bool{}
			var unknown []*types.Var
			for i := 0; i < st.NumFields(); i++ {
				f := st.Field(i)
				cn := f.Name()
				if a, ok := c.field[f]; ok {
					cn = a
				}
				have[cn] = true
				if _, ok := wantName[cn]; !ok {
					unknown = append(unknown, f)
				}
			}
			var absent []string
			for _, w := range wantOrder {
				if !have[w] {
					absent = append(absent, w)
				}
			}
			if len(unknown) == 0 || len(absent) == 0 {
				continue
			}
			if len(unknown) == 1 && len(absent) == 1 {
				c.aliasField(st, absent[0], unknown[0])
				continue
			}
			// pair by type, in order
			byTypeU := map[string][]*types.Var{}
			for _, f := range unknown {
				k := types.TypeString(f.Type(), q)
				byTypeU[k] = append(byTypeU[k], f)
			}
			byTypeA := map[string][]string{}
			for _, a := range absent {
				byTypeA[wantName[a]] = append(byTypeA[wantName[a]], a)
			}
			for k, us := range byTypeU {
				as := byTypeA[k]
				if len(as) != len(us) {
					continue
				}
				for i := range us {
					c.aliasField(st, as[i], us[i])
				}
			}
		}
	}
}

// resolveRenamedBySignature: a function that is not in the pinned tree's vocabulary, whose package,
// receiver and signature are those of exactly one vocabulary function that is absent from this tree
// (and it is the only unknown function with that signature) is that function under a new name.
// A wrong guess cannot hide anything: the rules then analyse it in the absent function's role.
func (c *canonT) resolveRenamedBySignature() {
	vocab := normalize.Vocab()
	present := map[string]bool{}
	var unknown []*ssa.Function
	for _, fn := range c.p.ClosureFuncs() {
		if fn.Parent() != nil || fn.Synthetic != "" {
			continue
		}
		qn := ir.QualifiedName(fn)
		present[qn] = true
		if _, ok := vocab[qn]; !ok {
			unknown = append(unknown, fn)
		}
	}
	missing := map[string][]string{}
	for n, sg := range vocab {
		if !present[n] {
			missing[sg] = append(missing[sg], n)
		}
	}
	bySig := map[string][]*ssa.Function{}
	for _, fn := range unknown {
		k := normalize.SigKey(fn)
		bySig[k] = append(bySig[k], fn)
	}
	// several renamed functions with one signature: pair them by name similarity when that is unambiguous
	for sg, fns := range bySig {
		ms := missing[sg]
		if len(fns) < 2 || len(fns) != len(ms) {
			continue
		}
		base := func(q string) string {
			if i := strings.LastIndex(q, "."); i >= 0 {
				return q[i+1:]
			}
			return q
		}
		score := func(a, b string) int {
			a, b = strings.ToLower(a), strings.ToLower(b)
			n := 0
			for n < len(a) && n < len(b) && a[n] == b[n] {
				n++
			}
			m := 0
			for m < len(a)-n && m < len(b)-n && a[len(a)-1-m] == b[len(b)-1-m] {
				m++
			}
			return n + m
		}
		pairs := map[*ssa.Function]string{}
		usedM := map[string]bool{}
		okAll := true
		for _, fn := range fns {
			best, bestScore, tie := "", -1, false
			for _, m := range ms {
				sc := score(fn.Name(), base(m))
				if sc > bestScore {
					best, bestScore, tie = m, sc, false
				} else if sc == bestScore {
					tie = true
				}
			}
			if tie || bestScore < 3 || usedM[best] {
				okAll = false
				break
			}
			usedM[best] = true
			pairs[fn] = best
		}
		if !okAll {
			continue
		}
		for fn, qn := range pairs {
			key := relOfVocabName(c.p, qn)
			if key == "" {
				continue
			}
			if _, taken := c.fn[key]; taken {
				continue
			}
			if _, aliased := c.fnName[fn]; aliased {
				continue
			}
			c.fn[key] = fn
			c.fnName[fn] = qn
			c.notes = append(c.notes, "function "+ir.RawQualifiedName(fn)+" plays the role of "+qn+" (same signature, closest name)")
		}
	}
	for sg, fns := range bySig {
		if len(fns) != 1 || len(missing[sg]) != 1 {
			continue
		}
		fn, qn := fns[0], missing[sg][0]
		// qn is "pkg.name", "pkg.(*T).m" or "pkg.T.m"
		i := strings.Index(qn, ".")
		if i < 0 || fn.Pkg == nil {
			continue
		}
		rest := qn[i+1:]
		rest = strings.Replace(rest, "(*", "", 1)
		rest = strings.Replace(rest, ")", "", 1)
		rel := c.p.Rel(fn.Pkg.Pkg.Path())
		if _, taken := c.fn[rel+":"+rest]; taken {
			continue
		}
		if _, aliased := c.fnName[fn]; aliased {
			continue
		}
		c.aliasFn(rel, rest, fn)
	}
	// a function moved to another package under its own name: same name, receiver and signature
	{
		dropPkg := func(sg string) string {
			if i := strings.Index(sg, "|"); i >= 0 {
				return sg[i:]
			}
			return sg
		}
		baseName := func(q string) string {
			if i := strings.Index(q, "."); i >= 0 {
				return q[i+1:]
			}
			return q
		}
		for _, fn := range unknown {
			if _, aliased := c.fnName[fn]; aliased || fn.Signature.Recv() != nil {
				continue
			}
			var cands []string
			for n, sg := range vocab {
				if present[n] || baseName(n) != fn.Name() {
					continue
				}
				if dropPkg(sg) == dropPkg(normalize.SigKey(fn)) {
					cands = append(cands, n)
				}
			}
			if len(cands) != 1 {
				continue
			}
			key := relOfVocabName(c.p, cands[0])
			if key == "" {
				continue
			}
			if _, taken := c.fn[key]; taken {
				continue
			}
			c.fn[key] = fn
			c.fnName[fn] = cands[0]
			c.notes = append(c.notes, "function "+ir.RawQualifiedName(fn)+" plays the role of "+cands[0]+" (moved to another package)")
		}
	}
	// second pass: a method whose receiver was dropped (or added): same package, parameters and results
	strip := func(sg string) string {
		parts := strings.SplitN(sg, "|", 3)
		if len(parts) != 3 {
			return sg
		}
		return parts[0] + "||" + parts[2]
	}
	missing2 := map[string][]string{}
	for n, sg := range vocab {
		if !present[n] {
			if _, taken := c.fn[relOfVocabName(c.p, n)]; !taken {
				missing2[strip(sg)] = append(missing2[strip(sg)], n)
			}
		}
	}
	bySig2 := map[string][]*ssa.Function{}
	for _, fn := range unknown {
		if _, aliased := c.fnName[fn]; aliased {
			continue
		}
		k := strip(normalize.SigKey(fn))
		bySig2[k] = append(bySig2[k], fn)
	}
	for sg, fns := range bySig2 {
		if len(fns) != 1 || len(missing2[sg]) != 1 {
			continue
		}
		fn, qn := fns[0], missing2[sg][0]
		key := relOfVocabName(c.p, qn)
		if key == "" {
			continue
		}
		c.fn[key] = fn
		c.fnName[fn] = qn
		c.notes = append(c.notes, "function "+ir.RawQualifiedName(fn)+" plays the role of "+qn+" (receiver dropped or added)")
	}
}

// relOfVocabName turns "pkg.(*T).m" into the canon key "rel:T.m".
func relOfVocabName(p *load.Program, qn string) string {
	i := strings.Index(qn, ".")
	if i < 0 {
		return ""
	}
	pkg, rest := qn[:i], qn[i+1:]
	rest = strings.Replace(rest, "(*", "", 1)
	rest = strings.Replace(rest, ")", "", 1)
	for _, pk := range p.Closure {
		if pk.Types.Name() == pkg {
			return p.Rel(pk.PkgPath) + ":" + rest
		}
	}
	return ""
}

func exportedFn(p *load.Program, rel, name string) *ssa.Function {
	sp := p.SPkg(rel)
	if sp == nil {
		return nil
	}
	f, _ := sp.Members[name].(*ssa.Function)
	return f
}

func mentions(fn *ssa.Function, s string) bool {
	found := false
	ir.Instrs(fn, func(in ssa.Instruction) {
		for _, op := range in.Operands(nil) {
			if cs, ok := ir.ConstString(*op); ok && strings.Contains(cs, s) {
				found = true
			}
		}
	})
	return found
}

// resolveParserMethods finds the parser's helper methods by what they do.
func (c *canonT) resolveParserMethods(pn *types.Named) {
	st := structOf(pn)
	if st == nil {
		return
	}
	fieldRole := func(fa *ssa.FieldAddr) string {
		f := st.Field(fa.Field)
		if a, ok := c.field[f]; ok {
			return a
		}
		return f.Name()
	}
	isKind := func(t types.Type) bool { return c.isNamedT(t, "internal/lexer", "TokenType") }
	have := func(n string) bool { return c.method(pn, n) != nil }
	var found, is, eof, back, tokenFn *ssa.Function
	for _, fn := range c.methodsOf(pn) {
		storesPos := 0 // +1 / -1
		ir.Instrs(fn, func(in ssa.Instruction) {
			if s, ok := in.(*ssa.Store); ok {
				if fa, isFA := s.Addr.(*ssa.FieldAddr); isFA && fieldRole(fa) == "tkpos" {
					if bo, isBo := s.Val.(*ssa.BinOp); isBo {
						if bo.Op == token.ADD {
							storesPos = 1
						} else if bo.Op == token.SUB {
							storesPos = -1
						}
					}
				}
			}
		})
		sig := fn.Signature
		switch {
		case sig.Params().Len() == 1 && isKind(sig.Params().At(0).Type()) && sig.Results().Len() == 1 && storesPos == 1:
			found = fn
		case sig.Params().Len() == 1 && isKind(sig.Params().At(0).Type()) && sig.Results().Len() == 1 && storesPos == 0:
			is = fn
		case sig.Params().Len() == 0 && sig.Results().Len() == 0 && storesPos == -1:
			back = fn
		case sig.Params().Len() == 0 && sig.Results().Len() == 1 && c.isNamedT(sig.Results().At(0).Type(), "internal/lexer", "Token"):
			tokenFn = fn
		}
	}
	for _, fn := range c.methodsOf(pn) {
		sig := fn.Signature
		if sig.Params().Len() == 0 && sig.Results().Len() == 1 {
			if b, ok := sig.Results().At(0).Type().(*types.Basic); ok && b.Kind() == types.Bool && len(ir.Calls(fn)) == 1 {
				// len(tokens) comparison only
				eof = fn
			}
		}
	}
	set := func(name string, f *ssa.Function) {
		if f != nil && !have(name) {
			c.aliasFn("internal/parser", "parser."+name, f)
		}
	}
	set("found", found)
	set("is", is)
	set("back", back)
	set("token", tokenFn)
	if eof != nil && (found == nil || !callsStatic(eof, found)) && (is == nil || !callsStatic(eof, is)) {
		set("eof", eof)
	}
	for _, fn := range c.methodsOf(pn) {
		sig := fn.Signature
		twoStates := sig.Results().Len() == 2 && c.isNamedT(sig.Results().At(0).Type(), "internal/fsm", "State")
		switch {
		case sig.Params().Len() == 1 && isKind(sig.Params().At(0).Type()) && sig.Results().Len() == 0:
			set("expect", fn)
		case twoStates && sig.Params().Len() == 1:
			set("seq", fn)
		case twoStates && sig.Params().Len() == 0:
			// atom tests many kinds with found; choice calls atom
			n := 0
			for _, call := range ir.Calls(fn) {
				if f := ir.Static(call); f != nil && (f == found) {
					n++
				}
			}
			if n >= 6 {
				set("atom", fn)
			} else {
				set("choice", fn)
			}
		case sig.Params().Len() == 0 && sig.Results().Len() == 1 && is != nil && callsStatic(fn, is):
			set("canAtom", fn)
		}
	}
}

// resolveRootGlobals finds stdErr/stdOut and the two sentinel errors by role.
func (c *canonT) resolveRootGlobals() {
	sp := c.p.SPkg("")
	if sp == nil {
		return
	}
	have := func(n string) bool { _, ok := sp.Members[n].(*ssa.Global); return ok }
	var init *ssa.Function
	if f, ok := sp.Members["init"].(*ssa.Function); ok {
		init = f
	}
	if init != nil && (!have("stdErr") || !have("stdOut")) {
		ir.Instrs(init, func(in ssa.Instruction) {
			st, ok := in.(*ssa.Store)
			if !ok {
				return
			}
			g, isG := st.Addr.(*ssa.Global)
			if !isG {
				return
			}
			v := ir.Unwrap(st.Val)
			if ld, isLd := v.(*ssa.UnOp); isLd {
				if og, isOG := ld.X.(*ssa.Global); isOG && og.Pkg != nil && og.Pkg.Pkg.Path() == "os" {
					switch og.Name() {
					case "Stderr":
						if !have("stdErr") {
							rootGlobalAlias["stdErr"] = g
						}
					case "Stdout":
						if !have("stdOut") {
							rootGlobalAlias["stdOut"] = g
						}
					}
				}
			}
		})
	}
	// sentinels: error-typed globals compared in the policy switch; the one loaded by a method of Cli is the version one
	if !have("errHelpRequested") || !have("errVersionRequested") {
		errT := types.Universe.Lookup("error").Type()
		var sentinels []*ssa.Global
		for _, m := range sp.Members {
			if g, ok := m.(*ssa.Global); ok && types.Identical(g.Type().(*types.Pointer).Elem(), errT) {
				sentinels = append(sentinels, g)
			}
		}
		if len(sentinels) == 2 {
			cliT := c.named("", "Cli")
			for i, g := range sentinels {
				usedByCli := false
				for _, fn := range c.methodsOf(cliT) {
					ir.Instrs(fn, func(in ssa.Instruction) {
						if ld, ok := in.(*ssa.UnOp); ok && ld.X == ssa.Value(g) {
							usedByCli = true
						}
					})
				}
				if usedByCli {
					rootGlobalAlias["errVersionRequested"] = g
					rootGlobalAlias["errHelpRequested"] = sentinels[1-i]
				}
			}
		}
	}
}

// rootGlobalAlias maps canonical names of root package variables to the actual global.
var rootGlobalAlias = map[string]*ssa.Global{}

// CanonicalName returns a function giving canonical qualified names for program p.
func CanonicalName(p *load.Program) func(*ssa.Function) string {
	setupCanon(p)
	return func(f *ssa.Function) string { return ir.QualifiedName(f) }
}

// CanonNotes lists the role resolutions made for program p.
func CanonNotes(p *load.Program) []string {
	setupCanon(p)
	return append([]string(nil), canon.notes...)
}
