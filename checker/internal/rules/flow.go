package rules

import (
	"fmt"
	"go/token"
	"go/types"
	"sort"
	"strings"

	"golang.org/x/tools/go/ssa"

	"verif/checker/internal/ir"
)

func init() {
	register(&Rule{ID: "FLOW-1", Props: []string{"C05", "C04"}, Floor: 5,
		Doc: "wiring of the hook chain: Before.Error=outer After, Before chained from the outer Before; After.Success=After.Error=outer After; Action.Success=Action.Error=own After, chained from own Before; the descent hands (own Before, own After) down; Run starts from two Do-less steps", Run: flow1})
	register(&Rule{ID: "FLOW-2", Props: []string{"C05"}, Floor: 5,
		Doc: "Step.Run evaluated for every combination of {Success set?, value nil/ExitCode/other, Exiter set?}: callDo first; then Success.Run(p) | return | Exiter(int(code)) | panic(p)", Run: flow2})
	register(&Rule{ID: "FLOW-3", Props: []string{"C05"}, Floor: 4,
		Doc: "callDo: nothing if Do is nil; otherwise Do runs after a defer whose closure recovers and hands the *recovered* value to Error.Run", Run: flow3})
	register(&Rule{ID: "FLOW-4", Props: []string{"C05"}, Floor: 1,
		Doc: "cli.Exit(n) panics with flow.ExitCode(n)", Run: flow4})
	register(&Rule{ID: "FLOW-5", Props: []string{"C05"}, Floor: 5,
		Doc: "every Step literal of the root package carries the exiter indirection", Run: flow5})
}

// stepLits returns the flow.Step composite literals of fn.
func (c *Ctx) stepLits(fn *ssa.Function) []*ssa.Alloc {
	var out []*ssa.Alloc
	ir.Instrs(fn, func(in ssa.Instruction) {
		if al, ok := in.(*ssa.Alloc); ok && al.Comment == "complit" && c.isNamed(al.Type().(*types.Pointer).Elem(), "internal/flow", "Step") {
			out = append(out, al)
		}
	})
	return out
}

func single(fields map[string][]ssa.Value, name string) ssa.Value {
	if len(fields[name]) == 1 {
		return fields[name][0]
	}
	return nil
}

func flow1(c *Ctx) {
	fn := c.dispatch()
	if fn == nil {
		c.Undecided("anchor:dispatch", token.NoPos, "not found")
		return
	}
	c.Mark(fn)
	recv := fn.Params[0]
	inFlow, outFlow, entry := ir.ParamNamed(fn, "inFlow"), ir.ParamNamed(fn, "outFlow"), ir.ParamNamed(fn, "entry")
	if inFlow == nil || outFlow == nil || entry == nil {
		// fall back on position: (args, entry, in, out)
		var steps []*ssa.Parameter
		for _, p := range fn.Params {
			if c.isNamed(p.Type(), "internal/flow", "Step") {
				steps = append(steps, p)
			}
		}
		if len(steps) != 3 {
			c.Undecided(Q(fn)+":params", fn.Pos(), "expected three *flow.Step parameters (entry, in, out)")
			return
		}
		entry, inFlow, outFlow = steps[0], steps[1], steps[2]
	}
	var before, after, action *ssa.Alloc
	fieldsOf := map[*ssa.Alloc]map[string][]ssa.Value{}
	for _, al := range c.stepLits(fn) {
		f, _ := litFields(al)
		// later stores to fields through FieldAddr are included by litFields
		fieldsOf[al] = f
		do := single(f, "Do")
		if do == nil {
			c.Bad(Q(fn)+":step-without-Do", al.Pos(), "a step literal of the dispatch function has no single Do")
			continue
		}
		b, name, ok := ir.FieldLoad(do)
		if !ok || b != ssa.Value(recv) {
			c.Bad(Q(fn)+":step-Do", al.Pos(), "a step's Do is not one of the command's own hooks")
			continue
		}
		switch name {
		case "Before":
			before = al
		case "After":
			after = al
		case "Action":
			action = al
		default:
			c.Bad(Q(fn)+":step-Do", al.Pos(), "a step runs %s, which is not a hook", name)
		}
	}
	if before == nil || after == nil || action == nil {
		c.Bad(Q(fn)+":steps", fn.Pos(), "expected a Before, an After and an Action step")
		return
	}
	// Before
	{
		f := fieldsOf[before]
		var problems []string
		if single(f, "Error") != ssa.Value(outFlow) {
			problems = append(problems, "a failing Before must continue with the enclosing level's After chain (Error = outFlow)")
		}
		// Success: set only to the Action step (at the leaf); the descent reaches the child's Before through inFlow.Success
		for _, v := range f["Success"] {
			if v != ssa.Value(action) {
				problems = append(problems, "Before.Success is set to something other than this command's Action step")
			}
		}
		// chained from the outer Before
		chained := false
		ir.Instrs(fn, func(in ssa.Instruction) {
			if st, ok := in.(*ssa.Store); ok && st.Val == ssa.Value(before) {
				if b, fld, isF := ir.FieldAddr(st.Addr); isF && fld == "Success" && b == ssa.Value(inFlow) {
					chained = true
				}
			}
		})
		if !chained {
			problems = append(problems, "the Before step is not chained after the enclosing level's Before (inFlow.Success)")
		}
		reportP(c, Q(fn)+":Before-step", before.Pos(), problems, "Do=Before, Error=outFlow, chained from inFlow.Success")
	}
	{
		f := fieldsOf[after]
		var problems []string
		if single(f, "Success") != ssa.Value(outFlow) {
			problems = append(problems, "After.Success is not the enclosing level's After chain")
		}
		if single(f, "Error") != ssa.Value(outFlow) {
			problems = append(problems, "a failing After must still continue with the enclosing level's After chain (Error = outFlow)")
		}
		reportP(c, Q(fn)+":After-step", after.Pos(), problems, "Do=After, Success=Error=outFlow")
	}
	{
		f := fieldsOf[action]
		var problems []string
		if single(f, "Success") != ssa.Value(after) {
			problems = append(problems, "Action.Success is not this command's After step")
		}
		if single(f, "Error") != ssa.Value(after) {
			problems = append(problems, "a failing Action must continue with this command's own After (Error = own After step)")
		}
		if len(fieldsOf[before]["Success"]) != 1 || fieldsOf[before]["Success"][0] != ssa.Value(action) {
			problems = append(problems, "the Action step is not chained after this command's Before")
		}
		reportP(c, Q(fn)+":Action-step", action.Pos(), problems, "Do=Action, Success=Error=own After, chained from own Before")
	}
	// descent
	nDesc := 0
	for _, call := range ir.Calls(fn) {
		cv, ok := call.(*ssa.Call)
		if !ok || ir.Static(cv) != fn {
			continue
		}
		a := cv.Call.Args
		if ir.IsNilConst(a[len(a)-1]) && ir.IsNilConst(a[len(a)-2]) {
			continue // help descent: no hooks (CMD-3)
		}
		nDesc++
		var problems []string
		if a[len(a)-3] != ssa.Value(entry) {
			problems = append(problems, "the entry step is not passed through")
		}
		if a[len(a)-2] != ssa.Value(before) {
			problems = append(problems, "the child's inFlow is not this command's Before step")
		}
		if a[len(a)-1] != ssa.Value(after) {
			problems = append(problems, "the child's outFlow is not this command's After step")
		}
		reportP(c, Q(fn)+":descent-flow", cv.Pos(), problems, "the child gets (entry, own Before, own After)")
	}
	if nDesc == 0 {
		c.Bad(Q(fn)+":descent-flow", fn.Pos(), "no descent hands the hook chain down")
	}
	// Run
	run := c.fnOpt("", "Cli.Run")
	if run == nil {
		c.Undecided("anchor:Cli.Run", token.NoPos, "not found")
		return
	}
	c.Mark(run)
	lits := c.stepLits(run)
	var problems []string
	if len(lits) != 2 {
		problems = append(problems, fmt.Sprintf("%d step literals, expected 2", len(lits)))
	} else {
		for _, al := range lits {
			f, _ := litFields(al)
			for _, name := range []string{"Do", "Success", "Error"} {
				if len(f[name]) != 0 {
					problems = append(problems, "a root step has "+name+" set")
				}
			}
		}
		okCall := false
		for _, call := range ir.Calls(run) {
			cv, ok := call.(*ssa.Call)
			if !ok {
				continue
			}
			a := cv.Call.Args
			if len(a) >= 4 && c.isNamed(a[len(a)-1].Type(), "internal/flow", "Step") {
				in, out := a[len(a)-2], a[len(a)-1]
				en := a[len(a)-3]
				if en == in && in != out && (in == ssa.Value(lits[0]) || in == ssa.Value(lits[1])) && (out == ssa.Value(lits[0]) || out == ssa.Value(lits[1])) {
					okCall = true
				}
			}
		}
		if !okCall {
			problems = append(problems, "the parse is not started with (entry=in=first root step, out=second root step)")
		}
	}
	reportP(c, Q(run)+":root-steps", run.Pos(), problems, "two Do-less steps; the first is entry and inFlow, the second outFlow")
}

func reportP(c *Ctx, key string, pos token.Pos, problems []string, okText string) {
	sort.Strings(problems)
	if len(problems) > 0 {
		c.Bad(key, pos, "%s", strings.Join(problems, "; "))
	} else {
		c.OK(key, pos, "%s", okText)
	}
}

// ---------- scenario walker ----------

type walkEvent struct {
	what string
	args []ssa.Value
}

// scenarioWalk executes fn's CFG from the entry for one scenario. cond
// evaluates branch conditions; step handles non-branch instructions and may
// return an event, stop the walk, or report an error.
func scenarioWalk(fn *ssa.Function, cond func(v ssa.Value) (bool, bool), step func(in ssa.Instruction) (ev *walkEvent, stop bool, err string)) ([]walkEvent, string) {
	return scenarioWalkFrom(fn.Blocks[0], cond, step)
}

// scenarioWalkFrom is scenarioWalk starting at block b.
func scenarioWalkFrom(b *ssa.BasicBlock, cond func(v ssa.Value) (bool, bool), step func(in ssa.Instruction) (ev *walkEvent, stop bool, err string)) ([]walkEvent, string) {
	var evs []walkEvent
	var prev *ssa.BasicBlock
	for n := 0; n < 300; n++ {
		cur := b
		for _, in := range b.Instrs {
			switch x := in.(type) {
			case *ssa.If:
				cv := x.Cond
				// a flag merged at this join (the result variable of an inlined helper): the value it has
				// on the way we came
				for depth := 0; depth < 4; depth++ {
					phi, isPhi := cv.(*ssa.Phi)
					if !isPhi || phi.Block() != cur || prev == nil {
						break
					}
					for i, pb := range cur.Preds {
						if pb == prev {
							cv = phi.Edges[i]
						}
					}
				}
				t, ok := false, false
				if k, isC := ir.ConstBool(cv); isC {
					t, ok = k, true
				} else {
					t, ok = cond(cv)
				}
				if !ok {
					return evs, fmt.Sprintf("condition `%s` cannot be evaluated for this scenario", x.Cond)
				}
				prev = cur
				if t {
					b = b.Succs[0]
				} else {
					b = b.Succs[1]
				}
			case *ssa.Jump:
				prev = cur
				b = b.Succs[0]
			case *ssa.Return:
				evs = append(evs, walkEvent{what: "return"})
				return evs, ""
			case *ssa.Panic:
				evs = append(evs, walkEvent{what: "panic", args: []ssa.Value{x.X}})
				return evs, ""
			default:
				ev, stop, err := step(in)
				if err != "" {
					return evs, err
				}
				if ev != nil {
					evs = append(evs, *ev)
				}
				if stop {
					return evs, ""
				}
			}
		}
	}
	return evs, "walk did not terminate"
}

func flow2(c *Ctx) {
	fn := c.fnOpt("internal/flow", "Step.Run")
	callDo := c.fnOpt("internal/flow", "Step.callDo")
	if fn == nil {
		c.Undecided("anchor:flow.Step.Run", token.NoPos, "not found")
		return
	}
	c.Mark(fn)
	s, p := fn.Params[0], fn.Params[1]
	type scen struct {
		success bool
		val     string // nil | exit | other
		exiter  bool
	}
	var scens []scen
	for _, su := range []bool{true, false} {
		for _, v := range []string{"nil", "exit", "other"} {
			for _, ex := range []bool{true, false} {
				scens = append(scens, scen{su, v, ex})
			}
		}
	}
	for _, sc := range scens {
		key := fmt.Sprintf("%s[Success=%v,p=%s,Exiter=%v]", Q(fn), sc.success, sc.val, sc.exiter)
		isFieldNonNil := func(v ssa.Value, field string) (neq bool, ok bool) {
			bo, isBo := v.(*ssa.BinOp)
			if !isBo || !(bo.Op == token.NEQ || bo.Op == token.EQL) || !ir.IsNilConst(bo.Y) {
				return false, false
			}
			b, f, isF := ir.FieldLoad(bo.X)
			if !isF || f != field || b != ssa.Value(s) {
				return false, false
			}
			return bo.Op == token.NEQ, true
		}
		cond := func(v ssa.Value) (bool, bool) {
			if neq, ok := isFieldNonNil(v, "Success"); ok {
				return neq == sc.success, true
			}
			if neq, ok := isFieldNonNil(v, "Exiter"); ok {
				return neq == sc.exiter, true
			}
			if bo, ok := v.(*ssa.BinOp); ok && (bo.Op == token.EQL || bo.Op == token.NEQ) && bo.X == ssa.Value(p) && ir.IsNilConst(bo.Y) {
				isNil := sc.val == "nil"
				return (bo.Op == token.EQL) == isNil, true
			}
			if ex, ok := v.(*ssa.Extract); ok && ex.Index == 1 {
				if ta, isTA := ex.Tuple.(*ssa.TypeAssert); isTA && ta.X == ssa.Value(p) {
					if _, n := ir.NamedOf(ta.AssertedType); n == "ExitCode" {
						return sc.val == "exit", true
					}
				}
			}
			return false, false
		}
		step := func(in ssa.Instruction) (*walkEvent, bool, string) {
			call, ok := in.(*ssa.Call)
			if !ok {
				if _, isSt := in.(*ssa.Store); isSt {
					return nil, false, "unexpected store in Step.Run"
				}
				if _, isD := in.(*ssa.Defer); isD {
					return nil, false, "unexpected defer in Step.Run"
				}
				return nil, false, ""
			}
			if f := ir.Static(call); f != nil {
				if f == callDo && callDo != nil {
					return &walkEvent{"callDo", call.Call.Args}, false, ""
				}
				if f == fn {
					return &walkEvent{"Run", call.Call.Args}, false, ""
				}
				return nil, false, "unexpected call to " + f.Name()
			}
			if _, isB := call.Call.Value.(*ssa.Builtin); isB {
				return nil, false, ""
			}
			if _, f, isF := ir.FieldLoad(call.Call.Value); isF && f == "Exiter" {
				// the code handed up through a result variable: the one value it can have at this call
				args := append([]ssa.Value{}, call.Call.Args...)
				for i, a := range args {
					for depth := 0; depth < 3; depth++ {
						inner := stripConv(a)
						if _, isPhi := inner.(*ssa.Phi); !isPhi {
							break
						}
						vs := ir.PhiValuesAt(inner, call.Block())
						if len(vs) != 1 {
							break
						}
						a = vs[0]
					}
					args[i] = a
				}
				return &walkEvent{"Exiter", args}, false, ""
			}
			return nil, false, "unexpected dynamic call"
		}
		evs, why := scenarioWalk(fn, cond, step)
		if why != "" {
			c.Undecided(key, fn.Pos(), "%s", why)
			continue
		}
		var got []string
		for _, e := range evs {
			switch e.what {
			case "callDo":
				if len(e.args) == 2 && e.args[0] == ssa.Value(s) && e.args[1] == ssa.Value(p) {
					got = append(got, "callDo(p)")
				} else {
					got = append(got, "callDo(?)")
				}
			case "Run":
				if b, f, ok := ir.FieldLoad(e.args[0]); ok && f == "Success" && b == ssa.Value(s) && e.args[1] == ssa.Value(p) {
					got = append(got, "Success.Run(p)")
				} else {
					got = append(got, "Run(?)")
				}
			case "Exiter":
				a := stripConv(e.args[0])
				if ex, ok := a.(*ssa.Extract); ok && ex.Index == 0 {
					if ta, isTA := ex.Tuple.(*ssa.TypeAssert); isTA && ta.X == ssa.Value(p) {
						got = append(got, "Exiter(int(code))")
						continue
					}
				}
				got = append(got, "Exiter(?)")
			case "panic":
				if ir.Unwrap(e.args[0]) == ssa.Value(p) {
					got = append(got, "panic(p)")
				} else {
					got = append(got, "panic(?)")
				}
			default:
				got = append(got, e.what)
			}
		}
		want := "callDo(p) "
		switch {
		case sc.success:
			want += "Success.Run(p) return"
		case sc.val == "nil":
			want += "return"
		case sc.val == "exit" && sc.exiter:
			want += "Exiter(int(code)) return"
		case sc.val == "exit":
			want += "return"
		default:
			want += "panic(p)"
		}
		g := strings.Join(got, " ")
		c.Check(g == want, key, fn.Pos(), g, fmt.Sprintf("behaves as %q, expected %q", g, want))
	}
}

func flow3(c *Ctx) {
	fn := c.fnOpt("internal/flow", "Step.callDo")
	run := c.fnOpt("internal/flow", "Step.Run")
	if fn == nil || run == nil {
		c.Undecided("anchor:flow.Step.callDo", token.NoPos, "not found")
		return
	}
	c.Mark(fn)
	// s and p are spilled to cells because the closure captures them
	s := fn.Params[0]
	cellOf := func(p *ssa.Parameter) *ssa.Alloc {
		for _, u := range *p.Referrers() {
			if st, ok := u.(*ssa.Store); ok && st.Val == ssa.Value(p) {
				if al, isAl := st.Addr.(*ssa.Alloc); isAl {
					return al
				}
			}
		}
		return nil
	}
	sCell, pCell := cellOf(s), cellOf(fn.Params[1])
	isS := func(v ssa.Value) bool {
		if v == ssa.Value(s) {
			return true
		}
		if ld, ok := v.(*ssa.UnOp); ok && ld.Op == token.MUL {
			if al := ir.CellAlloc(ld.X); al != nil && al == sCell {
				return true
			}
		}
		return false
	}
	isDo := func(v ssa.Value) bool {
		b, f, ok := ir.FieldLoad(v)
		return ok && f == "Do" && isS(b)
	}
	for _, doNil := range []bool{true, false} {
		key := fmt.Sprintf("%s[Do nil=%v]", Q(fn), doNil)
		cond := func(v ssa.Value) (bool, bool) {
			bo, ok := v.(*ssa.BinOp)
			if ok && (bo.Op == token.EQL || bo.Op == token.NEQ) && ir.IsNilConst(bo.Y) && isDo(bo.X) {
				return (bo.Op == token.EQL) == doNil, true
			}
			return false, false
		}
		step := func(in ssa.Instruction) (*walkEvent, bool, string) {
			switch x := in.(type) {
			case *ssa.Defer:
				if mc, ok := x.Call.Value.(*ssa.MakeClosure); ok {
					return &walkEvent{"defer", []ssa.Value{mc}}, false, ""
				}
				if f := x.Call.StaticCallee(); f != nil && f.Pkg == fn.Pkg {
					return &walkEvent{"defer", nil}, false, ""
				}
				return nil, false, "defers something other than a closure or a function of the package"
			case *ssa.Call:
				if _, isB := x.Call.Value.(*ssa.Builtin); isB {
					return nil, false, ""
				}
				if isDo(x.Call.Value) {
					return &walkEvent{"Do", nil}, false, ""
				}
				return nil, false, "unexpected call in callDo"
			case *ssa.RunDefers:
				return &walkEvent{"rundefers", nil}, false, ""
			}
			return nil, false, ""
		}
		evs, why := scenarioWalk(fn, cond, step)
		if why != "" {
			c.Undecided(key, fn.Pos(), "%s", why)
			continue
		}
		var got []string
		for _, e := range evs {
			got = append(got, e.what)
		}
		g := strings.Join(got, " ")
		want := "defer Do rundefers return"
		if doNil {
			want = "rundefers return"
		}
		c.Check(g == want, key, fn.Pos(), g, fmt.Sprintf("behaves as %q, expected %q", g, want))
	}
	// the deferred function: a closure capturing s and p, or a function/method given them as arguments
	var clo *ssa.Function
	var dArgs []ssa.Value // arguments of a deferred non-closure (receiver first)
	ir.Instrs(fn, func(in ssa.Instruction) {
		if d, ok := in.(*ssa.Defer); ok {
			if mc, isMC := d.Call.Value.(*ssa.MakeClosure); isMC {
				clo, _ = mc.Fn.(*ssa.Function)
			} else if f := d.Call.StaticCallee(); f != nil {
				clo = f
				dArgs = d.Call.Args
			}
		}
	})
	if clo == nil {
		c.Bad(Q(fn)+":deferred", fn.Pos(), "no deferred closure")
		return
	}
	c.Mark(clo)
	var rec *ssa.Call
	for _, call := range ir.Calls(clo) {
		if b, ok := call.Common().Value.(*ssa.Builtin); ok && b.Name() == "recover" {
			rec, _ = call.(*ssa.Call)
		}
	}
	if rec == nil {
		c.Bad(Q(fn)+":deferred", clo.Pos(), "the deferred function does not call recover() itself")
		return
	}
	pParam := fn.Params[1]
	// which values of the deferred function stand for s and p
	standsFor := func(v ssa.Value, cell *ssa.Alloc, param *ssa.Parameter) bool {
		if ld, isLd := v.(*ssa.UnOp); isLd && ld.Op == token.MUL && cell != nil && ir.CellAlloc(ld.X) == cell {
			return true
		}
		if prm, isP := v.(*ssa.Parameter); isP && prm.Parent() == clo {
			for i, dp := range clo.Params {
				if dp == prm && i < len(dArgs) {
					a := dArgs[i]
					if a == ssa.Value(param) {
						return true
					}
					if ld, isLd := a.(*ssa.UnOp); isLd && cell != nil && ir.CellAlloc(ld.X) == cell {
						return true
					}
				}
			}
		}
		return false
	}
	isErrField := func(v ssa.Value) bool {
		b, f, ok := ir.FieldLoad(v)
		return ok && f == "Error" && standsFor(b, sCell, s)
	}
	for _, sc := range []struct{ recovered, errSet bool }{{false, true}, {false, false}, {true, true}, {true, false}} {
		key := fmt.Sprintf("%s:deferred[recovered=%v,Error set=%v]", Q(fn), sc.recovered, sc.errSet)
		cond := func(v ssa.Value) (bool, bool) {
			bo, ok := v.(*ssa.BinOp)
			if !ok || !(bo.Op == token.EQL || bo.Op == token.NEQ) || !ir.IsNilConst(bo.Y) {
				return false, false
			}
			if bo.X == ssa.Value(rec) {
				return (bo.Op == token.NEQ) == sc.recovered, true
			}
			if isErrField(bo.X) {
				return (bo.Op == token.NEQ) == sc.errSet, true
			}
			return false, false
		}
		step := func(in ssa.Instruction) (*walkEvent, bool, string) {
			call, ok := in.(*ssa.Call)
			if !ok {
				if _, isSt := in.(*ssa.Store); isSt {
					return nil, false, "unexpected store in the deferred closure"
				}
				return nil, false, ""
			}
			if call == rec {
				return &walkEvent{"recover", nil}, false, ""
			}
			if _, isB := call.Call.Value.(*ssa.Builtin); isB {
				return nil, false, ""
			}
			if ir.Static(call) == run {
				return &walkEvent{"Run", call.Call.Args}, false, ""
			}
			return nil, false, "unexpected call in the deferred closure"
		}
		evs, why := scenarioWalk(clo, cond, step)
		if why != "" {
			c.Undecided(key, clo.Pos(), "%s (the handler must decide only on `recovered != nil` and `Error != nil`)", why)
			continue
		}
		var got []string
		for _, e := range evs {
			switch e.what {
			case "Run":
				if isErrField(e.args[0]) && e.args[1] == ssa.Value(rec) {
					got = append(got, "Error.Run(recovered)")
				} else {
					got = append(got, "Run(?)")
				}
			case "panic":
				v := ir.Unwrap(e.args[0])
				if standsFor(v, pCell, pParam) {
					got = append(got, "panic(p)")
				} else if v == ssa.Value(rec) {
					got = append(got, "panic(recovered)")
				} else {
					got = append(got, "panic(?)")
				}
			default:
				got = append(got, e.what)
			}
		}
		g := strings.Join(got, " ")
		var wants []string
		switch {
		case !sc.recovered:
			wants = []string{"recover return"}
		case sc.errSet:
			wants = []string{"recover Error.Run(recovered) return"}
		default:
			// no Error step: the value must not be swallowed
			wants = []string{"recover panic(p)", "recover panic(recovered)"}
		}
		ok := false
		for _, w := range wants {
			if g == w {
				ok = true
			}
		}
		c.Check(ok, key, clo.Pos(), g, fmt.Sprintf("behaves as %q, expected %q", g, strings.Join(wants, " or ")))
	}
}

func flow4(c *Ctx) {
	fn := c.fnOpt("", "Exit")
	if fn == nil {
		c.Undecided("anchor:cli.Exit", token.NoPos, "not found")
		return
	}
	c.Mark(fn)
	ok := false
	ps := ir.Panics(fn)
	if len(ps) == 1 && len(fn.Blocks) == 1 && len(ir.Calls(fn)) == 0 {
		v := ps[0].X
		if mi, isMI := v.(*ssa.MakeInterface); isMI {
			v = mi.X
		}
		if _, n := ir.NamedOf(v.Type()); n == "ExitCode" && c.isNamed(v.Type(), "internal/flow", "ExitCode") {
			if stripConv(v) == ssa.Value(fn.Params[0]) {
				ok = true
			}
		}
	}
	c.Check(ok, Q(fn), fn.Pos(), "panic(flow.ExitCode(code)) and nothing else", "Exit does not (only) panic with flow.ExitCode(code)")
}

func flow5(c *Ctx) {
	g := c.exiterGlobal()
	if g == nil {
		c.Undecided("anchor:exiter", token.NoPos, "not found")
		return
	}
	for _, fn := range c.pkgFuncsDeep("") {
		for i, al := range c.stepLits(fn) {
			c.Mark(fn)
			f, _ := litFields(al)
			v := single(f, "Exiter")
			desc := ""
			if d := single(f, "Desc"); d != nil {
				if s, ok := ir.ConstString(d); ok {
					desc = s
				} else if call, isCall := d.(*ssa.Call); isCall && len(call.Call.Args) > 0 {
					if s, ok := ir.ConstString(call.Call.Args[0]); ok {
						desc = s
					}
				}
			}
			if desc == "" {
				desc = fmt.Sprintf("#%d", i)
			}
			c.Check(v != nil && isLoadOfGlobal(v, g), fmt.Sprintf("%s:Step{%s}", Q(fn), desc), al.Pos(), "Exiter is the package's exit indirection", "a step literal does not carry the exiter: an Exit(n) reaching it would be swallowed")
		}
	}
}
