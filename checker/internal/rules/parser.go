package rules

import (
	"fmt"
	"go/constant"
	"go/token"
	"go/types"
	"sort"
	"strings"

	"golang.org/x/tools/go/ssa"

	"verif/checker/internal/ir"
)

func init() {
	register(&Rule{ID: "PAR-1", Props: []string{"C08", "C03"}, Floor: 3,
		Doc: "token-kind agreement: kinds tested by canAtom = kinds opening a case of atom; those plus the kinds consumed elsewhere = all declared kinds", Run: par1})
	register(&Rule{ID: "PAR-2", Props: []string{"C03", "C08"}, Floor: 8,
		Doc: "consumption typestate: atom consumes on every normal return; back() only on the way to a panic; a panic about a consumed token is preceded by exactly one back()", Run: par2})
	register(&Rule{ID: "PAR-3", Props: []string{"C08", "C10", "C11", "C01", "C02"}, Floor: 4,
		Doc: "declared names only: every container given to a matcher comes from a comma-ok lookup (true edge; false edge panics) in the right index keyed by the token text; groups and matchers get the command's own index", Run: par3})
	register(&Rule{ID: "PAR-4", Props: []string{"C08", "C09"}, Floor: 4,
		Doc: "no option after `--`: the flag is set only on the `--` path and every option-matcher construction is under its false edge (true edge panics)", Run: par4})
	register(&Rule{ID: "PAR-5", Props: []string{"C01", "C03", "C08"}, Floor: 5,
		Doc: "parse wrapper: deferred recover turns string panics into positioned ParseErrors and re-raises others; every panic of the package carries a string; trailing tokens are an error at that token; success marks the end state terminal and prepares the automaton", Run: par5})
	register(&Rule{ID: "PAR-6", Props: []string{"C01", "C08"}, Floor: 10,
		Doc: "operator wiring: `[x]` adds a shortcut start->end, `x...` a shortcut end->start, nothing else does; choice wires every alternative between a common start and end; seq moves every transition of the next fragment's start onto the current end; groups are non-empty", Run: par6})
	register(&Rule{ID: "PAR-7", Props: []string{"C03"}, Floor: 3,
		Doc: "parser recursion and loops consume: atom->seq only after a consumed opener; seq loops on a consuming callee; choice loops on a consuming condition", Run: par7})
}

type parserFns struct {
	atom, canAtom, seq, choice, parse, found, is, expect, back, eof, tokenFn *ssa.Function
	kinds                                                                    []string // the declared token kinds
}

func (c *Ctx) parserFns() *parserFns {
	p := &parserFns{}
	get := func(n string) *ssa.Function { return c.fnOpt("internal/parser", "parser."+n) }
	p.atom, p.canAtom, p.seq, p.choice, p.parse = get("atom"), get("canAtom"), get("seq"), get("choice"), get("parse")
	p.found, p.is, p.expect, p.back, p.eof, p.tokenFn = get("found"), get("is"), get("expect"), get("back"), get("eof"), get("token")
	for _, f := range []*ssa.Function{p.atom, p.canAtom, p.seq, p.choice, p.parse, p.found, p.is, p.expect, p.back, p.eof} {
		if f == nil {
			return nil
		}
	}
	for k := range declaredKinds(c) {
		p.kinds = append(p.kinds, k)
	}
	sort.Strings(p.kinds)
	return p
}

// kindArg returns the constant token kind passed as last argument.
func kindArg(call ssa.CallInstruction) (string, bool) {
	a := call.Common().Args
	if len(a) == 0 {
		return "", false
	}
	cst, ok := a[len(a)-1].(*ssa.Const)
	if !ok || cst.Value == nil || cst.Value.Kind() != constant.String {
		return "", false
	}
	return constant.StringVal(cst.Value), true
}

func callsTo(fn, callee *ssa.Function) []*ssa.Call {
	var out []*ssa.Call
	for _, call := range ir.Calls(fn) {
		if cv, ok := call.(*ssa.Call); ok && ir.Static(cv) == callee {
			out = append(out, cv)
		}
	}
	return out
}

// tokTest is a boolean value whose true outcome means "the current token has kind K". It is either a
// call found(K) / is(K), or a comparison of the current token's Typ with the constant K (the form a
// `switch p.token().Typ { case K: ... }` takes). consumes: the token is also consumed on that outcome
// (found, or a comparison whose true edge leads straight into an advance of the token position).
type tokTest struct {
	cond     ssa.Value
	kind     string // "" if not a constant
	consumes bool
	instr    ssa.Instruction
}

func (t tokTest) Pos() token.Pos         { return t.instr.Pos() }
func (t tokTest) Block() *ssa.BasicBlock { return t.instr.Block() }

// isCurrentTokenTyp: v is <current token>.Typ, the current token being p.token() or p.tokens[p.tkpos].
func (p *parserFns) isCurrentTokenTyp(v ssa.Value) bool {
	b, ok := fieldOf(v, "Typ")
	if !ok {
		return false
	}
	if call, isCall := b.(*ssa.Call); isCall {
		return p.tokenFn != nil && ir.Static(call) == p.tokenFn
	}
	if ld, isLd := b.(*ssa.UnOp); isLd && ld.Op == token.MUL {
		if ia, isIA := ld.X.(*ssa.IndexAddr); isIA {
			_, f1, ok1 := ir.FieldLoad(ia.X)
			_, f2, ok2 := ir.FieldLoad(ia.Index)
			return ok1 && ok2 && f1 == "tokens" && f2 == "tkpos"
		}
	}
	return false
}

// advancesFirst: the first thing block b does to the parser state is tkpos = tkpos + 1 (no call and
// no other store to tkpos before it).
func (p *parserFns) advancesFirst(b *ssa.BasicBlock) bool {
	for _, in := range b.Instrs {
		switch x := in.(type) {
		case *ssa.Store:
			if _, fld, isF := ir.FieldAddr(x.Addr); isF && fld == "tkpos" {
				bo, isBo := x.Val.(*ssa.BinOp)
				if !isBo || bo.Op != token.ADD {
					return false
				}
				one, isOne := ir.ConstInt(bo.Y)
				_, f, isL := ir.FieldLoad(bo.X)
				return isOne && one == 1 && isL && f == "tkpos"
			}
		case ssa.CallInstruction:
			if _, isB := x.Common().Value.(*ssa.Builtin); isB {
				continue
			}
			if f := ir.Static(x); f != nil && (f == p.tokenFn || f == p.eof) {
				continue // reads the cursor only
			}
			return false
		}
	}
	return false
}

// tests lists the token-kind tests of fn.
func (p *parserFns) tests(fn *ssa.Function) []tokTest {
	var out []tokTest
	for _, call := range ir.Calls(fn) {
		cv, ok := call.(*ssa.Call)
		if !ok {
			continue
		}
		f := ir.Static(cv)
		if f == nil || (f != p.found && f != p.is) {
			continue
		}
		k, _ := kindArg(cv)
		out = append(out, tokTest{cond: cv, kind: k, consumes: f == p.found, instr: cv})
	}
	// a predicate on the current token's kind (a method of the kind type, a table lookup behind a
	// function): tabulated over the declared kinds
	for _, call := range ir.Calls(fn) {
		cv, ok := call.(*ssa.Call)
		if !ok || len(cv.Call.Args) != 1 || !p.isCurrentTokenTyp(cv.Call.Args[0]) {
			continue
		}
		g := ir.Static(cv)
		if g == nil || g == p.found || g == p.is || len(g.Blocks) == 0 {
			continue
		}
		if b, isB := g.Signature.Results().At(0).Type().Underlying().(*types.Basic); g.Signature.Results().Len() != 1 || !isB || b.Kind() != types.Bool {
			continue
		}
		for _, k := range p.kinds {
			r, okR := evalBytePred(g, []constant.Value{constant.MakeString(k)}, 0)
			if !okR {
				out = append(out, tokTest{cond: cv, kind: "", instr: cv})
				break
			}
			if r {
				out = append(out, tokTest{cond: cv, kind: k, instr: cv})
			}
		}
	}
	ir.Instrs(fn, func(in ssa.Instruction) {
		bo, ok := in.(*ssa.BinOp)
		if !ok || bo.Op != token.EQL {
			return
		}
		x, y := bo.X, bo.Y
		if _, isC := x.(*ssa.Const); isC {
			x, y = y, x
		}
		if !p.isCurrentTokenTyp(x) {
			return
		}
		k, _ := ir.ConstString(y)
		edges := ir.EdgesWhere(fn, bo, true)
		consumes := len(edges) > 0
		for _, e := range edges {
			if !p.advancesFirst(e.To) {
				consumes = false
			}
		}
		out = append(out, tokTest{cond: bo, kind: k, consumes: consumes, instr: bo})
	})
	return out
}

// consumers: the tests of fn that consume the token on their true outcome.
func (p *parserFns) consumers(fn *ssa.Function) []tokTest {
	var out []tokTest
	for _, t := range p.tests(fn) {
		if t.consumes {
			out = append(out, t)
		}
	}
	return out
}

// openingFounds: the consuming kind tests of atom reachable from the entry through
// false edges only.
func openingFounds(p *parserFns) []tokTest {
	fn := p.atom
	blockedE := map[ir.Edge]bool{}
	founds := p.consumers(fn)
	for _, f := range founds {
		for _, e := range ir.EdgesWhere(fn, f.cond, true) {
			blockedE[ir.Edge{From: e.From, To: e.To}] = true
		}
	}
	for _, e := range callsTo(fn, p.eof) {
		for _, ed := range ir.EdgesWhere(fn, e, true) {
			blockedE[ir.Edge{From: ed.From, To: ed.To}] = true
		}
	}
	r := ir.Reach(fn.Blocks[0], nil, blockedE)
	var out []tokTest
	for _, f := range founds {
		if r[f.Block()] {
			out = append(out, f)
		}
	}
	return out
}

// caseKinds returns the kinds K such that block b lies in a case body of atom opened by found(K):
// the opening founds whose true edge reaches b, provided b is unreachable once those edges are cut.
func caseKinds(p *parserFns, b *ssa.BasicBlock) (kinds []string, ok bool) {
	fn := p.atom
	if b.Parent() != fn {
		return nil, false
	}
	blockedE := map[ir.Edge]bool{}
	set := map[string]bool{}
	for _, f := range openingFounds(p) {
		for _, e := range ir.EdgesWhere(fn, f.cond, true) {
			if e.To == b || ir.ReachVia(e.From, e.To, nil, nil)[b] {
				blockedE[ir.Edge{From: e.From, To: e.To}] = true
				if f.kind != "" {
					set[f.kind] = true
				} else {
					set["?"] = true
				}
			}
		}
	}
	if len(blockedE) == 0 {
		return nil, false
	}
	if b == fn.Blocks[0] || ir.Reach(fn.Blocks[0], nil, blockedE)[b] {
		return nil, false
	}
	for k := range set {
		kinds = append(kinds, k)
	}
	sort.Strings(kinds)
	return kinds, true
}

func inCaseOf(p *parserFns, b *ssa.BasicBlock, allowed ...string) bool {
	kinds, ok := caseKinds(p, b)
	if !ok || len(kinds) == 0 {
		return false
	}
	for _, k := range kinds {
		found := false
		for _, a := range allowed {
			if a == k {
				found = true
			}
		}
		if !found {
			return false
		}
	}
	return true
}

func par1(c *Ctx) {
	p := c.parserFns()
	if p == nil {
		c.Undecided("anchor:parser", token.NoPos, "parser functions not found")
		return
	}
	for _, f := range []*ssa.Function{p.atom, p.canAtom} {
		c.Mark(f)
	}
	opening := map[string]bool{}
	for _, f := range openingFounds(p) {
		if f.kind != "" {
			opening[f.kind] = true
		} else {
			c.Undecided(Q(p.atom)+":case-kind", f.Pos(), "non-constant token kind")
		}
	}
	can := map[string]bool{}
	canTests := p.tests(p.canAtom)
	for _, t := range canTests {
		k, ok := t.kind, t.kind != ""
		if !ok {
			// table-driven: the kind is the ranged element of a read-only package-level table
			var arg ssa.Value
			if call, isCall := t.cond.(*ssa.Call); isCall {
				arg = call.Call.Args[len(call.Call.Args)-1]
			} else if bo, isBo := t.cond.(*ssa.BinOp); isBo {
				arg = bo.Y
			}
			ks, okT := tableKinds(c, arg)
			if !okT {
				c.Undecided(Q(p.canAtom)+":kind", t.Pos(), "non-constant token kind")
				continue
			}
			good := false
			for _, e := range ir.EdgesWhere(p.canAtom, t.cond, true) {
				if allPathsReturnConst(e.To, true) {
					good = true
				}
			}
			if good {
				for _, kk := range ks {
					can[kk] = true
				}
			}
			continue
		}
		// the true edge must return true
		good := false
		for _, e := range ir.EdgesWhere(p.canAtom, t.cond, true) {
			if allPathsReturnConst(e.To, true) {
				good = true
			}
		}
		if good {
			can[k] = true
		}
	}
	// canAtom returns true nowhere else: with the true edges of the tests cut, no `return true` is reachable
	cutTests := map[ir.Edge]bool{}
	for _, t := range canTests {
		for _, e := range ir.EdgesWhere(p.canAtom, t.cond, true) {
			cutTests[ir.Edge{From: e.From, To: e.To}] = true
		}
	}
	reachNoTest := ir.Reach(p.canAtom.Blocks[0], nil, cutTests)
	for _, r := range ir.ReturnPoints(p.canAtom) {
		if v, isC := ir.ConstBool(r.Results[0]); isC && v {
			dom := false
			for _, t := range canTests {
				if r.Holds(t.cond, true) {
					dom = true
				}
			}
			if !dom && !reachNoTest[r.At] {
				dom = true
			}
			if !dom {
				can["<unconditional>"] = true
			}
		} else if !isC {
			// `return starters[p.token().Typ]`: a read-only package-level map from kinds to true
			res0 := r.Results[0]
			if vs := ir.PhiValuesAt(res0, r.At); len(vs) == 1 {
				res0 = vs[0] // handed up through the result variable of an inlined helper
			}
			if lk, isLk := res0.(*ssa.Lookup); isLk && !lk.CommaOk {
				idxV := lk.Index
				if vs := ir.PhiValuesAt(idxV, lk.Block()); len(vs) == 1 {
					idxV = vs[0] // the result variable of an inlined peek helper: its one value here
				}
				if b, okF := fieldOf(idxV, "Typ"); okF && c.isNamed(b.Type(), "internal/lexer", "Token") {
					if ld, isLd := lk.X.(*ssa.UnOp); isLd {
						if g, isG := ld.X.(*ssa.Global); isG && readOnlyTable(c, g) == "" {
							if ks, okK := mapTableTrueKeys(g); okK {
								for _, k := range ks {
									can[k] = true
								}
								continue
							}
						}
					}
				}
			}
			can["<non-constant>"] = true
		}
	}
	// the look-ahead consumes nothing
	{
		consuming := false
		for _, t := range canTests {
			if t.consumes {
				consuming = true
			}
		}
		ir.Instrs(p.canAtom, func(in ssa.Instruction) {
			if st, ok := in.(*ssa.Store); ok {
				if _, fld, isF := ir.FieldAddr(st.Addr); isF && (fld == "tkpos" || fld == "matchedToken") {
					consuming = true
				}
			}
		})
		for _, call := range ir.Calls(p.canAtom) {
			if f := ir.Static(call); f != nil && (f == p.expect || f == p.back || f == p.atom || f == p.seq || f == p.choice) {
				consuming = true
			}
		}
		c.Check(!consuming, Q(p.canAtom)+":pure", p.canAtom.Pos(), "the look-ahead only tests the current token", "the look-ahead consumes (or un-reads) a token: the atom that follows would start one token late")
	}
	c.Check(sameSet(opening, can), "first-set(atom)=canAtom", p.canAtom.Pos(),
		"both are {"+setStr(opening)+"}", fmt.Sprintf("atom opens on {%s} but canAtom announces {%s}", setStr(opening), setStr(can)))
	// all kinds consumed somewhere
	consumed := map[string]bool{}
	for _, fn := range c.pkgFuncsDeep("internal/parser") {
		for _, call := range callsTo(fn, p.expect) {
			if k, ok := kindArg(call); ok {
				consumed[k] = true
			}
		}
		for _, t := range p.consumers(fn) {
			if t.kind != "" {
				consumed[t.kind] = true
			}
		}
	}
	// the `=<text>` annotation is consumed only directly after a short or long option
	for _, fn := range c.pkgFuncsDeep("internal/parser") {
		for _, call := range p.consumers(fn) {
			if call.kind != "OptValue" {
				continue
			}
			good := fn == p.atom && inCaseOf(p, call.Block(), "ShortOpt", "LongOpt")
			c.Check(good, fmt.Sprintf("%s:OptValue@%s", Q(fn), relLine(c, fn, call.Pos())), call.Pos(), "`=<text>` is accepted only right after a short or long option", "`=<text>` can be consumed after something that is not a single option (e.g. `ARG=<x>`, `[-f]=<x>` would compile)")
		}
	}
	// `...` is never consumed behind the `--` atom: the marker stands once, `-- ...` is not a spec
	// (a repeated marker matches without consuming, which is also what finding D3 needs)
	for _, open := range openingFounds(p) {
		if open.kind != "DblDash" {
			continue
		}
		reach := map[*ssa.BasicBlock]bool{}
		for _, e := range ir.EdgesWhere(p.atom, open.cond, true) {
			for b := range ir.Reach(e.To, nil, nil) {
				reach[b] = true
			}
		}
		bad := ""
		for _, call := range p.consumers(p.atom) {
			if call.kind == "Rep" && reach[call.Block()] {
				bad = c.P.Pos(call.Pos())
			}
		}
		c.Check(bad == "", Q(p.atom)+":no-Rep-after-DblDash", open.Pos(), "the `--` atom returns without looking for `...`", "`...` can be consumed behind the `--` atom (at "+bad+"): `-- ...` would compile into a marker that repeats without consuming")
	}
	declared := declaredKinds(c)
	c.Check(sameSet(consumed, declared) && len(declared) > 0, "kinds(parser)=kinds(lexer)", token.NoPos,
		fmt.Sprintf("the parser can consume all %d declared token kinds", len(declared)),
		fmt.Sprintf("declared {%s} but the parser consumes {%s}", setStr(declared), setStr(consumed)))
}

// mapTableTrueKeys: the constant string keys the package initialiser maps to true in the map literal
// stored into g (ok is false if an entry is not of that form).
func mapTableTrueKeys(g *ssa.Global) (keys []string, ok bool) {
	init, _ := g.Pkg.Members["init"].(*ssa.Function)
	if init == nil {
		return nil, false
	}
	ok = true
	ir.Instrs(init, func(in ssa.Instruction) {
		mu, isMu := in.(*ssa.MapUpdate)
		if !isMu {
			return
		}
		mk, isMk := mu.Map.(*ssa.MakeMap)
		if !isMk {
			return
		}
		stored := false
		for _, u := range *mk.Referrers() {
			if st, isSt := u.(*ssa.Store); isSt && st.Addr == ssa.Value(g) {
				stored = true
			}
		}
		if !stored {
			return
		}
		k, isS := ir.ConstString(mu.Key)
		v, isB := ir.ConstBool(mu.Value)
		if !isS || !isB {
			ok = false
			return
		}
		if v {
			keys = append(keys, k)
		}
	})
	return keys, ok && len(keys) > 0
}

// tableKinds: v is the element, in a loop over all indices, of a package-level array or slice that
// the package initialiser fills with constants and that is only read afterwards.
func tableKinds(c *Ctx, v ssa.Value) ([]string, bool) {
	var table ssa.Value
	var idx ssa.Value
	switch x := v.(type) {
	case *ssa.Index:
		table, idx = x.X, x.Index
	case *ssa.UnOp:
		ia, ok := x.X.(*ssa.IndexAddr)
		if !ok {
			return nil, false
		}
		table, idx = ia.X, ia.Index
	default:
		return nil, false
	}
	if !isRangeIndex(idx) {
		if _, isPhi := idx.(*ssa.Phi); !isPhi {
			return nil, false
		}
	}
	var g *ssa.Global
	switch t := table.(type) {
	case *ssa.UnOp:
		g, _ = t.X.(*ssa.Global)
	case *ssa.Global:
		g = t
	}
	return globalTableStrings(c, g)
}

// globalTableStrings: the constant strings the package initialiser puts into the package-level array or
// slice g, which is only read afterwards.
func globalTableStrings(c *Ctx, g *ssa.Global) ([]string, bool) {
	if g == nil || readOnlyTable(c, g) != "" {
		return nil, false
	}
	init, _ := g.Pkg.Members["init"].(*ssa.Function)
	if init == nil {
		return nil, false
	}
	var out []string
	ok := true
	ir.Instrs(init, func(in ssa.Instruction) {
		st, isSt := in.(*ssa.Store)
		if !isSt {
			return
		}
		ia, isIA := st.Addr.(*ssa.IndexAddr)
		if !isIA {
			return
		}
		root := ia.X
		if al, isAl := root.(*ssa.Alloc); isAl {
			// slice literal backing array later stored into g
			stored := false
			for _, u := range *al.Referrers() {
				if sl, isSl := u.(*ssa.Slice); isSl {
					for _, uu := range *sl.Referrers() {
						if s2, isS2 := uu.(*ssa.Store); isS2 && s2.Addr == ssa.Value(g) {
							stored = true
						}
					}
				}
			}
			if !stored {
				return
			}
		} else if root != ssa.Value(g) {
			return
		}
		if sv, isS := ir.ConstString(st.Val); isS {
			out = append(out, sv)
		} else {
			ok = false
		}
	})
	return out, ok && len(out) > 0
}

func declaredKinds(c *Ctx) map[string]bool {
	out := map[string]bool{}
	pk := c.P.Pkg("internal/lexer")
	if pk == nil {
		return out
	}
	tt := pk.Types.Scope().Lookup("TokenType")
	if tt == nil {
		return out
	}
	for _, n := range pk.Types.Scope().Names() {
		if cst, ok := pk.Types.Scope().Lookup(n).(*types.Const); ok && types.Identical(cst.Type(), tt.Type()) {
			out[constant.StringVal(cst.Val())] = true
		}
	}
	return out
}

func sameSet(a, b map[string]bool) bool {
	if len(a) != len(b) {
		return false
	}
	for k := range a {
		if !b[k] {
			return false
		}
	}
	return true
}

func setStr(m map[string]bool) string {
	var ks []string
	for k := range m {
		ks = append(ks, k)
	}
	sort.Strings(ks)
	return strings.Join(ks, ",")
}

// isConsuming reports whether the call consumes tokens (found-true, expect, or
// a sub-production).
func (p *parserFns) isConsumingCall(call ssa.CallInstruction) bool {
	f := ir.Static(call)
	return f != nil && (f == p.found || f == p.expect || f == p.seq || f == p.choice || f == p.atom)
}

// par2primitives: the three cursor tests mean what every other parser rule takes them to mean.
// is(K): the current token's kind compared with K, false at the end of input, nothing else decides;
// found(K): true exactly on is(K), advancing then; expect(K): returns normally only when found(K).
func par2primitives(c *Ctx, p *parserFns) {
	if fn := p.is; fn != nil {
		c.Mark(fn)
		var kp *ssa.Parameter
		if len(fn.Params) == 2 {
			kp = fn.Params[1]
		}
		isCmp := func(v ssa.Value) bool {
			bo, ok := v.(*ssa.BinOp)
			if !ok || bo.Op != token.EQL || kp == nil {
				return false
			}
			cur := func(x ssa.Value) bool {
				if p.isCurrentTokenTyp(x) {
					return true
				}
				// a result variable of an inlined peek: the one value it can have here
				vs := ir.PhiValuesAt(x, bo.Block())
				return len(vs) == 1 && p.isCurrentTokenTyp(vs[0])
			}
			return (cur(bo.X) && bo.Y == ssa.Value(kp)) || (cur(bo.Y) && bo.X == ssa.Value(kp))
		}
		// "no token under the cursor": eof(), or the cursor compared with the number of tokens
		noToken := func(x ssa.Value, r *ir.RetPoint) bool {
			if call, isCall := x.(*ssa.Call); isCall && ir.Static(call) == p.eof {
				return r.Holds(x, true)
			}
			bo, isBo := x.(*ssa.BinOp)
			if !isBo {
				return false
			}
			_, f, isF := ir.FieldLoad(bo.X)
			if !isF || f != "tkpos" {
				return false
			}
			if z, isC := ir.ConstInt(bo.Y); isC && z == 0 && bo.Op == token.LSS {
				return r.Holds(bo, true)
			}
			if lc, isCall := bo.Y.(*ssa.Call); isCall && len(lc.Call.Args) == 1 {
				if bi, isB := lc.Call.Value.(*ssa.Builtin); isB && bi.Name() == "len" {
					if _, lf, isLF := ir.FieldLoad(lc.Call.Args[0]); isLF && lf == "tokens" {
						return (bo.Op == token.GEQ && r.Holds(bo, true)) || (bo.Op == token.LSS && r.Holds(bo, false))
					}
				}
			}
			return false
		}
		ok, why := len(ir.ReturnWays(fn)) > 0, ""
		for _, r := range ir.ReturnWays(fn) {
			v := r.Results[0]
			if isCmp(v) {
				continue
			}
			b, isC := ir.ConstBool(v)
			good := false
			if isC {
				ir.Instrs(fn, func(in ssa.Instruction) {
					x, isV := in.(ssa.Value)
					if !isV {
						return
					}
					if isCmp(x) && r.Holds(x, b) {
						good = true
					}
					if !b && noToken(x, r) {
						good = true // no token left
					}
				})
			}
			if !good && isC && !b {
				// several grounds share this way out: with every "no token" outcome and every failed kind
				// comparison cut, it cannot be reached
				cut := map[ir.Edge]bool{}
				ir.Instrs(fn, func(in ssa.Instruction) {
					x, isV := in.(ssa.Value)
					if !isV {
						return
					}
					for _, want := range []bool{true, false} {
						for _, e := range ir.EdgesWhere(fn, x, want) {
							if (isCmp(x) && !want) || noTokenOutcome(p, x, want) {
								cut[ir.Edge{From: e.From, To: e.To}] = true
							}
						}
					}
				})
				if len(cut) > 0 && !r.ReachableUnder(ir.Reach(fn.Blocks[0], nil, cut), cut) {
					good = true
				}
			}
			if !good {
				ok, why = false, "a verdict at "+c.P.Pos(r.Pos())+" is decided by something other than the end of input or the comparison of the current token's kind with the argument"
			}
		}
		c.Check(ok, Q(fn)+":meaning", fn.Pos(), "true iff a token is left and its kind is the argument", why)
	}
	if fn := p.found; fn != nil {
		c.Mark(fn)
		var test *ssa.Call
		for _, cv := range callsTo(fn, p.is) {
			if len(cv.Call.Args) == 2 && len(fn.Params) == 2 && cv.Call.Args[1] == ssa.Value(fn.Params[1]) {
				test = cv
			}
		}
		ok, why := test != nil, "found does not test is(<its argument>)"
		if test != nil {
			for _, r := range ir.ReturnWays(fn) {
				v := r.Results[0]
				if v == ssa.Value(test) {
					continue
				}
				b, isC := ir.ConstBool(v)
				if !isC || !r.Holds(test, b) {
					ok, why = false, "a verdict at "+c.P.Pos(r.Pos())+" is not the outcome of is(<the argument>)"
				}
			}
		}
		c.Check(ok, Q(fn)+":meaning", fn.Pos(), "true exactly when is(K) holds (the token is then consumed)", why)
	}
	if fn := p.expect; fn != nil {
		c.Mark(fn)
		var test *ssa.Call
		for _, cv := range callsTo(fn, p.found) {
			if len(cv.Call.Args) == 2 && len(fn.Params) == 2 && cv.Call.Args[1] == ssa.Value(fn.Params[1]) {
				test = cv
			}
		}
		ok, why := test != nil, "expect does not call found(<its argument>)"
		if test != nil {
			for _, r := range ir.ReturnWays(fn) {
				if !r.Holds(test, true) {
					ok, why = false, "expect can return normally at "+c.P.Pos(r.Pos())+" without the demanded token having been found"
				}
			}
		}
		c.Check(ok, Q(fn)+":meaning", fn.Pos(), "returns normally only when found(K) succeeded; panics otherwise", why)
	}
}

// noTokenOutcome: the outcome `want` of x means that no token is under the cursor: eof() true, the cursor
// negative, or the cursor not below the number of tokens.
func noTokenOutcome(p *parserFns, x ssa.Value, want bool) bool {
	if call, isCall := x.(*ssa.Call); isCall && ir.Static(call) == p.eof {
		return want
	}
	bo, isBo := x.(*ssa.BinOp)
	if !isBo {
		return false
	}
	_, f, isF := ir.FieldLoad(bo.X)
	if !isF || f != "tkpos" {
		return false
	}
	if z, isC := ir.ConstInt(bo.Y); isC && z == 0 && bo.Op == token.LSS {
		return want
	}
	if lc, isCall := bo.Y.(*ssa.Call); isCall && len(lc.Call.Args) == 1 {
		if bi, isB := lc.Call.Value.(*ssa.Builtin); isB && bi.Name() == "len" {
			if _, lf, isLF := ir.FieldLoad(lc.Call.Args[0]); isLF && lf == "tokens" {
				return (bo.Op == token.GEQ && want) || (bo.Op == token.LSS && !want)
			}
		}
	}
	return false
}

func par2(c *Ctx) {
	p := c.parserFns()
	if p == nil {
		c.Undecided("anchor:parser", token.NoPos, "parser functions not found")
		return
	}
	par2primitives(c, p)
	fn := p.atom
	c.Mark(fn)
	// (a) every normal return passes a found-true edge (or an expect, which consumes or panics)
	blockedE := map[ir.Edge]bool{}
	blockedB := map[*ssa.BasicBlock]bool{}
	for _, f := range p.consumers(fn) {
		for _, e := range ir.EdgesWhere(fn, f.cond, true) {
			blockedE[ir.Edge{From: e.From, To: e.To}] = true
		}
	}
	for _, e := range callsTo(fn, p.expect) {
		blockedB[e.Block()] = true
	}
	reach := ir.Reach(fn.Blocks[0], blockedB, blockedE)
	okA := true
	for b := range reach {
		if ir.IsReturn(b) {
			okA = false
		}
	}
	c.Check(okA, Q(fn)+":consumes", fn.Pos(), "every normal return of atom lies behind a successful found()", "atom can return without having consumed a token (the loops of seq/choice would not progress)")
	// found(): true iff it advanced
	{
		f := p.found
		c.Mark(f)
		ok := true
		for _, r := range ir.ReturnPoints(f) {
			v, isC := ir.ConstBool(r.Results[0])
			if !isC {
				ok = false
				continue
			}
			advanced := false
			ir.Instrs(f, func(in ssa.Instruction) {
				if st, isSt := in.(*ssa.Store); isSt {
					if _, fld, isF := ir.FieldAddr(st.Addr); isF && fld == "tkpos" {
						if bo, isBo := st.Val.(*ssa.BinOp); isBo && bo.Op == token.ADD {
							if one, isOne := ir.ConstInt(bo.Y); isOne && one == 1 && (st.Block() == r.Block() || st.Block().Dominates(r.Block())) {
								advanced = true
							}
						}
					}
				}
			})
			if v != advanced {
				ok = false
			}
		}
		c.Check(ok, Q(f), f.Pos(), "returns true exactly when it advanced the token position by one", "found() does not return true exactly when it consumed one token")
	}
	// back(): tkpos--
	{
		f := p.back
		c.Mark(f)
		ok := false
		ir.Instrs(f, func(in ssa.Instruction) {
			if st, isSt := in.(*ssa.Store); isSt {
				if _, fld, isF := ir.FieldAddr(st.Addr); isF && fld == "tkpos" {
					if bo, isBo := st.Val.(*ssa.BinOp); isBo && bo.Op == token.SUB {
						if one, isOne := ir.ConstInt(bo.Y); isOne && one == 1 {
							ok = true
						}
					}
				}
			}
		})
		c.Check(ok && len(ir.Calls(f)) == 0, Q(f), f.Pos(), "steps back exactly one token", "back() does not step back exactly one token")
	}
	// (b) and (c) over every function of the package that panics or calls back
	for _, f := range c.pkgFuncsDeep("internal/parser") {
		backs := callsTo(f, p.back)
		for _, b := range backs {
			c.Mark(f)
			key := fmt.Sprintf("%s:back@%s", Q(f), relLine(c, f, b.Pos()))
			good := true
			why := ""
			// every path after back() panics, with no consuming call in between
			for _, in := range b.Block().Instrs[ir.IndexIn(b)+1:] {
				if call, ok := in.(ssa.CallInstruction); ok && p.isConsumingCall(call) {
					good, why = false, "tokens are consumed again after back()"
				}
			}
			if !ir.IsPanic(b.Block()) {
				for _, s := range b.Block().Succs {
					for r := range ir.Reach(s, nil, nil) {
						if ir.IsReturn(r) {
							good, why = false, "back() is followed by a normal return: the token would be parsed twice"
						}
						for _, in := range r.Instrs {
							if call, ok := in.(ssa.CallInstruction); ok && p.isConsumingCall(call) {
								good, why = false, "tokens are consumed again after back()"
							}
						}
					}
				}
			}
			c.Check(good, key, b.Pos(), "followed only by a panic", why)
		}
		for _, pn := range ir.Panics(f) {
			if f != p.atom {
				continue
			}
			msg := panicText(pn)
			key := fmt.Sprintf("%s:panic[%s]@%s", Q(f), msg, relLine(c, f, pn.Pos()))
			// consumed-and-offending: the panic lies in a case body (a token was consumed by the case test)
			// and nothing else was consumed since
			_, inCase := caseKinds(p, pn.Block())
			laterConsumption := false
			if inCase {
				for _, call := range ir.Calls(f) {
					if !p.isConsumingCall(call) {
						continue
					}
					isOpening := false
					for _, of := range openingFounds(p) {
						if oc, isCall := of.cond.(*ssa.Call); isCall && call == ssa.CallInstruction(oc) {
							isOpening = true
						}
					}
					if isOpening {
						continue
					}
					if _, callInCase := caseKinds(p, call.Block()); !callInCase {
						continue
					}
					if cv, isC := call.(*ssa.Call); isC && ir.Static(cv) == p.found {
						// an optional trailing token consumed in the same case (e.g. `=<..>`) that cannot precede this panic
						if !(call.Block() == pn.Block() && ir.IndexIn(call) < ir.IndexIn(pn)) && !ir.Reach(call.Block(), nil, nil)[pn.Block()] {
							continue
						}
					}
					if call.Block() == pn.Block() && ir.IndexIn(call) < ir.IndexIn(pn) || call.Block() != pn.Block() && ir.Reach(call.Block(), nil, nil)[pn.Block()] && call.Block().Dominates(pn.Block()) {
						laterConsumption = true
					}
				}
			}
			var lastFound interface{}
			if inCase {
				lastFound = true
			}
			nBack := 0
			for _, b := range backs {
				if b.Block() == pn.Block() || b.Block().Dominates(pn.Block()) {
					nBack++
				}
			}
			want := 0
			if lastFound != nil && !laterConsumption {
				want = 1
			}
			c.Check(nBack == want, key, pn.Pos(), fmt.Sprintf("%d back() before the panic, as required for the error position to be the offending token", nBack),
				fmt.Sprintf("%d back() before this panic, expected %d: the reported position would not be the offending token's", nBack, want))
		}
	}
	// expect: panics only when nothing was consumed
	{
		f := p.expect
		c.Mark(f)
		ok := true
		n := 0
		for _, pn := range ir.Panics(f) {
			n++
			good := false
			for _, fc := range callsTo(f, p.found) {
				if ir.HoldsAt(fc, false, pn.Block()) {
					good = true
				}
			}
			if !good {
				ok = false
			}
		}
		c.Check(ok && n == 1 && len(callsTo(f, p.back)) == 0, Q(f), f.Pos(), "panics exactly when the expected token is not there (nothing consumed, no back())", "expect() does not panic exactly when found() failed")
	}
}

func panicText(pn *ssa.Panic) string {
	v := ir.Unwrap(pn.X)
	if s, ok := ir.ConstString(v); ok {
		return firstWords(s, 4)
	}
	if call, ok := v.(*ssa.Call); ok && len(call.Call.Args) > 0 {
		if s, ok := ir.ConstString(call.Call.Args[0]); ok {
			return firstWords(s, 4)
		}
	}
	return "?"
}

func par3(c *Ctx) {
	p := c.parserFns()
	if p == nil {
		c.Undecided("anchor:parser", token.NoPos, "parser functions not found")
		return
	}
	// the matcher constructors hand their arguments over unchanged (the index in particular must be the
	// command-wide one the parser passes, not a narrowed copy)
	for _, name := range []string{"NewOpt", "NewOptions", "NewArg"} {
		cf := c.fnOpt("internal/matcher", name)
		if cf == nil {
			c.Undecided("anchor:matcher."+name, token.NoPos, "constructor not found")
			continue
		}
		c.Mark(cf)
		// a constructor that only hands its arguments, in order, to an unexported one of the same package
		// is judged by that one
		for depth := 0; depth < 2; depth++ {
			rps0 := ir.ReturnPoints(cf)
			if len(rps0) != 1 {
				break
			}
			v := rps0[0].Results[0]
			if mi, isMI := v.(*ssa.MakeInterface); isMI {
				v = mi.X
			}
			call, isCall := v.(*ssa.Call)
			if !isCall {
				break
			}
			g := ir.Static(call)
			if g == nil || g.Pkg != cf.Pkg || len(g.Blocks) == 0 || len(call.Call.Args) != len(cf.Params) || len(g.Params) != len(cf.Params) {
				break
			}
			same := true
			for i, a := range call.Call.Args {
				if a != ssa.Value(cf.Params[i]) {
					same = false
				}
			}
			if !same {
				break
			}
			c.Mark(g)
			cf = g
		}
		var problems []string
		rps := ir.ReturnPoints(cf)
		if len(rps) != 1 {
			problems = append(problems, "more than one way of returning")
		}
		for _, r := range rps {
			mi, isMI := r.Results[0].(*ssa.MakeInterface)
			var lit *ssa.Alloc
			if isMI {
				lit, _ = mi.X.(*ssa.Alloc)
			} else {
				lit, _ = r.Results[0].(*ssa.Alloc) // the delegate returns the concrete pointer
			}
			if lit == nil {
				problems = append(problems, "does not return a fresh matcher literal")
				continue
			}
			fields, whole := litFields(lit)
			if len(whole) > 0 {
				problems = append(problems, "the literal is assigned as a whole")
			}
			used := map[*ssa.Parameter]int{}
			for f, vs := range fields {
				if len(vs) != 1 {
					problems = append(problems, "field "+f+" is stored more than once")
					continue
				}
				prm, isP := vs[0].(*ssa.Parameter)
				if !isP {
					problems = append(problems, "field "+f+" is not one of the constructor's arguments as given")
					continue
				}
				used[prm]++
			}
			for _, prm := range cf.Params {
				if used[prm] != 1 {
					problems = append(problems, "argument "+prm.Name()+" is not stored exactly once")
				}
			}
		}
		sort.Strings(problems)
		reportP(c, "matcher."+name+":faithful", cf.Pos(), problems, "every argument is stored, as given, in one field of the new matcher")
	}
	fn := p.atom
	c.Mark(fn)
	recv := fn.Params[0]
	isField := func(v ssa.Value, name string) bool {
		b, ok := fieldOf(v, name)
		return ok && b == ssa.Value(recv)
	}
	tokenText := func(v ssa.Value) bool {
		b, ok := fieldOf(v, "Val")
		if !ok {
			return false
		}
		return isField(b, "matchedToken")
	}
	// declaredFrom: x is the value of a comma-ok lookup in index `idx` on its true edge at block b, false edge panics
	declaredFrom := func(x ssa.Value, idx string, at *ssa.BasicBlock, keyOK func(ssa.Value) bool) string {
		ex, ok := x.(*ssa.Extract)
		if !ok || ex.Index != 0 {
			return "not the result of an index lookup"
		}
		lk, ok := ex.Tuple.(*ssa.Lookup)
		if !ok || !lk.CommaOk {
			return "not a comma-ok lookup"
		}
		if !isField(lk.X, idx) {
			return "looked up in the wrong index (expected " + idx + ")"
		}
		key := lk.Index
		for {
			// "" + text (a prefix parameter that is empty at this call site)
			bo, isBo := key.(*ssa.BinOp)
			if !isBo || bo.Op != token.ADD {
				break
			}
			if sv, isS := ir.ConstString(bo.X); isS && sv == "" {
				key = bo.Y
				continue
			}
			if sv, isS := ir.ConstString(bo.Y); isS && sv == "" {
				key = bo.X
				continue
			}
			break
		}
		if !keyOK(key) {
			return "not keyed by the token's text"
		}
		okv := extractOf(lk, 1)
		if okv == nil || !ir.HoldsAt(okv, true, at) {
			return "used without the lookup having succeeded"
		}
		for _, e := range ir.EdgesWhere(fn, okv, false) {
			if !allPathsPanic(e.To) {
				return "an undeclared name does not raise an error"
			}
		}
		return ""
	}
	foundKindAt := func(b *ssa.BasicBlock) string {
		kinds, ok := caseKinds(p, b)
		if !ok || len(kinds) == 0 {
			return "?"
		}
		return strings.Join(kinds, "|")
	}
	optionKinds := func(kind string) bool {
		for _, k := range strings.Split(kind, "|") {
			if k != "ShortOpt" && k != "LongOpt" {
				return false
			}
		}
		return true
	}
	ctor := func(name string) *ssa.Function { return c.fnOpt("internal/matcher", name) }
	for _, call := range ir.Calls(fn) {
		cv, ok := call.(*ssa.Call)
		if !ok {
			continue
		}
		f := ir.Static(cv)
		kind := foundKindAt(cv.Block())
		switch f {
		case ctor("NewArg"):
			why := declaredFrom(cv.Call.Args[0], "argsIdx", cv.Block(), tokenText)
			if kind != "Arg" {
				why = "an argument matcher is built for a " + kind + " token"
			}
			c.Check(why == "", Q(fn)+":NewArg["+kind+"]", cv.Pos(), "the argument is the declared one named by the token", why)
		case ctor("NewOpt"):
			why := declaredFrom(cv.Call.Args[0], "optionsIdx", cv.Block(), tokenText)
			if why == "" && !isField(cv.Call.Args[1], "optionsIdx") {
				why = "the matcher does not get the command's own option index"
			}
			if !optionKinds(kind) {
				why = "an option matcher is built for a " + kind + " token"
			}
			c.Check(why == "", Q(fn)+":NewOpt["+kind+"]", cv.Pos(), "the option is the declared one named by the token; the matcher resolves names through the command's index", why)
		case ctor("NewOptions"):
			why := ""
			if !isField(cv.Call.Args[1], "optionsIdx") {
				why = "the group matcher does not get the command's own option index (long names and other options would be unknown inside the group)"
			}
			switch kind {
			case "Options":
				if why == "" && !isField(cv.Call.Args[0], "options") {
					why = "OPTIONS does not stand for the full list of declared options"
				}
			case "OptSeq":
				if why == "" {
					phi, isPhi := cv.Call.Args[0].(*ssa.Phi)
					if !isPhi {
						why = "the folded group's list is not accumulated per letter"
					} else {
						n := 0
						for _, e := range phi.Edges {
							if ir.IsNilConst(e) {
								continue
							}
							// a fresh, empty, preallocated list (`make([]T, 0, n)`) is as good as nil
							if isEmptyMake(e) {
								continue
							}
							base, el, isApp := appendedSingle(e)
							if !isApp || base != ssa.Value(phi) {
								why = "the folded group's list is not built by appending"
								continue
							}
							n++
							w := declaredFrom(el, "optionsIdx", e.(ssa.Instruction).Block(), func(k ssa.Value) bool {
								leaves := concatLeaves(k)
								if len(leaves) != 2 {
									return false
								}
								if s, isS := ir.ConstString(leaves[0]); !isS || s != "-" {
									return false
								}
								sl, isSl := leaves[1].(*ssa.Slice)
								if !isSl || !tokenText(sl.X) {
									return false
								}
								// [i:i+1] with i the range index over the same string
								hi, isBo := sl.High.(*ssa.BinOp)
								if !isBo || hi.Op != token.ADD || hi.X != sl.Low {
									return false
								}
								one, isOne := ir.ConstInt(hi.Y)
								if !isOne || one != 1 {
									return false
								}
								ex, isEx := sl.Low.(*ssa.Extract)
								if !isEx || ex.Index != 1 {
									return false
								}
								nx, isNx := ex.Tuple.(*ssa.Next)
								if !isNx {
									return false
								}
								rg, isRg := nx.Iter.(*ssa.Range)
								return isRg && rg.X == sl.X
							})
							if w != "" {
								why = "a letter of the folded group: " + w
							}
						}
						if n == 0 && why == "" {
							why = "the folded group's list is never extended"
						}
					}
				}
			default:
				why = "a group matcher is built for a " + kind + " token"
			}
			c.Check(why == "", Q(fn)+":NewOptions["+kind+"]", cv.Pos(), "the group holds declared options only and resolves names through the command's index", why)
		}
	}
}

func par4(c *Ctx) {
	p := c.parserFns()
	if p == nil {
		c.Undecided("anchor:parser", token.NoPos, "parser functions not found")
		return
	}
	var dd ssa.Value
	for _, f := range openingFounds(p) {
		if f.kind == "DblDash" {
			dd = f.cond
		}
	}
	// stores to rejectOptions anywhere in the package
	nStores := 0
	for _, fn := range c.pkgFuncsDeep("internal/parser") {
		ir.Instrs(fn, func(in ssa.Instruction) {
			st, ok := in.(*ssa.Store)
			if !ok {
				return
			}
			if _, f, isF := ir.FieldAddr(st.Addr); !isF || f != "rejectOptions" {
				return
			}
			if _, isAlloc := st.Addr.(*ssa.FieldAddr).X.(*ssa.Alloc); isAlloc {
				return // literal initialisation
			}
			nStores++
			c.Mark(fn)
			v, isC := ir.ConstBool(st.Val)
			good := isC && v && fn == p.atom && dd != nil && ir.HoldsAt(dd, true, st.Block())
			c.Check(good, fmt.Sprintf("%s:rejectOptions=@%s", Q(fn), relLine(c, fn, st.Pos())), st.Pos(), "set to true, only after a `--` token was consumed", "the no-more-options flag is written somewhere other than `true` on the `--` path (e.g. reset after a group)")
		})
	}
	if nStores == 0 {
		c.Bad(Q(p.atom)+":rejectOptions=", p.atom.Pos(), "a spec-level `--` never sets the no-more-options flag")
	}
	// matcher constructions
	fn := p.atom
	c.Mark(fn)
	optKinds := map[string]bool{}
	for _, call := range ir.Calls(fn) {
		cv, ok := call.(*ssa.Call)
		if !ok {
			continue
		}
		f := ir.Static(cv)
		if f == nil || f.Pkg == nil || c.P.Rel(f.Pkg.Pkg.Path()) != "internal/matcher" || (f.Name() != "NewOpt" && f.Name() != "NewOptions") {
			continue
		}
		kind := "?"
		if ks, ok := caseKinds(p, cv.Block()); ok && len(ks) > 0 {
			kind = strings.Join(ks, "|")
		}
		good := false
		ir.Instrs(fn, func(in ssa.Instruction) {
			if v, ok := in.(ssa.Value); ok {
				if _, fld, isF := ir.FieldLoad(v); isF && fld == "rejectOptions" && ir.HoldsAt(v, false, cv.Block()) {
					allPanic := true
					for _, e := range ir.EdgesWhere(fn, v, true) {
						if !allPathsPanic(e.To) {
							allPanic = false
						}
					}
					if allPanic {
						good = true
					}
				}
			}
		})
		c.Check(good, fmt.Sprintf("%s:%s[%s]", Q(fn), f.Name(), kind), cv.Pos(), "built only when no `--` precedes in the spec; otherwise a spec error", "an option matcher can be built after `--` in the spec")
		for _, k := range strings.Split(kind, "|") {
			optKinds[k] = true
		}
	}
	// an option token is never accepted without the flag having been tested: from the consumption of
	// such a token no normal return is reachable around the tests of the flag
	cut := map[ir.Edge]bool{}
	ir.Instrs(fn, func(in ssa.Instruction) {
		if v, ok := in.(ssa.Value); ok {
			if _, fld, isF := ir.FieldLoad(v); isF && fld == "rejectOptions" {
				for _, want := range []bool{true, false} {
					for _, e := range ir.EdgesWhere(fn, v, want) {
						cut[ir.Edge{From: e.From, To: e.To}] = true
					}
				}
			}
		}
	})
	for _, f := range openingFounds(p) {
		if !optKinds[f.kind] || f.cond == nil {
			continue
		}
		good := true
		for _, e := range ir.EdgesWhere(fn, f.cond, true) {
			reach := ir.Reach(e.To, nil, cut)
			for _, r := range ir.Returns(fn) {
				if reach[r.Block()] {
					good = false
				}
			}
		}
		c.Check(good, fmt.Sprintf("%s:flag-tested[%s]", Q(fn), f.kind), f.cond.Pos(), "an option token is accepted only after the no-more-options flag has been tested", "an option token of this kind can be accepted without the no-more-options flag being tested: an option after `--` compiles")
	}
}

func par5(c *Ctx) {
	p := c.parserFns()
	if p == nil {
		c.Undecided("anchor:parser", token.NoPos, "parser functions not found")
		return
	}
	fn := p.parse
	c.Mark(fn)
	// every panic of the package carries a string
	for _, f := range c.pkgFuncsDeep("internal/parser") {
		for _, pn := range ir.Panics(f) {
			c.Mark(f)
			key := fmt.Sprintf("%s:panic-type@%s", Q(f), relLine(c, f, pn.Pos()))
			v := pn.X
			if mi, ok := v.(*ssa.MakeInterface); ok {
				// the handler's `v.(string)` matches the dynamic type string only: a named string type
				// (lexer.TokenType, say, from `"..." + tok.Typ + "..."`) is re-raised as a raw panic
				c.Check(types.Identical(mi.X.Type(), types.Typ[types.String]), key, pn.Pos(), "panics with a value of type string (converted to a positioned ParseError)", "panics with a value whose type is not exactly string ("+mi.X.Type().String()+"): the handler's type assertion fails and it escapes Parse as a raw panic without a position")
				continue
			}
			// re-panic of the recovered value in the deferred closure
			if call, ok := v.(*ssa.Call); ok {
				if b, isB := call.Call.Value.(*ssa.Builtin); isB && b.Name() == "recover" {
					c.OK(key, pn.Pos(), "re-raises the recovered non-string value unchanged")
					continue
				}
			}
			c.Bad(key, pn.Pos(), "panics with a value that is not a string")
		}
	}
	// the deferred function: a closure over the named results, or a method given their addresses
	var clo *ssa.Function
	var dArgs []ssa.Value
	ir.Instrs(fn, func(in ssa.Instruction) {
		if d, ok := in.(*ssa.Defer); ok {
			if mc, isMC := d.Call.Value.(*ssa.MakeClosure); isMC {
				clo, _ = mc.Fn.(*ssa.Function)
			} else if f := d.Call.StaticCallee(); f != nil && f.Pkg == fn.Pkg {
				clo = f
				dArgs = d.Call.Args
			}
		}
	})
	if clo == nil {
		c.Bad(Q(fn)+":recover", fn.Pos(), "parse does not defer a recovering function")
		return
	}
	c.Mark(clo)
	var rec *ssa.Call
	for _, call := range ir.Calls(clo) {
		if b, ok := call.Common().Value.(*ssa.Builtin); ok && b.Name() == "recover" {
			rec, _ = call.(*ssa.Call)
		}
	}
	if rec == nil {
		c.Bad(Q(fn)+":recover", clo.Pos(), "the deferred function does not call recover() itself")
		return
	}
	// the named results of parse: the cells its final results are loaded from
	var errCell, sCell *ssa.Alloc
	for _, r := range ir.ReturnPoints(fn) {
		for _, res := range r.Results {
			if ld, ok := res.(*ssa.UnOp); ok && ld.Op == token.MUL {
				if al, isAl := ld.X.(*ssa.Alloc); isAl {
					if types.Identical(al.Type().(*types.Pointer).Elem(), types.Universe.Lookup("error").Type()) {
						errCell = al
					} else if c.isNamed(al.Type().(*types.Pointer).Elem(), "internal/fsm", "State") {
						sCell = al
					}
				}
			}
		}
	}
	// cellOf maps an address used in the deferred function to the cell of parse it denotes
	cellOf := func(addr ssa.Value) *ssa.Alloc {
		if al := ir.CellAlloc(addr); al != nil {
			return al
		}
		if prm, isP := addr.(*ssa.Parameter); isP && prm.Parent() == clo {
			for i, dp := range clo.Params {
				if dp == prm && i < len(dArgs) {
					if al, isAl := dArgs[i].(*ssa.Alloc); isAl {
						return al
					}
				}
			}
		}
		return nil
	}
	for _, sc := range []string{"none", "string", "other"} {
		for _, atEOF := range []bool{true, false} {
			if sc == "none" && !atEOF {
				continue
			}
			key := fmt.Sprintf("%s:recover[%s,eof=%v]", Q(fn), sc, atEOF)
			cond := func(v ssa.Value) (bool, bool) {
				switch x := v.(type) {
				case *ssa.BinOp:
					if (x.Op == token.NEQ || x.Op == token.EQL) && x.X == ssa.Value(rec) && ir.IsNilConst(x.Y) {
						return (x.Op == token.NEQ) == (sc != "none"), true
					}
					if x.Op == token.EQL {
						if b, isC := ir.ConstBool(x.Y); isC {
							if ex, ok := x.X.(*ssa.Extract); ok && ex.Index == 1 {
								if ta, isTA := ex.Tuple.(*ssa.TypeAssert); isTA && ta.X == ssa.Value(rec) {
									return (sc == "string") == b, true
								}
							}
						}
					}
				case *ssa.Extract:
					if x.Index == 1 {
						if ta, isTA := x.Tuple.(*ssa.TypeAssert); isTA && ta.X == ssa.Value(rec) {
							return sc == "string", true
						}
					}
				case *ssa.Call:
					if ir.Static(x) == p.eof {
						return atEOF, true
					}
				case *ssa.UnOp:
					if x.Op == token.NOT {
						if call, ok := x.X.(*ssa.Call); ok && ir.Static(call) == p.eof {
							return !atEOF, true
						}
					}
				}
				return false, false
			}
			var stores []*ssa.Store
			var path []*ssa.BasicBlock
			step := func(in ssa.Instruction) (*walkEvent, bool, string) {
				if len(path) == 0 || path[len(path)-1] != in.Block() {
					path = append(path, in.Block())
				}
				switch x := in.(type) {
				case *ssa.Store:
					stores = append(stores, x)
				case *ssa.Call:
					if x == rec {
						return nil, false, ""
					}
					if _, isB := x.Call.Value.(*ssa.Builtin); isB {
						return nil, false, ""
					}
					f := ir.Static(x)
					if f == p.eof || f == p.tokenFn {
						return nil, false, ""
					}
					return nil, false, "unexpected call in the recovering closure"
				}
				return nil, false, ""
			}
			evs, why := scenarioWalk(clo, cond, step)
			if why != "" {
				c.Undecided(key, clo.Pos(), "%s", why)
				continue
			}
			last := evs[len(evs)-1]
			var problems []string
			// what was stored to err / s
			var errVal ssa.Value
			sNil := false
			for _, st := range stores {
				if al := cellOf(st.Addr); al != nil {
					if al == errCell {
						errVal = st.Val
					}
					if al == sCell && ir.IsNilConst(st.Val) {
						sNil = true
					}
				}
			}
			switch sc {
			case "none":
				if last.what != "return" || errVal != nil || sNil {
					problems = append(problems, "without a panic the results must be left alone")
				}
			case "other":
				if last.what != "panic" || ir.Unwrap(last.args[0]) != ssa.Value(rec) {
					problems = append(problems, "a non-string panic value is not re-raised unchanged")
				}
			case "string":
				if last.what != "return" {
					problems = append(problems, "a string panic is not converted into a returned error")
				}
				if !sNil {
					problems = append(problems, "the state result is not reset to nil")
				}
				mi, isMI := errVal.(*ssa.MakeInterface)
				var lit *ssa.Alloc
				if isMI {
					lit, _ = mi.X.(*ssa.Alloc)
				}
				if lit == nil || !c.isNamed(lit.Type(), "internal/lexer", "ParseError") {
					problems = append(problems, "err is not set to a *lexer.ParseError")
				} else {
					f, _ := litFields(lit)
					if v := single(f, "Input"); v == nil || !isSpecOfParser(v) {
						problems = append(problems, "ParseError.Input is not the spec")
					}
					if v := single(f, "Msg"); v == nil {
						problems = append(problems, "ParseError.Msg is not set")
					} else if ex, ok := v.(*ssa.Extract); !ok || ex.Index != 0 {
						problems = append(problems, "ParseError.Msg is not the panic's string")
					}
					pos := single(f, "Pos")
					if pos == nil {
						problems = append(problems, "ParseError.Pos is not set")
					} else {
						pv := resolveAlong(pos, append([]*ssa.BasicBlock{}, path...))
						if atEOF {
							if lc, ok := pv.(*ssa.Call); !ok || !isLenOfSpec(lc) {
								problems = append(problems, "at end of input the position is not len(spec)")
							}
						} else {
							if b, ok := fieldOf(pv, "Pos"); !ok || !isTokenCall(b, p) {
								problems = append(problems, "the position is not the current token's Pos")
							}
						}
					}
				}
			}
			reportP(c, key, clo.Pos(), problems, "as documented: string -> positioned ParseError (token position, or len(spec) at the end); other values re-raised; nothing without a panic")
		}
	}
	// trailing tokens and success path
	{
		var problems []string
		var seqCall *ssa.Call
		for _, cv := range callsTo(fn, p.seq) {
			seqCall = cv
		}
		if seqCall == nil {
			problems = append(problems, "parse does not start with seq")
		} else {
			if b, isC := ir.ConstBool(seqCall.Call.Args[1]); !isC || b {
				problems = append(problems, "the top-level sequence must be allowed to be empty (seq(false))")
			}
			end := extractOf(seqCall, 1)
			// success: eof true edge: end.Terminal = true; Prepare(start)
			eofCalls := callsTo(fn, p.eof)
			// eofAt: some end-of-input test of parse has this outcome at block b (the parser state does not
			// change between them: parse consumes nothing itself)
			eofAt := func(want bool, b *ssa.BasicBlock) bool {
				for _, ec := range eofCalls {
					if ir.HoldsAt(ec, want, b) {
						return true
					}
				}
				return false
			}
			if len(eofCalls) == 0 {
				problems = append(problems, "parse does not test for trailing tokens")
			} else {
				term, prep := false, false
				prepare := c.fnOpt("internal/fsm", "State.Prepare")
				ir.Instrs(fn, func(in ssa.Instruction) {
					switch x := in.(type) {
					case *ssa.Store:
						if b, f, isF := ir.FieldAddr(x.Addr); isF && f == "Terminal" && b == end {
							if v, isC := ir.ConstBool(x.Val); isC && v && eofAt(true, x.Block()) {
								term = true
							}
						}
					case *ssa.Call:
						if ir.Static(x) == prepare && prepare != nil && eofAt(true, x.Block()) {
							prep = true
						}
					}
				})
				if !term {
					problems = append(problems, "on success the end state of the top-level sequence is not marked terminal")
				}
				if !prep {
					problems = append(problems, "on success the automaton is not prepared (shortcut elimination, sorting)")
				}
				// failure: eof false edge: err = ParseError at token().Pos
				okTrail := false
				ir.Instrs(fn, func(in ssa.Instruction) {
					st, ok := in.(*ssa.Store)
					if !ok || ir.CellAlloc(st.Addr) != errCell || !eofAt(false, st.Block()) {
						return
					}
					if mi, isMI := st.Val.(*ssa.MakeInterface); isMI {
						if lit, isAl := mi.X.(*ssa.Alloc); isAl && c.isNamed(lit.Type(), "internal/lexer", "ParseError") {
							f, _ := litFields(lit)
							if pos := single(f, "Pos"); pos != nil {
								okPos := false
								if b, ok := fieldOf(pos, "Pos"); ok && isTokenCall(b, p) {
									okPos = true
								}
								// "the current position": token().Pos where not at the end, len(spec) at the end
								if phi, isPhi := pos.(*ssa.Phi); isPhi {
									okPos = true
									for _, lf := range flattenPhi(phi) {
										if b, ok := fieldOf(lf.v, "Pos"); ok && isTokenCall(b, p) && eofAt(false, lf.pred) {
											continue
										}
										if lc, ok := lf.v.(*ssa.Call); ok && isLenOfSpec(lc) && eofAt(true, lf.pred) {
											continue
										}
										okPos = false
									}
								}
								if okPos {
									if in := single(f, "Input"); in != nil && isSpecOfParser(in) {
										okTrail = true
									}
								}
							}
						}
					}
				})
				if !okTrail {
					problems = append(problems, "trailing tokens do not yield a ParseError at the first unconsumed token")
				}
			}
		}
		reportP(c, Q(fn)+":outcomes", fn.Pos(), problems, "seq(false); trailing token -> ParseError at that token; otherwise end.Terminal = true and Prepare()")
	}
}

func isSpecOfParser(v ssa.Value) bool {
	_, f, ok := ir.FieldLoad(v)
	return ok && f == "spec"
}

func isLenOfSpec(call *ssa.Call) bool {
	b, ok := call.Call.Value.(*ssa.Builtin)
	return ok && b.Name() == "len" && isSpecOfParser(call.Call.Args[0])
}

func isTokenCall(v ssa.Value, p *parserFns) bool {
	call, ok := v.(*ssa.Call)
	return ok && ir.Static(call) == p.tokenFn && p.tokenFn != nil
}

// shortcutEdge describes a call X.T(NewShortcut(), Y).
type shortcutEdge struct {
	call     *ssa.Call
	from, to ssa.Value
}

func (c *Ctx) shortcutEdges(fn *ssa.Function) []shortcutEdge {
	tfn := c.fnOpt("internal/fsm", "State.T")
	nsc := c.fnOpt("internal/matcher", "NewShortcut")
	var out []shortcutEdge
	for _, cv := range callsTo(fn, tfn) {
		if m, ok := cv.Call.Args[1].(*ssa.Call); ok && ir.Static(m) == nsc && nsc != nil {
			out = append(out, shortcutEdge{cv, cv.Call.Args[0], cv.Call.Args[2]})
		}
	}
	return out
}

func par6(c *Ctx) {
	p := c.parserFns()
	if p == nil {
		c.Undecided("anchor:parser", token.NoPos, "parser functions not found")
		return
	}
	fn := p.atom
	c.Mark(fn)
	founds := map[string]ssa.Value{}
	for _, f := range p.consumers(fn) {
		if f.kind != "" {
			founds[f.kind] = f.cond
		}
	}
	edges := c.shortcutEdges(fn)
	used := map[*ssa.Call]bool{}
	// `[` : shortcut start->end of the inner sequence
	{
		okSq := false
		why := "`[x]` does not add a shortcut from the start to the end of x"
		if f := founds["OpenSq"]; f != nil {
			for _, e := range edges {
				if !inCaseOf(p, e.call.Block(), "OpenSq") {
					continue
				}
				fx, okF := e.from.(*ssa.Extract)
				tx, okT := e.to.(*ssa.Extract)
				if okF && okT && fx.Tuple == tx.Tuple && fx.Index == 0 && tx.Index == 1 {
					if sc, isCall := fx.Tuple.(*ssa.Call); isCall && ir.Static(sc) == p.seq {
						okSq = true
						used[e.call] = true
						// the fragment returned is that sequence's
					}
				} else {
					why = "`[x]`'s shortcut is not start->end of x (the empty alternative would be lost or reversed)"
				}
			}
		}
		c.Check(okSq, Q(fn)+":optional", fn.Pos(), "`[x]` = x plus a shortcut from x's start to x's end", why)
	}
	// `...`: shortcut end->start of the returned fragment
	{
		okRep := false
		why := "`x...` does not add a shortcut from the end of x back to its start"
		if f := founds["Rep"]; f != nil {
			for _, e := range edges {
				if !ir.HoldsAt(f, true, e.call.Block()) {
					continue
				}
				// the returned fragment after Rep
				for _, r := range ir.ReturnPoints(fn) {
					if r.Block() == e.call.Block() || e.call.Block().Dominates(r.Block()) || ir.Reach(e.call.Block(), nil, nil)[r.Block()] {
						if len(r.Results) == 2 && e.from == r.Results[1] && e.to == r.Results[0] {
							okRep = true
							used[e.call] = true
						} else if len(r.Results) == 2 && e.from == r.Results[0] && e.to == r.Results[1] {
							why = "the repetition shortcut goes start->end instead of end->start (`x...` would mean `[x]`)"
						}
					}
				}
			}
			// on the false edge no shortcut is added: guaranteed by dominance check above (edges under true only)
		}
		c.Check(okRep, Q(fn)+":repetition", fn.Pos(), "`x...` = x plus a shortcut from x's end to x's start", why)
	}
	// nothing else adds shortcuts in atom
	{
		var extra []string
		for _, e := range edges {
			if !used[e.call] {
				extra = append(extra, c.P.Pos(e.call.Pos()))
			}
		}
		c.Check(len(extra) == 0, Q(fn)+":no-other-shortcuts", fn.Pos(), "only `[..]` and `...` add shortcut edges in atom", "additional shortcut edges at "+strings.Join(extra, ", "))
	}
	// groups: seq(true), fragment returned, closer expected
	for _, g := range []struct{ open, close string }{{"OpenPar", "ClosePar"}, {"OpenSq", "CloseSq"}} {
		key := Q(fn) + ":group[" + g.open + "]"
		f := founds[g.open]
		var problems []string
		if f == nil {
			problems = append(problems, "no case for this opener")
		} else {
			var sc *ssa.Call
			for _, cv := range callsTo(fn, p.seq) {
				if inCaseOf(p, cv.Block(), g.open) {
					sc = cv
				}
			}
			if sc == nil {
				problems = append(problems, "the group's content is not parsed as a sequence")
			} else {
				if b, isC := ir.ConstBool(sc.Call.Args[1]); !isC || !b {
					problems = append(problems, "the group may be empty (seq must be required)")
				}
				okClose := false
				for _, ev := range callsTo(fn, p.expect) {
					if k, _ := kindArg(ev); k == g.close && (ev.Block() == sc.Block() && ir.IndexIn(ev) > ir.IndexIn(sc) || sc.Block().Dominates(ev.Block()) && ev.Block() != sc.Block()) {
						okClose = true
					}
				}
				if !okClose {
					problems = append(problems, "the matching closer is not demanded after the content")
				}
				// the fragment flows to the return
				s0, s1 := extractOf(sc, 0), extractOf(sc, 1)
				flows := false
				for _, r := range ir.ReturnPoints(fn) {
					if len(r.Results) == 2 && phiHas(r.Results[0], s0) && phiHas(r.Results[1], s1) {
						flows = true
					}
				}
				if !flows {
					problems = append(problems, "the group's fragment is not what atom returns")
				}
			}
		}
		reportP(c, key, fn.Pos(), problems, "opener, non-empty sequence, closer; the sequence's fragment is returned")
	}
	// seq(required): executed symbolically for required in {true,false} and canAtom() answering T..TF
	{
		f := p.seq
		c.Mark(f)
		newState := c.fnOpt("internal/fsm", "NewState")
		for _, required := range []bool{true, false} {
			for _, more := range []int{0, 1, 2} {
				key := fmt.Sprintf("%s:concatenation[required=%v,more=%d]", Q(f), required, more)
				nCan, nChoice, nState := 0, 0, 0
				m := &symMachine{}
				m.onCall = func(m *symMachine, call ssa.CallInstruction, callee *ssa.Function, args []symVal) (symVal, bool) {
					switch callee {
					case p.canAtom:
						// a pure test of the cursor: true while elements remain, however often it is asked
						nCan++
						total := more
						if required {
							total++
						}
						return nChoice < total, true
					case p.choice:
						nChoice++
						m.event("choice#%d", nChoice)
						return []symVal{fmt.Sprintf("s#%d", nChoice), fmt.Sprintf("e#%d", nChoice)}, true
					case newState:
						nState++
						return fmt.Sprintf("st#%d", nState), true
					}
					return nil, false
				}
				m.onLoop = func(m *symMachine, hdr *ssa.BasicBlock, eval func(ssa.Value) symVal) (*ssa.BasicBlock, bool) {
					from, onto, exit, ok := c.loopOverTransitions(hdr)
					if !ok {
						return nil, false
					}
					ontoV := eval(onto)
					if ld, isLd := onto.(*ssa.UnOp); isLd && ld.Op == token.MUL {
						if cell, isCell := eval(ld.X).(*symCell); isCell {
							ontoV = cell.v
						}
					}
					m.event("graft(%s onto %s)", symStr(eval(from)), symStr(ontoV))
					return exit, true
				}
				res := m.run(f, []symVal{"p", required}, nil)
				if m.err != "" {
					c.Undecided(key, f.Pos(), "cannot execute seq symbolically: %s", m.err)
					continue
				}
				// expected: one element if required, then one per canAtom()==true; each grafted onto the running end
				var want []string
				end := "st#1"
				n := more
				if required {
					n++
				}
				for i := 1; i <= n; i++ {
					want = append(want, fmt.Sprintf("choice#%d", i), fmt.Sprintf("graft(s#%d onto %s)", i, end))
					end = fmt.Sprintf("e#%d", i)
				}
				got := strings.Join(m.events, " ")
				exp := strings.Join(want, " ")
				gotRes := symStr(symVal(res))
				expRes := fmt.Sprintf("(st#1,%s)", end)
				c.Check(got == exp && gotRes == expRes, key, f.Pos(), fmt.Sprintf("%s => %s", got, gotRes),
					fmt.Sprintf("behaves as [%s] => %s, expected [%s] => %s (a required sequence parses one element unconditionally, then one per canAtom(); every fragment's start transitions move onto the running end)", got, gotRes, exp, expRes))
			}
		}
	}
	// choice: executed symbolically with found(`|`) answering T..TF
	{
		f := p.choice
		c.Mark(f)
		for more := 0; more <= 2; more++ {
			key := fmt.Sprintf("%s:alternation[more=%d]", Q(f), more)
			events, res, err := c.runChoice(p, more)
			if err != "" {
				c.Undecided(key, f.Pos(), "cannot execute choice symbolically: %s", err)
				continue
			}
			var want []string
			for i := 1; i <= more+1; i++ {
				if i > 1 {
					want = append(want, "found(Choice)=true")
				}
				// the two shortcuts of one alternative touch different states: their order is immaterial
				want = append(want, fmt.Sprintf("atom#%d", i), fmt.Sprintf("T(e#%d,shortcut,st#2)", i), fmt.Sprintf("T(st#1,shortcut,s#%d)", i))
			}
			want = append(want, "found(Choice)=false")
			got := strings.Join(events, " ")
			exp := strings.Join(want, " ")
			c.Check(got == exp && res == "(st#1,st#2)", key, f.Pos(), fmt.Sprintf("%s => %s", got, res),
				fmt.Sprintf("behaves as [%s] => %s, expected [%s] => (st#1,st#2) (every alternative hangs between a common start and a common end by shortcuts; alternatives are separated by `|`)", got, res, exp))
		}
	}
}

// runChoice interprets choice() with found(Choice) answering true `more` times and then false. Events
// between two atoms are sorted (the two shortcut edges of one alternative are independent).
func (c *Ctx) runChoice(p *parserFns, more int) (events []string, res string, err string) {
	newState := c.fnOpt("internal/fsm", "NewState")
	newShortcut := c.fnOpt("internal/matcher", "NewShortcut")
	tfn := c.fnOpt("internal/fsm", "State.T")
	nFound, nAtom, nState := 0, 0, 0
	m := &symMachine{}
	m.onCall = func(m *symMachine, call ssa.CallInstruction, callee *ssa.Function, args []symVal) (symVal, bool) {
		switch callee {
		case p.found:
			cv, _ := call.(*ssa.Call)
			k := ""
			if cv != nil {
				k, _ = kindArg(cv)
			}
			if k != "Choice" {
				m.fail("found(%s) in choice", k)
				return false, true
			}
			nFound++
			ans := nFound <= more
			m.event("found(Choice)=%v", ans)
			return ans, true
		case p.atom:
			nAtom++
			m.event("atom#%d", nAtom)
			return []symVal{fmt.Sprintf("s#%d", nAtom), fmt.Sprintf("e#%d", nAtom)}, true
		case newState:
			nState++
			return fmt.Sprintf("st#%d", nState), true
		case newShortcut:
			return "shortcut", true
		case tfn:
			if len(args) == 3 {
				m.event("T(%s,%s,%s)", symStr(args[0]), symStr(args[1]), symStr(args[2]))
				return args[0], true
			}
		}
		return nil, false
	}
	out := m.run(p.choice, []symVal{"p"}, nil)
	if m.err != "" {
		return nil, "", m.err
	}
	var cur []string
	flush := func() {
		sort.Strings(cur)
		events = append(events, cur...)
		cur = nil
	}
	for _, e := range m.events {
		if strings.HasPrefix(e, "T(") {
			cur = append(cur, e)
			continue
		}
		flush()
		events = append(events, e)
	}
	flush()
	return events, symStr(symVal(out)), ""
}

func phiHas(v, want ssa.Value) bool {
	if v == want {
		return true
	}
	if phi, ok := v.(*ssa.Phi); ok {
		for _, e := range phi.Edges {
			if e == want {
				return true
			}
		}
	}
	return false
}

func par7(c *Ctx) {
	p := c.parserFns()
	if p == nil {
		c.Undecided("anchor:parser", token.NoPos, "parser functions not found")
		return
	}
	// atom -> seq only after a consumed opener
	ok := true
	n := 0
	for _, cv := range callsTo(p.atom, p.seq) {
		n++
		dom := false
		for _, f := range p.consumers(p.atom) {
			if ir.HoldsAt(f.cond, true, cv.Block()) {
				dom = true
			}
		}
		if !dom {
			// a case reached from several kind tests (`case A, B:`): every way in consumed a token
			if ks, okK := caseKinds(p, cv.Block()); okK && len(ks) > 0 {
				dom = true
			}
		}
		if !dom {
			ok = false
		}
	}
	c.Check(ok && n >= 1, Q(p.atom)+"->seq", p.atom.Pos(), "the recursive descent into a group happens only after its opener was consumed", "atom can recurse into seq without consuming a token: unbounded recursion")
	// seq loop body calls choice (which calls atom first, which consumes on every normal return: PAR-2)
	okSeq := false
	for _, cv := range callsTo(p.seq, p.choice) {
		if ir.InLoop(cv.Block()) {
			okSeq = true
		}
	}
	firstAtom, okCh := true, true
	for more := 0; more <= 2; more++ {
		events, _, err := c.runChoice(p, more)
		if err != "" || len(events) == 0 || events[0] != "atom#1" {
			firstAtom = false
		}
		// between two atoms a `|` was consumed
		prevAtom := false
		for _, e := range events {
			if strings.HasPrefix(e, "atom#") {
				if prevAtom {
					okCh = false
				}
				prevAtom = true
			} else if e == "found(Choice)=true" {
				prevAtom = false
			}
		}
		if err != "" {
			okCh = false
		}
	}
	c.Check(okSeq && firstAtom, Q(p.seq)+":loop", p.seq.Pos(), "each iteration parses a choice, whose first action is an atom (consumes: PAR-2)", "the sequence loop can iterate without consuming")
	c.Check(okCh, Q(p.choice)+":loop", p.choice.Pos(), "a further alternative is parsed only after a `|` was consumed", "the alternation loop does not consume a `|` before parsing another alternative")
}
