package rules

import (
	"regexp"
	"sort"
	"strings"

	"verif/checker/internal/report"
)

// Obligation-level scoping. A rule is mapped to every property that at least one of its obligations
// is a necessary condition of; an obligation is reported only under the properties it is itself
// necessary for. The table below narrows obligations by (rule, construct); what it does not mention
// (anchors, floors, rule panics, constructs of shapes the table has not seen) stays with all of the
// rule's properties, which is the safe side for detection. Obligations the rule code scoped itself
// (Ctx.Scope) are left alone.
type scopeEntry struct {
	rule      string
	construct *regexp.Regexp
	props     []string
}

func sc(rule, re string, props ...string) scopeEntry {
	return scopeEntry{rule, regexp.MustCompile(re), props}
}

var scopeTable = []scopeEntry{
	// rejection funnel
	sc("CMD-1", `:propagates`, "C05", "C07"),
	sc("CMD-1", `:rejected=>returned@`, "C07"),
	sc("CMD-1", `:verdict\[`, "C01", "C04", "C07", "C09", "C10", "C11"),
	sc("CMD-1", `:reject\[Errorf`, "C01", "C04", "C07"),
	sc("CMD-1", `:reject\[`, "C01", "C04", "C07", "C13", "C19"),
	// compile path
	sc("CMD-10", `:(spec-args-part|spec-options-part)`, "C08", "C16"), // a given spec reaches the scanner as written
	sc("CMD-10", `^writers\(Cmd\.Spec\)`, "C16"),
	sc("CMD-10", `:scanner-input`, "C01", "C03", "C08", "C16"),
	sc("CMD-10", `:parser-input`, "C01", "C03", "C04", "C08", "C16"),
	sc("CMD-10", `:result`, "C01", "C04", "C08"),
	// output streams
	sc("CMD-11", `\.parse:fmt\.`, "C07"),
	sc("CMD-11", `(printHelp|printTabbedRow):fmt\.`, "C14", "C17"),
	sc("CMD-11", `PrintVersion:fmt\.`, "C14"),
	// policy switch
	sc("CMD-2", `onError\[error,`, "C07"),
	sc("CMD-2", `onError\[(help|version),`, "C14"),
	// help branch: --help shows the long description
	sc("CMD-3", `:help-branch`, "C14", "C17"),
	sc("CMD-3", `.`, "C14"),
	// help scan
	sc("CMD-4", `:vector-only`, "C03", "C14"),
	sc("CMD-4", `:index-of-help`, "C14", "C10"), // C10: a spelling of an option occurrence that the help scan takes for a help token
	sc("CMD-4", `:(every-token-tested|none-found|help-token-found)`, "C14"),
	sc("CMD-4", `.`, "C14", "C09"),
	// version
	sc("CMD-5", `:(version-branch|version-first)`, "C14"),
	sc("CMD-5", `\.Version$`, "C14"),
	// routing
	sc("CMD-6", `:help-descent`, "C14"),
	sc("CMD-6", `:split`, "C04", "C07", "C10"),             // the split compares whole tokens with aliases: it never looks inside an option token
	sc("CMD-6", `:own-tokens`, "C02", "C04", "C07", "C09"), // the level's tokens reach the automaton as they are
	sc("CMD-6", `:descent`, "C04", "C07"),
	sc("CMD-7", `getOptsAndArgs$|level-split`, "C04", "C10"),
	sc("CMD-7", `.`, "C04"),
	sc("CMD-6", `^writers\(Cmd\.fsm\)`, "C02", "C04", "C15"), // an automaton compiled elsewhere binds into another command's containers
	sc("CMD-6", `.`, "C04", "C07", "C14"),
	// registration
	sc("DECL-4", `:listed|^writers\(Cmd\.options`, "C10", "C16", "C18"), // [OPTIONS] is derived from the list
	sc("DECL-4", `mkOptStrs$`, "C10", "C17", "C18"),                     // the help shows the first short and long name as declared
	sc("DECL-4", `.`, "C10", "C18"),
	sc("DECL-5", `:insert`, "C18"),
	sc("DECL-5", `:listed`, "C16", "C18"),
	sc("DECL-5", `validArgName`, "C18"),
	sc("LEX-4", `:first-byte`, "C08", "C18"), // a declared argument name is validated with the scanner
	sc("LEX-4", `.`, "C08"),
	sc("DECL-5", `^writers\(Cmd\.argsIdx\)`, "C18"),
	// hook chain
	sc("FLOW-1", `:(Before-step|After-step|root-steps)`, "C05"),
	// the search: an env-backed option matches without a token, so its transition must be offered too
	sc("FSM-3", `:(offer-all|record-all)`, "C01", "C11", "C12"),
	sc("FSM-3", `.`, "C01", "C11"),
	// contexts
	sc("FSM-4", `:context-follows-branch`, "C02", "C09", "C15"), // the context carries the options-ended flag
	sc("FSM-4", `:(merge-on-success|root-context)`, "C02", "C15"),
	sc("FSM-4", `Merge:`, "C02", "C15"),
	// who drives Set/Clear
	sc("FSM-5", `^driver `, "C02", "C06", "C19"),
	sc("FSM-5", `->fillContainers`, "C02", "C07", "C13", "C19"),
	sc("FSM-5", `:mismatch-is-error`, "C07"),
	// fill protocol
	sc("FSM-6", `:clear-once-first`, "C02", "C06", "C19"),
	sc("FSM-6", `:clears-env-flag`, "C06", "C12"),
	sc("FSM-6", `:error-returned`, "C07", "C13", "C19"),
	sc("FSM-6", `:every-container`, "C02", "C06", "C13", "C15", "C19"),
	sc("FSM-7", `:strip$`, "C01", "C02", "C09", "C19"), // C19: a value type receives every token bound to it, a later `--` included
	sc("FSM-7", `.`, "C01", "C02", "C09"),
	sc("FSM-6", `:set-each-in-order`, "C02", "C06", "C09", "C13", "C19"), // C09: what follows -- is bound verbatim
	sc("FSM-6", `:sets-user-flag`, "C15"),
	sc("FSM-6", `^writers\(\*ValueSetByUser\)`, "C15"),
	// help
	sc("HELP-1", `:(argument-rows|option-rows|command-rows|description)`, "C17"),
	sc("HELP-1", `:parents`, "C07", "C14", "C17"), // C07: the usage of the rejecting command names its full path
	sc("HELP-1", `:usage-line`, "C07", "C14", "C16", "C17"),
	sc("HELP-1", `.`, "C14", "C16", "C17"),
	// the option matcher's exits
	sc("MAT-4", `:exit#`, "C01", "C12"),
	// the group matcher
	sc("MAT-6", `:(gives-up|offered-unless-excluded)`, "C01", "C11", "C12"),
	sc("MAT-6", `.`, "C12", "C03", "C10", "C11"), // C11: an occurrence taken out of a folded token on one side of a swap
	// skip counts and give-up grounds of the two option matchers
	sc("MAT-7", `:skip@`, "C10", "C11", "C02", "C01", "C06", "C09"),    // C09: an undeclared-looking token shields what is behind it
	sc("MAT-7", `:foreign@`, "C10", "C11", "C02", "C01", "C06", "C12"), // C12: an env-backed option env-matches where the scan gives up
	sc("MAT-7", `.`, "C10", "C11", "C02", "C01", "C06"),
	sc("MAT-8", `:gives-up-only`, "C10", "C19", "C01", "C02", "C13", "C11", "C06", "C12"),
	// matcher loops and bounds
	sc("MAT-12", `:(str)?bounds@`, "C03"),
	// options-ended flag and the `--` token
	sc("MAT-3", `:stops-at-dashdash`, "C01", "C02", "C09", "C15"),
	sc("MAT-3", `optsEnd\.Match$`, "C01", "C02", "C09"), // a literal -- behind the marker is a positional, verbatim
	sc("MAT-3", `Match$|try$`, "C01", "C09"),
	// what is recorded
	sc("MAT-2", `\(Opts\)`, "C02", "C10", "C13", "C15", "C19"),
	sc("MAT-2", `(\(Args\)|:verbatim)`, "C02", "C09", "C13", "C15", "C19"),
	// sibling guards
	sc("MAT-8", `\[flag\]`, "C10", "C19"),
	sc("MAT-8", `.`, "C10", "C19", "C01", "C02", "C13", "C11", "C06"),
	// parser typestate
	sc("PAR-1", `:no-Rep-after-DblDash`, "C03", "C08"), // a repeated marker consumes nothing: unbounded recursion in apply
	sc("PAR-1", `.`, "C08"),
	sc("PAR-2", `:(back@|panic\[|meaning)`, "C08"),
	sc("PAR-5", `:(panic-type@|recover\[)`, "C03", "C08"),
	sc("PAR-6", `:(no-other-shortcuts|optional|repetition|alternation\[|concatenation\[)`, "C01"),
	// multi-valued built-ins: String() is what the help shows as the default
	sc("VAL-7", `:every-element`, "C17"),
	sc("VAL-7", `.`, "C02", "C06", "C13", "C20"),
	// capabilities
	sc("VAL-5", `(IsDefault|DefaultValue)$`, "C17"),
	sc("VAL-5", `IsBool$`, "C01", "C02", "C10", "C19"),
}

// applyScopes narrows the obligations of one rule run.
func applyScopes(r *Rule, obs []report.Obligation) {
	inRule := map[string]bool{}
	for _, p := range r.Props {
		inRule[p] = true
	}
	for i := range obs {
		o := &obs[i]
		if len(o.OnlyFor) > 0 {
			continue
		}
		if r.ID == "DECL-1" {
			if ps := decl1Scope(o); ps != nil {
				o.OnlyFor = ps
			}
			continue
		}
		if r.ID == "DECL-2" {
			if ps := decl2Scope(o); ps != nil {
				o.OnlyFor = ps
			}
			continue
		}
		if o.Construct == "floor" || strings.HasPrefix(o.Construct, "anchor:") || o.Status == report.Undecided {
			continue // fail-closed items stay with every property of the rule
		}
		for _, e := range scopeTable {
			if e.rule == r.ID && e.construct.MatchString(o.Construct) {
				var ps []string
				for _, p := range e.props {
					if inRule[p] {
						ps = append(ps, p)
					}
				}
				if len(ps) > 0 {
					o.OnlyFor = ps
				}
				break
			}
		}
	}
}

// decl1Scope: a violated declaration case names the fields that are wrong; each field matters to the
// properties that read it. Anything else about the case (wrong registration function, unexpected
// fields, a shape the rule does not know) stays with all properties of the rule.
func decl1Scope(o *report.Obligation) []string {
	if o.Status != report.Violated {
		return nil
	}
	field := map[string][]string{
		"Desc":      {"C17"},
		"EnvVar":    {"C06", "C12", "C17"},
		"HideValue": {"C17"},
		"SetByUser": {"C15"},
		"Value":     {"C02", "C06", "C19"},
	}
	re := regexp.MustCompile(`^field (\w+) is not `)
	set := map[string]bool{}
	for _, p := range strings.Split(o.Detail, "; ") {
		m := re.FindStringSubmatch(p)
		if m == nil {
			return nil
		}
		ps, ok := field[m[1]]
		if !ok {
			return nil
		}
		for _, x := range ps {
			set[x] = true
		}
	}
	var out []string
	for p := range set {
		out = append(out, p)
	}
	sort.Strings(out)
	return out
}

// decl2Scope: a short form whose only fault is a field built from the wrong parameter matters to the
// properties that read that field (Desc: the help; Value: the default). Anything else stays with all.
func decl2Scope(o *report.Obligation) []string {
	if o.Status != report.Violated {
		return nil
	}
	field := map[string][]string{
		"Desc":  {"C17"},
		"Value": {"C06"},
	}
	re := regexp.MustCompile(`^field (\w+) is not the parameter`)
	set := map[string]bool{}
	for _, p := range strings.Split(o.Detail, "; ") {
		m := re.FindStringSubmatch(p)
		if m == nil {
			return nil
		}
		ps, ok := field[m[1]]
		if !ok {
			return nil
		}
		for _, x := range ps {
			set[x] = true
		}
	}
	var out []string
	for p := range set {
		out = append(out, p)
	}
	sort.Strings(out)
	return out
}
