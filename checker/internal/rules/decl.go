package rules

import (
	"fmt"
	"go/constant"
	"go/token"
	"go/types"
	"sort"
	"strings"

	"golang.org/x/tools/go/ssa"

	"verif/checker/internal/ir"
)

func init() {
	register(&Rule{ID: "DECL-1", Props: []string{"C06", "C15", "C17", "C18", "C19", "C12", "C02"}, Floor: 16,
		Doc: "every container literal of the declaration family copies Name, Desc, EnvVar, HideValue, SetByUser and the value() result from the same parameter and goes to the registration function matching the case type (…Opt / …Arg)", Run: decl1})
	register(&Rule{ID: "DECL-2", Props: []string{"C06", "C18", "C17"}, Floor: 28,
		Doc: "short forms build the struct from the like-named parameters and delegate to the typed method", Run: decl2})
	register(&Rule{ID: "DECL-3", Props: []string{"C06", "C02"}, Floor: 14,
		Doc: "XOpt.value and XArg.value call the same values.NewX(into, recv.Value), allocate iff into == nil and return that into", Run: decl3})
	register(&Rule{ID: "DECL-4", Props: []string{"C18", "C10", "C16", "C17"}, Floor: 5,
		Doc: "option registration: one writer of the option index, a loop over all names, duplicate check (panic) before insert, one pointer for all names which is also the listed one, '-' prefix iff length 1", Run: decl4})
	register(&Rule{ID: "DECL-5", Props: []string{"C18", "C16"}, Floor: 5,
		Doc: "argument registration: insert dominated by the not-found edge and by a true validator result, both failing edges panic; the validator demands no lexer error, exactly one token, kind Arg", Run: decl5})
	register(&Rule{ID: "DECL-6", Props: []string{"C06", "C12", "C17"}, Floor: 2,
		Doc: "the default is captured before the environment is applied; ValueSetFromEnv receives the result of the env application", Run: decl6})
	register(&Rule{ID: "DECL-7", Props: []string{"C06", "C20"}, Floor: 1,
		Doc: "os.Getenv is called from one function, which is called only from the two registration functions", Run: decl7})
}

// cmdFieldLoad reports whether v is a load of field `name` of a *Cmd.
func (c *Ctx) cmdFieldLoad(v ssa.Value, name string) bool {
	base, f, ok := ir.FieldLoad(v)
	return ok && f == name && c.isNamed(base.Type(), "", "Cmd")
}

// indexWriters returns the functions of the root package that update the map
// held in Cmd.<field>, with the MapUpdate instructions.
func (c *Ctx) indexWriters(field string) map[*ssa.Function][]*ssa.MapUpdate {
	out := map[*ssa.Function][]*ssa.MapUpdate{}
	for _, fn := range c.ClosureFuncsDeep() {
		ir.Instrs(fn, func(in ssa.Instruction) {
			if mu, ok := in.(*ssa.MapUpdate); ok && c.cmdFieldLoad(mu.Map, field) {
				out[fn] = append(out[fn], mu)
			}
		})
	}
	return out
}

func (c *Ctx) soleWriter(field string) *ssa.Function {
	w := c.indexWriters(field)
	if len(w) != 1 {
		return nil
	}
	for fn := range w {
		return fn
	}
	return nil
}

// litFields returns, for a struct held in Alloc al, the values stored to each
// field (by FieldAddr stores) and whether a whole-struct store exists.
func litFields(al *ssa.Alloc) (fields map[string][]ssa.Value, whole []ssa.Value) {
	return litFieldsOf(al, al.Block())
}

// declCell is the cell a registration function works on: its by-value parameter spilled to an Alloc,
// or a pointer parameter (the caller's literal handed over by address).
func declCell(v ssa.Value) (ssa.Value, bool) {
	switch x := v.(type) {
	case *ssa.Alloc:
		return x, true
	case *ssa.Parameter:
		if _, isPtr := x.Type().Underlying().(*types.Pointer); isPtr {
			return x, true
		}
	}
	return nil, false
}

func cellFields(v ssa.Value) map[string][]ssa.Value {
	switch x := v.(type) {
	case *ssa.Alloc:
		f, _ := litFields(x)
		return f
	case *ssa.Parameter:
		f, _ := litFieldsOf(x, x.Parent().Blocks[0])
		return f
	}
	return nil
}

func litFieldsOf(al ssa.Value, home *ssa.BasicBlock) (fields map[string][]ssa.Value, whole []ssa.Value) {
	fields = map[string][]ssa.Value{}
	// a store of the zero value that is the first store to its field, in the block of the (zeroed)
	// Alloc itself, changes nothing: `T{F: nil}` is `T{}`
	firstStore := map[string]*ssa.Store{}
	for _, u := range *al.Referrers() {
		if x, ok := u.(*ssa.FieldAddr); ok {
			_, name, _ := ir.FieldAddr(x)
			for _, uu := range *x.Referrers() {
				if st, ok := uu.(*ssa.Store); ok && st.Addr == x && st.Block() == home {
					if cur := firstStore[name]; cur == nil || ir.IndexIn(st) < ir.IndexIn(cur) {
						firstStore[name] = st
					}
				}
			}
		}
	}
	for _, u := range *al.Referrers() {
		switch x := u.(type) {
		case *ssa.FieldAddr:
			_, name, _ := ir.FieldAddr(x)
			for _, uu := range *x.Referrers() {
				if st, ok := uu.(*ssa.Store); ok && st.Addr == x {
					if firstStore[name] == st && isZeroConst(st.Val) {
						continue
					}
					fields[name] = append(fields[name], st.Val)
				}
			}
		case *ssa.Store:
			if x.Addr == al {
				// zeroing the variable before its fields are set (`var v T` / `v = T{}` ahead of the field
				// stores, in the same block) changes nothing
				if isZeroConst(x.Val) {
					early := true
					for _, fs := range firstStore {
						if fs.Block() != x.Block() || ir.IndexIn(fs) < ir.IndexIn(x) {
							early = false
						}
					}
					if early {
						continue
					}
				}
				whole = append(whole, x.Val)
			}
		}
	}
	// a field copied from a field of another local literal (`d := decl{name: x.Name}; T{Name: d.name}`,
	// what an intermediate parameter struct leaves behind once its method is inlined) is that literal's value
	for name, vs := range fields {
		for i, v := range vs {
			fields[name][i] = throughLiteral(v, 3)
		}
	}
	// a single whole assignment that copies another literal of the same function (what a constructor
	// helper leaves behind once inlined: `tmp := T{...}; *lit = tmp`) and no field store of its own: the
	// content is that literal's
	if len(whole) == 1 && len(fields) == 0 {
		if ld, ok := whole[0].(*ssa.UnOp); ok && ld.Op == token.MUL {
			if src, isAl := ld.X.(*ssa.Alloc); isAl && src != al && src.Parent() == al.Parent() {
				// the source must not be written after the copy was taken
				late := false
				for _, u := range *src.Referrers() {
					if fa, isFA := u.(*ssa.FieldAddr); isFA {
						for _, uu := range *fa.Referrers() {
							if st, isSt := uu.(*ssa.Store); isSt && st.Addr == ssa.Value(fa) {
								if st.Block() != ld.Block() && !st.Block().Dominates(ld.Block()) || st.Block() == ld.Block() && ir.IndexIn(st) > ir.IndexIn(ld) {
									late = true
								}
							}
						}
					}
				}
				if !late {
					return litFields(src)
				}
			}
		}
	}
	return
}

// throughLiteral: v = lit.f read from a local literal (or a copy of one) whose field f is set exactly
// once, before the read: the value stored there.
func throughLiteral(v ssa.Value, depth int) ssa.Value {
	if depth == 0 {
		return v
	}
	ld, ok := v.(*ssa.UnOp)
	if !ok || ld.Op != token.MUL {
		return v
	}
	fa, ok := ld.X.(*ssa.FieldAddr)
	if !ok {
		return v
	}
	src, ok := fa.X.(*ssa.Alloc)
	if !ok || src.Parent() != ld.Parent() {
		return v
	}
	_, fname, _ := ir.FieldAddr(fa)
	fields, whole := litFields(src)
	if len(whole) != 0 || len(fields[fname]) != 1 {
		return v
	}
	// the single store precedes the read
	for _, u := range *src.Referrers() {
		if fa2, isFA := u.(*ssa.FieldAddr); isFA {
			if _, n2, _ := ir.FieldAddr(fa2); n2 != fname {
				continue
			}
			for _, uu := range *fa2.Referrers() {
				if st, isSt := uu.(*ssa.Store); isSt && st.Addr == ssa.Value(fa2) {
					before := st.Block() == ld.Block() && ir.IndexIn(st) < ir.IndexIn(ld) || st.Block() != ld.Block() && st.Block().Dominates(ld.Block())
					if !before {
						return v
					}
				}
			}
		}
	}
	return throughLiteral(fields[fname][0], depth-1)
}

func isZeroConst(v ssa.Value) bool {
	k, ok := v.(*ssa.Const)
	if !ok {
		return false
	}
	if k.Value == nil {
		return true
	}
	switch k.Value.Kind() {
	case constant.Bool:
		return !constant.BoolVal(k.Value)
	case constant.String:
		return constant.StringVal(k.Value) == ""
	case constant.Int, constant.Float:
		return constant.Sign(k.Value) == 0
	}
	return false
}

// structFieldSource: v is a read of field f of a struct value S, either
// through a local copy (`x := S; x.f`) or a Field instruction. Returns S, f.
func structFieldSource(v ssa.Value) (src ssa.Value, field string, ok bool) {
	base, f, isLoad := ir.FieldLoad(v)
	if !isLoad {
		return nil, "", false
	}
	if al, isAl := base.(*ssa.Alloc); isAl {
		fields, whole := litFields(al)
		if len(whole) == 1 && len(fields[f]) == 0 {
			return whole[0], f, true
		}
		return nil, "", false
	}
	return base, f, true
}

// literalArg: the call argument is a load of a composite-literal Alloc.
func literalArg(v ssa.Value) *ssa.Alloc {
	// `&T{...}` handed over by pointer: the literal's own cell
	if al, ok := v.(*ssa.Alloc); ok && al.Comment == "complit" {
		return al
	}
	ld, ok := v.(*ssa.UnOp)
	if !ok || ld.Op != token.MUL {
		return nil
	}
	al, _ := ld.X.(*ssa.Alloc)
	return al
}

func decl1(c *Ctx) {
	optReg := c.soleWriter("optionsIdx")
	argReg := c.soleWriter("argsIdx")
	if optReg == nil || argReg == nil {
		c.Undecided("anchor:registration", token.NoPos, "expected exactly one writer each of Cmd.optionsIdx and Cmd.argsIdx")
		return
	}
	c.Mark(optReg)
	c.Mark(argReg)
	for _, fn := range c.pkgFuncsDeep("") {
		// no way out of a declaring function around the registration
		var regs []ssa.CallInstruction
		for _, call := range ir.Calls(fn) {
			if callee := ir.Static(call); callee == optReg || callee == argReg {
				regs = append(regs, call)
			}
		}
		if len(regs) > 0 {
			silent := ""
			for _, r := range ir.Returns(fn) {
				behind := false
				for _, call := range regs {
					if call.Block() == r.Block() || call.Block().Dominates(r.Block()) {
						behind = true
					}
				}
				if !behind && !ir.MustPassBefore(r, func(in ssa.Instruction) bool {
					ci, isCall := in.(ssa.CallInstruction)
					if !isCall {
						return false
					}
					callee := ir.Static(ci)
					return callee == optReg || callee == argReg
				}) {
					silent = c.P.Pos(r.Pos())
				}
			}
			c.Check(silent == "", Q(fn)+":always-registers", fn.Pos(), "every normal return follows a registration", "the function can return at "+silent+" without having registered anything: the declaration is dropped silently")
		}
		for _, call := range ir.Calls(fn) {
			callee := ir.Static(call)
			if callee != optReg && callee != argReg {
				continue
			}
			c.Mark(fn)
			args := call.Common().Args
			lit := literalArg(args[len(args)-1])
			if lit == nil {
				c.Undecided(Q(fn)+"->"+callee.Name(), call.Pos(), "the container is not a composite literal")
				continue
			}
			fields, whole := litFields(lit)
			if len(whole) != 0 {
				c.Undecided(Q(fn)+"->"+callee.Name(), call.Pos(), "the container literal is also assigned as a whole")
				continue
			}
			single := func(name string) ssa.Value {
				if len(fields[name]) == 1 {
					return fields[name][0]
				}
				return nil
			}
			// classify: type-switch case (fields read from an asserted struct) or direct short form
			var src ssa.Value
			if v := single("Name"); v != nil {
				if s, f, ok := structFieldSource(v); ok && f == "Name" {
					src = s
				}
			}
			if src != nil {
				ex, isEx := src.(*ssa.Extract)
				var ta *ssa.TypeAssert
				if isEx {
					ta, _ = ex.Tuple.(*ssa.TypeAssert)
				}
				if ta == nil || ex.Index != 0 {
					c.Undecided(Q(fn)+"->"+callee.Name(), call.Pos(), "the declaration struct is not the bound variable of a type-switch case")
					continue
				}
				_, tname := ir.NamedOf(ta.AssertedType)
				key := fmt.Sprintf("%s:case %s", Q(fn), tname)
				var problems []string
				for _, pair := range [][2]string{{"Name", "Name"}, {"Desc", "Desc"}, {"EnvVar", "EnvVar"}, {"HideValue", "HideValue"}, {"ValueSetByUser", "SetByUser"}} {
					v := single(pair[0])
					if v == nil {
						problems = append(problems, fmt.Sprintf("field %s is not set (exactly once)", pair[0]))
						continue
					}
					s, f, ok := structFieldSource(v)
					if !ok || s != src || f != pair[1] {
						problems = append(problems, fmt.Sprintf("field %s is not copied from %s of the case variable", pair[0], pair[1]))
					}
				}
				// Value: result of value(...) invoked on the same interface parameter
				if v := single("Value"); v == nil {
					problems = append(problems, "field Value is not set")
				} else {
					var inv *ssa.Call
					switch x := v.(type) {
					case *ssa.Extract:
						if x.Index == 0 {
							inv, _ = x.Tuple.(*ssa.Call)
						}
					case *ssa.Call:
						inv = x
					}
					okVal := inv != nil && ir.IsInvokeOf(inv, "value") && inv.Call.Value == ta.X
					if !okVal {
						// the case variable's own Value field, for a declaration type whose value() takes no
						// destination and hands that field back unchanged (checked by DECL-3)
						if sv, f, isF := structFieldSource(v); isF && sv == src && f == "Value" {
							if vm := c.fnOpt("", tname+".value"); vm != nil && len(vm.Params) == 1 {
								okVal = true
								for _, r := range ir.ReturnPoints(vm) {
									rs, rf, isRF := structFieldSource(r.Results[0])
									if !isRF || rs != ssa.Value(vm.Params[0]) || rf != "Value" {
										okVal = false
									}
								}
							}
						}
					}
					if !okVal {
						problems = append(problems, "field Value is not the result of value() on the same parameter")
					}
				}
				for name := range fields {
					switch name {
					case "Name", "Desc", "EnvVar", "HideValue", "ValueSetByUser", "Value":
					default:
						problems = append(problems, "unexpected field "+name+" set by the declaration path")
					}
				}
				// registration function must match the case type
				switch {
				case strings.HasSuffix(tname, "Opt"):
					if callee != optReg {
						problems = append(problems, "an …Opt declaration is registered as an argument")
					}
				case strings.HasSuffix(tname, "Arg"):
					if callee != argReg {
						problems = append(problems, "an …Arg declaration is registered as an option")
					}
				default:
					problems = append(problems, "case type is neither …Opt nor …Arg")
				}
				sort.Strings(problems)
				if len(problems) > 0 {
					c.Bad(key, call.Pos(), "%s", strings.Join(problems, "; "))
				} else {
					c.OK(key, call.Pos(), "Name, Desc, EnvVar, HideValue, SetByUser and value() all from the case variable; registered with %s", callee.Name())
				}
				continue
			}
			// direct short form: fields from like-named parameters
			key := fmt.Sprintf("%s:direct", Q(fn))
			var problems []string
			for _, pair := range [][2]string{{"Name", "name"}, {"Desc", "desc"}, {"Value", "value"}} {
				v := single(pair[0])
				p := ir.ParamNamed(fn, pair[1])
				if v == nil || p == nil || v != ssa.Value(p) {
					problems = append(problems, fmt.Sprintf("field %s is not the parameter %s", pair[0], pair[1]))
				}
			}
			switch {
			case strings.HasSuffix(fn.Name(), "Opt"):
				if callee != optReg {
					problems = append(problems, "an …Opt short form registers an argument")
				}
			case strings.HasSuffix(fn.Name(), "Arg"):
				if callee != argReg {
					problems = append(problems, "an …Arg short form registers an option")
				}
			default:
				problems = append(problems, "caller is neither a type-switch case nor an …Opt/…Arg short form")
			}
			if len(problems) > 0 {
				c.Bad(key, call.Pos(), "%s", strings.Join(problems, "; "))
			} else {
				c.OK(key, call.Pos(), "Name, Desc, Value from the like-named parameters; registered with %s", callee.Name())
			}
		}
	}
}

// declFamily returns the typed declaration methods (those with a type switch
// over a *Param interface), keyed by name.
func (c *Ctx) paramIfaceMethods() map[string]*ssa.Function {
	out := map[string]*ssa.Function{}
	for _, fn := range c.pkgFuncsDeep("") {
		if fn.Parent() != nil || fn.Signature.Recv() == nil || !c.isNamed(fn.Signature.Recv().Type(), "", "Cmd") {
			continue
		}
		ps := fn.Signature.Params()
		if ps.Len() == 0 {
			continue
		}
		last := ps.At(ps.Len() - 1).Type()
		n, ok := last.(*types.Named)
		if !ok {
			continue
		}
		it, isI := n.Underlying().(*types.Interface)
		if !isI || it.NumMethods() != 1 || it.Method(0).Name() != "value" {
			continue
		}
		out[fn.Name()] = fn
	}
	return out
}

func decl2(c *Ctx) {
	family := c.paramIfaceMethods()
	for _, fn := range c.pkgFuncsDeep("") {
		if fn.Parent() != nil || fn.Signature.Recv() == nil || !c.isNamed(fn.Signature.Recv().Type(), "", "Cmd") {
			continue
		}
		name := fn.Name()
		base := strings.TrimSuffix(name, "Ptr")
		if !(strings.HasSuffix(base, "Opt") || strings.HasSuffix(base, "Arg")) {
			continue
		}
		pn, pv, pd := ir.ParamNamed(fn, "name"), ir.ParamNamed(fn, "value"), ir.ParamNamed(fn, "desc")
		if pn == nil || pv == nil || pd == nil {
			continue
		}
		// delegation call to a family method?
		var deleg *ssa.Call
		for _, call := range ir.Calls(fn) {
			if f := ir.Static(call); f != nil && family[f.Name()] == f {
				deleg, _ = call.(*ssa.Call)
			}
		}
		if deleg == nil {
			continue // direct forms (Var) are covered by DECL-1
		}
		c.Mark(fn)
		key := Q(fn)
		var problems []string
		callee := ir.Static(deleg)
		isPtr := strings.HasSuffix(name, "Ptr")
		wantCallee := strings.TrimSuffix(strings.TrimSuffix(base, "Opt"), "Arg")
		if isPtr {
			wantCallee += "Ptr"
		}
		if callee.Name() != wantCallee {
			problems = append(problems, fmt.Sprintf("delegates to %s, expected %s", callee.Name(), wantCallee))
		}
		args := deleg.Call.Args
		mi, isMI := args[len(args)-1].(*ssa.MakeInterface)
		var lit *ssa.Alloc
		if isMI {
			lit = literalArg(mi.X)
		}
		if lit == nil {
			problems = append(problems, "the delegated parameter is not a struct literal")
		} else {
			_, tname := ir.NamedOf(lit.Type().(*types.Pointer).Elem())
			if tname != base {
				problems = append(problems, fmt.Sprintf("builds a %s, expected %s", tname, base))
			}
			fields, whole := litFields(lit)
			if len(whole) > 0 {
				problems = append(problems, "literal also assigned as a whole")
			}
			for _, pair := range []struct {
				f string
				p *ssa.Parameter
			}{{"Name", pn}, {"Value", pv}, {"Desc", pd}} {
				if len(fields[pair.f]) != 1 || fields[pair.f][0] != ssa.Value(pair.p) {
					problems = append(problems, fmt.Sprintf("field %s is not the parameter %s", pair.f, pair.p.Name()))
				}
			}
			for f := range fields {
				if f != "Name" && f != "Value" && f != "Desc" {
					problems = append(problems, "unexpected field "+f)
				}
			}
		}
		if isPtr {
			into := ir.ParamNamed(fn, "into")
			if into == nil || len(args) < 3 || args[1] != ssa.Value(into) {
				problems = append(problems, "into is not passed through")
			}
		} else {
			for _, r := range ir.ReturnPoints(fn) {
				if fn.Signature.Results().Len() == 0 {
					continue
				}
				if len(r.Results) != 1 || r.Results[0] != ssa.Value(deleg) {
					problems = append(problems, "does not return the delegate's result")
				}
			}
		}
		for _, r := range ir.Returns(fn) {
			if deleg.Block() != r.Block() && !deleg.Block().Dominates(r.Block()) {
				problems = append(problems, "can return without having delegated (the declaration would be dropped silently)")
				break
			}
		}
		sort.Strings(problems)
		if len(problems) > 0 {
			c.Bad(key, fn.Pos(), "%s", strings.Join(problems, "; "))
		} else {
			c.OK(key, fn.Pos(), "%s{Name,Value,Desc} from the parameters, delegated to %s", base, callee.Name())
		}
	}
}

func decl3(c *Ctx) {
	ctor := map[string]string{} // base type name (Bool, String…) -> constructor used by Opt
	type rec struct {
		fn   *ssa.Function
		ctor string
		ok   bool
	}
	recs := map[string]rec{}
	for _, fn := range c.pkgFuncsDeep("") {
		if fn.Name() != "value" || fn.Signature.Recv() == nil || fn.Parent() != nil {
			continue
		}
		_, tname := ir.NamedOf(fn.Signature.Recv().Type())
		if !(strings.HasSuffix(tname, "Opt") || strings.HasSuffix(tname, "Arg")) {
			continue
		}
		c.Mark(fn)
		key := Q(fn)
		recv := fn.Params[0]
		if len(fn.Params) == 1 {
			// Var: returns recv.Value
			ok := true
			for _, r := range ir.ReturnPoints(fn) {
				s, f, isF := structFieldSource(r.Results[0])
				if !isF || s != ssa.Value(recv) || f != "Value" {
					ok = false
				}
			}
			c.Check(ok, key, fn.Pos(), "returns the user's value unchanged", "Var value() does not return the receiver's Value field")
			continue
		}
		into := fn.Params[1]
		var problems []string
		var ctorCalls []*ssa.Call
		for _, call := range ir.Calls(fn) {
			f := ir.Static(call)
			if f != nil && f.Pkg != nil && c.P.Rel(f.Pkg.Pkg.Path()) == "internal/values" {
				ctorCalls = append(ctorCalls, call.(*ssa.Call))
			}
		}
		if len(ctorCalls) == 0 {
			c.Bad(key, fn.Pos(), "no values.NewX call")
			continue
		}
		cname := ir.Static(ctorCalls[0]).Name()
		for _, cc := range ctorCalls {
			if ir.Static(cc).Name() != cname {
				problems = append(problems, "different constructors on different paths")
			}
		}
		intoNilAt := func(b *ssa.BasicBlock, wantNil bool) bool {
			for _, u := range *into.Referrers() {
				if bo, isBo := u.(*ssa.BinOp); isBo && (ir.IsNilConst(bo.X) || ir.IsNilConst(bo.Y)) {
					if bo.Op == token.EQL && ir.HoldsAt(bo, wantNil, b) {
						return true
					}
					if bo.Op == token.NEQ && ir.HoldsAt(bo, !wantNil, b) {
						return true
					}
				}
			}
			return false
		}
		// targetOK: t is `into` when into != nil, a fresh allocation when into == nil
		targetOK := func(t ssa.Value, at *ssa.BasicBlock) bool {
			switch x := t.(type) {
			case *ssa.Phi:
				if len(x.Edges) != 2 {
					return false
				}
				var newAlloc *ssa.Alloc
				var other ssa.Value
				for _, e := range x.Edges {
					if al, isAl := e.(*ssa.Alloc); isAl && al.Heap {
						newAlloc = al
					} else {
						other = e
					}
				}
				return newAlloc != nil && other == ssa.Value(into) && intoNilAt(newAlloc.Block(), true)
			case *ssa.Parameter:
				return x == into && intoNilAt(at, false)
			case *ssa.Alloc:
				return x.Heap && intoNilAt(at, true)
			}
			return false
		}
		for _, cc := range ctorCalls {
			if !targetOK(cc.Call.Args[0], cc.Block()) {
				problems = append(problems, "the target is not `into`, freshly allocated iff into == nil")
			}
			s, f, isF := structFieldSource(cc.Call.Args[1])
			if !isF || s != ssa.Value(recv) || f != "Value" {
				problems = append(problems, "the default handed to the constructor is not the receiver's Value field")
			}
		}
		for _, r := range ir.ReturnPoints(fn) {
			okRet := false
			if len(r.Results) == 2 {
				if cc, isCall := ir.Unwrap(r.Results[0]).(*ssa.Call); isCall {
					for _, known := range ctorCalls {
						if cc == known && r.Results[1] == cc.Call.Args[0] {
							okRet = true
						}
					}
				}
			}
			if !okRet {
				problems = append(problems, "does not return (constructor result, the same into)")
			}
		}
		problems = dedupe(problems)
		base := strings.TrimSuffix(strings.TrimSuffix(tname, "Opt"), "Arg")
		if prev, seen := ctor[base]; seen && prev != cname {
			problems = append(problems, fmt.Sprintf("sibling uses %s, this one %s", prev, cname))
		}
		ctor[base] = cname
		if cname != "New"+base {
			problems = append(problems, fmt.Sprintf("constructor %s does not match the declared type %s", cname, base))
		}
		recs[key] = rec{fn, cname, len(problems) == 0}
		if len(problems) > 0 {
			c.Bad(key, fn.Pos(), "%s", strings.Join(problems, "; "))
		} else {
			c.OK(key, fn.Pos(), "values.%s(into-or-new, receiver.Value); returns that into", cname)
		}
	}
}

func dedupe(in []string) []string {
	seen := map[string]bool{}
	var out []string
	for _, s := range in {
		if !seen[s] {
			seen[s] = true
			out = append(out, s)
		}
	}
	return out
}

// sameLoad reports whether a and b are the same SSA value or two loads of the
// same field of the same local struct that is not field-written in between
// (approximated: no store to that field in the function at all).
func sameLoad(a, b ssa.Value) bool {
	if a == b {
		return true
	}
	ba, fa, oka := ir.FieldLoad(a)
	bb, fb, okb := ir.FieldLoad(b)
	if !oka || !okb || fa != fb {
		return false
	}
	if ba != bb && !sameLoad(ba, bb) {
		return false
	}
	if al, isAl := ba.(*ssa.Alloc); isAl {
		if fields, _ := litFields(al); len(fields[fa]) == 0 {
			return true
		}
		// stored somewhere: equal all the same when no store can run between the two reads (below)
	}
	// any base: the field must not be stored to anywhere in the function
	ia, ok := a.(ssa.Instruction)
	if !ok {
		return false
	}
	ib, ok := b.(ssa.Instruction)
	if !ok {
		return false
	}
	// a store to the field matters only if it can execute between the two loads
	between := func(x, st, y ssa.Instruction) bool {
		// x ... st ... y possible?
		fromX := x.Block() == st.Block() && ir.IndexIn(x) < ir.IndexIn(st)
		if !fromX {
			for _, sc := range x.Block().Succs {
				if sc == st.Block() || ir.Reach(sc, nil, nil)[st.Block()] {
					fromX = true
				}
			}
		}
		if !fromX {
			return false
		}
		if st.Block() == y.Block() && ir.IndexIn(st) < ir.IndexIn(y) {
			return true
		}
		for _, sc := range st.Block().Succs {
			if sc == y.Block() || ir.Reach(sc, nil, nil)[y.Block()] {
				return true
			}
		}
		return false
	}
	written := false
	ir.Instrs(ia.Parent(), func(in ssa.Instruction) {
		if st, isSt := in.(*ssa.Store); isSt {
			if _, f, isF := ir.FieldAddr(st.Addr); isF && f == fa {
				if between(ia, st, ib) || between(ib, st, ia) {
					written = true
				}
			}
		}
	})
	return !written
}

// lookupGuard finds a comma-ok lookup of key (or an equal load) in map field
// `field` of Cmd whose not-found edge dominates block b and whose found edge
// panics.
func (c *Ctx) lookupGuard(fn *ssa.Function, field string, key ssa.Value, b *ssa.BasicBlock) (ok bool, why string) {
	found := false
	ir.Instrs(fn, func(in ssa.Instruction) {
		lk, isLk := in.(*ssa.Lookup)
		if !isLk || !lk.CommaOk || !c.cmdFieldLoad(lk.X, field) || !sameLoad(lk.Index, key) {
			return
		}
		okv := extractOf(lk, 1)
		if okv == nil {
			return
		}
		if !ir.HoldsAt(okv, false, b) {
			// through a helper that answers "not there" for an empty index without looking: every way to the
			// insert crosses the not-found edge or an edge on which the index is empty
			cut := map[ir.Edge]bool{}
			for _, e := range ir.EdgesWhere(fn, okv, false) {
				cut[ir.Edge{From: e.From, To: e.To}] = true
			}
			for _, e := range lenOnlyZeroEdgesP(fn, func(x ssa.Value) bool { return c.cmdFieldLoad(x, field) }) {
				cut[e] = true
			}
			if ir.Reach(fn.Blocks[0], nil, cut)[b] {
				return
			}
			// the found outcome panics: the flag the helper hands back is true only on the found edge
			for _, e := range ir.EdgesWhere(fn, okv, true) {
				for blk := range ir.ReachVia(e.From, e.To, nil, nil) {
					if blk == b {
						why = "the found edge of the duplicate check does not panic"
						return
					}
				}
			}
			found = true
			return
		}
		// found edge must panic on all paths
		for _, e := range ir.EdgesWhere(fn, okv, true) {
			if !allPathsPanic(e.To) {
				why = "the found edge of the duplicate check does not panic"
				return
			}
		}
		found = true
	})
	if !found && why == "" {
		why = "no comma-ok lookup of the same key whose not-found edge dominates the insert"
	}
	return found, why
}

// allPathsPanic: every path from b ends in a panic (no return reachable).
func allPathsPanic(b *ssa.BasicBlock) bool {
	for r := range ir.Reach(b, nil, nil) {
		if ir.IsReturn(r) {
			return false
		}
	}
	return true
}

func decl4(c *Ctx) {
	writers := c.indexWriters("optionsIdx")
	var names []string
	for fn := range writers {
		names = append(names, Q(fn))
	}
	sort.Strings(names)
	if !c.Check(len(writers) == 1, "writers(Cmd.optionsIdx)", token.NoPos, "one function writes the option index: "+strings.Join(names, ","), "option index written by: "+strings.Join(names, ",")) {
		return
	}
	var fn *ssa.Function
	for f := range writers {
		fn = f
	}
	c.Mark(fn)
	mus := writers[fn]
	// the container: value stored
	for _, mu := range mus {
		key := Q(fn) + ":insert"
		var problems []string
		// key ranges over all names of the container
		sl, isRange := rangeElem(mu.Key)
		cont, isAlloc := declCell(mu.Value)
		if !isAlloc {
			problems = append(problems, "the inserted pointer is not the one container of this declaration")
		}
		if !isRange {
			problems = append(problems, "the insert is not inside a range over all names")
		} else {
			b, f, isF := ir.FieldLoad(sl)
			if !isF || f != "Names" || b != cont {
				problems = append(problems, "the names ranged over are not the container's Names")
			}
		}
		if ok, why := c.lookupGuard(fn, "optionsIdx", mu.Key, mu.Block()); !ok {
			problems = append(problems, why)
		}
		if isRange {
			if h := rangeHeader(elemIndex(mu.Key)); h != nil {
				if _, entry, _ := loopBody(h); entry != nil && entry != mu.Block() && ir.Reach(entry, map[*ssa.BasicBlock]bool{mu.Block(): true}, nil)[h] {
					problems = append(problems, "a name can be passed over without being entered in the index")
				}
			}
		}
		if len(problems) > 0 {
			c.Bad(key, mu.Pos(), "%s", strings.Join(problems, "; "))
		} else {
			c.OK(key, mu.Pos(), "every name is looked up first (found: panic) and then mapped to the one container")
		}
		// the same pointer is appended to the option list
		if isAlloc {
			listed := false
			ir.Instrs(fn, func(in ssa.Instruction) {
				st, ok := in.(*ssa.Store)
				if !ok {
					return
				}
				if b, f, isF := ir.FieldAddr(st.Addr); isF && f == "options" && c.isNamed(b.Type(), "", "Cmd") {
					if base, el, isApp := appendedSingle(st.Val); isApp && el == cont && c.cmdFieldLoad(base, "options") {
						listed = true
					}
				}
			})
			c.Check(listed, Q(fn)+":listed", mu.Pos(), "the indexed container is the one appended to the option list", "the indexed container is not the one appended to the option list")
			// Names comes from the name-list function applied to the container's Name
			fields := cellFields(cont)
			okNames := false
			var namesFn *ssa.Function
			if vs := fields["Names"]; len(vs) == 1 {
				if call, isCall := vs[0].(*ssa.Call); isCall {
					if f := ir.Static(call); f != nil && len(call.Call.Args) == 1 {
						if b, fl, isF := ir.FieldLoad(call.Call.Args[0]); isF && fl == "Name" && b == cont {
							okNames = true
							namesFn = f
						}
					}
				}
			}
			c.Check(okNames, Q(fn)+":names", mu.Pos(), "Names is computed from the declaration's Name", "Names is not computed from the declaration's Name by one function")
			if namesFn != nil {
				c.Mark(namesFn)
				decl4names(c, namesFn)
			}
		}
	}
	// nothing else writes Cmd.options
	listWriters := map[string]bool{}
	for _, f := range c.ClosureFuncsDeep() {
		ir.Instrs(f, func(in ssa.Instruction) {
			if st, ok := in.(*ssa.Store); ok {
				if b, fl, isF := ir.FieldAddr(st.Addr); isF && fl == "options" && c.isNamed(b.Type(), "", "Cmd") {
					if _, isAlloc := b.(*ssa.Alloc); isAlloc {
						return // initialisation of a fresh Cmd literal
					}
					listWriters[Q(f)] = true
				}
			}
		})
	}
	var lw []string
	for k := range listWriters {
		lw = append(lw, k)
	}
	sort.Strings(lw)
	c.Check(len(lw) == 1 && lw[0] == Q(fn), "writers(Cmd.options)", token.NoPos, "only the registration function appends to the option list", "option list written by: "+strings.Join(lw, ","))
}

// decl4names checks the name-list function: strings.Fields of the parameter,
// every element rewritten in place to prefix+name with prefix "-" iff len==1.
func decl4names(c *Ctx, fn *ssa.Function) {
	key := Q(fn)
	var problems []string
	var fieldsCall *ssa.Call
	for _, call := range ir.Calls(fn) {
		if f := ir.Static(call); f != nil && ir.IsStdFunc(f, "strings", "Fields") {
			fieldsCall, _ = call.(*ssa.Call)
		}
	}
	if fieldsCall == nil || fieldsCall.Call.Args[0] != ssa.Value(fn.Params[0]) {
		c.Bad(key, fn.Pos(), "names are not strings.Fields of the parameter")
		return
	}
	for _, r := range ir.ReturnPoints(fn) {
		if r.Results[0] != ssa.Value(fieldsCall) {
			problems = append(problems, "does not return the rewritten Fields slice")
		}
	}
	type nameStore struct {
		st     *ssa.Store
		prefix ssa.Value
		elem   ssa.Value
		at     *ssa.BasicBlock // where the conditions under which this value is stored are read off
	}
	var stores []nameStore
	ir.Instrs(fn, func(in ssa.Instruction) {
		st, ok := in.(*ssa.Store)
		if !ok {
			return
		}
		ia, isIA := st.Addr.(*ssa.IndexAddr)
		if !isIA || ia.X != ssa.Value(fieldsCall) || !isLoopIndexOver(ia.Index, ia.X) {
			problems = append(problems, "store is not to names[i] of the loop over all names")
			return
		}
		// the stored value, or each value a result variable can carry into the store
		type cand struct {
			v  ssa.Value
			at *ssa.BasicBlock
		}
		cands := []cand{{st.Val, st.Block()}}
		if phi, isPhi := st.Val.(*ssa.Phi); isPhi {
			cands = nil
			for _, lf := range flattenPhi(phi) {
				cands = append(cands, cand{lf.v, lf.pred})
			}
		}
		for _, cd := range cands {
			bo, isBo := cd.v.(*ssa.BinOp)
			if !isBo || bo.Op != token.ADD {
				problems = append(problems, "stored name is not prefix + name")
				return
			}
			el, isEl := rangeElem(bo.Y)
			if !isEl || el != ssa.Value(fieldsCall) {
				problems = append(problems, "stored name does not end in the original name")
				return
			}
			if y, isLd := bo.Y.(*ssa.UnOp); isLd {
				if yia, ok := y.X.(*ssa.IndexAddr); ok && yia.Index != ia.Index {
					problems = append(problems, "stored at an index other than the one read")
				}
			}
			stores = append(stores, nameStore{st, bo.X, bo.Y, cd.at})
		}
	})
	if len(stores) == 0 {
		problems = append(problems, "names are never rewritten")
	} else {
		// no name is passed over: an iteration cannot come back to the loop header around the stores
		blocked := map[*ssa.BasicBlock]bool{}
		for _, ns := range stores {
			blocked[ns.st.Block()] = true
		}
		if h := rangeHeader(stores[0].st.Addr.(*ssa.IndexAddr).Index); h != nil {
			if _, entry, _ := loopBody(h); entry != nil && !blocked[entry] && ir.Reach(entry, blocked, nil)[h] {
				problems = append(problems, "a name can be passed over without getting its dash prefix")
			}
		}
	}
	// for a name of length n exactly one store applies and it carries the right prefix
	for _, n := range []int64{1, 2, 3, 7} {
		var got []string
		for _, ns := range stores {
			applies := true
			for _, cd := range ir.DominatingConds(ns.at) {
				if t, ok := evalLenCond(cd.V, ns.elem, n); ok && t != cd.Want {
					applies = false
				}
			}
			if !applies {
				continue
			}
			if s, isC := ir.ConstString(ns.prefix); isC {
				got = append(got, s)
			} else if phi, isPhi := ns.prefix.(*ssa.Phi); isPhi && len(phi.Edges) == 2 {
				if s, ok := evalPhiOnLen(phi, ns.elem, n); ok {
					got = append(got, s)
				} else if s, ok := evalPhiWalk(phi, ns.elem, n, ns.st); ok {
					got = append(got, s)
				} else {
					got = append(got, "?")
				}
			} else if phi, isPhi := ns.prefix.(*ssa.Phi); isPhi {
				if s, ok := evalPhiWalk(phi, ns.elem, n, ns.st); ok {
					got = append(got, s)
				} else {
					got = append(got, "?")
				}
			} else {
				got = append(got, "?")
			}
		}
		want := "--"
		if n == 1 {
			want = "-"
		}
		if len(got) != 1 || got[0] != want {
			problems = append(problems, fmt.Sprintf("a name of length %d gets prefix %q, want %q", n, strings.Join(got, "|"), want))
		}
	}
	if len(problems) > 0 {
		c.Bad(key, fn.Pos(), "%s", strings.Join(problems, "; "))
	} else {
		c.OK(key, fn.Pos(), "every name of strings.Fields(Name) is rewritten to '-'+name iff its length is 1, '--'+name otherwise")
	}
}

// evalLenCond evaluates a comparison of len(s') with a constant for len == n, where s' is the same
// element as s (same SSA value or an equal re-read of it). ok is false for other conditions.
func evalLenCond(v ssa.Value, s ssa.Value, n int64) (truth, ok bool) {
	cond, isBo := v.(*ssa.BinOp)
	if !isBo {
		return false, false
	}
	lc, isCall := cond.X.(*ssa.Call)
	if !isCall {
		return false, false
	}
	if bi, isB := lc.Call.Value.(*ssa.Builtin); !isB || bi.Name() != "len" {
		return false, false
	}
	a := lc.Call.Args[0]
	if a != s && ir.ExprKey(a) != ir.ExprKey(s) {
		return false, false
	}
	k, isC := ir.ConstInt(cond.Y)
	if !isC {
		return false, false
	}
	switch cond.Op {
	case token.GTR:
		return n > k, true
	case token.GEQ:
		return n >= k, true
	case token.LSS:
		return n < k, true
	case token.LEQ:
		return n <= k, true
	case token.EQL:
		return n == k, true
	case token.NEQ:
		return n != k, true
	}
	return false, false
}

// evalPhiWalk evaluates a string phi of the loop body that stores st (a prefix chosen by a helper that
// was inlined: several ways, a range check of the position that cannot fire) for len(s) == n: one
// iteration is walked from the loop entry, deciding comparisons of len(s) by n and range checks of the
// loop's own counter (never negative, below the length) as they must come out inside the loop.
func evalPhiWalk(phi *ssa.Phi, s ssa.Value, n int64, st *ssa.Store) (string, bool) {
	ia, ok := st.Addr.(*ssa.IndexAddr)
	if !ok {
		return "", false
	}
	hdr := rangeHeader(ia.Index)
	if hdr == nil {
		return "", false
	}
	_, entry, _ := loopBody(hdr)
	if entry == nil {
		return "", false
	}
	isCounter := func(v ssa.Value) bool { return v == ia.Index }
	leaf := func(v ssa.Value, _ []*ssa.BasicBlock) (bool, bool) {
		if t, okL := evalLenCond(v, s, n); okL {
			return t, true
		}
		bo, isBo := v.(*ssa.BinOp)
		if !isBo || !isCounter(bo.X) {
			return false, false
		}
		if z, isZ := ir.ConstInt(bo.Y); isZ && z == 0 && ir.NonNegativeIndex(bo.X) {
			switch bo.Op {
			case token.LSS:
				return false, true
			case token.GEQ:
				return true, true
			}
		}
		// the counter against the length of the ranged list (or the count it was hoisted into): below it
		if iff, isIf := hdr.Instrs[len(hdr.Instrs)-1].(*ssa.If); isIf {
			if lc, isLc := iff.Cond.(*ssa.BinOp); isLc && lc.Op == token.LSS && lc.X == bo.X {
				same := lc.Y == bo.Y
				if c1, ok1 := lc.Y.(*ssa.Call); ok1 {
					if c2, ok2 := bo.Y.(*ssa.Call); ok2 && len(c1.Call.Args) == 1 && len(c2.Call.Args) == 1 && c1.Call.Args[0] == c2.Call.Args[0] {
						same = true
					}
				}
				if same {
					switch bo.Op {
					case token.GEQ:
						return false, true
					case token.LSS:
						return true, true
					}
				}
			}
		}
		return false, false
	}
	path, _, okW := walkPath(entry, st.Block(), []*ssa.BasicBlock{hdr}, leaf)
	if !okW {
		return "", false
	}
	v := resolveAlong(phi, path)
	if sv, isS := ir.ConstString(v); isS {
		return sv, true
	}
	return "", false
}

// evalPhiOnLen evaluates a 2-edge string phi whose choice is controlled by an
// If on a comparison of len(s) with a constant, for len(s) == n.
func evalPhiOnLen(phi *ssa.Phi, s ssa.Value, n int64) (string, bool) {
	b := phi.Block()
	d := b.Idom()
	if d == nil || len(d.Instrs) == 0 {
		return "", false
	}
	iff, ok := d.Instrs[len(d.Instrs)-1].(*ssa.If)
	if !ok {
		return "", false
	}
	cond, ok := iff.Cond.(*ssa.BinOp)
	if !ok {
		return "", false
	}
	lc, ok := cond.X.(*ssa.Call)
	if !ok {
		return "", false
	}
	if bi, isB := lc.Call.Value.(*ssa.Builtin); !isB || bi.Name() != "len" || (lc.Call.Args[0] != s && ir.ExprKey(lc.Call.Args[0]) != ir.ExprKey(s)) {
		return "", false
	}
	k, ok := ir.ConstInt(cond.Y)
	if !ok {
		return "", false
	}
	var truth bool
	switch cond.Op {
	case token.GTR:
		truth = n > k
	case token.GEQ:
		truth = n >= k
	case token.LSS:
		truth = n < k
	case token.LEQ:
		truth = n <= k
	case token.EQL:
		truth = n == k
	case token.NEQ:
		truth = n != k
	default:
		return "", false
	}
	succ := d.Succs[1]
	if truth {
		succ = d.Succs[0]
	}
	// which phi edge is taken when leaving d through succ?
	for i, p := range b.Preds {
		var via bool
		if p == d {
			via = succ == b
		} else {
			via = succ == p || succ.Dominates(p)
		}
		if via {
			str, ok := ir.ConstString(phi.Edges[i])
			return str, ok
		}
	}
	return "", false
}

func decl5(c *Ctx) {
	writers := c.indexWriters("argsIdx")
	var names []string
	for fn := range writers {
		names = append(names, Q(fn))
	}
	sort.Strings(names)
	if !c.Check(len(writers) == 1, "writers(Cmd.argsIdx)", token.NoPos, "one function writes the argument index: "+strings.Join(names, ","), "argument index written by: "+strings.Join(names, ",")) {
		return
	}
	var fn *ssa.Function
	for f := range writers {
		fn = f
	}
	c.Mark(fn)
	for _, mu := range writers[fn] {
		key := Q(fn) + ":insert"
		var problems []string
		cont, isAlloc := declCell(mu.Value)
		if !isAlloc {
			problems = append(problems, "the inserted pointer is not the container of this declaration")
		} else if b, f, isF := ir.FieldLoad(mu.Key); !isF || f != "Name" || b != cont {
			problems = append(problems, "the key is not the container's Name")
		}
		if ok, why := c.lookupGuard(fn, "argsIdx", mu.Key, mu.Block()); !ok {
			problems = append(problems, why)
		}
		// validator
		var validator *ssa.Function
		okValid := false
		for _, call := range ir.Calls(fn) {
			cv, isCall := call.(*ssa.Call)
			if !isCall {
				continue
			}
			f := ir.Static(cv)
			if f == nil || f.Pkg == nil || !c.P.InModule(f.Pkg.Pkg) || len(cv.Call.Args) != 1 {
				continue
			}
			if bt, isB := cv.Type().(*types.Basic); !isB || bt.Kind() != types.Bool {
				continue
			}
			if !sameLoad(cv.Call.Args[0], mu.Key) {
				continue
			}
			if ir.HoldsAt(cv, true, mu.Block()) {
				allPanic := true
				for _, e := range ir.EdgesWhere(fn, cv, false) {
					if !allPathsPanic(e.To) {
						allPanic = false
					}
				}
				if allPanic {
					okValid = true
					validator = f
				}
			}
		}
		if !okValid {
			problems = append(problems, "the insert is not dominated by a true name-validator result whose false edge panics")
		}
		if len(problems) > 0 {
			c.Bad(key, mu.Pos(), "%s", strings.Join(problems, "; "))
		} else {
			c.OK(key, mu.Pos(), "valid name and not-yet-declared are both established (else panic) before the insert")
		}
		if isAlloc {
			listed := false
			ir.Instrs(fn, func(in ssa.Instruction) {
				st, ok := in.(*ssa.Store)
				if !ok {
					return
				}
				if b, f, isF := ir.FieldAddr(st.Addr); isF && f == "args" && c.isNamed(b.Type(), "", "Cmd") {
					if base, el, isApp := appendedSingle(st.Val); isApp && el == cont && c.cmdFieldLoad(base, "args") {
						listed = true
					}
				}
			})
			c.Check(listed, Q(fn)+":listed", mu.Pos(), "the indexed container is appended at the end of the argument list (declaration order)", "the indexed container is not appended to the argument list")
		}
		if validator != nil {
			c.Mark(validator)
			decl5validator(c, validator)
		}
	}
	listWriters := map[string]bool{}
	for _, f := range c.ClosureFuncsDeep() {
		ir.Instrs(f, func(in ssa.Instruction) {
			if st, ok := in.(*ssa.Store); ok {
				if b, fl, isF := ir.FieldAddr(st.Addr); isF && fl == "args" && c.isNamed(b.Type(), "", "Cmd") {
					if _, isAlloc := b.(*ssa.Alloc); isAlloc {
						return
					}
					listWriters[Q(f)] = true
				}
			}
		})
	}
	var lw []string
	for k := range listWriters {
		lw = append(lw, k)
	}
	sort.Strings(lw)
	c.Check(len(lw) == 1 && lw[0] == Q(fn), "writers(Cmd.args)", token.NoPos, "only the registration function appends to the argument list", "argument list written by: "+strings.Join(lw, ","))
}

// decl5validator: true only where the scanner returned no error, exactly one
// token, of kind Arg.
func decl5validator(c *Ctx, fn *ssa.Function) {
	key := Q(fn)
	scanner := c.fnOpt("internal/lexer", "Tokenize")
	var scan *ssa.Call
	for _, call := range ir.Calls(fn) {
		if f := ir.Static(call); f != nil && f == scanner {
			scan, _ = call.(*ssa.Call)
		}
	}
	if scan == nil || scan.Call.Args[0] != ssa.Value(fn.Params[0]) {
		c.Bad(key, fn.Pos(), "the name is not checked with the spec scanner")
		return
	}
	toks, errv := extractOf(scan, 0), extractOf(scan, 1)
	if toks == nil || errv == nil {
		c.Bad(key, fn.Pos(), "scanner results dropped")
		return
	}
	var problems []string
	sawTrue := false
	isKindTest := func(x ssa.Value) (*ssa.BinOp, bool) {
		bo, isBo := x.(*ssa.BinOp)
		if !isBo || bo.Op != token.EQL {
			return nil, false
		}
		s, isS := ir.ConstString(bo.Y)
		if !isS || s != "Arg" {
			return nil, false
		}
		b, f, isF := ir.FieldLoad(bo.X)
		if !isF || f != "Typ" {
			return nil, false
		}
		ld, isLd := b.(*ssa.UnOp)
		if !isLd {
			return nil, false
		}
		ia, isIA := ld.X.(*ssa.IndexAddr)
		if !isIA || ia.X != toks {
			return nil, false
		}
		if z, isC := ir.ConstInt(ia.Index); !isC || z != 0 {
			return nil, false
		}
		return bo, true
	}
	// the places a possibly-true result comes from: (value, block it flows out of)
	type source struct {
		v  ssa.Value
		at *ssa.BasicBlock
	}
	var sources []source
	var collect func(v ssa.Value, at *ssa.BasicBlock, depth int)
	collect = func(v ssa.Value, at *ssa.BasicBlock, depth int) {
		if phi, isPhi := v.(*ssa.Phi); isPhi && depth < 6 {
			for i, e := range phi.Edges {
				collect(e, phi.Block().Preds[i], depth+1)
			}
			return
		}
		sources = append(sources, source{v, at})
	}
	for _, r := range ir.ReturnPoints(fn) {
		collect(r.Results[0], r.Block(), 0)
	}
	for _, src := range sources {
		v := src.v
		if b, isC := ir.ConstBool(v); isC && !b {
			continue
		}
		sawTrue = true
		if !errIsNilAt(errv, src.at) {
			problems = append(problems, "can return true although the scanner reported an error")
		}
		if !lenIsAt(toks, 1, src.at) {
			problems = append(problems, "can return true for a token count other than 1")
		}
		okKind := false
		if _, ok := isKindTest(v); ok {
			okKind = true
		} else if b, isC := ir.ConstBool(v); isC && b {
			ir.Instrs(fn, func(in ssa.Instruction) {
				if val, isV := in.(ssa.Value); isV {
					if bo, ok := isKindTest(val); ok && ir.HoldsAt(bo, true, src.at) {
						okKind = true
					}
				}
			})
		}
		if !okKind {
			problems = append(problems, "a true result does not require the single token to be of kind Arg")
		}
	}
	// and the converse: false has no other ground than a scanner error, a token count other than one, or
	// a kind other than Arg (a valid name must be accepted)
	for _, r := range ir.ReturnWays(fn) {
		if b, isC := ir.ConstBool(r.Results[0]); !isC || b {
			continue
		}
		good := errCmpH(errv, r.Holds, false)
		// an empty name, or a nil token: neither can be a valid argument name whatever the scanner says
		{
			cut := map[ir.Edge]bool{}
			for _, e := range lenOnlyZeroEdges(fn, fn.Params[0]) {
				cut[e] = true
			}
			if len(cut) > 0 && !r.ReachableUnder(ir.Reach(fn.Blocks[0], nil, cut), cut) {
				good = true
			}
		}
		ir.Instrs(fn, func(in ssa.Instruction) {
			val, isV := in.(ssa.Value)
			if !isV {
				return
			}
			if bo, ok := isKindTest(val); ok && r.Holds(bo, false) {
				good = true
			}
			// the name found equal to one fixed word (the reserved OPTIONS): a refusal of that single name
			if bo, isBo := val.(*ssa.BinOp); isBo && (bo.Op == token.EQL || bo.Op == token.NEQ) && bo.X == ssa.Value(fn.Params[0]) {
				if _, isK := ir.ConstString(bo.Y); isK && r.Holds(bo, bo.Op == token.EQL) {
					good = true
				}
			}
			if bo, isBo := val.(*ssa.BinOp); isBo && ir.IsNilConst(bo.Y) && (bo.Op == token.EQL || bo.Op == token.NEQ) {
				if ld, isLd := bo.X.(*ssa.UnOp); isLd && ld.Op == token.MUL {
					if ia, isIA := ld.X.(*ssa.IndexAddr); isIA && ia.X == toks && r.Holds(bo, bo.Op == token.EQL) {
						good = true
					}
				}
			}
			if bo, isBo := val.(*ssa.BinOp); isBo {
				if lc, isCall := bo.X.(*ssa.Call); isCall && len(lc.Call.Args) == 1 && lc.Call.Args[0] == toks {
					if bi, isB := lc.Call.Value.(*ssa.Builtin); isB && bi.Name() == "len" {
						if k, isK := ir.ConstInt(bo.Y); isK {
							for _, want := range []bool{true, false} {
								if o, okO := lenCmp(bo.Op, 1, k); okO && o != want && r.Holds(bo, want) {
									good = true
								}
							}
						}
					}
				}
			}
		})
		if !good {
			problems = append(problems, "can return false at "+c.P.Pos(r.Pos())+" for a reason other than a scanner error, a token count other than one, or a kind other than Arg")
		}
	}
	problems = dedupe(problems)
	if !sawTrue {
		problems = append(problems, "never returns true")
	}
	if len(problems) > 0 {
		c.Bad(key, fn.Pos(), "%s", strings.Join(problems, "; "))
	} else {
		c.OK(key, fn.Pos(), "true requires: scanner error nil, exactly one token, kind Arg; false has no other ground")
	}
}

// lenIsAt: len(v) is known to equal n at block b.
func lenIsAt(v ssa.Value, n int64, b *ssa.BasicBlock) bool {
	for _, u := range *v.Referrers() {
		call, ok := u.(*ssa.Call)
		if !ok {
			continue
		}
		if bi, isB := call.Call.Value.(*ssa.Builtin); !isB || bi.Name() != "len" {
			continue
		}
		for _, uu := range *call.Referrers() {
			bo, isBo := uu.(*ssa.BinOp)
			if !isBo {
				continue
			}
			k, isC := ir.ConstInt(bo.Y)
			if !isC || k != n {
				continue
			}
			if (bo.Op == token.EQL && ir.HoldsAt(bo, true, b)) || (bo.Op == token.NEQ && ir.HoldsAt(bo, false, b)) {
				return true
			}
		}
	}
	return false
}

func decl6(c *Ctx) {
	for _, field := range []string{"optionsIdx", "argsIdx"} {
		fn := c.soleWriter(field)
		if fn == nil {
			c.Undecided("anchor:registration("+field+")", token.NoPos, "no single registration function")
			continue
		}
		c.Mark(fn)
		key := Q(fn)
		defFn := c.fnOpt("internal/values", "DefaultValue")
		var envCalls, defCalls []*ssa.Call
		envSet := map[*ssa.Function]bool{}
		for _, f := range envFuncs(c) {
			envSet[f] = true
		}
		for _, call := range ir.Calls(fn) {
			cv, ok := call.(*ssa.Call)
			if !ok {
				continue
			}
			f := ir.Static(cv)
			if f == nil {
				continue
			}
			if envSet[f] {
				envCalls = append(envCalls, cv)
			}
			if f == defFn {
				defCalls = append(defCalls, cv)
			}
		}
		if len(envCalls) != 1 || len(defCalls) != 1 {
			c.Bad(key, fn.Pos(), "expected one DefaultValue capture and one env application, found %d and %d", len(defCalls), len(envCalls))
			continue
		}
		env, def := envCalls[0], defCalls[0]
		var problems []string
		// both on the same container's Value
		bd, fd, okd := ir.FieldLoad(def.Call.Args[0])
		be, fe, oke := ir.FieldLoad(env.Call.Args[0])
		if !okd || !oke || fd != "Value" || fe != "Value" || bd != be {
			problems = append(problems, "default capture and env application are not on the same container's Value")
		}
		if bev, fev, ok := ir.FieldLoad(env.Call.Args[1]); !ok || fev != "EnvVar" || bev != be {
			problems = append(problems, "the env list is not the container's EnvVar")
		}
		// order
		before := def.Block() == env.Block() && ir.IndexIn(def) < ir.IndexIn(env)
		if !before {
			before = def.Block() != env.Block() && def.Block().Dominates(env.Block())
		}
		if !before {
			problems = append(problems, "the default is not captured before the environment is applied")
		}
		// results stored
		stored := func(v ssa.Value, field string) bool {
			for _, u := range *v.Referrers() {
				if st, ok := u.(*ssa.Store); ok && st.Val == v {
					if b, f, isF := ir.FieldAddr(st.Addr); isF && f == field && b == be {
						return true
					}
				}
			}
			return false
		}
		if !stored(def, "DefaultValue") {
			problems = append(problems, "the captured default is not stored in DefaultValue")
		}
		if !stored(env, "ValueSetFromEnv") {
			problems = append(problems, "the env application result is not stored in ValueSetFromEnv")
		}
		// no other store to those fields in the registration function
		if al, isAl := be.(*ssa.Alloc); isAl {
			fields, _ := litFields(al)
			if len(fields["DefaultValue"]) != 1 || len(fields["ValueSetFromEnv"]) != 1 {
				problems = append(problems, "DefaultValue / ValueSetFromEnv written more than once")
			}
		}
		if len(problems) > 0 {
			c.Bad(key, fn.Pos(), "%s", strings.Join(problems, "; "))
		} else {
			c.OK(key, fn.Pos(), "DefaultValue(Value) is captured, then SetFromEnv(Value, EnvVar) is applied and its result kept in ValueSetFromEnv")
		}
	}
}

func decl7(c *Ctx) {
	efs := envFuncs(c)
	var names []string
	for _, f := range efs {
		names = append(names, Q(f))
	}
	if !c.Check(len(efs) == 1, "callers(os.Getenv)", token.NoPos, "one function reads the environment: "+strings.Join(names, ","), "environment read by: "+strings.Join(names, ",")) {
		return
	}
	env := efs[0]
	c.Mark(env)
	regs := map[*ssa.Function]bool{}
	if f := c.soleWriter("optionsIdx"); f != nil {
		regs[f] = true
	}
	if f := c.soleWriter("argsIdx"); f != nil {
		regs[f] = true
	}
	var bad []string
	n := 0
	for _, fn := range c.ClosureFuncsDeep() {
		for _, call := range ir.Calls(fn) {
			if ir.Static(call) == env {
				n++
				if !regs[fn] {
					bad = append(bad, Q(fn)+" at "+c.P.Pos(call.Pos()))
				}
			}
		}
		// the env function must not be taken as a value either
		ir.Instrs(fn, func(in ssa.Instruction) {
			for _, op := range in.Operands(nil) {
				if *op == ssa.Value(env) {
					if call, isCall := in.(ssa.CallInstruction); isCall && call.Common().Value == ssa.Value(env) {
						continue
					}
					bad = append(bad, Q(fn)+" takes the env function as a value")
				}
			}
		})
	}
	c.Check(len(bad) == 0 && n >= 1, "callers("+Q(env)+")", env.Pos(), fmt.Sprintf("called %d times, only from the registration functions (declaration time)", n), "env application reachable outside declaration: "+strings.Join(bad, "; "))
}
