package rules

import (
	"fmt"
	"go/token"
	"go/types"
	"os"
	"sort"

	"golang.org/x/tools/go/ssa"

	"verif/checker/internal/ir"
)

// String accesses. Every byte read s[i] and every re-slice s[a:b] of a string in the matcher and
// automaton packages is within the string: 0 <= a <= b <= len(s) (resp. 0 <= i < len(s)) follows by
// linear arithmetic from the branch outcomes that dominate the access (length tests, comparisons with
// constants, HasPrefix/HasSuffix with a constant), from earlier accesses that dominate it, and, for a
// loop counter, by induction over the values the counter's phi receives (each proved at the end of the
// edge that carries it). A goal over the function's parameters alone is translated to every call site.

func isStringType(t types.Type) bool {
	b, ok := t.Underlying().(*types.Basic)
	return ok && b.Info()&types.IsString != 0
}

type strLin struct {
	c     *Ctx
	canon map[string]ssa.Value
}

// rep: the representative of a value that is read again from the same place. Two reads vec[i] of a
// vector parameter with the same index value are the same string as long as the function stores into no
// vector element (go/ssa does not merge them itself).
func (p strLin) rep(v ssa.Value) ssa.Value {
	ld, ok := v.(*ssa.UnOp)
	if !ok || ld.Op != token.MUL {
		return v
	}
	ia, ok := ld.X.(*ssa.IndexAddr)
	if !ok {
		return v
	}
	prm, ok := ia.X.(*ssa.Parameter)
	if !ok || !isStringSlice(prm.Type()) {
		return v
	}
	fn := ld.Parent()
	if _, done := p.canon["#"+fn.String()]; !done {
		p.canon["#"+fn.String()] = prm
		writes := false
		ir.Instrs(fn, func(in ssa.Instruction) {
			if st, isSt := in.(*ssa.Store); isSt {
				if a, isIA := st.Addr.(*ssa.IndexAddr); isIA && isStringSlice(a.X.Type()) {
					if _, isP := a.X.(*ssa.Parameter); isP {
						writes = true
					}
				}
			}
		})
		if writes {
			p.canon["!"+fn.String()] = prm
		}
	}
	if _, w := p.canon["!"+fn.String()]; w {
		return v
	}
	ik := ia.Index.Name()
	if k, isK := ir.ConstInt(ia.Index); isK {
		ik = fmt.Sprint(k)
	}
	key := fn.String() + "|" + prm.Name() + "|" + ik
	if r, seen := p.canon[key]; seen {
		return r
	}
	// the first such read in block order
	var first ssa.Value
	ir.Instrs(fn, func(in ssa.Instruction) {
		if first != nil {
			return
		}
		if l2, isL := in.(*ssa.UnOp); isL && l2.Op == token.MUL {
			if a2, isIA := l2.X.(*ssa.IndexAddr); isIA && a2.X == ssa.Value(prm) {
				k2 := a2.Index.Name()
				if k, isK := ir.ConstInt(a2.Index); isK {
					k2 = fmt.Sprint(k)
				}
				if k2 == ik {
					first = l2
				}
			}
		}
	})
	if first == nil {
		first = v
	}
	p.canon[key] = first
	return first
}

// slen: len(s) as a linear expression.
func (p strLin) slen(s ssa.Value, depth int) lin {
	s = p.rep(s)
	if depth > 6 {
		return lin{t: map[linKey]int64{{s, true}: 1}}
	}
	switch x := s.(type) {
	case *ssa.Const:
		if v, ok := ir.ConstString(x); ok {
			return linConst(int64(len(v)))
		}
	case *ssa.Slice:
		if isStringType(x.X.Type()) {
			hi := p.slen(x.X, depth+1)
			if x.High != nil {
				hi = p.of(x.High, depth+1)
			}
			lo := linConst(0)
			if x.Low != nil {
				lo = p.of(x.Low, depth+1)
			}
			return hi.add(lo, -1)
		}
	case *ssa.BinOp:
		if x.Op == token.ADD && isStringType(x.Type()) {
			return p.slen(x.X, depth+1).add(p.slen(x.Y, depth+1), 1)
		}
	}
	return lin{t: map[linKey]int64{{s, true}: 1}}
}

// of: an integer value as a linear expression.
func (p strLin) of(v ssa.Value, depth int) lin {
	if depth > 6 {
		return lin{t: map[linKey]int64{{v, false}: 1}}
	}
	switch x := v.(type) {
	case *ssa.Const:
		if k, ok := ir.ConstInt(x); ok {
			return linConst(k)
		}
	case *ssa.BinOp:
		switch x.Op {
		case token.ADD:
			return p.of(x.X, depth+1).add(p.of(x.Y, depth+1), 1)
		case token.SUB:
			return p.of(x.X, depth+1).add(p.of(x.Y, depth+1), -1)
		}
	case *ssa.Call:
		if bi, ok := x.Call.Value.(*ssa.Builtin); ok && bi.Name() == "len" {
			if isStringType(x.Call.Args[0].Type()) {
				return p.slen(x.Call.Args[0], depth+1)
			}
			return lin{t: map[linKey]int64{{x.Call.Args[0], true}: 1}}
		}
	case *ssa.Convert:
		if b, ok := x.X.Type().Underlying().(*types.Basic); ok && b.Info()&types.IsInteger != 0 {
			return p.of(x.X, depth+1)
		}
	}
	return lin{t: map[linKey]int64{{v, false}: 1}}
}

// condFacts: what the outcome `want` of condition v tells about lengths and integers.
func (p strLin) condFacts(v ssa.Value, want bool, facts, neqs *[]lin) {
	m1 := linConst(-1)
	switch x := v.(type) {
	case *ssa.Call:
		f := ir.Static(x)
		if f != nil && want && (ir.IsStdFunc(f, "strings", "HasPrefix") || ir.IsStdFunc(f, "strings", "HasSuffix")) {
			*facts = append(*facts, p.slen(x.Call.Args[0], 0).add(p.slen(x.Call.Args[1], 0), -1))
		}
	case *ssa.BinOp:
		if isStringType(x.X.Type()) {
			eq := (x.Op == token.EQL) == want
			if x.Op != token.EQL && x.Op != token.NEQ {
				return
			}
			a, b := p.slen(x.X, 0), p.slen(x.Y, 0)
			if eq {
				*facts = append(*facts, a.add(b, -1), b.add(a, -1))
			} else {
				// different from the empty string: at least one byte
				if k, isK := b.isConst(); isK && k == 0 {
					*facts = append(*facts, a.add(m1, 1))
				}
				if k, isK := a.isConst(); isK && k == 0 {
					*facts = append(*facts, b.add(m1, 1))
				}
			}
			return
		}
		if b, ok := x.X.Type().Underlying().(*types.Basic); !ok || b.Info()&types.IsInteger == 0 {
			return
		}
		a, b := p.of(x.X, 0), p.of(x.Y, 0)
		xy, yx := a.add(b, -1), b.add(a, -1)
		op := x.Op
		if !want {
			switch op {
			case token.LSS:
				op = token.GEQ
			case token.LEQ:
				op = token.GTR
			case token.GTR:
				op = token.LEQ
			case token.GEQ:
				op = token.LSS
			case token.EQL:
				op = token.NEQ
			case token.NEQ:
				op = token.EQL
			default:
				return
			}
		}
		switch op {
		case token.LSS:
			*facts = append(*facts, yx.add(m1, 1))
		case token.LEQ:
			*facts = append(*facts, yx)
		case token.GTR:
			*facts = append(*facts, xy.add(m1, 1))
		case token.GEQ:
			*facts = append(*facts, xy)
		case token.EQL:
			*facts = append(*facts, xy, yx)
		case token.NEQ:
			*neqs = append(*neqs, xy)
		}
	}
}

// accessFacts: the access `in` has been executed without a panic.
func (p strLin) accessFacts(in ssa.Instruction, facts *[]lin) {
	switch x := in.(type) {
	case *ssa.Lookup:
		if isStringType(x.X.Type()) {
			i := p.of(x.Index, 0)
			*facts = append(*facts, p.slen(x.X, 0).add(i, -1).add(linConst(1), -1), i)
		}
	case *ssa.Index:
		if isStringType(x.X.Type()) {
			i := p.of(x.Index, 0)
			*facts = append(*facts, p.slen(x.X, 0).add(i, -1).add(linConst(1), -1), i)
		}
	case *ssa.Slice:
		if isStringType(x.X.Type()) {
			L := p.slen(x.X, 0)
			lo := linConst(0)
			if x.Low != nil {
				lo = p.of(x.Low, 0)
				*facts = append(*facts, lo)
			}
			hi := L
			if x.High != nil {
				hi = p.of(x.High, 0)
				*facts = append(*facts, L.add(hi, -1))
			}
			*facts = append(*facts, hi.add(lo, -1))
		}
	}
}

// factsAt: inequalities e >= 0 known when control reaches `at` (before `at` executes); atEnd: when the
// block of `at` has been executed to its end.
func (p strLin) factsAt(fn *ssa.Function, at ssa.Instruction, atEnd bool, goal lin) []lin {
	var facts, neqs []lin
	for _, cd := range ir.DominatingConds(at.Block()) {
		p.condFacts(cd.V, cd.Want, &facts, &neqs)
	}
	ir.Instrs(fn, func(in ssa.Instruction) {
		if in == at && !atEnd {
			return
		}
		dom := in.Block() == at.Block() && (atEnd || ir.IndexIn(in) < ir.IndexIn(at)) || in.Block() != at.Block() && in.Block().Dominates(at.Block())
		if dom {
			p.accessFacts(in, &facts)
		}
	})
	// strings.IndexByte and friends: -1 <= result < len(s)
	idxSeen := map[ssa.Value]bool{}
	addIdx := func(e lin) {
		for k := range e.t {
			call, isCall := k.v.(*ssa.Call)
			if k.isLen || !isCall || idxSeen[call] {
				continue
			}
			f := ir.Static(call)
			if f == nil || len(call.Call.Args) != 2 {
				continue
			}
			okF := ir.IsStdFunc(f, "strings", "IndexByte") || ir.IsStdFunc(f, "strings", "IndexRune") || ir.IsStdFunc(f, "strings", "LastIndexByte")
			if ir.IsStdFunc(f, "strings", "Index") || ir.IsStdFunc(f, "strings", "LastIndex") || ir.IsStdFunc(f, "strings", "IndexAny") {
				if sub, isS := ir.ConstString(call.Call.Args[1]); isS && sub != "" {
					okF = true
				}
			}
			if !okF {
				continue
			}
			idxSeen[call] = true
			me := lin{t: map[linKey]int64{k: 1}}
			facts = append(facts, p.slen(call.Call.Args[0], 0).add(me, -1).add(linConst(1), -1), me.add(linConst(1), 1))
		}
	}
	addIdx(goal)
	for _, f := range append([]lin{}, facts...) {
		addIdx(f)
	}
	// a length is never negative
	seen := map[linKey]bool{}
	addLen := func(e lin) {
		for k := range e.t {
			if k.isLen && !seen[k] {
				seen[k] = true
				facts = append(facts, lin{t: map[linKey]int64{k: 1}})
			}
		}
	}
	addLen(goal)
	for _, f := range facts {
		addLen(f)
	}
	for _, d := range neqs {
		neg := lin{}.add(d, -1)
		if linImplies(d, facts) {
			facts = append(facts, d.add(linConst(1), -1))
		} else if linImplies(neg, facts) {
			facts = append(facts, neg.add(linConst(1), -1))
		}
	}
	return facts
}

// prove: goal >= 0 whenever control reaches `at` (or the end of its block).
func (p strLin) prove(fn *ssa.Function, at ssa.Instruction, atEnd bool, goal lin, depth int) bool {
	if linImplies(goal, p.factsAt(fn, at, atEnd, goal)) {
		return true
	}
	if depth == 0 {
		return false
	}
	// induction over a phi of the goal: the goal with each incoming value, at the end of that edge
	for k, coef := range goal.t {
		phi, isPhi := k.v.(*ssa.Phi)
		if !isPhi || k.isLen {
			continue
		}
		all := true
		for i, e := range phi.Edges {
			pred := phi.Block().Preds[i]
			if len(pred.Instrs) == 0 {
				all = false
				break
			}
			g := goal.add(lin{t: map[linKey]int64{k: coef}}, -1).add(p.of(e, 0), coef)
			if !p.prove(fn, pred.Instrs[len(pred.Instrs)-1], true, g, depth-1) {
				all = false
				break
			}
		}
		if all {
			return true
		}
	}
	// a goal over the parameters alone: at every call site
	if fn.Parent() != nil {
		return false
	}
	for k := range goal.t {
		if _, isP := k.v.(*ssa.Parameter); !isP {
			return false
		}
	}
	n := 0
	for _, pkg := range []string{"internal/matcher", "internal/fsm", "internal/parser", ""} {
		for _, caller := range p.c.pkgFuncsDeep(pkg) {
			bad := false
			ir.Instrs(caller, func(in ssa.Instruction) {
				for _, op := range in.Operands(nil) {
					if *op == ssa.Value(fn) {
						if call, isCall := in.(ssa.CallInstruction); !isCall || call.Common().Value != ssa.Value(fn) {
							bad = true
						}
					}
				}
			})
			if bad {
				return false
			}
			for _, call := range ir.Calls(caller) {
				cv, ok := call.(*ssa.Call)
				if !ok || ir.Static(cv) != fn || cv.Call.IsInvoke() {
					continue
				}
				n++
				g := linConst(goal.c)
				for k, coef := range goal.t {
					idx := -1
					for i, prm := range fn.Params {
						if prm == k.v {
							idx = i
						}
					}
					if idx < 0 || idx >= len(cv.Call.Args) {
						return false
					}
					a := cv.Call.Args[idx]
					var term lin
					if k.isLen {
						if !isStringType(a.Type()) {
							return false
						}
						term = p.slen(a, 0)
					} else {
						term = p.of(a, 0)
					}
					g = g.add(term, coef)
				}
				if !p.prove(caller, cv, false, g, depth-1) {
					return false
				}
			}
		}
	}
	return n > 0
}

// stringBounds reports one obligation per string access of fn; returns how many there were.
func (c *Ctx) stringBounds(fn *ssa.Function) int {
	p := strLin{c, map[string]ssa.Value{}}
	n := 0
	perLine := map[string]int{}
	ir.Instrs(fn, func(in ssa.Instruction) {
		var goals []lin
		what := ""
		switch x := in.(type) {
		case *ssa.Lookup, *ssa.Index:
			var sx, ix ssa.Value
			if l, isL := x.(*ssa.Lookup); isL {
				sx, ix = l.X, l.Index
			} else {
				sx, ix = x.(*ssa.Index).X, x.(*ssa.Index).Index
			}
			if !isStringType(sx.Type()) {
				return
			}
			i := p.of(ix, 0)
			goals = append(goals, p.slen(sx, 0).add(i, -1).add(linConst(1), -1))
			if !ir.NonNegativeIndex(ix) {
				goals = append(goals, i)
			}
			what = "the byte read"
		case *ssa.Slice:
			if !isStringType(x.X.Type()) {
				return
			}
			L := p.slen(x.X, 0)
			lo, hi := linConst(0), L
			if x.Low != nil {
				lo = p.of(x.Low, 0)
				if !ir.NonNegativeIndex(x.Low) {
					goals = append(goals, lo)
				}
			}
			if x.High != nil {
				hi = p.of(x.High, 0)
				goals = append(goals, L.add(hi, -1))
			}
			goals = append(goals, hi.add(lo, -1))
			what = "the re-slice of the string"
		default:
			return
		}
		n++
		key := fmt.Sprintf("%s:strbounds@%s", Q(fn), relLine(c, fn, in.Pos()))
		perLine[key]++
		if perLine[key] > 1 {
			key = fmt.Sprintf("%s#%d", key, perLine[key])
		}
		ok := true
		for _, g := range goals {
			if !p.prove(fn, in, false, g, 2) {
				ok = false
				if os.Getenv("MOWDEBUG_STR") != "" {
					fmt.Fprintf(os.Stderr, "STR %s goal %s\n", key, linString(g))
					for _, f := range p.factsAt(fn, in, false, g) {
						fmt.Fprintf(os.Stderr, "    fact %s\n", linString(f))
					}
				}
			}
		}
		c.Check(ok, key, in.Pos(), what+" is within the string by the dominating tests", what+" is not covered by a dominating test of the string's length or content (index out of range)")
	})
	return n
}

func linString(a lin) string {
	var parts []string
	for k, v := range a.t {
		n := k.v.Name()
		if k.isLen {
			n = "len(" + n + ")"
		}
		parts = append(parts, fmt.Sprintf("%+d*%s", v, n))
	}
	sort.Strings(parts)
	return fmt.Sprintf("%d %v", a.c, parts)
}
