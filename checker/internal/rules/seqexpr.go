package rules

import (
	"fmt"
	"go/token"
	"strings"

	"golang.org/x/tools/go/ssa"

	"verif/checker/internal/ir"
)

// A seqExpr describes the content of a []string value as a concatenation of pieces: intervals
// base[lo:hi] of a vector parameter (bounds are linear expressions over len(<vector parameter>) and the
// int parameters) and single elements. It is computed for the straight-line code that rebuilds the
// argument vector (make + copy / element stores, or append chains, possibly through helper calls) and
// compared with what the helper is for. Nothing is executed: the expression is read off the SSA form.
type seqPiece struct {
	base   ssa.Value // interval: the vector it is taken from (a parameter); nil for an element
	lo, hi lin
	elem   ssa.Value
}

type seqExpr []seqPiece

func (p seqPiece) length() lin {
	if p.base == nil {
		return linConst(1)
	}
	return p.hi.add(p.lo, -1)
}

func (s seqExpr) normal() seqExpr {
	var out seqExpr
	for _, p := range s {
		if p.base != nil && linEq(p.lo, p.hi) {
			continue
		}
		if n := len(out); n > 0 && p.base != nil && out[n-1].base == p.base && linEq(out[n-1].hi, p.lo) {
			out[n-1].hi = p.hi
			continue
		}
		out = append(out, p)
	}
	return out
}

func (s seqExpr) equal(t seqExpr) bool {
	s, t = s.normal(), t.normal()
	if len(s) != len(t) {
		return false
	}
	for i := range s {
		if (s[i].base == nil) != (t[i].base == nil) {
			return false
		}
		if s[i].base == nil {
			if s[i].elem != t[i].elem {
				return false
			}
			continue
		}
		if s[i].base != t[i].base || !linEq(s[i].lo, t[i].lo) || !linEq(s[i].hi, t[i].hi) {
			return false
		}
	}
	return true
}

func linStr(l lin) string {
	var parts []string
	for k, v := range l.t {
		n := k.v.Name()
		if k.isLen {
			n = "len(" + n + ")"
		}
		switch v {
		case 1:
			parts = append(parts, n)
		case -1:
			parts = append(parts, "-"+n)
		default:
			parts = append(parts, fmt.Sprintf("%d*%s", v, n))
		}
	}
	strs := strings.Join(parts, "+")
	if l.c != 0 || strs == "" {
		if strs != "" {
			strs += fmt.Sprintf("%+d", l.c)
		} else {
			strs = fmt.Sprintf("%d", l.c)
		}
	}
	return strs
}

func (s seqExpr) String() string {
	var parts []string
	for _, p := range s.normal() {
		if p.base == nil {
			parts = append(parts, "["+p.elem.Name()+"]")
		} else {
			parts = append(parts, fmt.Sprintf("%s[%s:%s]", p.base.Name(), linStr(p.lo), linStr(p.hi)))
		}
	}
	return strings.Join(parts, " ++ ")
}

// evalSeq computes the content of v (a []string value of fn) in terms of fn's parameters.
func (c *Ctx) evalSeq(v ssa.Value, depth int) (seqExpr, bool) {
	if depth > 4 {
		return nil, false
	}
	env := map[ssa.Value]lin{}
	vl := func(a ssa.Value) (lin, bool) { return c.vecLenIn(a, env, 3) }
	switch x := v.(type) {
	case *ssa.Parameter:
		return seqExpr{{base: x, lo: linConst(0), hi: lin{t: map[linKey]int64{{x, true}: 1}}}}, true
	case *ssa.ChangeType:
		return c.evalSeq(x.X, depth)
	case *ssa.Slice:
		inner, ok := c.evalSeq(x.X, depth)
		inner = inner.normal()
		if !ok || len(inner) != 1 || inner[0].base == nil || x.Max != nil {
			return nil, false
		}
		p := inner[0]
		lo, hi := p.lo, p.hi
		if x.Low != nil {
			l, okL := linOf(x.Low, env, vl)
			if !okL {
				return nil, false
			}
			lo = p.lo.add(l, 1)
		}
		if x.High != nil {
			h, okH := linOf(x.High, env, vl)
			if !okH {
				return nil, false
			}
			hi = p.lo.add(h, 1)
		}
		return seqExpr{{base: p.base, lo: lo, hi: hi}}, true
	case *ssa.MakeSlice:
		total, okT := linOf(x.Len, env, vl)
		if !okT || x.Referrers() == nil {
			return nil, false
		}
		type write struct {
			off lin
			seq seqExpr
		}
		var writes []write
		dstOf := func(d ssa.Value) (lin, bool) {
			if d == ssa.Value(x) {
				return linConst(0), true
			}
			if sl, isSl := d.(*ssa.Slice); isSl && sl.X == ssa.Value(x) && sl.High == nil && sl.Max == nil {
				if sl.Low == nil {
					return linConst(0), true
				}
				return linOf(sl.Low, env, vl)
			}
			return lin{}, false
		}
		var visit func(user ssa.Instruction, via ssa.Value) bool
		visit = func(user ssa.Instruction, via ssa.Value) bool {
			switch u := user.(type) {
			case *ssa.Call:
				bi, isB := u.Call.Value.(*ssa.Builtin)
				if !isB {
					return false
				}
				switch bi.Name() {
				case "copy":
					if u.Call.Args[0] != via {
						return false // the new vector is read as a source: not modelled
					}
					off, okO := dstOf(via)
					src, okS := c.evalSeq(u.Call.Args[1], depth+1)
					if !okO || !okS {
						return false
					}
					writes = append(writes, write{off, src})
					return true
				case "len", "cap":
					return true
				}
				return false
			case *ssa.Slice:
				if u.Referrers() == nil {
					return true
				}
				for _, uu := range *u.Referrers() {
					if !visit(uu, u) {
						return false
					}
				}
				return true
			case *ssa.IndexAddr:
				idx, okI := linOf(u.Index, env, vl)
				if !okI || u.Referrers() == nil || via != ssa.Value(x) {
					return false
				}
				for _, uu := range *u.Referrers() {
					st, isSt := uu.(*ssa.Store)
					if !isSt || st.Addr != ssa.Value(u) {
						return false
					}
					writes = append(writes, write{idx, seqExpr{{elem: st.Val}}})
				}
				return true
			case *ssa.Return, *ssa.DebugRef, *ssa.ChangeType, *ssa.Phi:
				return true
			}
			return false
		}
		for _, u := range *x.Referrers() {
			if !visit(u, x) {
				return nil, false
			}
		}
		// lay the writes out from offset 0; they must tile the new vector exactly
		var out seqExpr
		cur := linConst(0)
		used := make([]bool, len(writes))
		for n := 0; n < len(writes); n++ {
			found := false
			for i, w := range writes {
				if used[i] || !linEq(w.off, cur) {
					continue
				}
				// an empty write at this offset must not hide the real one: prefer non-empty ones last
				used[i], found = true, true
				for _, p := range w.seq {
					out = append(out, p)
					cur = cur.add(p.length(), 1)
				}
				break
			}
			if !found {
				return nil, false
			}
		}
		if !linEq(cur, total) {
			return nil, false
		}
		return out, true
	case *ssa.Call:
		if bi, isB := x.Call.Value.(*ssa.Builtin); isB && bi.Name() == "append" {
			base := seqExpr{}
			if !ir.IsNilConst(x.Call.Args[0]) {
				b, okB := c.evalSeq(x.Call.Args[0], depth+1)
				if !okB {
					return nil, false
				}
				base = b
			}
			if els := varargElemsOrdered(x.Call.Args[1]); len(els) > 0 {
				for _, e := range els {
					base = append(base, seqPiece{elem: e})
				}
				return base, true
			}
			tail, okT := c.evalSeq(x.Call.Args[1], depth+1)
			if !okT {
				return nil, false
			}
			return append(base, tail...), true
		}
		f := ir.Static(x)
		if f == nil || len(f.Blocks) == 0 || x.Call.IsInvoke() {
			return nil, false
		}
		rs := ir.ReturnPoints(f)
		if len(rs) != 1 || len(rs[0].Results) != 1 {
			return nil, false
		}
		inner, okI := c.evalSeq(stripConv(rs[0].Results[0]), depth+1)
		if !okI {
			return nil, false
		}
		// substitute the callee's parameters
		argOf := map[ssa.Value]ssa.Value{}
		for i, p := range f.Params {
			if i < len(x.Call.Args) {
				argOf[p] = x.Call.Args[i]
			}
		}
		subLin := func(l lin) (lin, bool) {
			r := linConst(l.c)
			for k, coef := range l.t {
				a, has := argOf[k.v]
				if !has {
					return lin{}, false
				}
				var term lin
				var okT bool
				if k.isLen {
					term, okT = vl(a)
				} else {
					term, okT = linOf(a, env, vl)
				}
				if !okT {
					return lin{}, false
				}
				r = r.add(term, coef)
			}
			return r, true
		}
		var out seqExpr
		for _, p := range inner {
			if p.base == nil {
				e := p.elem
				if a, has := argOf[e]; has {
					e = a
				}
				out = append(out, seqPiece{elem: e})
				continue
			}
			a, has := argOf[p.base]
			if !has {
				return nil, false
			}
			outer, okO := c.evalSeq(a, depth+1)
			lo, okL := subLin(p.lo)
			hi, okH := subLin(p.hi)
			if !okO || !okL || !okH {
				return nil, false
			}
			part, okP := sliceSeq(outer.normal(), lo, hi)
			if !okP {
				return nil, false
			}
			out = append(out, part...)
		}
		return out, true
	}
	return nil, false
}

// sliceSeq takes [lo:hi] of a sequence. Positions are compared with the facts that every piece has a
// non-negative length and a non-negative start (they were sliced without a panic).
func sliceSeq(outer seqExpr, lo, hi lin) (seqExpr, bool) {
	var nn []lin
	for _, p := range outer {
		nn = append(nn, p.length())
		if p.base != nil {
			nn = append(nn, p.lo)
		}
	}
	total := linConst(0)
	for _, p := range outer {
		total = total.add(p.length(), 1)
	}
	// the interval itself was taken without a panic: 0 <= lo <= hi <= len
	nn = append(nn, lo, hi.add(lo, -1), total.add(hi, -1))
	ge := func(a, b lin) bool { return linImplies(a.add(b, -1), nn) }
	var out seqExpr
	pos := linConst(0)
	for _, op := range outer {
		end := pos.add(op.length(), 1)
		switch {
		case ge(lo, end) || ge(pos, hi):
			// outside
		case ge(pos, lo) && ge(hi, end):
			out = append(out, op)
		case op.base != nil:
			nlo, nhi := op.lo, op.hi
			switch {
			case ge(pos, lo):
			case ge(lo, pos):
				nlo = op.lo.add(lo.add(pos, -1), 1)
			default:
				return nil, false
			}
			switch {
			case ge(hi, end):
			case ge(end, hi):
				nhi = op.lo.add(hi.add(pos, -1), 1)
			default:
				return nil, false
			}
			out = append(out, seqPiece{base: op.base, lo: nlo, hi: nhi})
		default:
			return nil, false
		}
		pos = end
	}
	return out, true
}

var _ = token.ADD
