package rules

import (
	"fmt"
	"go/token"
	"go/types"
	"sort"
	"strings"

	"golang.org/x/tools/go/ssa"

	"verif/checker/internal/ir"
)

func init() {
	register(&Rule{ID: "HELP-1", Props: []string{"C17", "C14", "C16", "C07"}, Floor: 6,
		Doc: "help rows: every declared argument, option and non-hidden command is visited; rows carry description, env list and default; all aliases; long description only on request; usage line = full path + trimmed spec + COMMAND marker iff sub-commands; children get the full parent path", Run: help1})
	register(&Rule{ID: "HELP-2", Props: []string{"C17"}, Floor: 6,
		Doc: "help helpers: default shown iff not hidden and non-empty; every env variable listed; first short and first long option name", Run: help2})
	register(&Rule{ID: "HELP-3", Props: []string{"C17", "C14"}, Floor: 1,
		Doc: "the long help is printed only on request (help branch, PrintLongHelp)", Run: help3})
}

// printfArgs returns the boxed values of a fmt.F/Sprintf-like call's variadic part.
func printfArgs(call ssa.CallInstruction) []ssa.Value {
	a := call.Common().Args
	if len(a) == 0 {
		return nil
	}
	return varargElems(a[len(a)-1])
}

func help1(c *Ctx) {
	fn := c.Fn("", "Cmd.printHelp")
	if fn == nil {
		return
	}
	recv := fn.Params[0]
	longP := fn.Params[1]
	key := Q(fn)
	// --- usage line
	{
		var problems []string
		// path = Join(append(parents, name), " ")
		var path *ssa.Call
		for _, call := range ir.Calls(fn) {
			cv, ok := call.(*ssa.Call)
			if !ok {
				continue
			}
			if f := ir.Static(cv); f != nil && ir.IsStdFunc(f, "strings", "Join") {
				if base, el, isApp := appendedSingle(cv.Call.Args[0]); isApp {
					if b, ok := fieldOf(base, "parents"); ok && b == ssa.Value(recv) {
						if b2, ok2 := fieldOf(el, "name"); ok2 && b2 == ssa.Value(recv) {
							path = cv
						}
					}
				}
			}
		}
		if path == nil {
			problems = append(problems, "the command path is not Join(parents + name)")
		}
		usage, spec, marker := false, false, false
		for _, call := range ir.Calls(fn) {
			f := ir.Static(call)
			if f == nil || f.Object() == nil || f.Object().Pkg() == nil || f.Object().Pkg().Path() != "fmt" {
				continue
			}
			args := call.Common().Args
			format := ""
			if len(args) >= 2 {
				format, _ = ir.ConstString(args[1])
			}
			vals := printfArgs(call)
			if strings.Contains(format, "Usage:") {
				if len(vals) == 1 && path != nil && vals[0] == ssa.Value(path) && call.Block() == fn.Blocks[0] {
					usage = true
				}
			}
			for _, v := range vals {
				if ts := stdCall(v, "strings", "TrimSpace"); ts != nil {
					if b, ok := fieldOf(ts.Call.Args[0], "Spec"); ok && b == ssa.Value(recv) {
						// printed iff non-empty: block guarded by len(spec) > 0 only
						spec = true
					}
				}
				if s, ok := ir.ConstString(v); ok && strings.Contains(s, "COMMAND") {
					// guard: len(c.commands) > 0
					okG := false
					ir.Instrs(fn, func(in ssa.Instruction) {
						bo, ok := in.(*ssa.BinOp)
						if !ok || bo.Op != token.GTR {
							return
						}
						if z, isC := ir.ConstInt(bo.Y); !isC || z != 0 {
							return
						}
						if lc, isCall := bo.X.(*ssa.Call); isCall {
							if b, ok := fieldOf(lc.Call.Args[0], "commands"); ok && b == ssa.Value(recv) && ir.HoldsAt(bo, true, call.Block()) {
								// and nothing else guards it
								if call.Block().Idom() == bo.Block() {
									okG = true
								}
							}
						}
					})
					if okG {
						marker = true
					}
				}
			}
		}
		if !usage {
			problems = append(problems, "`Usage:` is not printed unconditionally with the full command path")
		}
		if !spec {
			problems = append(problems, "the trimmed Spec is not printed")
		}
		if !marker {
			problems = append(problems, "the COMMAND marker is not printed exactly when the command has sub-commands (declared, hidden or not)")
		}
		reportP(c, key+":usage-line", fn.Pos(), problems, "Usage: <parents + name> <trimmed spec> [COMMAND marker iff len(commands) > 0]")
	}
	// --- description
	{
		ok := false
		why := "the description printed is not desc, replaced by LongDesc only under longDesc && len(LongDesc) > 0"
		ir.Instrs(fn, func(in ssa.Instruction) {
			phi, isPhi := in.(*ssa.Phi)
			if !isPhi {
				return
			}
			nDesc, nLong := 0, 0
			good := true
			for i, e := range phi.Edges {
				if b, ok := fieldOf(e, "desc"); ok && b == ssa.Value(recv) {
					nDesc++
					continue
				}
				if b, ok := fieldOf(e, "LongDesc"); ok && b == ssa.Value(recv) {
					nLong++
					p := phi.Block().Preds[i]
					holds := func(v ssa.Value, want bool) bool {
						return ir.HoldsAt(v, want, p) || ir.HoldsOnEdge(v, want, p, phi.Block())
					}
					if !holds(longP, true) {
						good = false
					}
					// LongDesc is not empty: an outcome of a length or emptiness test that the empty string cannot produce
					g2 := false
					isLong := func(v ssa.Value) bool {
						b, ok := fieldOf(v, "LongDesc")
						return ok && b == ssa.Value(recv)
					}
					ir.Instrs(fn, func(in2 ssa.Instruction) {
						bo, ok := in2.(*ssa.BinOp)
						if !ok {
							return
						}
						if z, isC := ir.ConstInt(bo.Y); isC {
							if lc, isCall := bo.X.(*ssa.Call); isCall {
								if bi, isB := lc.Call.Value.(*ssa.Builtin); isB && bi.Name() == "len" && isLong(lc.Call.Args[0]) {
									for _, want := range []bool{true, false} {
										if o, okO := lenCmp(bo.Op, 0, z); okO && o != want && holds(bo, want) {
											g2 = true
										}
									}
								}
							}
						}
						if sv, isS := ir.ConstString(bo.Y); isS && sv == "" && isLong(bo.X) {
							if (bo.Op == token.NEQ && holds(bo, true)) || (bo.Op == token.EQL && holds(bo, false)) {
								g2 = true
							}
						}
					})
					if !g2 {
						good = false
					}
					continue
				}
				good = false
			}
			if good && nDesc >= 1 && nLong == 1 {
				// printed
				for _, call := range ir.Calls(fn) {
					for _, v := range printfArgs(call) {
						if v == ssa.Value(phi) {
							ok = true
						}
					}
				}
			}
		})
		c.Check(ok, key+":description", fn.Pos(), "desc, or LongDesc when the long help was requested and LongDesc is set", why)
	}
	// --- rows
	rowCheck := func(kind, listField string, nameFrom func(item ssa.Value, v ssa.Value) bool) {
		var row *ssa.Call
		var item ssa.Value
		for _, call := range ir.Calls(fn) {
			cv, ok := call.(*ssa.Call)
			if !ok {
				continue
			}
			f := ir.Static(cv)
			if f == nil || f.Pkg != fn.Pkg || len(cv.Call.Args) != 3 {
				continue
			}
			// printTabbedRow(w, s1, s2): s2 = joinStrings(desc, env, value)
			a1, a2, must := cv.Call.Args[1], cv.Call.Args[2], cv.Block()
			var viaProblems []string
			if _, isCall := a2.(*ssa.Call); !isCall {
				// rows gathered first, printed afterwards: (label, text) of a record appended once per item
				r1, r2, mb, probs, okVia := rowsVia(cv, a1, a2)
				if !okVia {
					continue
				}
				a1, a2, must, viaProblems = r1, r2, mb, probs
			}
			j, isJ := a2.(*ssa.Call)
			if !isJ {
				continue
			}
			parts := varargElemsOrdered(j.Call.Args[len(j.Call.Args)-1])
			if len(parts) != 3 {
				continue
			}
			it, ok2 := fieldOf(parts[0], "Desc")
			if !ok2 {
				continue
			}
			sl, isR := rangeElem(it)
			if !isR {
				continue
			}
			if b, ok3 := fieldOf(sl, listField); !ok3 || b != ssa.Value(recv) {
				continue
			}
			row, item = cv, it
			problems := append([]string{}, viaProblems...)
			// env part
			if e, isCall := parts[1].(*ssa.Call); !isCall || ir.Static(e) == nil {
				problems = append(problems, "the env part is missing")
			} else if inputOf(e, ir.Static(e), it, "EnvVar") == nil {
				problems = append(problems, "the env part is not computed from this item's EnvVar")
			}
			if v, isCall := parts[2].(*ssa.Call); !isCall || ir.Static(v) == nil {
				problems = append(problems, "the default part is missing")
			} else {
				if inputOf(v, ir.Static(v), it, "HideValue") == nil {
					problems = append(problems, "the default part ignores this item's HideValue")
				}
				if inputOf(v, ir.Static(v), it, "DefaultValue") == nil {
					problems = append(problems, "the default part is not this item's DefaultValue")
				}
			}
			if !nameFrom(it, a1) {
				problems = append(problems, "the first column is not this item's name(s)")
			}
			hdr := rangeHeader(it.(*ssa.UnOp).X.(*ssa.IndexAddr).Index)
			if okB, w := noBreak(hdr); !okB {
				problems = append(problems, w)
			}
			_, entry, _ := loopBody(hdr)
			if entry != must && ir.Reach(entry, map[*ssa.BasicBlock]bool{must: true}, nil)[hdr] {
				problems = append(problems, "an item can be skipped")
			}
			// the loop must be entered whenever the list is non-empty: its only guard is len(list) > 0
			reportP(c, key+":"+kind+"-rows", cv.Pos(), problems, "every declared "+kind+" gets a row with description, env list and default")
		}
		_ = item
		if row == nil {
			c.Bad(key+":"+kind+"-rows", fn.Pos(), "no loop prints a row (name, description + env + default) for every element of %s", listField)
		}
	}
	rowCheck("argument", "args", func(item, v ssa.Value) bool {
		b, ok := fieldOf(v, "Name")
		return ok && b == item
	})
	rowCheck("option", "options", func(item, v ssa.Value) bool {
		call, ok := v.(*ssa.Call)
		return ok && ir.Static(call) != nil && len(call.Call.Args) == 1 && call.Call.Args[0] == item
	})
	// --- commands
	{
		var problems []string
		// visible list: phi accumulating append(list, sub) for sub in c.commands with !sub.Hidden
		var acc *ssa.Phi
		var sub ssa.Value
		ir.Instrs(fn, func(in ssa.Instruction) {
			phi, ok := in.(*ssa.Phi)
			if !ok || phi.Comment == "rangeindex" {
				return
			}
			for _, e := range phi.Edges {
				if base, el, isApp := appendedSingle(e); isApp && base == ssa.Value(phi) {
					if sl, isR := rangeElem(el); isR {
						if b, ok := fieldOf(sl, "commands"); ok && b == ssa.Value(recv) {
							acc, sub = phi, el
						}
					}
				}
			}
		})
		if acc == nil {
			problems = append(problems, "no list of visible sub-commands is built from all declared commands")
		} else {
			// the list starts empty and owns its storage (not a re-slice of the command tree's own list)
			for i, e := range acc.Edges {
				if acc.Block().Dominates(acc.Block().Preds[i]) {
					continue
				}
				_, isMake := e.(*ssa.MakeSlice)
				if !ir.IsNilConst(e) && !isMake {
					problems = append(problems, "the list of visible sub-commands does not start as a fresh empty list (appending to a re-slice of the declared commands would overwrite them)")
				}
			}
			for i, e := range acc.Edges {
				p := acc.Block().Preds[i]
				if e == ssa.Value(acc) {
					// skipped: only for hidden
					hid := false
					ir.Instrs(fn, func(in ssa.Instruction) {
						if v, ok := in.(ssa.Value); ok {
							if b, okF := fieldOf(v, "Hidden"); okF && b == sub && (ir.HoldsAt(v, true, p) || edgeFrom(v, true, p, acc.Block())) {
								hid = true
							}
						}
					})
					if !hid {
						problems = append(problems, "a sub-command can be left out of the list for a reason other than being Hidden")
					}
				} else if _, _, isApp := appendedSingle(e); isApp {
					shown := false
					ir.Instrs(fn, func(in ssa.Instruction) {
						if v, ok := in.(ssa.Value); ok {
							if b, okF := fieldOf(v, "Hidden"); okF && b == sub && ir.HoldsAt(v, false, p) {
								shown = true
							}
						}
					})
					if !shown {
						problems = append(problems, "a sub-command is listed without Hidden having been tested false")
					}
				}
			}
			// every declared command is looked at: the collecting loop is not left early
			if ld, isLd := sub.(*ssa.UnOp); isLd {
				if ia, isIA := ld.X.(*ssa.IndexAddr); isIA {
					if h := rangeHeader(ia.Index); h != nil {
						if okB, _ := noBreak(h); !okB {
							problems = append(problems, "the loop collecting the visible sub-commands can stop before the last declared command (commands after a hidden one would not be listed)")
						}
					}
				}
			}
			// the row: Join(c.aliases, ", "), c.desc for each element of acc
			rowOK := false
			for _, call := range ir.Calls(fn) {
				vals := varargElemsOrdered(call.Common().Args[len(call.Common().Args)-1])
				if len(vals) != 2 {
					continue
				}
				j := stdCall(vals[0], "strings", "Join")
				if j == nil {
					continue
				}
				it, ok := fieldOf(j.Call.Args[0], "aliases")
				if !ok {
					continue
				}
				sl, isR := rangeElem(it)
				if !isR || sl != ssa.Value(acc) {
					continue
				}
				if b, ok2 := fieldOf(vals[1], "desc"); ok2 && b == it {
					rowOK = true
					hdr := rangeHeader(it.(*ssa.UnOp).X.(*ssa.IndexAddr).Index)
					if okB, w := noBreak(hdr); !okB {
						problems = append(problems, w)
					}
				}
			}
			if !rowOK {
				problems = append(problems, "a visible sub-command's row is not (all aliases joined, its description)")
			}
		}
		reportP(c, key+":command-rows", fn.Pos(), problems, "every non-hidden sub-command is listed with all its aliases and its description; hidden ones never")
	}
	// --- parents
	if di := c.fnOpt("", "Cmd.doInit"); di != nil {
		c.Mark(di)
		ok, skipped := false, false
		r := di.Params[0]
		ir.Instrs(di, func(in ssa.Instruction) {
			st, isSt := in.(*ssa.Store)
			if !isSt {
				return
			}
			b, f, isF := ir.FieldAddr(st.Addr)
			if !isF || f != "parents" {
				return
			}
			sl, isR := rangeElem(b)
			if !isR {
				return
			}
			if lb, ok2 := fieldOf(sl, "commands"); !ok2 || lb != ssa.Value(r) {
				return
			}
			if base, el, isApp := appendedSingle(st.Val); isApp {
				if pb, ok3 := fieldOf(base, "parents"); ok3 && pb == ssa.Value(r) {
					if nb, ok4 := fieldOf(el, "name"); ok4 && nb == ssa.Value(r) {
						ok = true
						// on every successful initialisation: the loop is not stepped around
						if h := rangeHeader(b.(*ssa.UnOp).X.(*ssa.IndexAddr).Index); h != nil {
							for _, rp := range ir.ReturnPoints(di) {
								if ir.IsNilConst(rp.Results[0]) && !h.Dominates(rp.At) {
									skipped = true
								}
							}
						}
					}
				}
			}
		})
		why := "children do not receive the full parent path"
		if ok && skipped {
			ok, why = false, "an initialisation can succeed without handing the children their parent path (sub-commands added or re-declared since keep a stale path)"
		}
		c.Check(ok, Q(di)+":parents", di.Pos(), "every child gets parents = own parents + own name, on every successful initialisation", why)
	}
}

// edgeFrom: the CFG edge p->to is the edge on which v == want.
func edgeFrom(v ssa.Value, want bool, p, to *ssa.BasicBlock) bool {
	for _, e := range ir.EdgesWhere(p.Parent(), v, want) {
		if e.From == p && e.To == to {
			return true
		}
	}
	return false
}

// varargElemsOrdered returns the elements of a variadic slice in index order (boxing stripped).
func varargElemsOrdered(v ssa.Value) []ssa.Value {
	sl, ok := v.(*ssa.Slice)
	if !ok {
		return nil
	}
	al, ok := sl.X.(*ssa.Alloc)
	if !ok {
		return nil
	}
	m := map[int64]ssa.Value{}
	for _, u := range *al.Referrers() {
		if ia, isIA := u.(*ssa.IndexAddr); isIA {
			idx, isC := ir.ConstInt(ia.Index)
			if !isC {
				return nil
			}
			for _, uu := range *ia.Referrers() {
				if st, isSt := uu.(*ssa.Store); isSt && st.Addr == ia {
					m[idx] = ir.Unwrap(st.Val)
				}
			}
		}
	}
	out := make([]ssa.Value, len(m))
	for i := range out {
		v, ok := m[int64(i)]
		if !ok {
			return nil
		}
		out[i] = v
	}
	return out
}

// walkPath follows the CFG from start, deciding every branch with leaf (after resolving boolean
// phis along the path taken, constants and negations), until it reaches stopAt, a return or a
// panic. It returns the blocks visited and the terminating instruction (nil when stopAt was reached).
func walkPath(start, stopAt *ssa.BasicBlock, prefix []*ssa.BasicBlock, leaf func(v ssa.Value, path []*ssa.BasicBlock) (bool, bool)) (path []*ssa.BasicBlock, last ssa.Instruction, ok bool) {
	path = append(path, prefix...)
	var eval func(v ssa.Value) (bool, bool)
	eval = func(v ssa.Value) (bool, bool) {
		v = resolveAlong(v, path)
		if k, isC := ir.ConstBool(v); isC {
			return k, true
		}
		if u, isU := v.(*ssa.UnOp); isU && u.Op == token.NOT {
			r, ok := eval(u.X)
			return !r, ok
		}
		if _, isPhi := v.(*ssa.Phi); isPhi {
			return false, false
		}
		return leaf(v, path)
	}
	b := start
	for steps := 0; steps < 200; steps++ {
		if b == stopAt && steps > 0 {
			path = append(path, b)
			return path, nil, true
		}
		path = append(path, b)
		if len(b.Instrs) == 0 {
			return path, nil, false
		}
		switch x := b.Instrs[len(b.Instrs)-1].(type) {
		case *ssa.If:
			t, ok := eval(x.Cond)
			if !ok {
				return path, x, false
			}
			if t {
				b = b.Succs[0]
			} else {
				b = b.Succs[1]
			}
		case *ssa.Jump:
			b = b.Succs[0]
		case *ssa.Return:
			return path, x, true
		case *ssa.Panic:
			return path, x, true
		default:
			return path, x, false
		}
	}
	return path, nil, false
}

// mentionsValue reports whether the text value v is built (by concatenation or a formatting call)
// from want; phis must mention it on every edge.
func mentionsValue(v, want ssa.Value, depth int) bool {
	if valEq(v, want) {
		return true
	}
	if depth > 8 {
		return false
	}
	switch x := v.(type) {
	case *ssa.BinOp:
		if x.Op == token.ADD {
			return mentionsValue(x.X, want, depth+1) || mentionsValue(x.Y, want, depth+1)
		}
	case *ssa.Call:
		for _, a := range printfArgs(x) {
			if mentionsValue(a, want, depth+1) {
				return true
			}
		}
		// strconv.Itoa / FormatInt / FormatFloat / FormatBool / Quote of the value
		if f := ir.Static(x); f != nil && f.Pkg != nil && f.Pkg.Pkg.Path() == "strconv" && (f.Name() == "Itoa" || f.Name() == "Quote" || strings.HasPrefix(f.Name(), "Format")) && len(x.Call.Args) > 0 {
			return mentionsValue(x.Call.Args[0], want, depth+1)
		}
	case *ssa.Convert:
		return mentionsValue(x.X, want, depth+1)
	case *ssa.ChangeType:
		return mentionsValue(x.X, want, depth+1)
	case *ssa.Phi:
		if len(x.Edges) == 0 {
			return false
		}
		for _, e := range x.Edges {
			if e == ssa.Value(x) {
				continue
			}
			if !mentionsValue(e, want, depth+1) {
				return false
			}
		}
		return true
	}
	return false
}

// valEq: the same SSA value, or two loads of the same field of the same base.
func valEq(a, b ssa.Value) bool {
	if a == b {
		return true
	}
	if a == nil || b == nil {
		return false
	}
	ba, fa, oka := ir.FieldLoad(a)
	bb, fb, okb := ir.FieldLoad(b)
	return oka && okb && fa == fb && ba == bb
}

// inputOf returns the value that stands for item.field inside callee f at this call: the parameter that
// receives the field, or (when the item itself is handed over) a load of that field of the parameter.
// item == nil accepts any base.
func inputOf(call *ssa.Call, f *ssa.Function, item ssa.Value, field string) ssa.Value {
	if f == nil || len(f.Params) != len(call.Call.Args) {
		return nil
	}
	for i, a := range call.Call.Args {
		if b, ok := fieldOf(a, field); ok && (item == nil || b == item) {
			return f.Params[i]
		}
	}
	for i, a := range call.Call.Args {
		if item != nil && a != item {
			continue
		}
		if item == nil {
			if _, isR := rangeElem(a); !isR {
				continue
			}
		}
		var found ssa.Value
		ir.Instrs(f, func(in ssa.Instruction) {
			if v, ok := in.(ssa.Value); ok && found == nil {
				if b, okF := fieldOf(v, field); okF && b == ssa.Value(f.Params[i]) {
					found = v
				}
			}
		})
		if found != nil {
			return found
		}
	}
	return nil
}

func lenCmp(op token.Token, n, k int64) (bool, bool) {
	switch op {
	case token.EQL:
		return n == k, true
	case token.NEQ:
		return n != k, true
	case token.GTR:
		return n > k, true
	case token.GEQ:
		return n >= k, true
	case token.LSS:
		return n < k, true
	case token.LEQ:
		return n <= k, true
	}
	return false, false
}

func help2(c *Ctx) {
	ph := c.fnOpt("", "Cmd.printHelp")
	if ph == nil {
		c.Undecided("anchor:Cmd.printHelp", token.NoPos, "not found")
		return
	}
	var valueFn, envFn, namesFn *ssa.Function
	var hide, v, envIn ssa.Value
	for _, call := range ir.Calls(ph) {
		f := ir.Static(call)
		cv, isCV := call.(*ssa.Call)
		if f == nil || !isCV || f.Pkg != ph.Pkg || f.Signature.Recv() != nil || f.Signature.Results().Len() != 1 {
			continue
		}
		if h, d := inputOf(cv, f, nil, "HideValue"), inputOf(cv, f, nil, "DefaultValue"); h != nil && d != nil {
			valueFn, hide, v = f, h, d
			continue
		}
		if e := inputOf(cv, f, nil, "EnvVar"); e != nil {
			envFn, envIn = f, e
			continue
		}
		if n := inputOf(cv, f, nil, "Names"); n != nil {
			if _, isP := n.(*ssa.Parameter); !isP {
				namesFn = f
			}
		}
	}
	if valueFn != nil {
		fn := valueFn
		c.Mark(fn)
		for _, sc := range []struct{ hidden, empty bool }{{true, true}, {true, false}, {false, true}, {false, false}} {
			key := fmt.Sprintf("%s[hidden=%v,empty=%v]", Q(fn), sc.hidden, sc.empty)
			leaf := func(x ssa.Value, _ []*ssa.BasicBlock) (bool, bool) {
				if valEq(x, hide) {
					return sc.hidden, true
				}
				if bo, ok := x.(*ssa.BinOp); ok {
					if s, isS := ir.ConstString(bo.Y); isS && s == "" && valEq(bo.X, v) {
						return lenCmp(bo.Op, boolToLen(!sc.empty), 0)
					}
					if lc, isCall := bo.X.(*ssa.Call); isCall {
						if bi, isB := lc.Call.Value.(*ssa.Builtin); isB && bi.Name() == "len" && valEq(lc.Call.Args[0], v) {
							if k, isK := ir.ConstInt(bo.Y); isK {
								return lenCmp(bo.Op, boolToLen(!sc.empty), k)
							}
						}
					}
				}
				return false, false
			}
			_, last, ok := walkPath(fn.Blocks[0], nil, nil, leaf)
			ret, isRet := last.(*ssa.Return)
			if !ok || !isRet {
				c.Undecided(key, fn.Pos(), "cannot evaluate the helper for this case")
				continue
			}
			shows := mentionsValue(ret.Results[0], v, 0)
			cs, isConst := ir.ConstString(ret.Results[0])
			want := !sc.hidden && !sc.empty
			good := (want && shows) || (!want && isConst && cs == "")
			c.Check(good, key, fn.Pos(), fmt.Sprintf("default shown=%v", shows), fmt.Sprintf("default shown=%v, but it must be shown iff the value is not hidden and not empty", shows))
		}
	} else {
		c.Undecided("anchor:help-value-helper", token.NoPos, "not found")
	}
	if envFn != nil {
		fn := envFn
		c.Mark(fn)
		ok := false
		why := "not every variable of strings.Fields(list) is added to the text"
		// the loop over strings.Fields(param) and its text accumulator
		ir.Instrs(fn, func(in ssa.Instruction) {
			v, isV := in.(ssa.Value)
			if !isV {
				return
			}
			sl, h, isR := rangeElemHeader(v)
			if !isR {
				return
			}
			fc := stdCall(sl, "strings", "Fields")
			if fc == nil || !valEq(fc.Call.Args[0], envIn) {
				return
			}
			if okB, _ := noBreak(h); !okB {
				return
			}
			for _, hin := range h.Instrs {
				acc, isPhi := hin.(*ssa.Phi)
				if !isPhi || acc.Comment == "rangeindex" {
					continue
				}
				if b, isB := acc.Type().Underlying().(*types.Basic); !isB || b.Kind() != types.String {
					continue
				}
				good := true
				nBack := 0
				for i, e := range acc.Edges {
					if !h.Dominates(h.Preds[i]) {
						continue
					}
					nBack++
					if !mentionsValue(e, acc, 0) || !mentionsValue(e, v, 0) {
						good = false
					}
				}
				// the accumulator must reach the result
				reaches := false
				for _, r := range ir.ReturnPoints(fn) {
					if mentionsValue(r.Results[0], acc, 0) {
						reaches = true
					}
				}
				if good && nBack > 0 && reaches {
					ok = true
				}
			}
		})
		if !ok {
			// the text gathered in a strings.Builder: every iteration of the loop over strings.Fields(list)
			// writes the element, and a result is that builder's String()
			ir.Instrs(fn, func(in ssa.Instruction) {
				v, isV := in.(ssa.Value)
				if !isV {
					return
				}
				sl, h, isR := rangeElemHeader(v)
				if !isR {
					return
				}
				fc := stdCall(sl, "strings", "Fields")
				if fc == nil || !valEq(fc.Call.Args[0], envIn) {
					return
				}
				if okB, _ := noBreak(h); !okB {
					return
				}
				_, entry, _ := loopBody(h)
				for _, call := range ir.Calls(fn) {
					w, isCall := call.(*ssa.Call)
					if !isCall {
						continue
					}
					f := ir.Static(w)
					if f == nil || f.Name() != "WriteString" || f.Pkg == nil || f.Pkg.Pkg.Path() != "strings" || len(w.Call.Args) != 2 || w.Call.Args[1] != v {
						continue
					}
					if entry == nil || (entry != w.Block() && ir.Reach(entry, map[*ssa.BasicBlock]bool{w.Block(): true}, nil)[h]) {
						continue // an iteration can pass without writing the element
					}
					for _, c2 := range ir.Calls(fn) {
						sc, isC2 := c2.(*ssa.Call)
						if !isC2 {
							continue
						}
						if f2 := ir.Static(sc); f2 != nil && f2.Name() == "String" && f2.Pkg != nil && f2.Pkg.Pkg.Path() == "strings" && len(sc.Call.Args) == 1 && sc.Call.Args[0] == w.Call.Args[0] {
							for _, r := range ir.ReturnPoints(fn) {
								if mentionsValue(r.Results[0], sc, 0) {
									ok = true
								}
							}
						}
					}
				}
			})
		}
		if !ok {
			// strings.Join(strings.Fields(list), sep) mentioned by a result: every element is in it
			ir.Instrs(fn, func(in ssa.Instruction) {
				j, isCall := in.(*ssa.Call)
				if !isCall || !ir.IsStdFunc(ir.Static(j), "strings", "Join") {
					return
				}
				fc := stdCall(j.Call.Args[0], "strings", "Fields")
				if fc == nil || !valEq(fc.Call.Args[0], envIn) {
					return
				}
				for _, r := range ir.ReturnPoints(fn) {
					if mentionsValue(r.Results[0], j, 0) {
						ok = true
					}
				}
			})
		}
		if ok {
			// nothing is shown only for a list that names no variable
			cut := map[ir.Edge]bool{}
			for _, prm := range fn.Params {
				if isStringType(prm.Type()) {
					for _, e := range lenOnlyZeroEdges(fn, prm) {
						cut[e] = true
					}
				}
			}
			ir.Instrs(fn, func(in ssa.Instruction) {
				switch x := in.(type) {
				case *ssa.BinOp:
					// TrimSpace(list) == "" / != ""
					if sv, isS := ir.ConstString(x.Y); isS && sv == "" && (x.Op == token.EQL || x.Op == token.NEQ) {
						if ts := stdCall(x.X, "strings", "TrimSpace"); ts != nil && valEq(ts.Call.Args[0], envIn) {
							for _, e := range ir.EdgesWhere(fn, x, x.Op == token.EQL) {
								cut[ir.Edge{From: e.From, To: e.To}] = true
							}
						}
					}
				case *ssa.Call:
					if fc := stdCall(x, "strings", "Fields"); fc != nil && valEq(fc.Call.Args[0], envIn) {
						for _, e := range lenOnlyZeroEdges(fn, x) {
							cut[e] = true
						}
					}
					if ts := stdCall(x, "strings", "TrimSpace"); ts != nil && valEq(ts.Call.Args[0], envIn) {
						for _, e := range lenOnlyZeroEdges(fn, x) {
							cut[e] = true
						}
					}
				}
			})
			reach := ir.Reach(fn.Blocks[0], nil, cut)
			for _, r := range ir.ReturnWays(fn) {
				if sv, isS := ir.ConstString(r.Results[0]); isS && sv == "" && r.ReachableUnder(reach, cut) {
					ok, why = false, "the empty text can be returned for a list that names variables"
				}
			}
		}
		c.Check(ok, Q(fn), fn.Pos(), "every variable of the list appears", why)
	} else {
		c.Undecided("anchor:help-env-helper", token.NoPos, "not found")
	}
	help2helpers(c, ph)
	if namesFn != nil {
		help2names(c, namesFn)
	} else {
		c.Undecided("anchor:help-names-helper", token.NoPos, "not found")
	}
}

// help2helpers: the two text helpers of the row printer, decided for the shapes they have today (an
// accumulating loop; a first Fprintf followed by a loop over the remaining lines). Other shapes are not
// claimed.
func help2helpers(c *Ctx, ph *ssa.Function) {
	// joinStrings(parts...): a part is left out only when it is blank
	for _, fn := range c.pkgFuncsDeep("") {
		if fn.Parent() != nil || fn.Signature.Recv() != nil || !fn.Signature.Variadic() || fn.Signature.Params().Len() != 1 || fn.Signature.Results().Len() != 1 {
			continue
		}
		if !isStringSlice(fn.Params[0].Type()) || !isStringType(fn.Signature.Results().At(0).Type()) {
			continue
		}
		called := false
		for _, call := range ir.Calls(ph) {
			if ir.Static(call) == fn {
				called = true
			}
		}
		if !called {
			continue
		}
		ir.Instrs(fn, func(in ssa.Instruction) {
			v, isV := in.(ssa.Value)
			if !isV {
				return
			}
			sl, h, isR := rangeElemHeader(v)
			if !isR || h == nil || sl != ssa.Value(fn.Params[0]) {
				return
			}
			// the part may be read more than once (parts[i] written out each time): one group, judged once
			var group []ssa.Value
			ir.Instrs(fn, func(in2 ssa.Instruction) {
				if u, isU := in2.(ssa.Value); isU && sameElem(u, v) {
					group = append(group, u)
				}
			})
			if len(group) == 0 || group[0] != v {
				return
			}
			isPart := func(x ssa.Value) bool {
				for _, g := range group {
					if g == x {
						return true
					}
				}
				return false
			}
			mentionsPart := func(x ssa.Value) bool {
				for _, g := range group {
					if mentionsValue(x, g, 0) {
						return true
					}
				}
				return false
			}
			for _, hin := range h.Instrs {
				acc, isPhi := hin.(*ssa.Phi)
				if !isPhi || acc.Comment == "rangeindex" || !isStringType(acc.Type()) {
					continue
				}
				c.Mark(fn)
				ok, why := true, ""
				undecidedShape := false
				type leaf struct {
					v    ssa.Value
					from *ssa.BasicBlock
					to   *ssa.BasicBlock
				}
				var leaves []leaf
				for i, e := range acc.Edges {
					p := h.Preds[i]
					if !h.Dominates(p) {
						continue
					}
					if q, isQ := e.(*ssa.Phi); isQ && q != acc && !isLoopHeader(q.Block()) {
						for j, qe := range q.Edges {
							leaves = append(leaves, leaf{qe, q.Block().Preds[j], q.Block()})
						}
						continue
					}
					leaves = append(leaves, leaf{e, p, h})
				}
				for _, lf := range leaves {
					if mentionsValue(lf.v, acc, 0) && mentionsPart(lf.v) {
						continue
					}
					// left out: only a blank part
					holds := func(x ssa.Value, want bool) bool {
						return ir.HoldsAt(x, want, lf.from) || ir.HoldsOnEdge(x, want, lf.from, lf.to)
					}
					blank := false
					ir.Instrs(fn, func(in2 ssa.Instruction) {
						bo, isBo := in2.(*ssa.BinOp)
						if !isBo {
							return
						}
						if sv, isS := ir.ConstString(bo.Y); isS && sv == "" && (bo.Op == token.EQL || bo.Op == token.NEQ) {
							if ts := stdCall(bo.X, "strings", "TrimSpace"); ts != nil && isPart(ts.Call.Args[0]) && holds(bo, bo.Op == token.EQL) {
								blank = true
							}
						}
						if k, isK := ir.ConstInt(bo.Y); isK {
							if lc, isCall := bo.X.(*ssa.Call); isCall && len(lc.Call.Args) == 1 {
								if bi, isB := lc.Call.Value.(*ssa.Builtin); isB && bi.Name() == "len" {
									if ts := stdCall(lc.Call.Args[0], "strings", "TrimSpace"); ts != nil && isPart(ts.Call.Args[0]) {
										for _, want := range []bool{true, false} {
											z, okZ := lenCmp(bo.Op, 0, k)
											o, _ := lenCmp(bo.Op, 1, k)
											if okZ && z == want && o != want && holds(bo, want) {
												blank = true
											}
										}
									}
								}
							}
						}
					})
					if !blank {
						// decided by a predicate of the module on the part that this rule cannot read (a
						// hand-written blank test): not claimed
						opaque := false
						for _, cd := range ir.DominatingConds(lf.from) {
							if call, isCall := cd.V.(*ssa.Call); isCall {
								if f := ir.Static(call); f != nil && f.Pkg == fn.Pkg && len(call.Call.Args) == 1 && isPart(call.Call.Args[0]) {
									opaque = true
								}
							}
						}
						if iff, isIf := lf.from.Instrs[len(lf.from.Instrs)-1].(*ssa.If); isIf {
							if call, isCall := iff.Cond.(*ssa.Call); isCall {
								if f := ir.Static(call); f != nil && f.Pkg == fn.Pkg && len(call.Call.Args) == 1 && isPart(call.Call.Args[0]) {
									opaque = true
								}
							}
						}
						if opaque {
							undecidedShape = true
							continue
						}
						ok, why = false, "a part can be left out of the joined text although it is not blank"
					}
				}
				if okB, w := noBreak(h); !okB {
					ok, why = false, w
				}
				if undecidedShape && ok {
					continue
				}
				c.Check(ok, Q(fn)+":every-part", fn.Pos(), "every non-blank part is in the joined text", why)
			}
		})
	}
	// printTabbedRow(w, s1, s2): the first line is always printed, with s1; every further line of s2 too
	for _, fn := range c.pkgFuncsDeep("") {
		if fn.Parent() != nil || fn.Signature.Recv() != nil || fn.Signature.Params().Len() != 3 || fn.Signature.Results().Len() != 0 {
			continue
		}
		if !isStringType(fn.Params[1].Type()) || !isStringType(fn.Params[2].Type()) {
			continue
		}
		called := false
		for _, call := range ir.Calls(ph) {
			if ir.Static(call) == fn {
				called = true
			}
		}
		if !called {
			continue
		}
		var first *ssa.Call
		var loopPrint *ssa.Call
		var loopHdr *ssa.BasicBlock
		var lines ssa.Value
		for _, call := range ir.Calls(fn) {
			cv, isCall := call.(*ssa.Call)
			if !isCall {
				continue
			}
			args := printfArgs(cv)
			if len(args) == 0 {
				continue
			}
			hasS1 := false
			for _, a := range args {
				if a == ssa.Value(fn.Params[1]) {
					hasS1 = true
				}
				if ts := stdCall(a, "strings", "TrimSpace"); ts != nil {
					if sl, h, isR := rangeElemHeader(ts.Call.Args[0]); isR && h != nil {
						loopPrint, loopHdr, lines = cv, h, sl
					}
				}
			}
			if hasS1 && !ir.InLoop(cv.Block()) {
				first = cv
			}
		}
		if first == nil || loopPrint == nil {
			continue // another shape: not claimed
		}
		c.Mark(fn)
		ok, why := true, ""
		for _, r := range ir.Returns(fn) {
			if first.Block() != r.Block() && !first.Block().Dominates(r.Block()) {
				ok, why = false, "the row's first line (with its label) is not printed on every path"
			}
		}
		if _, entry, _ := loopBody(loopHdr); entry != nil && entry != loopPrint.Block() && ir.Reach(entry, map[*ssa.BasicBlock]bool{loopPrint.Block(): true}, nil)[loopHdr] {
			ok, why = false, "a line of a multi-line description can be left unprinted"
		}
		if okB, w := noBreak(loopHdr); !okB {
			ok, why = false, w
		}
		// the loop covers lines[1:] of strings.Split(s2, "\n")
		okLines := false
		if sl, isSl := lines.(*ssa.Slice); isSl && sl.High == nil {
			if lo, isC := ir.ConstInt(sl.Low); isC && lo == 1 {
				if sp := stdCall(sl.X, "strings", "Split"); sp != nil && sp.Call.Args[0] == ssa.Value(fn.Params[2]) {
					okLines = true
				}
			}
		}
		if !okLines {
			continue // another shape: not claimed
		}
		c.Check(ok, Q(fn)+":every-line", fn.Pos(), "the label and every line of the text are printed", why)
	}
}

func boolToLen(nonEmpty bool) int64 {
	if nonEmpty {
		return 3
	}
	return 0
}

// resolveAlong resolves phis of v using the block path taken.
func resolveAlong(v ssa.Value, path []*ssa.BasicBlock) ssa.Value {
	for i := 0; i < 20; i++ {
		phi, ok := v.(*ssa.Phi)
		if !ok {
			return v
		}
		idx := -1
		for j := len(path) - 1; j >= 1; j-- {
			if path[j] == phi.Block() {
				idx = j
				break
			}
		}
		if idx < 1 {
			return v
		}
		pred := path[idx-1]
		found := false
		for k, p := range phi.Block().Preds {
			if p == pred {
				v = phi.Edges[k]
				found = true
				path = path[:idx]
				break
			}
		}
		if !found {
			return v
		}
	}
	return v
}

// firstMatch: phi = the first element of the option's Names whose length passes a test, "" when there
// is none (`for i := range names { if len(names[i]) == 2 { return names[i] } }; return ""`, inlined).
// short: the test holds for length 2 and fails for longer names; long: the reverse.
func firstMatch(fn *ssa.Function, phi *ssa.Phi) (short, long bool) {
	if b, isB := phi.Type().Underlying().(*types.Basic); !isB || b.Kind() != types.String {
		return
	}
	var elem ssa.Value
	var hdr *ssa.BasicBlock
	var found *ssa.BasicBlock
	var names ssa.Value
	for i, e := range phi.Edges {
		if sv, isS := ir.ConstString(e); isS && sv == "" {
			continue
		}
		sl, h, isR := rangeElemHeader(e)
		if !isR || elem != nil {
			return
		}
		if b, okF := fieldOf(sl, "Names"); !okF || b != ssa.Value(fn.Params[0]) {
			return
		}
		elem, hdr, found, names = e, h, phi.Block().Preds[i], sl
	}
	if elem == nil || hdr == nil {
		return
	}
	body, entry, exit := loopBody(hdr)
	if body == nil || !body[found] {
		return
	}
	// the only ways out of the loop: the found edge into the phi, and exhaustion
	for b := range body {
		for _, sc := range b.Succs {
			if !body[sc] && sc != hdr && !(b == found && sc == phi.Block()) {
				return
			}
		}
	}
	// "" only after exhaustion (or for an empty list)
	cut := map[ir.Edge]bool{{From: hdr, To: exit}: true}
	for _, e := range lenOnlyZeroEdgesLike(fn, names) {
		cut[e] = true
	}
	reach := ir.Reach(fn.Blocks[0], nil, cut)
	for i, e := range phi.Edges {
		if e != elem && reach[phi.Block().Preds[i]] {
			// reachable without exhausting the list: acceptable only through the found block itself
			return
		}
	}
	// the test: a comparison of len(elem) with a constant that decides the found edge; the next iteration
	// is reached only when it fails
	for _, ln := range []int64{2, 3, 6} {
		leaf := func(v ssa.Value, path []*ssa.BasicBlock) (bool, bool) {
			bo, ok := v.(*ssa.BinOp)
			if !ok {
				return false, false
			}
			if lc, isCall := bo.X.(*ssa.Call); isCall {
				if bi, isB := lc.Call.Value.(*ssa.Builtin); isB && bi.Name() == "len" && sameElem(lc.Call.Args[0], elem) {
					if kk, isC := ir.ConstInt(bo.Y); isC {
						return lenCmp(bo.Op, ln, kk)
					}
				}
			}
			return false, false
		}
		// one iteration, from the loop entry to either the next iteration or the found edge
		took, done := false, false
		b := entry
		for steps := 0; steps < 50 && !done; steps++ {
			if len(b.Instrs) == 0 {
				return false, false
			}
			var next *ssa.BasicBlock
			switch x := b.Instrs[len(b.Instrs)-1].(type) {
			case *ssa.If:
				t, okL := leaf(x.Cond, nil)
				if !okL {
					return false, false
				}
				next = b.Succs[1]
				if t {
					next = b.Succs[0]
				}
			case *ssa.Jump:
				next = b.Succs[0]
			default:
				return false, false
			}
			switch {
			case next == hdr:
				done = true
			case b == found && next == phi.Block():
				took, done = true, true
			}
			b = next
		}
		if !done {
			return false, false
		}
		if ln == 2 {
			short, long = took, !took
		} else if (took && short) || (!took && long) {
			return false, false
		}
	}
	return
}

// rowsVia: the print call shows (rec.f1, rec.f2) for every rec of a list that a previous loop built by
// appending exactly one record literal per iteration to an initially empty list. Returns the values the
// literal's f1 and f2 are built from, the block of the append, and what is wrong with the printing loop.
func rowsVia(print *ssa.Call, s1, s2 ssa.Value) (r1, r2 ssa.Value, appendBlock *ssa.BasicBlock, problems []string, ok bool) {
	b1, f1, ok1 := ir.FieldLoad(s1)
	b2, f2, ok2 := ir.FieldLoad(s2)
	if !ok1 || !ok2 {
		return
	}
	elemOf := func(b ssa.Value) (ssa.Value, ssa.Value) {
		if al, isAl := b.(*ssa.Alloc); isAl {
			// the range variable kept in memory: `row := rows[i]` written once per iteration
			var whole []ssa.Value
			for _, u := range *al.Referrers() {
				if st, isSt := u.(*ssa.Store); isSt && st.Addr == ssa.Value(al) {
					whole = append(whole, st.Val)
					if st.Block() != print.Block() {
						return nil, nil
					}
				}
			}
			if len(whole) != 1 {
				return nil, nil
			}
			b = whole[0]
		}
		if ld, isLd := b.(*ssa.UnOp); isLd && ld.Op == token.MUL {
			b = ld.X
		}
		if ia, isIA := b.(*ssa.IndexAddr); isIA {
			return ia.X, ia.Index
		}
		return nil, nil
	}
	rows, idx := elemOf(b1)
	rows2, idx2 := elemOf(b2)
	if rows == nil || rows != rows2 || idx != idx2 || !isLoopIndexOver(idx, rows) {
		return
	}
	acc, isPhi := rows.(*ssa.Phi)
	if !isPhi {
		return
	}
	h1 := acc.Block()
	var lit *ssa.Alloc
	nBack := 0
	for i, e := range acc.Edges {
		if !h1.Dominates(h1.Preds[i]) {
			if mk, isMk := e.(*ssa.MakeSlice); isMk {
				if z, isC := ir.ConstInt(mk.Len); !isC || z != 0 {
					return
				}
			} else if !ir.IsNilConst(e) {
				return
			}
			continue
		}
		nBack++
		base, el, isApp := appendedSingle(e)
		if !isApp || base != ssa.Value(acc) {
			return // an iteration that appends nothing, or something else
		}
		ld, isLd := el.(*ssa.UnOp)
		if !isLd || ld.Op != token.MUL {
			return
		}
		al, isAl := ld.X.(*ssa.Alloc)
		if !isAl {
			return
		}
		lit = al
		appendBlock = e.(*ssa.Call).Block()
	}
	if nBack != 1 || lit == nil {
		return
	}
	fields, whole := litFields(lit)
	if len(whole) != 0 || len(fields[f1]) != 1 || len(fields[f2]) != 1 {
		return
	}
	h2 := rangeHeader(idx)
	if h2 == nil {
		return
	}
	if okB, w := noBreak(h2); !okB {
		problems = append(problems, "the loop printing the gathered rows: "+w)
	}
	if _, entry, _ := loopBody(h2); entry != nil && entry != print.Block() && ir.Reach(entry, map[*ssa.BasicBlock]bool{print.Block(): true}, nil)[h2] {
		problems = append(problems, "a gathered row can be left unprinted")
	}
	return fields[f1][0], fields[f2][0], appendBlock, problems, true
}

// sameElem: two reads v[i] of the same vector value at the same index value.
func sameElem(a, b ssa.Value) bool {
	if a == b {
		return true
	}
	la, ok1 := a.(*ssa.UnOp)
	lb, ok2 := b.(*ssa.UnOp)
	if !ok1 || !ok2 || la.Op != token.MUL || lb.Op != token.MUL {
		return false
	}
	ia, ok1 := la.X.(*ssa.IndexAddr)
	ib, ok2 := lb.X.(*ssa.IndexAddr)
	return ok1 && ok2 && ia.X == ib.X && ia.Index == ib.Index
}

func help2names(c *Ctx, fn *ssa.Function) {
	c.Mark(fn)
	key := Q(fn)
	{
		var sh, lg *ssa.Phi
		ir.Instrs(fn, func(in ssa.Instruction) {
			if phi, ok := in.(*ssa.Phi); ok {
				s2, l2 := firstMatch(fn, phi)
				if s2 && sh == nil {
					sh = phi
				}
				if l2 && lg == nil {
					lg = phi
				}
			}
		})
		if sh != nil && lg != nil {
			start := sh.Block()
			if sh.Block().Dominates(lg.Block()) {
				start = lg.Block()
			}
			c.OK(key+":first-short-first-long", fn.Pos(), "keeps the first name of length 2 and the first longer name (two search loops over all names)")
			help2format(c, fn, key, sh, lg, start, nil)
			return
		}
	}
	var n ssa.Value
	var hdr *ssa.BasicBlock
	ir.Instrs(fn, func(in ssa.Instruction) {
		if v, ok := in.(ssa.Value); ok {
			if sl, h, isR := rangeElemHeader(v); isR {
				if b, okF := fieldOf(sl, "Names"); okF && b == ssa.Value(fn.Params[0]) {
					n, hdr = v, h
				}
			}
		}
	})
	if n == nil {
		c.Bad(key, fn.Pos(), "does not range over all names of the option")
		return
	}
	if okB, w := noBreak(hdr); !okB {
		// leaving early is harmless once both names are settled: every edge out of the body other than
		// back to the header is taken with two different strings known not to be empty
		body, _, exitB := loopBody(hdr)
		settled := exitB != nil
		for b := range body {
			for _, sc := range b.Succs {
				if body[sc] || sc == hdr {
					continue
				}
				nonEmpty := map[ssa.Value]bool{}
				ir.Instrs(fn, func(in ssa.Instruction) {
					bo, isBo := in.(*ssa.BinOp)
					if !isBo || (bo.Op != token.EQL && bo.Op != token.NEQ) {
						return
					}
					if sv, isS := ir.ConstString(bo.Y); !isS || sv != "" {
						return
					}
					if ir.HoldsAt(bo, bo.Op == token.NEQ, b) || ir.HoldsOnEdge(bo, bo.Op == token.NEQ, b, sc) {
						nonEmpty[bo.X] = true
					}
				})
				if len(nonEmpty) < 2 {
					settled = false
				}
			}
		}
		if !settled {
			c.Bad(key+":scan-all", fn.Pos(), "%s: a short name listed after the first long one (or vice versa) would be lost", w)
			return
		}
	}
	var accs []*ssa.Phi
	for _, in := range hdr.Instrs {
		if phi, ok := in.(*ssa.Phi); ok && phi.Comment != "rangeindex" {
			if b, isB := phi.Type().Underlying().(*types.Basic); isB && b.Kind() == types.String {
				accs = append(accs, phi)
			}
		}
	}
	if len(accs) != 2 {
		c.Undecided(key, fn.Pos(), "expected two accumulators (short, long), found %d", len(accs))
		return
	}
	_, entry, exit := loopBody(hdr)
	type kind struct{ short, long *ssa.Phi }
	var k kind
	decided := false
	for _, ln := range []int64{2, 3, 6, 40} {
		for _, e0 := range []bool{true, false} {
			for _, e1 := range []bool{true, false} {
				empty := map[*ssa.Phi]bool{accs[0]: e0, accs[1]: e1}
				leaf := func(v ssa.Value, path []*ssa.BasicBlock) (bool, bool) {
					bo, ok := v.(*ssa.BinOp)
					if !ok {
						return false, false
					}
					if lc, isCall := bo.X.(*ssa.Call); isCall {
						if bi, isB := lc.Call.Value.(*ssa.Builtin); isB && bi.Name() == "len" {
							kk, isC := ir.ConstInt(bo.Y)
							if !isC {
								return false, false
							}
							a := resolveAlong(lc.Call.Args[0], path)
							if a == n {
								return lenCmp(bo.Op, ln, kk)
							}
							if phi, isPhi := a.(*ssa.Phi); isPhi {
								if e, known := empty[phi]; known {
									return lenCmp(bo.Op, boolToLen(!e), kk)
								}
							}
						}
					}
					if s, isS := ir.ConstString(bo.Y); isS && s == "" {
						x := resolveAlong(bo.X, path)
						if phi, isPhi := x.(*ssa.Phi); isPhi {
							if e, known := empty[phi]; known {
								return lenCmp(bo.Op, boolToLen(!e), 0)
							}
						}
						if x == n {
							return lenCmp(bo.Op, ln, 0)
						}
					}
					return false, false
				}
				path, last, ok := walkPath(entry, hdr, []*ssa.BasicBlock{hdr}, leaf)
				broke := false
				if (!ok || last != nil) && exit != nil {
					// the iteration left the loop (a break once both names are settled): evaluate up to the
					// loop's exit block instead
					path, last, ok = walkPath(entry, exit, []*ssa.BasicBlock{hdr}, leaf)
					broke = ok && last == nil
				}
				if !ok || last != nil {
					c.Undecided(key+":iteration", fn.Pos(), "cannot evaluate one iteration for len(name)=%d", ln)
					return
				}
				nv := map[*ssa.Phi]ssa.Value{}
				for _, a := range accs {
					nv[a] = resolveAlong(a, path)
					if broke {
						// what the exit block receives for this accumulator on the way we came
						for _, xin := range exit.Instrs {
							q, isQ := xin.(*ssa.Phi)
							if !isQ {
								break
							}
							fromHdr := false
							for i, pb := range exit.Preds {
								if pb == hdr && q.Edges[i] == ssa.Value(a) {
									fromHdr = true
								}
							}
							if fromHdr {
								nv[a] = resolveAlong(q, path)
							}
						}
					}
				}
				for _, a := range accs {
					if nv[a] == n && !decided {
						other := accs[0]
						if other == a {
							other = accs[1]
						}
						if ln == 2 {
							k = kind{a, other}
						} else {
							k = kind{other, a}
						}
						decided = true
					}
				}
				if !decided {
					continue
				}
				wantShort := ssa.Value(k.short)
				if ln == 2 && empty[k.short] {
					wantShort = n
				}
				wantLong := ssa.Value(k.long)
				if ln > 2 && empty[k.long] {
					wantLong = n
				}
				if nv[k.short] != wantShort || nv[k.long] != wantLong {
					c.Bad(key+":first-short-first-long", fn.Pos(), "for a name of length %d (short empty=%v, long empty=%v) the accumulators are not updated as `first name of length 2` / `first longer name`", ln, empty[k.short], empty[k.long])
					return
				}
			}
		}
	}
	if !decided {
		c.Bad(key+":first-short-first-long", fn.Pos(), "no name is ever kept")
		return
	}
	c.OK(key+":first-short-first-long", fn.Pos(), "keeps the first name of length 2 and the first longer name, scanning all names")
	help2format(c, fn, key, k.short, k.long, exit, []*ssa.BasicBlock{hdr})
}

// help2format: what is returned for each combination of "a short name exists" / "a long name exists".
func help2format(c *Ctx, fn *ssa.Function, key string, kshort, klong *ssa.Phi, exit *ssa.BasicBlock, prefix []*ssa.BasicBlock) {
	k := struct{ short, long *ssa.Phi }{kshort, klong}
	for _, sc := range []struct{ s, l bool }{{true, true}, {true, false}, {false, true}, {false, false}} {
		leaf := func(v ssa.Value, path []*ssa.BasicBlock) (bool, bool) {
			bo, ok := v.(*ssa.BinOp)
			if !ok {
				return false, false
			}
			has := func(x ssa.Value) (bool, bool) {
				switch x {
				case ssa.Value(k.short):
					return sc.s, true
				case ssa.Value(k.long):
					return sc.l, true
				}
				// the value after the loop: a merge of the accumulator (loop exhausted) with what it was
				// when the loop was left early
				if q, isQ := x.(*ssa.Phi); isQ && q.Block() == exit {
					for _, e := range q.Edges {
						if e == ssa.Value(k.short) {
							return sc.s, true
						}
						if e == ssa.Value(k.long) {
							return sc.l, true
						}
					}
				}
				return false, false
			}
			if s, isS := ir.ConstString(bo.Y); isS && s == "" {
				if h, known := has(bo.X); known {
					return lenCmp(bo.Op, boolToLen(h), 0)
				}
			}
			if lc, isCall := bo.X.(*ssa.Call); isCall {
				if bi, isB := lc.Call.Value.(*ssa.Builtin); isB && bi.Name() == "len" {
					if kk, isC := ir.ConstInt(bo.Y); isC {
						if h, known := has(lc.Call.Args[0]); known {
							return lenCmp(bo.Op, boolToLen(h), kk)
						}
					}
				}
			}
			return false, false
		}
		skey := fmt.Sprintf("%s:result[short=%v,long=%v]", key, sc.s, sc.l)
		rpath, last, ok := walkPath(exit, nil, prefix, leaf)
		ret, isRet := last.(*ssa.Return)
		if !ok || !isRet {
			c.Undecided(skey, fn.Pos(), "cannot evaluate the result for this case")
			continue
		}
		// a result variable: the value it has on this way through the function
		result := resolveAlong(ret.Results[0], rpath)
		ms, ml := mentionsValue(result, k.short, 0), mentionsValue(result, k.long, 0)
		// or the value after the loop that stands for it (see has)
		if exit != nil {
			for _, xin := range exit.Instrs {
				q, isQ := xin.(*ssa.Phi)
				if !isQ {
					break
				}
				for _, e := range q.Edges {
					if e == ssa.Value(k.short) && mentionsValue(result, q, 0) {
						ms = true
					}
					if e == ssa.Value(k.long) && mentionsValue(result, q, 0) {
						ml = true
					}
				}
			}
		}
		if cs, isC := ir.ConstString(result); isC {
			c.Check(cs == "" && !sc.s && !sc.l, skey, fn.Pos(), "empty", "a constant is returned although a name exists")
			continue
		}
		isAlias := func(v ssa.Value, acc *ssa.Phi) bool {
			if valEq(v, acc) {
				return true
			}
			if q, isQ := v.(*ssa.Phi); isQ && exit != nil && q.Block() == exit {
				for _, e := range q.Edges {
					if e == ssa.Value(acc) {
						return true
					}
				}
			}
			return false
		}
		if (isAlias(result, k.short) && !sc.s) || (isAlias(result, k.long) && !sc.l) {
			// the selection itself, which is empty in this case
			c.Check(!sc.s && !sc.l, skey, fn.Pos(), "empty", "nothing is shown although a name exists")
			continue
		}
		c.Check(ms == sc.s && ml == sc.l, skey, fn.Pos(), fmt.Sprintf("shows short=%v long=%v", ms, ml), fmt.Sprintf("shows short=%v long=%v", ms, ml))
	}
}

func help3(c *Ctx) {
	ph := c.fnOpt("", "Cmd.printHelp")
	disp := c.dispatch()
	if ph == nil || disp == nil {
		c.Undecided("anchor:Cmd.printHelp", token.NoPos, "not found")
		return
	}
	var bad []string
	n := 0
	for _, fn := range c.ClosureFuncsDeep() {
		for _, in := range ir.Calls(fn) {
			call, ok := in.(*ssa.Call)
			if !ok || len(call.Call.Args) == 0 {
				continue
			}
			long, isHelp := c.isHelpCallOn(call, call.Call.Args[0])
			if !isHelp || !long {
				continue
			}
			n++
			switch {
			case ir.Static(call) == ph && fn.Object() != nil && fn.Object().Exported():
				// the exported PrintLongHelp wrapper
			case fn == disp:
				// must be the help branch: block also signals the help sentinel
				help := c.rootGlobal("errHelpRequested")
				sig := false
				for _, x := range call.Block().Instrs {
					if cv, isCall := x.(*ssa.Call); isCall && len(cv.Call.Args) == 2 && isLoadOfGlobal(cv.Call.Args[1], help) {
						sig = true
					}
				}
				if !sig {
					bad = append(bad, "long help printed in "+Q(fn)+" outside the help branch at "+c.P.Pos(call.Pos()))
				}
			default:
				bad = append(bad, "long help printed by "+Q(fn)+" at "+c.P.Pos(call.Pos()))
			}
		}
	}
	sort.Strings(bad)
	c.Check(len(bad) == 0 && n >= 1, "callers(printHelp(long))", ph.Pos(), fmt.Sprintf("%d sites: the help branch and the exported PrintLongHelp", n), strings.Join(bad, "; "))
}
