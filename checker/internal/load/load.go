// Package load type-checks /repo with go/packages, builds go/ssa for the whole
// program and computes the production closure (the root package and what it
// imports from the same module).
package load

import (
	"crypto/sha256"
	"encoding/hex"
	"fmt"
	"go/ast"
	"go/token"
	"go/types"
	"os"
	"path/filepath"
	"sort"
	"strings"

	"golang.org/x/tools/go/callgraph"
	"golang.org/x/tools/go/callgraph/cha"
	"golang.org/x/tools/go/callgraph/vta"
	"golang.org/x/tools/go/packages"
	"golang.org/x/tools/go/ssa"
	"golang.org/x/tools/go/ssa/ssautil"
)

// Program is the loaded, type-checked and SSA-converted repository.
type Program struct {
	Dir      string
	ModPath  string
	Fset     *token.FileSet
	All      []*packages.Package // every package of the module that was loaded
	Closure  []*packages.Package // production closure, sorted by path
	Helpers  []*packages.Package // module packages outside the closure
	SSA      *ssa.Program
	ByPath   map[string]*packages.Package
	SSAPkg   map[string]*ssa.Package
	Digests  map[string]string // file (relative to Dir) -> sha256
	GOARCH   string
	cg       *callgraph.Graph
	allFuncs map[*ssa.Function]bool
}

// Options configure Load.
type Options struct {
	Dir     string
	Overlay map[string][]byte // absolute path -> content
	GOARCH  string
}

// Load loads ./... in opt.Dir. Any load or type error is returned; callers
// treat it as CHECK-ERROR (no verdict).
func Load(opt Options) (*Program, error) {
	env := []string{}
	for _, kv := range os.Environ() {
		if strings.HasPrefix(kv, "GOWORK=") || strings.HasPrefix(kv, "GOFLAGS=") ||
			strings.HasPrefix(kv, "GOPROXY=") || strings.HasPrefix(kv, "GOSUMDB=") ||
			strings.HasPrefix(kv, "GOTOOLCHAIN=") || strings.HasPrefix(kv, "GOARCH=") {
			continue
		}
		env = append(env, kv)
	}
	env = append(env, "GOWORK=off", "GOFLAGS=-mod=mod", "GOPROXY=off", "GOSUMDB=off", "GOTOOLCHAIN=local")
	if opt.GOARCH != "" {
		env = append(env, "GOARCH="+opt.GOARCH)
	}
	fset := token.NewFileSet()
	cfg := &packages.Config{
		Mode:    packages.LoadAllSyntax | packages.NeedModule,
		Dir:     opt.Dir,
		Fset:    fset,
		Tests:   false,
		Env:     env,
		Overlay: opt.Overlay,
	}
	pkgs, err := packages.Load(cfg, "./...")
	if err != nil {
		return nil, fmt.Errorf("packages.Load: %w", err)
	}
	if len(pkgs) == 0 {
		return nil, fmt.Errorf("no packages loaded from %s", opt.Dir)
	}
	var errs []string
	packages.Visit(pkgs, nil, func(p *packages.Package) {
		for _, e := range p.Errors {
			errs = append(errs, e.Error())
		}
	})
	if len(errs) > 0 {
		sort.Strings(errs)
		if len(errs) > 10 {
			errs = errs[:10]
		}
		return nil, fmt.Errorf("load/type errors: %s", strings.Join(errs, "; "))
	}
	p := &Program{Dir: opt.Dir, Fset: fset, ByPath: map[string]*packages.Package{}, SSAPkg: map[string]*ssa.Package{}, Digests: map[string]string{}, GOARCH: opt.GOARCH}
	// module path: the shortest package path that has a Module
	for _, pk := range pkgs {
		if pk.Module != nil && pk.Module.Main {
			p.ModPath = pk.Module.Path
			break
		}
	}
	if p.ModPath == "" {
		return nil, fmt.Errorf("no main module found in %s", opt.Dir)
	}
	for _, pk := range pkgs {
		if pk.Module != nil && pk.Module.Path == p.ModPath {
			p.All = append(p.All, pk)
			p.ByPath[pk.PkgPath] = pk
		}
	}
	sort.Slice(p.All, func(i, j int) bool { return p.All[i].PkgPath < p.All[j].PkgPath })
	root := p.ByPath[p.ModPath]
	if root == nil {
		return nil, fmt.Errorf("root package %s not loaded", p.ModPath)
	}
	// closure by import graph
	seen := map[string]bool{}
	var walk func(pk *packages.Package)
	walk = func(pk *packages.Package) {
		if seen[pk.PkgPath] {
			return
		}
		seen[pk.PkgPath] = true
		for _, imp := range pk.Imports {
			if imp.Module != nil && imp.Module.Path == p.ModPath {
				walk(imp)
			}
		}
	}
	walk(root)
	for _, pk := range p.All {
		if seen[pk.PkgPath] {
			p.Closure = append(p.Closure, pk)
		} else {
			p.Helpers = append(p.Helpers, pk)
		}
	}
	// build-constraint and digest pass over the files of the module
	for _, pk := range p.All {
		if len(pk.IgnoredFiles) > 0 && seen[pk.PkgPath] {
			var ign []string
			for _, f := range pk.IgnoredFiles {
				if strings.HasSuffix(f, ".go") && !strings.HasSuffix(f, "_test.go") {
					ign = append(ign, f)
				}
			}
			if len(ign) > 0 {
				return nil, fmt.Errorf("package %s has files excluded by build constraints: %v", pk.PkgPath, ign)
			}
		}
		for _, f := range pk.CompiledGoFiles {
			var data []byte
			if ov, ok := opt.Overlay[f]; ok {
				data = ov
			} else {
				data, err = os.ReadFile(f)
				if err != nil {
					return nil, err
				}
			}
			sum := sha256.Sum256(data)
			rel, _ := filepath.Rel(opt.Dir, f)
			p.Digests[rel] = hex.EncodeToString(sum[:])
		}
	}
	prog, _ := ssautil.AllPackages(pkgs, ssa.InstantiateGenerics)
	prog.Build()
	p.SSA = prog
	for _, pk := range p.All {
		sp := prog.Package(pk.Types)
		if sp == nil {
			return nil, fmt.Errorf("no SSA for %s", pk.PkgPath)
		}
		p.SSAPkg[pk.PkgPath] = sp
	}
	return p, nil
}

// Rel returns the module-relative package path ("" for the root).
func (p *Program) Rel(pkgPath string) string {
	if pkgPath == p.ModPath {
		return ""
	}
	return strings.TrimPrefix(pkgPath, p.ModPath+"/")
}

// Pkg returns the packages.Package for a module-relative path.
func (p *Program) Pkg(rel string) *packages.Package {
	if rel == "" {
		return p.ByPath[p.ModPath]
	}
	return p.ByPath[p.ModPath+"/"+rel]
}

// SPkg returns the ssa.Package for a module-relative path.
func (p *Program) SPkg(rel string) *ssa.Package {
	if rel == "" {
		return p.SSAPkg[p.ModPath]
	}
	return p.SSAPkg[p.ModPath+"/"+rel]
}

// InClosure reports whether the types.Package belongs to the production closure.
func (p *Program) InClosure(tp *types.Package) bool {
	if tp == nil {
		return false
	}
	for _, pk := range p.Closure {
		if pk.Types == tp {
			return true
		}
	}
	return false
}

// InModule reports whether tp is a package of the analysed module.
func (p *Program) InModule(tp *types.Package) bool {
	if tp == nil {
		return false
	}
	_, ok := p.ByPath[tp.Path()]
	return ok
}

// Pos renders a position relative to the repository directory.
func (p *Program) Pos(pos token.Pos) string {
	if !pos.IsValid() {
		return "-"
	}
	ps := p.Fset.Position(pos)
	rel, err := filepath.Rel(p.Dir, ps.Filename)
	if err != nil {
		rel = ps.Filename
	}
	return fmt.Sprintf("%s:%d", rel, ps.Line)
}

// Funcs returns every source function (incl. methods and anonymous functions)
// of the given SSA package, sorted by position.
func (p *Program) Funcs(sp *ssa.Package) []*ssa.Function {
	if p.allFuncs == nil {
		p.allFuncs = ssautil.AllFunctions(p.SSA)
	}
	var out []*ssa.Function
	for fn := range p.allFuncs {
		if fn.Pkg == sp && fn.Synthetic == "" && fn.Blocks != nil {
			out = append(out, fn)
		} else if fn.Pkg == sp && fn.Name() == "init" && fn.Blocks != nil {
			out = append(out, fn)
		}
	}
	sort.Slice(out, func(i, j int) bool {
		if out[i].Pos() != out[j].Pos() {
			return out[i].Pos() < out[j].Pos()
		}
		return out[i].String() < out[j].String()
	})
	return out
}

// ClosureFuncs returns the source functions of all closure packages.
func (p *Program) ClosureFuncs() []*ssa.Function {
	var out []*ssa.Function
	for _, pk := range p.Closure {
		out = append(out, p.Funcs(p.SSAPkg[pk.PkgPath])...)
	}
	return out
}

// CallGraph returns the VTA call graph (built lazily).
func (p *Program) CallGraph() *callgraph.Graph {
	if p.cg == nil {
		if p.allFuncs == nil {
			p.allFuncs = ssautil.AllFunctions(p.SSA)
		}
		p.cg = vta.CallGraph(p.allFuncs, cha.CallGraph(p.SSA))
	}
	return p.cg
}

// FileOf returns the *ast.File containing pos among the module's packages.
func (p *Program) FileOf(pos token.Pos) (*packages.Package, *ast.File) {
	for _, pk := range p.All {
		for _, f := range pk.Syntax {
			if f.Pos() <= pos && pos <= f.End() {
				return pk, f
			}
		}
	}
	return nil, nil
}
