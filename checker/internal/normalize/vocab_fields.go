package normalize

// fieldVocab lists the fields (name:type, in declaration order) of every struct type, and the methods of every
// interface type, of the production closure on the pinned tree; used to recognise a renamed field or type.
// Regenerate with `mowcheck -dump @fields`.
var fieldVocab = map[string][]string{
	"cli.BoolArg":          {"Name:string", "Desc:string", "EnvVar:string", "Value:bool", "HideValue:bool", "SetByUser:*bool"},
	"cli.BoolOpt":          {"Name:string", "Desc:string", "EnvVar:string", "Value:bool", "HideValue:bool", "SetByUser:*bool"},
	"cli.BoolParam":        {"method value:(*bool)(flag.Value,*bool)"},
	"cli.Cli":              {"Cmd:*cli.Cmd", "version:*cli.cliVersion"},
	"cli.Cmd":              {"Action:func()", "Before:func()", "After:func()", "Spec:string", "LongDesc:string", "Hidden:bool", "ErrorHandling:flag.ErrorHandling", "init:cli.CmdInitializer", "name:string", "aliases:[]string", "desc:string", "commands:[]*cli.Cmd", "options:[]*container.Container", "optionsIdx:map[string]*container.Container", "args:[]*container.Container", "argsIdx:map[string]*container.Container", "parents:[]string", "fsm:*fsm.State"},
	"cli.Float64Arg":       {"Name:string", "Desc:string", "EnvVar:string", "Value:float64", "HideValue:bool", "SetByUser:*bool"},
	"cli.Float64Opt":       {"Name:string", "Desc:string", "EnvVar:string", "Value:float64", "HideValue:bool", "SetByUser:*bool"},
	"cli.Float64Param":     {"method value:(*float64)(flag.Value,*float64)"},
	"cli.Floats64Arg":      {"Name:string", "Desc:string", "EnvVar:string", "Value:[]float64", "HideValue:bool", "SetByUser:*bool"},
	"cli.Floats64Opt":      {"Name:string", "Desc:string", "EnvVar:string", "Value:[]float64", "HideValue:bool", "SetByUser:*bool"},
	"cli.Floats64Param":    {"method value:(*[]float64)(flag.Value,*[]float64)"},
	"cli.IntArg":           {"Name:string", "Desc:string", "EnvVar:string", "Value:int", "HideValue:bool", "SetByUser:*bool"},
	"cli.IntOpt":           {"Name:string", "Desc:string", "EnvVar:string", "Value:int", "HideValue:bool", "SetByUser:*bool"},
	"cli.IntParam":         {"method value:(*int)(flag.Value,*int)"},
	"cli.IntsArg":          {"Name:string", "Desc:string", "EnvVar:string", "Value:[]int", "HideValue:bool", "SetByUser:*bool"},
	"cli.IntsOpt":          {"Name:string", "Desc:string", "EnvVar:string", "Value:[]int", "HideValue:bool", "SetByUser:*bool"},
	"cli.IntsParam":        {"method value:(*[]int)(flag.Value,*[]int)"},
	"cli.StringArg":        {"Name:string", "Desc:string", "EnvVar:string", "Value:string", "HideValue:bool", "SetByUser:*bool"},
	"cli.StringOpt":        {"Name:string", "Desc:string", "EnvVar:string", "Value:string", "HideValue:bool", "SetByUser:*bool"},
	"cli.StringParam":      {"method value:(*string)(flag.Value,*string)"},
	"cli.StringsArg":       {"Name:string", "Desc:string", "EnvVar:string", "Value:[]string", "HideValue:bool", "SetByUser:*bool"},
	"cli.StringsOpt":       {"Name:string", "Desc:string", "EnvVar:string", "Value:[]string", "HideValue:bool", "SetByUser:*bool"},
	"cli.StringsParam":     {"method value:(*[]string)(flag.Value,*[]string)"},
	"cli.VarArg":           {"Name:string", "Desc:string", "EnvVar:string", "Value:flag.Value", "HideValue:bool", "SetByUser:*bool"},
	"cli.VarOpt":           {"Name:string", "Desc:string", "EnvVar:string", "Value:flag.Value", "HideValue:bool", "SetByUser:*bool"},
	"cli.VarParam":         {"method value:()(flag.Value)"},
	"cli.cliVersion":       {"version:string", "option:*container.Container"},
	"container.Container":  {"Name:string", "Desc:string", "EnvVar:string", "Names:[]string", "HideValue:bool", "ValueSetFromEnv:bool", "ValueSetByUser:*bool", "Value:flag.Value", "DefaultValue:string"},
	"flow.Step":            {"Do:func()", "Success:*flow.Step", "Error:*flow.Step", "Desc:string", "Exiter:func(code int)"},
	"fsm.State":            {"Terminal:bool", "Transitions:fsm.StateTransitions"},
	"fsm.Transition":       {"Matcher:matcher.Matcher", "Next:*fsm.State"},
	"lexer.ParseError":     {"Input:string", "Msg:string", "Pos:int"},
	"lexer.Token":          {"Typ:lexer.TokenType", "Val:string", "Pos:int"},
	"matcher.Matcher":      {"method Match:([]string,*matcher.ParseContext)(bool,[]string)", "method Priority:()(int)"},
	"matcher.ParseContext": {"Args:map[*container.Container][]string", "Opts:map[*container.Container][]string", "ExcludedOpts:map[*container.Container]struct{}", "RejectOptions:bool"},
	"matcher.arg":          {"arg:*container.Container"},
	"matcher.opt":          {"theOne:*container.Container", "index:map[string]*container.Container"},
	"matcher.options":      {"options:[]*container.Container", "index:map[string]*container.Container"},
	"parser.Params":        {"Spec:string", "Options:[]*container.Container", "OptionsIdx:map[string]*container.Container", "Args:[]*container.Container", "ArgsIdx:map[string]*container.Container"},
	"parser.parser":        {"spec:string", "options:[]*container.Container", "optionsIdx:map[string]*container.Container", "args:[]*container.Container", "argsIdx:map[string]*container.Container", "tokens:[]*lexer.Token", "tkpos:int", "matchedToken:*lexer.Token", "rejectOptions:bool"},
	"values.BoolValued":    {"method IsBoolFlag:()(bool)", "method Set:(string)(error)", "method String:()(string)"},
	"values.DefaultValued": {"method IsDefault:()(bool)"},
	"values.MultiValued":   {"method Clear:()()", "method Set:(string)(error)", "method String:()(string)"},
}

// FieldVocab returns the field vocabulary. Read-only.
func FieldVocab() map[string][]string { return fieldVocab }
