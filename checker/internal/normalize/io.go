package normalize

import "os"

var osReadFile = os.ReadFile
