// Package normalize undoes "extract function/method" refactorings before the
// rules run: a function of the production closure whose canonical name is not
// in the vocabulary of the pinned tree, and which is only ever called
// directly, is inlined textually at each of its call sites (in an in-memory
// overlay) and its declaration is removed. Inlining preserves behaviour, so a
// verdict on the normalised program is a verdict on the program. If anything
// about a candidate is not plainly safe it is left alone, and if the
// normalised overlay does not type-check the caller falls back to the
// original program: normalisation can only turn "undecided" into a decision.
package normalize

import (
	"bytes"
	"fmt"
	"go/ast"
	"go/parser"
	"go/printer"
	"go/token"
	"go/types"
	"sort"
	"strings"

	"golang.org/x/tools/go/packages"
	"golang.org/x/tools/go/ssa"

	"verif/checker/internal/load"
)

// Result of one normalisation round.
type Result struct {
	Overlay map[string][]byte
	Inlined []string // "callee -> caller (n sites)"
	Skipped []string // "callee: reason"
}

// Vocab returns the vocabulary (canonical qualified name -> signature key). Read-only.
func Vocab() map[string]string { return vocab }

// MemberKey renders a struct field or interface method as "name:type" (methods: "method name:(params)(results)"
// without parameter names).
func MemberKey(name string, t types.Type, method bool) string {
	q := func(p *types.Package) string { return p.Name() }
	if sig, ok := t.(*types.Signature); ok && method {
		var ps, rs []string
		for i := 0; i < sig.Params().Len(); i++ {
			ps = append(ps, types.TypeString(sig.Params().At(i).Type(), q))
		}
		for i := 0; i < sig.Results().Len(); i++ {
			rs = append(rs, types.TypeString(sig.Results().At(i).Type(), q))
		}
		return "method " + name + ":(" + strings.Join(ps, ",") + ")(" + strings.Join(rs, ",") + ")"
	}
	return name + ":" + types.TypeString(t, q)
}

// Known reports whether a canonical qualified function name is in the vocabulary.
func Known(name string) bool { _, ok := vocab[name]; return ok }

// SigKey renders package, receiver type and signature of fn (used to recognise a renamed function).
func SigKey(fn *ssa.Function) string {
	pkg := ""
	if fn.Pkg != nil {
		pkg = fn.Pkg.Pkg.Name()
	}
	q := func(p *types.Package) string { return p.Name() }
	recv := ""
	if r := fn.Signature.Recv(); r != nil {
		recv = types.TypeString(r.Type(), q)
	}
	var ps, rs []string
	for i := 0; i < fn.Signature.Params().Len(); i++ {
		ps = append(ps, types.TypeString(fn.Signature.Params().At(i).Type(), q))
	}
	for i := 0; i < fn.Signature.Results().Len(); i++ {
		rs = append(rs, types.TypeString(fn.Signature.Results().At(i).Type(), q))
	}
	v := ""
	if fn.Signature.Variadic() {
		v = "..."
	}
	return pkg + "|" + recv + "|(" + strings.Join(ps, ",") + v + ")(" + strings.Join(rs, ",") + ")"
}

type site struct {
	call   *ast.CallExpr
	file   *ast.File
	pkg    *packages.Package
	stmt   ast.Stmt    // statement to replace
	shape  int         // 1 expr, 2 assign, 3 return, 4 if-init, 5 in-expression
	ifStmt *ast.IfStmt // for shape 4
}

// Round performs one round of inlining over program p. name gives the
// canonical qualified name of a function (aliases applied).
func Round(p *load.Program, name func(*ssa.Function) string, overlay map[string][]byte, counter *int) *Result {
	return RoundKeep(p, name, overlay, counter, nil)
}

// RoundKeep is Round with a veto: functions for which keep returns true are left as calls.
func RoundKeep(p *load.Program, name func(*ssa.Function) string, overlay map[string][]byte, counter *int, keep func(*ssa.Function) bool) *Result {
	res := &Result{Overlay: map[string][]byte{}}
	type cand struct {
		fd   *ast.FuncDecl
		obj  *types.Func
		pkg  *packages.Package
		file *ast.File
		qn   string
	}
	var cands []cand
	// names of the vocabulary that are absent from this program: an unknown function with the
	// signature of an absent one is a renamed function, not a new helper
	present := map[string]bool{}
	for _, fn := range p.ClosureFuncs() {
		if fn.Parent() == nil {
			present[name(fn)] = true
		}
	}
	missingBySig := map[string]int{}
	for n, sg := range vocab {
		if !present[n] {
			missingBySig[sg]++
		}
	}
	for _, pk := range p.Closure {
		for _, f := range pk.Syntax {
			for _, d := range f.Decls {
				fd, ok := d.(*ast.FuncDecl)
				if !ok || fd.Body == nil || fd.Name.Name == "init" || fd.Name.Name == "_" {
					continue
				}
				obj, _ := pk.TypesInfo.Defs[fd.Name].(*types.Func)
				if obj == nil {
					continue
				}
				sf := p.SSA.FuncValue(obj)
				if sf == nil {
					continue
				}
				qn := name(sf)
				if Known(qn) {
					continue
				}
				if keep != nil && keep(sf) {
					res.Skipped = append(res.Skipped, qn+": kept as a call in this variant (predicate)")
					continue
				}
				if missingBySig[SigKey(sf)] > 0 {
					res.Skipped = append(res.Skipped, qn+": has the signature of a function of the pinned tree that is absent here (renamed, not a new helper)")
					continue
				}
				cands = append(cands, cand{fd, obj, pk, f, qn})
			}
		}
	}
	if len(cands) == 0 {
		return res
	}
	// text edits per file
	type edit struct {
		start, end int
		text       string
	}
	edits := map[string][]edit{}
	src := func(file string) []byte {
		if b, ok := overlay[file]; ok {
			return b
		}
		b, _ := readFile(file)
		return b
	}
	// first lower `A && f(x)` / `A || f(x)` around calls of candidates, so that the call is no longer
	// evaluated conditionally inside an expression; inlining happens in a later round
	{
		objs := map[types.Object]string{}
		for _, cd := range cands {
			objs[cd.obj] = cd.qn
		}
		low := lowerShortCircuits(p, objs, src, counter)
		if len(low) > 0 {
			byFile := map[string][]lowered{}
			for _, l := range low {
				byFile[l.file] = append(byFile[l.file], l)
			}
			for file, ls := range byFile {
				sort.Slice(ls, func(i, j int) bool { return ls[i].start > ls[j].start })
				b := append([]byte(nil), src(file)...)
				lastStart := len(b) + 1
				for _, l := range ls {
					if l.end > lastStart {
						continue // nested in a statement already rewritten this round
					}
					b = append(b[:l.start], append([]byte(l.text), b[l.end:]...)...)
					lastStart = l.start
					res.Inlined = append(res.Inlined, "(lowered a short-circuit condition around a call of "+l.callee+")")
				}
				res.Overlay[file] = b
			}
			sort.Strings(res.Inlined)
			return res
		}
	}
	importsAdded := map[string]bool{}
	importsDropped := map[string]bool{}
	overlaps := func(file string, s, e int) bool {
		for _, ed := range edits[file] {
			if s < ed.end && ed.start < e {
				return true
			}
		}
		return false
	}
	for _, cd := range cands {
		why := calleeUnsafe(cd.fd, cd.obj, cd.pkg, p)
		if why != "" {
			res.Skipped = append(res.Skipped, cd.qn+": "+why)
			continue
		}
		sites, why := findSites(cd.obj, p)
		if why != "" {
			res.Skipped = append(res.Skipped, cd.qn+": "+why)
			continue
		}
		if len(sites) == 0 {
			res.Skipped = append(res.Skipped, cd.qn+": never called")
			continue
		}
		if labelled[cd.obj] && len(sites) > 1 {
			res.Skipped = append(res.Skipped, cd.qn+": labels and more than one call site")
			continue
		}
		// build all replacements first; commit only if every site works and nothing overlaps
		var pending []struct {
			file string
			ed   edit
		}
		type impAdd struct {
			file       *ast.File
			name, path string
		}
		var addImports []impAdd
		ok := true
		reason := ""
		for _, s := range sites {
			var quals []qual
			if s.pkg != cd.pkg {
				var w string
				quals, w = crossQuals(p.Fset, cd.fd, cd.pkg, s)
				if w != "" {
					ok, reason = false, "called from another package: "+w
					break
				}
			}
			if w := captureRisk(cd.fd, cd.pkg, s); w != "" {
				ok, reason = false, w
				break
			}
			w, missing := importRisk(cd.fd, cd.file, s.file, cd.pkg)
			if w != "" {
				ok, reason = false, w
				break
			}
			for nm, path := range missing {
				if s.pkg.Types.Scope().Lookup(nm) != nil {
					ok, reason = false, "the caller's package declares "+nm+", which the helper uses as a package name"
				}
				addImports = append(addImports, impAdd{s.file, nm, path})
			}
			if !ok {
				break
			}
			*counter++
			file := p.Fset.Position(s.stmt.Pos()).Filename
			extraImports = map[string]string{}
			for nm, path := range missing {
				extraImports[path] = nm
			}
			text, w := buildReplacement(p.Fset, src, cd.fd, cd.obj, cd.pkg, s, *counter, quals)
			extraImports = nil
			if w != "" {
				ok, reason = false, w
				break
			}
			st, en := p.Fset.Position(s.stmt.Pos()).Offset, p.Fset.Position(s.stmt.End()).Offset
			if overlaps(file, st, en) {
				ok, reason = false, "overlaps another edit of this round (retried next round)"
				break
			}
			for _, pe := range pending {
				if pe.file == file && st < pe.ed.end && pe.ed.start < en {
					ok, reason = false, "two call sites in one statement"
				}
			}
			pending = append(pending, struct {
				file string
				ed   edit
			}{file, edit{st, en, text}})
		}
		// the declaration itself
		dfile := p.Fset.Position(cd.fd.Pos()).Filename
		ds := p.Fset.Position(cd.fd.Pos()).Offset
		if cd.fd.Doc != nil {
			ds = p.Fset.Position(cd.fd.Doc.Pos()).Offset
		}
		de := p.Fset.Position(cd.fd.End()).Offset
		if ok && overlaps(dfile, ds, de) {
			ok, reason = false, "declaration overlaps another edit of this round (retried next round)"
		}
		if ok {
			for _, pe := range pending {
				if pe.file == dfile && ds < pe.ed.end && pe.ed.start < de {
					ok, reason = false, "a call site lies inside the helper itself"
				}
			}
		}
		if !ok {
			res.Skipped = append(res.Skipped, cd.qn+": "+reason)
			continue
		}
		for _, pe := range pending {
			edits[pe.file] = append(edits[pe.file], pe.ed)
		}
		edits[dfile] = append(edits[dfile], edit{ds, de, ""})
		// imports the inlined body needs in the caller's file (analysis-only overlay)
		for _, ia := range addImports {
			fname := p.Fset.Position(ia.file.Pos()).Filename
			key := fname + "\x00" + ia.name
			if importsAdded[key] {
				continue
			}
			importsAdded[key] = true
			off := p.Fset.Position(ia.file.Name.End()).Offset
			edits[fname] = append(edits[fname], edit{off, off, "\nimport " + ia.name + " \"" + ia.path + "\"\n"})
		}
		// imports of the helper's own file that only the helper used (unless the body lands in that same file)
		sameFile := false
		for _, st := range sites {
			if st.file == cd.file {
				sameFile = true
			}
		}
		usedElsewhere := map[string]bool{}
		usedByHelper := map[string]bool{}
		ast.Inspect(cd.file, func(n ast.Node) bool {
			id, isID := n.(*ast.Ident)
			if !isID {
				return true
			}
			if pn, isPkg := cd.pkg.TypesInfo.Uses[id].(*types.PkgName); isPkg {
				if id.Pos() >= cd.fd.Pos() && id.End() <= cd.fd.End() {
					usedByHelper[pn.Name()] = true
				} else {
					usedElsewhere[pn.Name()] = true
				}
			}
			return true
		})
		for _, im := range cd.file.Imports {
			path := strings.Trim(im.Path.Value, "\"")
			nm := path[strings.LastIndex(path, "/")+1:]
			if im.Name != nil {
				nm = im.Name.Name
			}
			if obj := cd.pkg.TypesInfo.Implicits[im]; obj != nil {
				nm = obj.Name()
			}
			if !sameFile && usedByHelper[nm] && !usedElsewhere[nm] && !importsDropped[dfile+"\x00"+nm] {
				// still used by another helper of the same file that this round removes? then a later
				// round drops it; dropping it twice is prevented by the set
				st, en := p.Fset.Position(im.Pos()).Offset, p.Fset.Position(im.End()).Offset
				if !overlaps(dfile, st, en) {
					importsDropped[dfile+"\x00"+nm] = true
					edits[dfile] = append(edits[dfile], edit{st, en, ""})
				}
			}
		}
		res.Inlined = append(res.Inlined, fmt.Sprintf("%s (%d call sites)", cd.qn, len(sites)))
	}
	for file, eds := range edits {
		sort.Slice(eds, func(i, j int) bool { return eds[i].start > eds[j].start })
		b := append([]byte(nil), src(file)...)
		for _, ed := range eds {
			b = append(b[:ed.start], append([]byte(ed.text), b[ed.end:]...)...)
		}
		res.Overlay[file] = pruneUnusedImports(file, b)
	}
	sort.Strings(res.Inlined)
	sort.Strings(res.Skipped)
	return res
}

// pruneUnusedImports drops import specs whose package name no longer occurs as a qualifier in the file
// (a helper that was the only user of the import has been inlined elsewhere, or its body landed here
// without the part of its signature that needed it). Syntactic: a name is "used" if `name.` occurs as a
// selector base anywhere; blank and dot imports are left alone. On a parse error the text is returned as is.
func pruneUnusedImports(file string, b []byte) []byte {
	fset := token.NewFileSet()
	f, err := parser.ParseFile(fset, file, b, parser.ParseComments)
	if err != nil {
		return b
	}
	used := map[string]bool{}
	ast.Inspect(f, func(n ast.Node) bool {
		if se, ok := n.(*ast.SelectorExpr); ok {
			if id, isID := se.X.(*ast.Ident); isID {
				used[id.Name] = true
			}
		}
		return true
	})
	type cut struct{ s, e int }
	var cuts []cut
	for _, im := range f.Imports {
		path := strings.Trim(im.Path.Value, "\"")
		nm := path[strings.LastIndex(path, "/")+1:]
		if im.Name != nil {
			nm = im.Name.Name
		}
		if nm == "_" || nm == "." || used[nm] {
			continue
		}
		// module packages whose name differs from the last path element (mow.cli -> cli) are never
		// dropped here: only a name that certainly is the package's
		if strings.Contains(nm, ".") || strings.Contains(nm, "-") {
			continue
		}
		st, en := fset.Position(im.Pos()).Offset, fset.Position(im.End()).Offset
		// a declaration of its own (`import name "path"`, no parentheses) goes as a whole
		for _, d := range f.Decls {
			if gd, isGD := d.(*ast.GenDecl); isGD && gd.Tok == token.IMPORT && !gd.Lparen.IsValid() && len(gd.Specs) == 1 && gd.Specs[0] == ast.Spec(im) {
				st, en = fset.Position(gd.Pos()).Offset, fset.Position(gd.End()).Offset
			}
		}
		cuts = append(cuts, cut{st, en})
	}
	if len(cuts) == 0 {
		return b
	}
	sort.Slice(cuts, func(i, j int) bool { return cuts[i].s > cuts[j].s })
	out := append([]byte(nil), b...)
	for _, c := range cuts {
		out = append(out[:c.s], out[c.e:]...)
	}
	return out
}

type lowered struct {
	file       string
	start, end int
	text       string
	callee     string
}

// lowerShortCircuits rewrites statements whose condition / result / right-hand side is a && or || chain
// that evaluates a call of one of objs conditionally:
//
//	if A && f(x) { B }        =>  c := A; if c { c = f(x) }; if c { B }
//	return A || f(x)          =>  c := A; if !c { c = f(x) }; return c
//
// which is the definition of the short-circuit operators.
func lowerShortCircuits(p *load.Program, objs map[types.Object]string, src func(string) []byte, counter *int) []lowered {
	var out []lowered
	fset := p.Fset
	text := func(n ast.Node) string { return nodeText(fset, src, n) }
	for _, pk := range p.Closure {
		for _, f := range pk.Syntax {
			var stack []ast.Node
			done := map[ast.Stmt]bool{}
			ast.Inspect(f, func(n ast.Node) bool {
				if n == nil {
					stack = stack[:len(stack)-1]
					return true
				}
				stack = append(stack, n)
				id, ok := n.(*ast.Ident)
				if !ok {
					return true
				}
				qn, isCand := objs[pk.TypesInfo.Uses[id]]
				if !isCand {
					return true
				}
				// climb: find the outermost logical expression under which this identifier sits on a right-hand side
				var outer *ast.BinaryExpr
				var child ast.Node = id
				j := len(stack) - 2
				for ; j >= 0; j-- {
					switch x := stack[j].(type) {
					case *ast.BinaryExpr:
						if (x.Op == token.LAND || x.Op == token.LOR) && (x.Y == child || outer != nil) {
							outer = x
						} else if x.Op == token.LAND || x.Op == token.LOR {
							// in the left operand: unconditional at this level; an enclosing chain may still matter
							if outer != nil {
								outer = x
							}
						}
						child = x
						continue
					case ast.Expr:
						if _, isLit := x.(*ast.FuncLit); isLit {
							return true
						}
						child = x
						continue
					}
					break
				}
				// the call is (part of) a case expression of a tagless switch: turn the switch into nested ifs
				if cc, isCC := stack[j].(*ast.CaseClause); isCC && j >= 2 {
					if sw, isSw := stack[j-2].(*ast.SwitchStmt); isSw && sw.Tag == nil && sw.Init == nil && !done[sw] && j >= 3 && inStmtList(stack[j-3], sw) {
						if txt, okL := lowerTaglessSwitch(sw, text); okL {
							_ = cc
							done[sw] = true
							out = append(out, lowered{fset.Position(sw.Pos()).Filename, fset.Position(sw.Pos()).Offset, fset.Position(sw.End()).Offset, txt, qn})
						}
					}
					return true
				}
				if outer == nil || j < 0 {
					return true
				}
				st, isStmt := stack[j].(ast.Stmt)
				if !isStmt || done[st] {
					return true
				}
				// the whole expression position of the statement, through parentheses and one negation
				pre, post := "", ""
				var whole ast.Expr
				switch x := st.(type) {
				case *ast.IfStmt:
					whole = x.Cond
				case *ast.ReturnStmt:
					if len(x.Results) == 1 {
						whole = x.Results[0]
					}
				case *ast.AssignStmt:
					if len(x.Lhs) == 1 && len(x.Rhs) == 1 && (x.Tok == token.ASSIGN || x.Tok == token.DEFINE) {
						whole = x.Rhs[0]
					}
				}
				if whole == nil {
					return true
				}
				e := whole
				for {
					if pe, isP := e.(*ast.ParenExpr); isP {
						e = pe.X
						continue
					}
					if ue, isU := e.(*ast.UnaryExpr); isU && ue.Op == token.NOT && pre == "" {
						pre, post = "!(", ")"
						e = ue.X
						continue
					}
					break
				}
				if e != ast.Expr(outer) {
					return true
				}
				parent := stack[j-1]
				inList := inStmtList(parent, st)
				elsePos := false
				if pif, isIf := parent.(*ast.IfStmt); isIf && pif.Else == st {
					elsePos = true
				}
				if !inList && !elsePos {
					return true
				}
				*counter++
				c := fmt.Sprintf("inlC%d", *counter)
				guard := c
				if outer.Op == token.LOR {
					guard = "!" + c
				}
				var b strings.Builder
				head := fmt.Sprintf("%s := %s\nif %s {\n%s = %s\n}\n", c, text(outer.X), guard, c, text(outer.Y))
				switch x := st.(type) {
				case *ast.IfStmt:
					if outer.Op == token.LAND && x.Else == nil && x.Init == nil && pre == "" && !elsePos {
						// no else: plain nesting, no flag needed
						full := text(x)
						bodyOff := fset.Position(x.Body.Pos()).Offset - fset.Position(x.Pos()).Offset
						if bodyOff < 0 || bodyOff > len(full) {
							return true
						}
						b.WriteString("if " + text(outer.X) + " {\nif " + text(outer.Y) + " " + full[bodyOff:] + "\n}\n")
						break
					}
					braces := x.Init != nil || elsePos
					if braces {
						b.WriteString("{\n")
					}
					if x.Init != nil {
						b.WriteString(text(x.Init) + "\n")
					}
					b.WriteString(head)
					full := text(x)
					bodyOff := fset.Position(x.Body.Pos()).Offset - fset.Position(x.Pos()).Offset
					if bodyOff < 0 || bodyOff > len(full) {
						return true
					}
					b.WriteString("if " + pre + c + post + " " + full[bodyOff:] + "\n")
					if braces {
						b.WriteString("}\n")
					}
				case *ast.ReturnStmt:
					if elsePos {
						return true
					}
					b.WriteString(head)
					b.WriteString("return " + pre + c + post + "\n")
				case *ast.AssignStmt:
					if elsePos {
						return true
					}
					b.WriteString(head)
					b.WriteString(text(x.Lhs[0]) + " " + x.Tok.String() + " " + pre + c + post + "\n")
				}
				done[st] = true
				out = append(out, lowered{fset.Position(st.Pos()).Filename, fset.Position(st.Pos()).Offset, fset.Position(st.End()).Offset, b.String(), qn})
				return true
			})
		}
	}
	return out
}

// lowerTaglessSwitch renders `switch { case A: X; case B, C: Y; default: Z }` as
// `if A { X } else { if B || C { Y } else { Z } }`. Refused if a body contains a break that would leave
// the switch, a fallthrough, or if the default clause is not last.
func lowerTaglessSwitch(sw *ast.SwitchStmt, text func(ast.Node) string) (string, bool) {
	var clauses []*ast.CaseClause
	for _, st := range sw.Body.List {
		cc, ok := st.(*ast.CaseClause)
		if !ok {
			return "", false
		}
		clauses = append(clauses, cc)
	}
	for i, cc := range clauses {
		if cc.List == nil && i != len(clauses)-1 {
			return "", false
		}
		bad := false
		var walk func(n ast.Node, depth int)
		walk = func(n ast.Node, depth int) {
			ast.Inspect(n, func(m ast.Node) bool {
				switch x := m.(type) {
				case *ast.FuncLit:
					return false
				case *ast.ForStmt, *ast.RangeStmt, *ast.SwitchStmt, *ast.TypeSwitchStmt, *ast.SelectStmt:
					if m != n {
						// a break inside belongs to that statement; a labelled one is fine either way
						return false
					}
				case *ast.BranchStmt:
					if x.Tok == token.FALLTHROUGH || (x.Tok == token.BREAK && x.Label == nil) {
						bad = true
					}
				}
				return true
			})
		}
		for _, st := range cc.Body {
			walk(st, 0)
		}
		if bad {
			return "", false
		}
	}
	var b strings.Builder
	closers := 0
	for i, cc := range clauses {
		if cc.List == nil {
			b.WriteString("{\n")
			for _, st := range cc.Body {
				b.WriteString(text(st) + "\n")
			}
			b.WriteString("}\n")
			continue
		}
		var conds []string
		for _, e := range cc.List {
			conds = append(conds, "("+text(e)+")")
		}
		b.WriteString("if " + strings.Join(conds, " || ") + " {\n")
		for _, st := range cc.Body {
			b.WriteString(text(st) + "\n")
		}
		b.WriteString("}")
		if i < len(clauses)-1 {
			if clauses[i+1].List == nil {
				b.WriteString(" else ")
			} else {
				b.WriteString(" else {\n")
				closers++
			}
		} else {
			b.WriteString("\n")
		}
	}
	for i := 0; i < closers; i++ {
		b.WriteString("}\n")
	}
	return b.String(), true
}

// labelled records the functions whose body contains labels: they may be inlined at one call site only.
var labelled = map[*types.Func]bool{}

// calleeUnsafe returns why the function must not be inlined ("" if it may).
func calleeUnsafe(fd *ast.FuncDecl, obj *types.Func, pk *packages.Package, p *load.Program) string {
	if fd.Type.TypeParams != nil {
		return "generic"
	}
	if obj.Exported() && pk.PkgPath == p.ModPath {
		if fd.Recv == nil {
			return "exported function of the public package"
		}
		return "exported method of the public package"
	}
	sig := obj.Type().(*types.Signature)
	namedResults := false
	if fd.Type.Results != nil {
		for _, f := range fd.Type.Results.List {
			if len(f.Names) > 0 {
				namedResults = true
			}
		}
	}
	if namedResults {
		// supported: the names become locals of the inlined block; every name must be a real one
		for _, f := range fd.Type.Results.List {
			for _, n := range f.Names {
				if n.Name == "_" {
					return "blank named result"
				}
			}
		}
	}
	why := ""
	depth := 0
	hasLabels := false
	defer func() {
		if hasLabels {
			labelled[obj] = true
		}
	}()
	ast.Inspect(fd.Body, func(n ast.Node) bool {
		switch x := n.(type) {
		case *ast.FuncLit:
			depth++
			ast.Inspect(x.Body, func(m ast.Node) bool {
				if id, ok := m.(*ast.Ident); ok && pk.TypesInfo.Uses[id] == types.Object(obj) {
					why = "recursive"
				}
				return true
			})
			depth--
			return false
		case *ast.DeferStmt:
			why = "defer"
		case *ast.GoStmt:
			why = "go statement"
		case *ast.Ident:
			if pk.TypesInfo.Uses[x] == types.Object(obj) {
				why = "recursive"
			}
			if x.Name == "recover" {
				if _, isB := pk.TypesInfo.Uses[x].(*types.Builtin); isB {
					why = "recover"
				}
			}
		case *ast.BranchStmt:
			if x.Tok == token.GOTO {
				why = "goto"
			}
		case *ast.LabeledStmt:
			// labels would be duplicated when inlined at several sites (checked by the caller: a single
			// call site is fine, the generated label names are unique)
			hasLabels = true
		}
		return true
	})
	if why != "" {
		return why
	}
	if sig.Variadic() {
		// supported, nothing to do
	}
	// the body must end in a return if there are results (so that the temps are always assigned)
	return ""
}

// findSites locates every reference to obj; all must be direct calls in a supported position.
func findSites(obj *types.Func, p *load.Program) ([]site, string) {
	var out []site
	for _, pk := range p.Closure {
		for _, f := range pk.Syntax {
			var stack []ast.Node
			bad := ""
			ast.Inspect(f, func(n ast.Node) bool {
				if n == nil {
					stack = stack[:len(stack)-1]
					return true
				}
				stack = append(stack, n)
				id, ok := n.(*ast.Ident)
				if !ok || pk.TypesInfo.Uses[id] != types.Object(obj) {
					return true
				}
				// parent chain: [.. CallExpr (SelectorExpr)? Ident]
				i := len(stack) - 2
				var fun ast.Expr = id
				if i >= 0 {
					if sel, isSel := stack[i].(*ast.SelectorExpr); isSel && sel.Sel == id {
						fun = sel
						i--
					}
				}
				if i < 0 {
					bad = "used outside a call"
					return true
				}
				call, isCall := stack[i].(*ast.CallExpr)
				if !isCall || call.Fun != fun {
					bad = "used as a value"
					return true
				}
				s := site{call: call, file: f, pkg: pk}
				// enclosing statement held in a statement list
				for j := i - 1; j >= 1; j-- {
					st, isStmt := stack[j].(ast.Stmt)
					if !isStmt {
						if _, isLit := stack[j].(*ast.FuncLit); isLit {
							// a call inside a closure is fine as long as its statement is found first; reaching the literal means unsupported
							bad = "call in an unsupported position (function literal boundary)"
							return true
						}
						continue
					}
					if !inStmtList(stack[j-1], st) {
						// e.g. the Init of an if: keep climbing, but remember
						if ifs, isIf := stack[j-1].(*ast.IfStmt); isIf && ifs.Init == st {
							continue
						}
						switch stack[j-1].(type) {
						case *ast.ForStmt, *ast.RangeStmt, *ast.SwitchStmt, *ast.TypeSwitchStmt, *ast.SelectStmt, *ast.LabeledStmt:
							bad = "call in a loop/switch header"
							return true
						}
						continue
					}
					s.stmt = st
					break
				}
				if s.stmt == nil {
					bad = "no enclosing statement"
					return true
				}
				switch st := s.stmt.(type) {
				case *ast.ExprStmt:
					if st.X == ast.Expr(call) {
						s.shape = 1
					} else {
						s.shape = 5
					}
				case *ast.AssignStmt:
					if len(st.Rhs) == 1 && st.Rhs[0] == ast.Expr(call) {
						s.shape = 2
					} else {
						s.shape = 5
					}
				case *ast.ReturnStmt:
					if len(st.Results) == 1 && st.Results[0] == ast.Expr(call) {
						s.shape = 3
					} else {
						s.shape = 5
					}
				case *ast.IfStmt:
					s.ifStmt = st
					if propagatesError(st, call) {
						s.shape = 7
					} else if st.Init != nil && containsNode(st.Init, call) {
						switch in := st.Init.(type) {
						case *ast.ExprStmt:
							if in.X == ast.Expr(call) {
								s.shape = 4
							}
						case *ast.AssignStmt:
							if len(in.Rhs) == 1 && in.Rhs[0] == ast.Expr(call) {
								s.shape = 4
							}
						}
						if s.shape == 0 {
							bad = "call nested in an if-init expression"
							return true
						}
					} else if containsNode(st.Cond, call) {
						if st.Init != nil {
							bad = "call in the condition of an if with init"
							return true
						}
						s.shape = 5
					} else {
						bad = "call inside a nested statement that is not in a list"
						return true
					}
				case *ast.RangeStmt:
					if st.X == ast.Expr(call) {
						s.shape = 6
					} else {
						bad = "call inside a range statement"
						return true
					}
				default:
					bad = fmt.Sprintf("call inside a %T", st)
					return true
				}
				if s.shape == 5 {
					// the call must be the only call with possible side effects in the statement's expressions,
					// and must not sit under && / || or inside a closure (conditional evaluation)
					if w := soleCall(s.stmt, call, pk); w != "" {
						bad = w
						return true
					}
				}
				out = append(out, s)
				return true
			})
			if bad != "" {
				return nil, bad
			}
		}
	}
	return out, ""
}

// propagatesError recognises `if x := f(...); x != nil { return x }` (no else).
func propagatesError(st *ast.IfStmt, call *ast.CallExpr) bool {
	as, ok := st.Init.(*ast.AssignStmt)
	if !ok || as.Tok != token.DEFINE || len(as.Lhs) != 1 || len(as.Rhs) != 1 || as.Rhs[0] != ast.Expr(call) || st.Else != nil {
		return false
	}
	x, ok := as.Lhs[0].(*ast.Ident)
	if !ok {
		return false
	}
	be, ok := st.Cond.(*ast.BinaryExpr)
	if !ok || be.Op != token.NEQ {
		return false
	}
	l, okL := be.X.(*ast.Ident)
	r, okR := be.Y.(*ast.Ident)
	if !okL || !okR || l.Name != x.Name || r.Name != "nil" {
		return false
	}
	if len(st.Body.List) != 1 {
		return false
	}
	ret, ok := st.Body.List[0].(*ast.ReturnStmt)
	if !ok || len(ret.Results) != 1 {
		return false
	}
	rv, ok := ret.Results[0].(*ast.Ident)
	return ok && rv.Name == x.Name
}

func inStmtList(parent ast.Node, st ast.Stmt) bool {
	var list []ast.Stmt
	switch x := parent.(type) {
	case *ast.BlockStmt:
		list = x.List
	case *ast.CaseClause:
		list = x.Body
	case *ast.CommClause:
		list = x.Body
	}
	for _, s := range list {
		if s == st {
			return true
		}
	}
	return false
}

func containsNode(root ast.Node, target ast.Node) bool {
	found := false
	ast.Inspect(root, func(n ast.Node) bool {
		if n == target {
			found = true
		}
		return !found
	})
	return found
}

// soleCall: within stmt's top-level expressions (not nested blocks), target is the only call that is not a
// conversion or a side-effect-free builtin, and it is evaluated unconditionally.
func soleCall(stmt ast.Stmt, target *ast.CallExpr, pk *packages.Package) string {
	var exprs []ast.Expr
	switch st := stmt.(type) {
	case *ast.ExprStmt:
		exprs = []ast.Expr{st.X}
	case *ast.AssignStmt:
		exprs = append(append(exprs, st.Lhs...), st.Rhs...)
	case *ast.ReturnStmt:
		exprs = st.Results
	case *ast.IfStmt:
		exprs = []ast.Expr{st.Cond}
	}
	why := ""
	var walk func(n ast.Node, conditional bool)
	walk = func(n ast.Node, conditional bool) {
		switch x := n.(type) {
		case nil:
			return
		case *ast.FuncLit:
			if containsNode(x, target) {
				why = "call inside a function literal"
			}
			return
		case *ast.BinaryExpr:
			walk(x.X, conditional)
			walk(x.Y, conditional || x.Op == token.LAND || x.Op == token.LOR)
			return
		case *ast.CallExpr:
			if x == target {
				if conditional {
					why = "call evaluated conditionally (&&/||)"
				}
			} else {
				pure := false
				if tv, ok := pk.TypesInfo.Types[x.Fun]; ok && tv.IsType() {
					pure = true
				}
				if id, ok := x.Fun.(*ast.Ident); ok {
					if _, isB := pk.TypesInfo.Uses[id].(*types.Builtin); isB && (id.Name == "len" || id.Name == "cap") {
						pure = true
					}
				}
				if !pure && x.End() <= target.Pos() {
					why = "another call is evaluated before it in the same statement"
				}
			}
			for _, a := range x.Args {
				walk(a, conditional)
			}
			walk(x.Fun, conditional)
			return
		}
		// generic descent
		ast.Inspect(n, func(m ast.Node) bool {
			if m == n || m == nil {
				return true
			}
			switch m.(type) {
			case *ast.BinaryExpr, *ast.CallExpr, *ast.FuncLit:
				walk(m, conditional)
				return false
			}
			return true
		})
	}
	for _, e := range exprs {
		walk(e, false)
	}
	return why
}

// captureRisk: a package-level identifier used by the callee body must not be shadowed at the call site.
func captureRisk(fd *ast.FuncDecl, pk *packages.Package, s site) string {
	scope := s.pkg.Types.Scope().Innermost(s.call.Pos())
	if scope == nil {
		return "no scope at the call site"
	}
	cross := s.pkg != pk
	why := ""
	ast.Inspect(fd.Body, func(n ast.Node) bool {
		id, ok := n.(*ast.Ident)
		if !ok {
			return true
		}
		obj := pk.TypesInfo.Uses[id]
		if obj == nil {
			return true
		}
		if (obj.Parent() == pk.Types.Scope() && !cross) || obj.Parent() == types.Universe {
			if _, o := scope.LookupParent(id.Name, s.call.Pos()); o != nil && o != obj {
				why = "identifier " + id.Name + " is shadowed at the call site"
			}
		}
		if pn, isPkg := obj.(*types.PkgName); isPkg {
			if _, o := scope.LookupParent(id.Name, s.call.Pos()); o != nil {
				if opn, ok := o.(*types.PkgName); !ok || opn.Imported() != pn.Imported() {
					why = "package name " + id.Name + " means something else at the call site"
				}
			}
		}
		return true
	})
	return why
}

// qual is a text insertion (package qualifier) at an absolute file offset of the callee's file.
type qual struct {
	off  int
	text string
}

// crossQuals: the callee may be inlined into another package only if its body names nothing unexported
// of its own package; every package-level identifier it uses gets the caller file's import name in front.
func crossQuals(fset *token.FileSet, fd *ast.FuncDecl, pk *packages.Package, s site) ([]qual, string) {
	imp := ""
	for _, im := range s.file.Imports {
		path := strings.Trim(im.Path.Value, "\"")
		if path != pk.PkgPath {
			continue
		}
		imp = path[strings.LastIndex(path, "/")+1:]
		if im.Name != nil {
			imp = im.Name.Name
		}
	}
	if imp == "" || imp == "." || imp == "_" {
		return nil, "the caller's file does not import the helper's package by name"
	}
	scope := s.pkg.Types.Scope().Innermost(s.call.Pos())
	if scope == nil {
		return nil, "no scope at the call site"
	}
	if _, o := scope.LookupParent(imp, s.call.Pos()); o == nil {
		return nil, "import name not visible at the call site"
	} else if pn, ok := o.(*types.PkgName); !ok || pn.Imported() != pk.Types {
		return nil, "the import name is shadowed at the call site"
	}
	var out []qual
	why := ""
	ast.Inspect(fd.Body, func(n ast.Node) bool {
		id, ok := n.(*ast.Ident)
		if !ok {
			return true
		}
		obj := pk.TypesInfo.Uses[id]
		if obj == nil || obj.Pkg() != pk.Types {
			return true
		}
		switch o := obj.(type) {
		case *types.Var:
			if o.IsField() {
				if !o.Exported() {
					why = "uses the unexported field " + o.Name()
				}
				return true
			}
		case *types.Func:
			if sig, _ := o.Type().(*types.Signature); sig != nil && sig.Recv() != nil {
				if !o.Exported() {
					why = "uses the unexported method " + o.Name()
				}
				return true
			}
		}
		if obj.Parent() != pk.Types.Scope() {
			return true // local
		}
		if !obj.Exported() {
			why = "uses the unexported identifier " + obj.Name()
			return true
		}
		out = append(out, qual{fset.Position(id.Pos()).Offset, imp + "."})
		return true
	})
	// the receiver's and parameters' names must not be package-level names either (they are re-declared)
	return out, why
}

// importRisk: packages named in the callee body must be imported under the same name in the caller's
// file. A package the caller's file does not import at all is returned in `missing` (name -> path): the
// overlay adds the import. A name that the caller's file uses for a different package cannot be fixed.
func importRisk(fd *ast.FuncDecl, calleeFile, callerFile *ast.File, pk *packages.Package) (why string, missing map[string]string) {
	if calleeFile == callerFile {
		return "", nil
	}
	imported := map[string]string{}
	for _, im := range callerFile.Imports {
		path := strings.Trim(im.Path.Value, "\"")
		name := path[strings.LastIndex(path, "/")+1:]
		if im.Name != nil {
			name = im.Name.Name
		}
		imported[name] = path
	}
	missing = map[string]string{}
	ast.Inspect(fd, func(n ast.Node) bool {
		id, ok := n.(*ast.Ident)
		if !ok {
			return true
		}
		if pn, isPkg := pk.TypesInfo.Uses[id].(*types.PkgName); isPkg {
			have, present := imported[id.Name]
			switch {
			case !present:
				missing[id.Name] = pn.Imported().Path()
			case have != pn.Imported().Path():
				why = "the caller's file imports another package as " + id.Name
			}
		}
		return true
	})
	// a top-level name of the caller's package must not be shadowed by the new import name
	return why, missing
}

func nodeText(fset *token.FileSet, src func(string) []byte, n ast.Node) string {
	ps, pe := fset.Position(n.Pos()), fset.Position(n.End())
	b := src(ps.Filename)
	if ps.Offset < 0 || pe.Offset > len(b) || ps.Offset > pe.Offset {
		return ""
	}
	return string(b[ps.Offset:pe.Offset])
}

// extraImports: imports (path -> local name) that the current inlining adds to the caller's file; set
// around buildReplacement so that types naming those packages can be written out.
var extraImports map[string]string

func typeText(t types.Type, pk *packages.Package, file *ast.File) (string, bool) {
	ok := true
	imported := map[string]string{} // path -> local name
	for _, im := range file.Imports {
		path := strings.Trim(im.Path.Value, "\"")
		name := path[strings.LastIndex(path, "/")+1:]
		if im.Name != nil {
			name = im.Name.Name
		}
		imported[path] = name
	}
	s := types.TypeString(t, func(p *types.Package) string {
		if p == pk.Types {
			return ""
		}
		if n, found := imported[p.Path()]; found {
			return n
		}
		if n, found := extraImports[p.Path()]; found {
			return n // an import this round adds to the caller's file
		}
		ok = false
		return p.Name()
	})
	return s, ok
}

// buildReplacement renders the statements that replace s.stmt.
func buildReplacement(fset *token.FileSet, src func(string) []byte, fd *ast.FuncDecl, obj *types.Func, calleePk *packages.Package, s site, n int, quals []qual) (string, string) {
	pk := s.pkg // everything below is rendered in the caller's package
	cross := calleePk != s.pkg
	sig := obj.Type().(*types.Signature)
	var b strings.Builder
	tag := fmt.Sprintf("%d", n)
	// results
	var rnames []string
	for i := 0; i < sig.Results().Len(); i++ {
		tt, ok := typeText(sig.Results().At(i).Type(), pk, s.file)
		if !ok {
			return "", "a result type is not nameable in the caller's file"
		}
		rn := fmt.Sprintf("inlR%s_%d", tag, i)
		rnames = append(rnames, rn)
		fmt.Fprintf(&b, "var %s %s\n_ = %s\n", rn, tt, rn)
	}
	// argument temps in the caller's scope
	type bind struct {
		name, typ, val string
		t              types.Type
		same           bool // the argument expression already has exactly this type
	}
	var binds []bind
	if fd.Recv != nil {
		sel, ok := s.call.Fun.(*ast.SelectorExpr)
		if !ok {
			return "", "method called without a selector"
		}
		selection := pk.TypesInfo.Selections[sel]
		if selection == nil || len(selection.Index()) < 1 {
			return "", "method selection not resolved"
		}
		rt := sig.Recv().Type()
		xt := pk.TypesInfo.TypeOf(sel.X)
		x := nodeText(fset, src, sel.X)
		// a method promoted from embedded fields: name the fields on the way (`cli.m()` is `cli.Cmd.m()`)
		for _, fi := range selection.Index()[:len(selection.Index())-1] {
			base := xt
			if pt, isP := base.Underlying().(*types.Pointer); isP {
				base = pt.Elem()
			}
			st, isS := base.Underlying().(*types.Struct)
			if !isS || fi >= st.NumFields() || !st.Field(fi).Embedded() {
				return "", "method reached through embedding that cannot be spelled out"
			}
			x = "(" + x + ")." + st.Field(fi).Name()
			xt = st.Field(fi).Type()
		}
		_, rPtr := rt.(*types.Pointer)
		_, xPtr := xt.Underlying().(*types.Pointer)
		switch {
		case rPtr && !xPtr:
			x = "&(" + x + ")"
		case !rPtr && xPtr:
			x = "*(" + x + ")"
		}
		tt, ok2 := typeText(rt, pk, s.file)
		if !ok2 {
			return "", "receiver type is not nameable in the caller's file"
		}
		name := "_"
		if len(fd.Recv.List) == 1 && len(fd.Recv.List[0].Names) == 1 {
			name = fd.Recv.List[0].Names[0].Name
		}
		adj := xt
		switch {
		case rPtr && !xPtr:
			adj = types.NewPointer(xt)
		case !rPtr && xPtr:
			adj = xt.Underlying().(*types.Pointer).Elem()
		}
		binds = append(binds, bind{name, tt, x, rt, types.Identical(adj, rt)})
	}
	// parameters
	var pnames []string
	var ptypes []types.Type
	for i := 0; i < sig.Params().Len(); i++ {
		pnames = append(pnames, sig.Params().At(i).Name())
		ptypes = append(ptypes, sig.Params().At(i).Type())
	}
	args := s.call.Args
	for i := range pnames {
		tt, ok := typeText(ptypes[i], pk, s.file)
		if !ok {
			return "", "a parameter type is not nameable in the caller's file"
		}
		name := pnames[i]
		if name == "" {
			name = "_"
		}
		var val string
		if sig.Variadic() && i == len(pnames)-1 {
			if s.call.Ellipsis.IsValid() {
				if len(args) != len(pnames) {
					return "", "variadic call shape"
				}
				val = nodeText(fset, src, args[i])
			} else {
				var parts []string
				for _, a := range args[i:] {
					parts = append(parts, nodeText(fset, src, a))
				}
				val = tt + "{" + strings.Join(parts, ", ") + "}"
				if len(parts) == 0 {
					val = tt + "(nil)"
				}
			}
		} else {
			if i >= len(args) {
				return "", "argument count mismatch (multi-value argument)"
			}
			val = nodeText(fset, src, args[i])
		}
		same := false
		if !(sig.Variadic() && i == len(pnames)-1) && i < len(args) {
			if at := pk.TypesInfo.TypeOf(args[i]); at != nil && types.Identical(at, ptypes[i]) {
				same = true
			}
		}
		binds = append(binds, bind{name, tt, val, ptypes[i], same})
	}
	if !sig.Variadic() && len(args) != len(pnames) {
		return "", "argument count mismatch (multi-value argument)"
	}
	var anames []string
	scope := pk.Types.Scope().Innermost(s.call.Pos())
	for i, bd := range binds {
		an := fmt.Sprintf("inlA%s_%d", tag, i)
		anames = append(anames, an)
		if bd.same {
			fmt.Fprintf(&b, "%s := %s\n_ = %s\n", an, bd.val, an)
			continue
		}
		if !cross {
			if w := typeNameRisk(bd.t, pk, scope, s.call.Pos()); w != "" {
				return "", w
			}
		}
		fmt.Fprintf(&b, "var %s %s = %s\n_ = %s\n", an, bd.typ, bd.val, an)
	}
	for i := 0; i < sig.Results().Len(); i++ {
		if !cross {
			if w := typeNameRisk(sig.Results().At(i).Type(), pk, scope, s.call.Pos()); w != "" {
				return "", w
			}
		}
	}
	// body with returns rewritten
	propagate := s.shape == 7
	if propagate && sig.Results().Len() != 1 {
		return "", "error-propagating call of a function without exactly one result"
	}
	body, hasReturn, why := rewriteReturns(fset, src, fd, rnames, "inlL"+tag, propagate, quals)
	if why != "" {
		return "", why
	}
	b.WriteString("{\n")
	for i, bd := range binds {
		if bd.name == "_" {
			continue
		}
		fmt.Fprintf(&b, "%s := %s\n_ = %s\n", bd.name, anames[i], bd.name)
	}
	var namedRes []string
	if fd.Type.Results != nil {
		idx := 0
		for _, f := range fd.Type.Results.List {
			if len(f.Names) == 0 {
				idx++
				continue
			}
			for _, nm := range f.Names {
				tt, ok := typeText(sig.Results().At(idx).Type(), pk, s.file)
				if !ok {
					return "", "a result type is not nameable in the caller's file"
				}
				fmt.Fprintf(&b, "var %s %s\n_ = %s\n", nm.Name, tt, nm.Name)
				namedRes = append(namedRes, nm.Name)
				idx++
			}
		}
	}
	if hasReturn {
		fmt.Fprintf(&b, "inlL%s:\n", tag)
	}
	b.WriteString("switch {\ndefault:\n")
	b.WriteString(body)
	if len(namedRes) == len(rnames) && len(rnames) > 0 {
		// falling off the end is impossible for a function with results; nothing to add
	}
	b.WriteString("\n}\n}\n")
	// the statement itself
	results := strings.Join(rnames, ", ")
	switch s.shape {
	case 1, 7:
		// nothing more
	case 2:
		st := s.stmt.(*ast.AssignStmt)
		var lhs []string
		for _, l := range st.Lhs {
			lhs = append(lhs, nodeText(fset, src, l))
		}
		fmt.Fprintf(&b, "%s %s %s\n", strings.Join(lhs, ", "), st.Tok.String(), results)
	case 3:
		fmt.Fprintf(&b, "return %s\n", results)
	case 4:
		ifs := s.ifStmt
		var initText string
		switch in := ifs.Init.(type) {
		case *ast.ExprStmt:
			initText = ""
		case *ast.AssignStmt:
			var lhs []string
			for _, l := range in.Lhs {
				lhs = append(lhs, nodeText(fset, src, l))
			}
			initText = fmt.Sprintf("%s %s %s\n", strings.Join(lhs, ", "), in.Tok.String(), results)
		}
		rest := nodeText(fset, src, ifs)
		// drop "if <init>;" prefix: re-render from Cond on
		condStart := fset.Position(ifs.Cond.Pos()).Offset - fset.Position(ifs.Pos()).Offset
		if condStart < 0 || condStart > len(rest) {
			return "", "cannot re-render the if statement"
		}
		inner := b.String()
		var w strings.Builder
		w.WriteString("{\n")
		w.WriteString(inner)
		w.WriteString(initText)
		w.WriteString("if " + rest[condStart:] + "\n}\n")
		return w.String(), ""
	case 6:
		if len(rnames) != 1 {
			return "", "multi-value call as range operand"
		}
		full := nodeText(fset, src, s.stmt)
		cs := fset.Position(s.call.Pos()).Offset - fset.Position(s.stmt.Pos()).Offset
		ce := fset.Position(s.call.End()).Offset - fset.Position(s.stmt.Pos()).Offset
		if cs < 0 || ce > len(full) || cs > ce {
			return "", "cannot locate the call in its statement"
		}
		inner := b.String()
		return "{\n" + inner + full[:cs] + rnames[0] + full[ce:] + "\n}\n", ""
	case 5:
		if len(rnames) != 1 {
			return "", "multi-value call inside an expression"
		}
		full := nodeText(fset, src, s.stmt)
		cs := fset.Position(s.call.Pos()).Offset - fset.Position(s.stmt.Pos()).Offset
		ce := fset.Position(s.call.End()).Offset - fset.Position(s.stmt.Pos()).Offset
		if cs < 0 || ce > len(full) || cs > ce {
			return "", "cannot locate the call in its statement"
		}
		b.WriteString(full[:cs] + rnames[0] + full[ce:] + "\n")
	}
	return b.String(), ""
}

// typeNameRisk: every named type of the package mentioned by t must mean the same thing at the call site.
func typeNameRisk(t types.Type, pk *packages.Package, scope *types.Scope, pos token.Pos) string {
	why := ""
	seen := map[types.Type]bool{}
	var walk func(t types.Type)
	walk = func(t types.Type) {
		if t == nil || seen[t] {
			return
		}
		seen[t] = true
		switch x := t.(type) {
		case *types.Named:
			if x.Obj().Pkg() == pk.Types && scope != nil {
				if _, o := scope.LookupParent(x.Obj().Name(), pos); o != types.Object(x.Obj()) {
					why = "type name " + x.Obj().Name() + " is shadowed at the call site"
				}
			}
		case *types.Pointer:
			walk(x.Elem())
		case *types.Slice:
			walk(x.Elem())
		case *types.Array:
			walk(x.Elem())
		case *types.Map:
			walk(x.Key())
			walk(x.Elem())
		case *types.Chan:
			walk(x.Elem())
		case *types.Signature:
			for i := 0; i < x.Params().Len(); i++ {
				walk(x.Params().At(i).Type())
			}
			for i := 0; i < x.Results().Len(); i++ {
				walk(x.Results().At(i).Type())
			}
		}
	}
	walk(t)
	return why
}

// rewriteReturns renders the callee's body statements with every return of the callee itself
// replaced by an assignment to the result temps and a labelled break.
func rewriteReturns(fset *token.FileSet, src func(string) []byte, fd *ast.FuncDecl, rnames []string, label string, propagate bool, quals []qual) (string, bool, string) {
	type rep struct {
		start, end int
		text       string
	}
	// text of a node of the callee with the package qualifiers inserted
	qtext := func(n ast.Node) string {
		ps, pe := fset.Position(n.Pos()), fset.Position(n.End())
		b := src(ps.Filename)
		if ps.Offset < 0 || pe.Offset > len(b) || ps.Offset > pe.Offset {
			return ""
		}
		t := string(b[ps.Offset:pe.Offset])
		var in []qual
		for _, q := range quals {
			if q.off >= ps.Offset && q.off < pe.Offset {
				in = append(in, q)
			}
		}
		sort.Slice(in, func(i, j int) bool { return in[i].off > in[j].off })
		for _, q := range in {
			t = t[:q.off-ps.Offset] + q.text + t[q.off-ps.Offset:]
		}
		return t
	}
	base := fset.Position(fd.Body.Lbrace).Offset + 1
	end := fset.Position(fd.Body.Rbrace).Offset
	file := fset.Position(fd.Body.Lbrace).Filename
	b := src(file)
	if base < 0 || end > len(b) || base > end {
		return "", false, "cannot read the callee body"
	}
	body := string(b[base:end])
	var reps []rep
	has := false
	why := ""
	var walk func(n ast.Node) bool
	walk = func(n ast.Node) bool {
		switch x := n.(type) {
		case *ast.FuncLit:
			return false
		case *ast.ReturnStmt:
			has = true
			var t string
			if len(rnames) == 0 {
				if len(x.Results) != 0 {
					why = "return with values in a function without results"
				}
				t = "{ break " + label + " }"
			} else {
				var vals []string
				if len(x.Results) == 0 {
					// bare return: the named results
					if fd.Type.Results != nil {
						for _, f := range fd.Type.Results.List {
							for _, nm := range f.Names {
								vals = append(vals, nm.Name)
							}
						}
					}
					if len(vals) != len(rnames) {
						why = "bare return"
						return false
					}
				}
				for _, r := range x.Results {
					vals = append(vals, qtext(r))
				}
				if propagate && len(vals) == 1 {
					// the caller returns a non-nil result at once: keep that as a return
					if vals[0] == "nil" {
						t = "{ break " + label + " }"
					} else {
						t = "{ " + rnames[0] + " = " + vals[0] + "; if " + rnames[0] + " != nil { return " + rnames[0] + " }; break " + label + " }"
					}
				} else {
					t = "{ " + strings.Join(rnames, ", ") + " = " + strings.Join(vals, ", ") + "; break " + label + " }"
				}
			}
			reps = append(reps, rep{fset.Position(x.Pos()).Offset - base, fset.Position(x.End()).Offset - base, t})
			return false
		}
		return true
	}
	ast.Inspect(fd.Body, walk)
	if why != "" {
		return "", false, why
	}
	for _, q := range quals {
		o := q.off - base
		if o < 0 || o > len(body) {
			continue
		}
		inside := false
		for _, r := range reps {
			if o >= r.start && o < r.end {
				inside = true
			}
		}
		if !inside {
			reps = append(reps, rep{o, o, q.text})
		}
	}
	sort.SliceStable(reps, func(i, j int) bool { return reps[i].start > reps[j].start })
	for _, r := range reps {
		if r.start < 0 || r.end > len(body) {
			return "", false, "return outside the body text"
		}
		body = body[:r.start] + r.text + body[r.end:]
	}
	return body, has, ""
}

// Format re-prints a file (used only for debugging the overlay).
func Format(fset *token.FileSet, f *ast.File) string {
	var buf bytes.Buffer
	_ = printer.Fprint(&buf, fset, f)
	return buf.String()
}

func readFile(name string) ([]byte, error) { return osReadFile(name) }

// PinLocals keeps the scanner's mutable position in memory: go/ssa promotes a local that is not captured
// by a closure to SSA registers, while the scanner rules model the position as a memory cell (which it
// is on the pinned tree, where closures capture it). For the named functions, every int local declared
// in the top-level statement list of the body that is assigned again later gets a no-op closure that
// reads it (`_ = func() { _ = v }`) right after its declaration, so that it stays a cell. Behaviour is
// not changed (the closure is never called) and the overlay is only used for analysis.
func PinLocals(p *load.Program, name func(*ssa.Function) string, overlay map[string][]byte, funcs map[string]bool) (map[string][]byte, []string) {
	out := map[string][]byte{}
	var notes []string
	src := func(file string) []byte {
		if b, ok := overlay[file]; ok {
			return b
		}
		b, _ := readFile(file)
		return b
	}
	for _, pk := range p.Closure {
		for _, f := range pk.Syntax {
			for _, d := range f.Decls {
				fd, ok := d.(*ast.FuncDecl)
				if !ok || fd.Body == nil {
					continue
				}
				obj, _ := pk.TypesInfo.Defs[fd.Name].(*types.Func)
				if obj == nil {
					continue
				}
				sf := p.SSA.FuncValue(obj)
				if sf == nil || !funcs[name(sf)] {
					continue
				}
				// variables assigned somewhere in the body
				assigned := map[types.Object]bool{}
				ast.Inspect(fd.Body, func(n ast.Node) bool {
					switch x := n.(type) {
					case *ast.IncDecStmt:
						if id, ok := x.X.(*ast.Ident); ok {
							assigned[pk.TypesInfo.Uses[id]] = true
						}
					case *ast.AssignStmt:
						if x.Tok != token.DEFINE {
							for _, l := range x.Lhs {
								if id, ok := l.(*ast.Ident); ok {
									assigned[pk.TypesInfo.Uses[id]] = true
								}
							}
						}
					}
					return true
				})
				type ins struct {
					off  int
					text string
				}
				var inserts []ins
				for _, st := range fd.Body.List {
					var ids []*ast.Ident
					switch x := st.(type) {
					case *ast.AssignStmt:
						if x.Tok == token.DEFINE {
							for _, l := range x.Lhs {
								if id, ok := l.(*ast.Ident); ok {
									ids = append(ids, id)
								}
							}
						}
					case *ast.DeclStmt:
						if gd, ok := x.Decl.(*ast.GenDecl); ok && gd.Tok == token.VAR {
							for _, sp := range gd.Specs {
								if vs, ok := sp.(*ast.ValueSpec); ok {
									ids = append(ids, vs.Names...)
								}
							}
						}
					}
					for _, id := range ids {
						o := pk.TypesInfo.Defs[id]
						if o == nil || id.Name == "_" || !assigned[o] {
							continue
						}
						if b, ok := o.Type().Underlying().(*types.Basic); !ok || b.Kind() != types.Int {
							continue
						}
						inserts = append(inserts, ins{p.Fset.Position(st.End()).Offset, "\n_ = func() { _ = " + id.Name + " }\n"})
						notes = append(notes, "pinned local "+id.Name+" of "+name(sf)+" in memory (analysis only)")
					}
				}
				if len(inserts) == 0 {
					continue
				}
				file := p.Fset.Position(fd.Pos()).Filename
				b := append([]byte(nil), src(file)...)
				sort.Slice(inserts, func(i, j int) bool { return inserts[i].off > inserts[j].off })
				for _, in := range inserts {
					if in.off < 0 || in.off > len(b) {
						continue
					}
					b = append(b[:in.off], append([]byte(in.text), b[in.off:]...)...)
				}
				out[file] = b
			}
		}
	}
	return out, notes
}

// SplitCaseOr rewrites, in tagless switches, a clause `case a || b, c:` into `case a: fallthrough; case b:
// fallthrough; case c:` followed by the original body. Evaluation order and short-circuiting are the
// same (the conditions are tried in order and the first true one enters the body), so behaviour is not
// changed; what changes is that each condition gets its own branch in the SSA form instead of feeding a
// boolean phi, which is the shape the rules read ("the true edge of found(K)").
func SplitCaseOr(p *load.Program, overlay map[string][]byte) (map[string][]byte, []string) {
	out := map[string][]byte{}
	var notes []string
	src := func(file string) []byte {
		if b, ok := overlay[file]; ok {
			return b
		}
		b, _ := readFile(file)
		return b
	}
	for _, pk := range p.Closure {
		for _, f := range pk.Syntax {
			file := p.Fset.Position(f.Pos()).Filename
			if strings.HasSuffix(file, "_test.go") {
				continue
			}
			type repl struct {
				from, to int
				text     string
			}
			var repls []repl
			b := src(file)
			text := func(n ast.Node) string {
				return string(b[p.Fset.Position(n.Pos()).Offset:p.Fset.Position(n.End()).Offset])
			}
			ast.Inspect(f, func(n ast.Node) bool {
				sw, ok := n.(*ast.SwitchStmt)
				if !ok || sw.Tag != nil {
					return true
				}
				for _, st := range sw.Body.List {
					cc, ok := st.(*ast.CaseClause)
					if !ok || len(cc.List) == 0 {
						continue
					}
					var parts []string
					var flat func(e ast.Expr)
					flat = func(e ast.Expr) {
						if be, ok := e.(*ast.BinaryExpr); ok && be.Op == token.LOR {
							flat(be.X)
							flat(be.Y)
							return
						}
						if pe, ok := e.(*ast.ParenExpr); ok {
							if be, ok := pe.X.(*ast.BinaryExpr); ok && be.Op == token.LOR {
								flat(be)
								return
							}
						}
						parts = append(parts, text(e))
					}
					for _, e := range cc.List {
						flat(e)
					}
					if len(parts) < 2 {
						continue
					}
					var sb strings.Builder
					for i, pt := range parts {
						sb.WriteString("case " + pt + ":")
						if i < len(parts)-1 {
							sb.WriteString(" fallthrough\n")
						}
					}
					repls = append(repls, repl{p.Fset.Position(cc.Case).Offset, p.Fset.Position(cc.Colon).Offset + 1, sb.String()})
					notes = append(notes, fmt.Sprintf("split `case a || b` into fallthrough cases at %s (analysis only)", p.Fset.Position(cc.Case)))
				}
				return true
			})
			// `var x = f(...)` / `var ( a = f(); b = g() )` inside a function body, without a declared type:
			// the same as `x := f(...)`, which is the statement form the inliner handles
			ast.Inspect(f, func(n ast.Node) bool {
				ds, ok := n.(*ast.DeclStmt)
				if !ok {
					return true
				}
				gd, ok := ds.Decl.(*ast.GenDecl)
				if !ok || gd.Tok != token.VAR {
					return true
				}
				var lines []string
				hasCall := false
				for _, sp := range gd.Specs {
					vs, ok := sp.(*ast.ValueSpec)
					if !ok || vs.Type != nil || len(vs.Values) == 0 {
						return true
					}
					var names []string
					for _, nm := range vs.Names {
						names = append(names, nm.Name)
					}
					var vals []string
					for _, v := range vs.Values {
						vals = append(vals, text(v))
						ast.Inspect(v, func(m ast.Node) bool {
							if _, isCall := m.(*ast.CallExpr); isCall {
								hasCall = true
							}
							return true
						})
					}
					lines = append(lines, strings.Join(names, ", ")+" := "+strings.Join(vals, ", "))
				}
				if hasCall && len(lines) > 0 {
					repls = append(repls, repl{p.Fset.Position(ds.Pos()).Offset, p.Fset.Position(ds.End()).Offset, strings.Join(lines, "\n")})
					notes = append(notes, fmt.Sprintf("`var x = call` written as `x := call` at %s (analysis only)", p.Fset.Position(ds.Pos())))
				}
				return true
			})
			if len(repls) == 0 {
				continue
			}
			nb := append([]byte(nil), b...)
			sort.Slice(repls, func(i, j int) bool { return repls[i].from > repls[j].from })
			for _, r := range repls {
				if r.from < 0 || r.to > len(nb) || r.from > r.to {
					continue
				}
				nb = append(nb[:r.from], append([]byte(r.text), nb[r.to:]...)...)
			}
			out[file] = nb
		}
	}
	return out, notes
}

// ExplicitBoolReturns rewrites `return E` in a function with a single bool result, where E calls a
// function outside the pinned vocabulary (a helper introduced by a refactoring), into
// `if E { return true }; return false`. E is evaluated once in both forms; the verdicts become
// constants and the condition gets its own branch, which is the shape the rules read once the helper
// has been inlined.
func ExplicitBoolReturns(p *load.Program, name func(*ssa.Function) string, overlay map[string][]byte) (map[string][]byte, []string) {
	out := map[string][]byte{}
	var notes []string
	src := func(file string) []byte {
		if b, ok := overlay[file]; ok {
			return b
		}
		b, _ := readFile(file)
		return b
	}
	for _, pk := range p.Closure {
		for _, f := range pk.Syntax {
			file := p.Fset.Position(f.Pos()).Filename
			if strings.HasSuffix(file, "_test.go") {
				continue
			}
			type repl struct {
				from, to int
				text     string
			}
			var repls []repl
			b := src(file)
			for _, d := range f.Decls {
				fd, ok := d.(*ast.FuncDecl)
				if !ok || fd.Body == nil || fd.Type.Results == nil || len(fd.Type.Results.List) != 1 || len(fd.Type.Results.List[0].Names) > 0 {
					continue
				}
				if tv, ok := pk.TypesInfo.Types[fd.Type.Results.List[0].Type]; !ok || !types.Identical(tv.Type, types.Typ[types.Bool]) {
					continue
				}
				// a helper that is itself outside the vocabulary: all its computed verdicts are made explicit,
				// so that inlining it leaves branches and not a merged boolean
				ownHelper := false
				if obj, _ := pk.TypesInfo.Defs[fd.Name].(*types.Func); obj != nil {
					if sf := p.SSA.FuncValue(obj); sf != nil && !Known(name(sf)) {
						ownHelper = true
					}
				}
				ast.Inspect(fd.Body, func(n ast.Node) bool {
					if _, isLit := n.(*ast.FuncLit); isLit {
						return false
					}
					rs, ok := n.(*ast.ReturnStmt)
					if !ok || len(rs.Results) != 1 {
						return true
					}
					if id, isID := rs.Results[0].(*ast.Ident); isID && (id.Name == "true" || id.Name == "false") {
						return true
					}
					helper := ownHelper
					ast.Inspect(rs.Results[0], func(m ast.Node) bool {
						call, ok := m.(*ast.CallExpr)
						if !ok {
							return true
						}
						var id *ast.Ident
						switch fx := call.Fun.(type) {
						case *ast.Ident:
							id = fx
						case *ast.SelectorExpr:
							id = fx.Sel
						}
						if id == nil {
							return true
						}
						obj, _ := pk.TypesInfo.Uses[id].(*types.Func)
						if obj == nil || obj.Pkg() == nil || !p.InModule(obj.Pkg()) {
							return true
						}
						if sf := p.SSA.FuncValue(obj); sf != nil && !Known(name(sf)) {
							helper = true
						}
						return true
					})
					if !helper {
						return true
					}
					from, to := p.Fset.Position(rs.Pos()).Offset, p.Fset.Position(rs.End()).Offset
					e := string(b[p.Fset.Position(rs.Results[0].Pos()).Offset:p.Fset.Position(rs.Results[0].End()).Offset])
					repls = append(repls, repl{from, to, "if " + e + " {\nreturn true\n}\nreturn false"})
					notes = append(notes, fmt.Sprintf("made the verdicts of `return %s` explicit at %s (analysis only)", e, p.Fset.Position(rs.Pos())))
					return true
				})
			}
			if len(repls) == 0 {
				continue
			}
			nb := append([]byte(nil), b...)
			sort.Slice(repls, func(i, j int) bool { return repls[i].from > repls[j].from })
			for _, r := range repls {
				if r.from < 0 || r.to > len(nb) || r.from > r.to {
					continue
				}
				nb = append(nb[:r.from], append([]byte(r.text), nb[r.to:]...)...)
			}
			out[file] = nb
		}
	}
	return out, notes
}

// DispatchMethodValues undoes "pick the method first, call it later":
//
//	f := x.m1
//	if cond { f = x.m2 }
//	r := f(args)        // the next statement
//	REST
//
// becomes
//
//	sel := cond
//	if sel { r := x.m2(args); REST } else { r := x.m1(args); REST }
//
// The condition is evaluated at the same place and exactly once, the receiver is a plain identifier
// evaluated with nothing in between, f has no other use, and REST (the remainder of the enclosing
// statement list) is repeated verbatim in both branches, so behaviour is unchanged; what changes is
// that both calls are static, which is what the rules resolve. An overlay that does not type-check
// (a label in REST, say) is abandoned by the caller.
func DispatchMethodValues(p *load.Program, overlay map[string][]byte) (map[string][]byte, []string) {
	out := map[string][]byte{}
	var notes []string
	src := func(file string) []byte {
		if b, ok := overlay[file]; ok {
			return b
		}
		b, _ := readFile(file)
		return b
	}
	n := 0
	for _, pk := range p.Closure {
		for _, f := range pk.Syntax {
			file := p.Fset.Position(f.Pos()).Filename
			if strings.HasSuffix(file, "_test.go") {
				continue
			}
			b := src(file)
			off := func(pos token.Pos) int { return p.Fset.Position(pos).Offset }
			text := func(from, to token.Pos) string { return string(b[off(from):off(to)]) }
			methodValue := func(e ast.Expr) (*ast.SelectorExpr, *ast.Ident) {
				se, ok := e.(*ast.SelectorExpr)
				if !ok {
					return nil, nil
				}
				x, ok := se.X.(*ast.Ident)
				if !ok {
					return nil, nil
				}
				sel := pk.TypesInfo.Selections[se]
				if sel == nil || sel.Kind() != types.MethodVal {
					return nil, nil
				}
				if _, isVar := pk.TypesInfo.Uses[x].(*types.Var); !isVar {
					return nil, nil
				}
				return se, x
			}
			type repl struct {
				from, to int
				text     string
			}
			var repls []repl
			done := false
			ast.Inspect(f, func(nd ast.Node) bool {
				if done {
					return false
				}
				var list []ast.Stmt
				switch x := nd.(type) {
				case *ast.BlockStmt:
					list = x.List
				case *ast.CaseClause:
					list = x.Body
				default:
					return true
				}
				// second form: `var f func(...)...; if c1 { f = x.m1 } else if c2 { f = x.m2 } else { <leaves> };
				// r := f(args); REST`: the call and REST move into each branch that picks a method (the
				// conditions are evaluated as before; every other branch leaves the statement list)
				for i := 0; i+2 < len(list); i++ {
					ds, ok := list[i].(*ast.DeclStmt)
					if !ok {
						continue
					}
					gd, ok := ds.Decl.(*ast.GenDecl)
					if !ok || gd.Tok != token.VAR || len(gd.Specs) != 1 {
						continue
					}
					vs, ok := gd.Specs[0].(*ast.ValueSpec)
					if !ok || len(vs.Names) != 1 || len(vs.Values) != 0 {
						continue
					}
					fobj := pk.TypesInfo.Defs[vs.Names[0]]
					top, ok := list[i+1].(*ast.IfStmt)
					if fobj == nil || !ok {
						continue
					}
					mentions := func(nd2 ast.Node) int {
						k := 0
						ast.Inspect(nd2, func(m ast.Node) bool {
							if id, ok := m.(*ast.Ident); ok && pk.TypesInfo.Uses[id] == fobj {
								k++
							}
							return true
						})
						return k
					}
					var call *ast.CallExpr
					switch st := list[i+2].(type) {
					case *ast.AssignStmt:
						if len(st.Rhs) == 1 {
							call, _ = st.Rhs[0].(*ast.CallExpr)
						}
					case *ast.ExprStmt:
						call, _ = st.X.(*ast.CallExpr)
					}
					if call == nil {
						continue
					}
					cid, ok := call.Fun.(*ast.Ident)
					if !ok || pk.TypesInfo.Uses[cid] != fobj {
						continue
					}
					uses := 0
					for _, st := range list[i+2:] {
						uses += mentions(st)
					}
					if uses != 1 {
						continue
					}
					callSt := list[i+2]
					last := list[len(list)-1]
					rest := ""
					if len(list) > i+3 {
						rest = text(callSt.End(), last.End())
					}
					callText := func(m *ast.SelectorExpr) string {
						return text(callSt.Pos(), cid.Pos()) + text(m.Pos(), m.End()) + text(cid.End(), callSt.End())
					}
					leaves := func(b *ast.BlockStmt) bool {
						if len(b.List) == 0 || mentions(b) > 0 {
							return false
						}
						switch l := b.List[len(b.List)-1].(type) {
						case *ast.ReturnStmt:
							return true
						case *ast.BranchStmt:
							return l.Tok == token.CONTINUE || l.Tok == token.BREAK || l.Tok == token.GOTO
						case *ast.ExprStmt:
							if ce, ok := l.X.(*ast.CallExpr); ok {
								if id, ok := ce.Fun.(*ast.Ident); ok && id.Name == "panic" {
									_, isBuiltin := pk.TypesInfo.Uses[id].(*types.Builtin)
									return isBuiltin
								}
							}
						}
						return false
					}
					var recvObj types.Object
					picked := 0
					okShape := true
					body := func(b *ast.BlockStmt) string {
						if len(b.List) == 1 {
							if as2, ok := b.List[0].(*ast.AssignStmt); ok && as2.Tok == token.ASSIGN && len(as2.Lhs) == 1 && len(as2.Rhs) == 1 {
								if id2, ok := as2.Lhs[0].(*ast.Ident); ok && pk.TypesInfo.Uses[id2] == fobj {
									m, x := methodValue(as2.Rhs[0])
									if m == nil || (recvObj != nil && pk.TypesInfo.Uses[x] != recvObj) {
										okShape = false
										return ""
									}
									recvObj = pk.TypesInfo.Uses[x]
									picked++
									return callText(m) + rest
								}
							}
						}
						if !leaves(b) {
							okShape = false
							return ""
						}
						return text(b.Lbrace+1, b.Rbrace)
					}
					var render func(ifs *ast.IfStmt) string
					render = func(ifs *ast.IfStmt) string {
						if ifs.Init != nil || mentions(ifs.Cond) > 0 {
							okShape = false
							return ""
						}
						out := "if " + text(ifs.Cond.Pos(), ifs.Cond.End()) + " {\n" + body(ifs.Body) + "\n}"
						switch e := ifs.Else.(type) {
						case *ast.IfStmt:
							out += " else " + render(e)
						case *ast.BlockStmt:
							out += " else {\n" + body(e) + "\n}"
						default:
							okShape = false // no final else: the variable could stay nil
						}
						return out
					}
					txt := render(top)
					if !okShape || picked < 2 {
						continue
					}
					repls = append(repls, repl{off(ds.Pos()), off(last.End()), txt})
					notes = append(notes, fmt.Sprintf("method value chosen by an if chain before the call written as static calls at %s (analysis only)", p.Fset.Position(ds.Pos())))
					done = true
					return false
				}
				for i := 0; i+2 < len(list); i++ {
					as, ok := list[i].(*ast.AssignStmt)
					if !ok || as.Tok != token.DEFINE || len(as.Lhs) != 1 || len(as.Rhs) != 1 {
						continue
					}
					fid, ok := as.Lhs[0].(*ast.Ident)
					if !ok {
						continue
					}
					fobj := pk.TypesInfo.Defs[fid]
					m1, x1 := methodValue(as.Rhs[0])
					if fobj == nil || m1 == nil {
						continue
					}
					ifs, ok := list[i+1].(*ast.IfStmt)
					if !ok || ifs.Init != nil || ifs.Else != nil || len(ifs.Body.List) != 1 {
						continue
					}
					as2, ok := ifs.Body.List[0].(*ast.AssignStmt)
					if !ok || as2.Tok != token.ASSIGN || len(as2.Lhs) != 1 || len(as2.Rhs) != 1 {
						continue
					}
					if id2, ok := as2.Lhs[0].(*ast.Ident); !ok || pk.TypesInfo.Uses[id2] != fobj {
						continue
					}
					m2, x2 := methodValue(as2.Rhs[0])
					if m2 == nil || pk.TypesInfo.Uses[x1] != pk.TypesInfo.Uses[x2] {
						continue
					}
					// the condition must not mention f
					bad := false
					ast.Inspect(ifs.Cond, func(m ast.Node) bool {
						if id, ok := m.(*ast.Ident); ok && pk.TypesInfo.Uses[id] == fobj {
							bad = true
						}
						return true
					})
					// the call: the very next statement, `lhs := f(args)` / `lhs = f(args)` / `f(args)`
					var call *ast.CallExpr
					switch st := list[i+2].(type) {
					case *ast.AssignStmt:
						if len(st.Rhs) == 1 {
							call, _ = st.Rhs[0].(*ast.CallExpr)
						}
					case *ast.ExprStmt:
						call, _ = st.X.(*ast.CallExpr)
					}
					if call == nil || bad {
						continue
					}
					cid, ok := call.Fun.(*ast.Ident)
					if !ok || pk.TypesInfo.Uses[cid] != fobj {
						continue
					}
					// no other use of f from the if statement's end on, none in the arguments
					uses := 0
					for _, st := range list[i+2:] {
						ast.Inspect(st, func(m ast.Node) bool {
							if id, ok := m.(*ast.Ident); ok && pk.TypesInfo.Uses[id] == fobj {
								uses++
							}
							return true
						})
					}
					if uses != 1 {
						continue
					}
					n++
					sel := fmt.Sprintf("mv__%d", n)
					callSt := list[i+2]
					last := list[len(list)-1]
					callText := func(m *ast.SelectorExpr) string {
						return text(callSt.Pos(), cid.Pos()) + text(m.Pos(), m.End()) + text(cid.End(), callSt.End())
					}
					rest := ""
					if len(list) > i+3 {
						rest = text(callSt.End(), last.End())
					}
					var sb strings.Builder
					sb.WriteString(sel + " := " + text(ifs.Cond.Pos(), ifs.Cond.End()) + "\n")
					sb.WriteString("if " + sel + " {\n" + callText(m2) + rest + "\n} else {\n" + callText(m1) + rest + "\n}")
					repls = append(repls, repl{off(as.Pos()), off(last.End()), sb.String()})
					notes = append(notes, fmt.Sprintf("method value chosen before the call written as two static calls at %s (analysis only)", p.Fset.Position(as.Pos())))
					done = true // one rewrite per file and pass: offsets of nested lists would overlap
					return false
				}
				return true
			})
			if len(repls) == 0 {
				continue
			}
			nb := append([]byte(nil), b...)
			for _, r := range repls {
				nb = append(nb[:r.from], append([]byte(r.text), nb[r.to:]...)...)
			}
			out[file] = pruneUnusedImports(file, nb)
		}
	}
	return out, notes
}

// SplitParallelDefine rewrites `a, b := e1, e2` (every left-hand name newly defined by the statement, the
// statement standing in a statement list, no right-hand side mentioning one of the names) into
// `a := e1; b := e2` when one of the right-hand sides calls a function outside the pinned vocabulary.
// The operands are evaluated in the same order, the new variables are not visible to the right-hand
// sides in either form, so behaviour is unchanged; each call then stands alone in its statement, which is
// the position the inliner supports.
func SplitParallelDefine(p *load.Program, name func(*ssa.Function) string, overlay map[string][]byte) (map[string][]byte, []string) {
	out := map[string][]byte{}
	var notes []string
	src := func(file string) []byte {
		if b, ok := overlay[file]; ok {
			return b
		}
		b, _ := readFile(file)
		return b
	}
	for _, pk := range p.Closure {
		for _, f := range pk.Syntax {
			file := p.Fset.Position(f.Pos()).Filename
			if strings.HasSuffix(file, "_test.go") {
				continue
			}
			type repl struct {
				from, to int
				text     string
			}
			var repls []repl
			b := src(file)
			text := func(n ast.Node) string {
				return string(b[p.Fset.Position(n.Pos()).Offset:p.Fset.Position(n.End()).Offset])
			}
			try := func(list []ast.Stmt) {
				for _, st := range list {
					as, ok := st.(*ast.AssignStmt)
					if !ok || as.Tok != token.DEFINE || len(as.Lhs) < 2 || len(as.Lhs) != len(as.Rhs) {
						continue
					}
					names := map[string]bool{}
					allNew := true
					for _, l := range as.Lhs {
						id, isID := l.(*ast.Ident)
						if !isID || id.Name == "_" || pk.TypesInfo.Defs[id] == nil {
							allNew = false
							break
						}
						names[id.Name] = true
					}
					if !allNew {
						continue
					}
					helper, mentions := false, false
					for _, r := range as.Rhs {
						ast.Inspect(r, func(m ast.Node) bool {
							switch x := m.(type) {
							case *ast.Ident:
								if names[x.Name] {
									mentions = true
								}
							case *ast.CallExpr:
								var id *ast.Ident
								switch fx := x.Fun.(type) {
								case *ast.Ident:
									id = fx
								case *ast.SelectorExpr:
									id = fx.Sel
								}
								if id != nil {
									if obj, _ := pk.TypesInfo.Uses[id].(*types.Func); obj != nil && obj.Pkg() != nil && p.InModule(obj.Pkg()) {
										if sf := p.SSA.FuncValue(obj); sf != nil && !Known(name(sf)) {
											helper = true
										}
									}
								}
							}
							return true
						})
					}
					if !helper || mentions {
						continue
					}
					var parts []string
					for i := range as.Lhs {
						parts = append(parts, text(as.Lhs[i])+" := "+text(as.Rhs[i]))
					}
					repls = append(repls, repl{p.Fset.Position(as.Pos()).Offset, p.Fset.Position(as.End()).Offset, strings.Join(parts, "\n")})
					notes = append(notes, fmt.Sprintf("split `%s` into one definition per name at %s (analysis only)", text(as), p.Fset.Position(as.Pos())))
				}
			}
			ast.Inspect(f, func(n ast.Node) bool {
				switch x := n.(type) {
				case *ast.BlockStmt:
					try(x.List)
				case *ast.CaseClause:
					try(x.Body)
				case *ast.CommClause:
					try(x.Body)
				}
				return true
			})
			if len(repls) == 0 {
				continue
			}
			nb := append([]byte(nil), b...)
			sort.Slice(repls, func(i, j int) bool { return repls[i].from > repls[j].from })
			for _, r := range repls {
				if r.from < 0 || r.to > len(nb) || r.from > r.to {
					continue
				}
				nb = append(nb[:r.from], append([]byte(r.text), nb[r.to:]...)...)
			}
			out[file] = nb
		}
	}
	return out, notes
}
