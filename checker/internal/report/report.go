// Package report holds obligations, known-finding matching and the evidence writer.
package report

import (
	"bufio"
	"crypto/sha1"
	"encoding/hex"
	"encoding/json"
	"fmt"
	"os"
	"path/filepath"
	"sort"
	"strings"
)

// Status of an obligation.
type Status string

const (
	Discharged Status = "discharged"
	Violated   Status = "violated"
	Undecided  Status = "undecided"
)

// Obligation is one instance of one rule.
type Obligation struct {
	Rule      string   `json:"rule"`
	Construct string   `json:"construct"`
	Pos       string   `json:"pos"`
	Status    Status   `json:"status"`
	Detail    string   `json:"detail,omitempty"`
	Path      []string `json:"path,omitempty"` // CFG / call-graph path for path rules
	// OnlyFor restricts the obligation to some of the rule's properties (empty: all).
	OnlyFor []string `json:"only_for,omitempty"`
}

// AppliesTo reports whether the obligation counts for the property.
func (o Obligation) AppliesTo(prop string) bool {
	if len(o.OnlyFor) == 0 {
		return true
	}
	for _, p := range o.OnlyFor {
		if p == prop {
			return true
		}
	}
	return false
}

// Known is one line of KNOWN_FINDINGS.txt.
type Known struct {
	Kind      string // "known" or "fixed"
	Property  string
	Rule      string
	Construct string
	Text      string
	Raw       string
}

// ReadKnown parses the committed known-findings file. It is never written.
func ReadKnown(path string) ([]Known, error) {
	f, err := os.Open(path)
	if err != nil {
		if os.IsNotExist(err) {
			return nil, nil
		}
		return nil, err
	}
	defer f.Close()
	var out []Known
	sc := bufio.NewScanner(f)
	for sc.Scan() {
		line := strings.TrimSpace(sc.Text())
		if line == "" || strings.HasPrefix(line, "#") {
			continue
		}
		k := Known{Raw: line}
		switch {
		case strings.HasPrefix(line, "known:"):
			k.Kind = "known"
			rest := strings.TrimSpace(strings.TrimPrefix(line, "known:"))
			head := rest
			if i := strings.Index(rest, "::"); i >= 0 {
				head = strings.TrimSpace(rest[:i])
				k.Text = strings.TrimSpace(rest[i+2:])
			}
			for _, f := range strings.Fields(head) {
				switch {
				case strings.HasPrefix(f, "property="):
					k.Property = strings.TrimPrefix(f, "property=")
				case strings.HasPrefix(f, "rule="):
					k.Rule = strings.TrimPrefix(f, "rule=")
				case strings.HasPrefix(f, "construct="):
					k.Construct = strings.TrimPrefix(f, "construct=")
				}
			}
			if k.Property == "" || k.Rule == "" || k.Construct == "" {
				return nil, fmt.Errorf("malformed known line: %q", line)
			}
		case strings.HasPrefix(line, "fixed:"):
			k.Kind = "fixed"
			k.Text = strings.TrimSpace(strings.TrimPrefix(line, "fixed:"))
		default:
			return nil, fmt.Errorf("unrecognised line in known findings: %q", line)
		}
		out = append(out, k)
	}
	return out, sc.Err()
}

// MatchKnown returns the known: line that lists exactly this obligation for this property.
func MatchKnown(known []Known, property string, o Obligation) *Known {
	for i := range known {
		k := &known[i]
		if k.Kind == "known" && k.Property == property && k.Rule == o.Rule && k.Construct == o.Construct {
			return k
		}
	}
	return nil
}

// RuleStat is the per-rule summary written to evidence.
type RuleStat struct {
	Rule       string `json:"rule"`
	Doc        string `json:"doc"`
	Instances  int    `json:"instances"`
	Floor      int    `json:"floor"`
	Discharged int    `json:"discharged"`
	Violated   int    `json:"violated"`
	Undecided  int    `json:"undecided"`
	Known      int    `json:"known_findings"`
}

// Evidence is the file written per property per run.
type Evidence struct {
	PropertyID  string                 `json:"property_id"`
	Tier        string                 `json:"tier"`
	Seed        int                    `json:"seed"`
	Level       string                 `json:"level"`
	Coverage    map[string]interface{} `json:"coverage"`
	Assumptions []string               `json:"assumptions"`
	WallS       float64                `json:"wall_s"`
	Violations  int                    `json:"violations"`
}

// WriteJSON writes v atomically.
func WriteJSON(path string, v interface{}) error {
	if err := os.MkdirAll(filepath.Dir(path), 0o755); err != nil {
		return err
	}
	data, err := json.MarshalIndent(v, "", " ")
	if err != nil {
		return err
	}
	tmp := path + ".tmp"
	if err := os.WriteFile(tmp, append(data, '\n'), 0o644); err != nil {
		return err
	}
	return os.Rename(tmp, path)
}

// ReplayName gives a stable file name for a violation.
func ReplayName(property string, o Obligation) string {
	h := sha1.Sum([]byte(o.Rule + "\x00" + o.Construct))
	return fmt.Sprintf("%s-%s-%s.json", property, o.Rule, hex.EncodeToString(h[:4]))
}

// SortObligations orders by rule, then construct.
func SortObligations(obs []Obligation) {
	sort.SliceStable(obs, func(i, j int) bool {
		if obs[i].Rule != obs[j].Rule {
			return obs[i].Rule < obs[j].Rule
		}
		return obs[i].Construct < obs[j].Construct
	})
}
