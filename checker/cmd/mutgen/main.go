// mutgen lists small syntactic mutants of the non-test sources of a Go module as JSON lines
// {file, start, end, repl, desc}. It is a measuring aid (tools/mutation.sh): mutants that compile and
// survive the project's own test suite are the population "changes that still pass the tests"; the
// checker is then run on the survivors. It decides nothing itself.
package main

import (
	"go/types"
	"sort"

	"golang.org/x/tools/go/packages"

	"encoding/json"
	"fmt"
	"go/ast"
	"go/parser"
	"go/token"
	"os"
	"path/filepath"
	"strings"
)

type mutant struct {
	File  string `json:"file"`
	Start int    `json:"start"`
	End   int    `json:"end"`
	Repl  string `json:"repl"`
	Desc  string `json:"desc"`
	Line  int    `json:"line"`
}

func main() {
	root := os.Args[1]
	enc := json.NewEncoder(os.Stdout)
	if len(os.Args) > 2 && os.Args[2] == "typed" {
		typed(root, enc)
		return
	}
	if len(os.Args) > 2 && os.Args[2] == "guard" {
		guard(root, enc)
		return
	}
	filepath.Walk(root, func(path string, info os.FileInfo, err error) error {
		if err != nil {
			return nil
		}
		if info.IsDir() {
			n := info.Name()
			if n == "testdata" || n == ".git" || strings.HasSuffix(n, "test") || n == "flowdot" || n == "fsmdot" {
				return filepath.SkipDir
			}
			return nil
		}
		if !strings.HasSuffix(path, ".go") || strings.HasSuffix(path, "_test.go") || info.Name() == "doc.go" {
			return nil
		}
		src, _ := os.ReadFile(path)
		fset := token.NewFileSet()
		f, perr := parser.ParseFile(fset, path, src, 0)
		if perr != nil {
			return nil
		}
		rel, _ := filepath.Rel(root, path)
		off := func(p token.Pos) int { return fset.Position(p).Offset }
		text := func(n ast.Node) string { return string(src[off(n.Pos()):off(n.End())]) }
		emit := func(s, e int, repl, desc string, pos token.Pos) {
			enc.Encode(mutant{rel, s, e, repl, desc, fset.Position(pos).Line})
		}
		swap := map[token.Token][]string{
			token.EQL: {"!="}, token.NEQ: {"=="},
			token.LSS: {"<=", ">="}, token.LEQ: {"<", ">"}, token.GTR: {">=", "<="}, token.GEQ: {">", "<"},
			token.LAND: {"||"}, token.LOR: {"&&"},
			token.ADD: {"-"}, token.SUB: {"+"},
		}
		ast.Inspect(f, func(n ast.Node) bool {
			switch x := n.(type) {
			case *ast.GenDecl:
				if x.Tok == token.IMPORT || x.Tok == token.CONST || x.Tok == token.TYPE {
					return false
				}
			case *ast.BinaryExpr:
				for _, r := range swap[x.Op] {
					s := off(x.OpPos)
					emit(s, s+len(x.Op.String()), r, fmt.Sprintf("%s -> %s", x.Op, r), x.OpPos)
				}
				if x.Op == token.LAND || x.Op == token.LOR {
					// drop one operand
					emit(off(x.Pos()), off(x.End()), text(x.X), "keep left operand of "+x.Op.String(), x.OpPos)
					emit(off(x.Pos()), off(x.End()), text(x.Y), "keep right operand of "+x.Op.String(), x.OpPos)
				}
			case *ast.UnaryExpr:
				if x.Op == token.NOT {
					emit(off(x.Pos()), off(x.End()), text(x.X), "drop !", x.Pos())
				}
			case *ast.BasicLit:
				if x.Kind == token.INT {
					switch x.Value {
					case "0":
						emit(off(x.Pos()), off(x.End()), "1", "0 -> 1", x.Pos())
					case "1":
						emit(off(x.Pos()), off(x.End()), "0", "1 -> 0", x.Pos())
						emit(off(x.Pos()), off(x.End()), "2", "1 -> 2", x.Pos())
					case "2":
						emit(off(x.Pos()), off(x.End()), "1", "2 -> 1", x.Pos())
						emit(off(x.Pos()), off(x.End()), "3", "2 -> 3", x.Pos())
					case "3":
						emit(off(x.Pos()), off(x.End()), "2", "3 -> 2", x.Pos())
					case "10":
						emit(off(x.Pos()), off(x.End()), "0", "base 10 -> 0", x.Pos())
					case "64":
						emit(off(x.Pos()), off(x.End()), "32", "64 -> 32", x.Pos())
					}
				}
				if x.Kind == token.CHAR {
					if x.Value == "'-'" {
						emit(off(x.Pos()), off(x.End()), "'_'", "'-' -> '_'", x.Pos())
					}
				}
			case *ast.Ident:
				if x.Name == "true" {
					emit(off(x.Pos()), off(x.End()), "false", "true -> false", x.Pos())
				}
				if x.Name == "false" {
					emit(off(x.Pos()), off(x.End()), "true", "false -> true", x.Pos())
				}
			case *ast.IfStmt:
				if x.Else != nil {
					emit(off(x.Body.End()), off(x.Else.End()), "", "delete else branch", x.Else.Pos())
				}
				c := text(x.Cond)
				emit(off(x.Cond.Pos()), off(x.Cond.End()), "!("+c+")", "negate if condition", x.Cond.Pos())
				if x.Init == nil {
					emit(off(x.Cond.Pos()), off(x.Cond.End()), "true", "if condition -> true", x.Cond.Pos())
					emit(off(x.Cond.Pos()), off(x.Cond.End()), "false", "if condition -> false", x.Cond.Pos())
				}
			case *ast.BlockStmt:
				for _, st := range x.List {
					switch s := st.(type) {
					case *ast.ExprStmt:
						emit(off(s.Pos()), off(s.End()), "", "delete statement `"+short(text(s))+"`", s.Pos())
					case *ast.IncDecStmt:
						emit(off(s.Pos()), off(s.End()), "", "delete statement `"+short(text(s))+"`", s.Pos())
					case *ast.AssignStmt:
						if s.Tok != token.DEFINE {
							emit(off(s.Pos()), off(s.End()), "", "delete statement `"+short(text(s))+"`", s.Pos())
						}
					case *ast.BranchStmt:
						if s.Tok == token.CONTINUE || s.Tok == token.BREAK {
							emit(off(s.Pos()), off(s.End()), "", "delete "+s.Tok.String(), s.Pos())
						}
						if s.Tok == token.CONTINUE {
							emit(off(s.Pos()), off(s.End()), "break", "continue -> break", s.Pos())
						}
						if s.Tok == token.BREAK {
							emit(off(s.Pos()), off(s.End()), "continue", "break -> continue", s.Pos())
						}
					case *ast.IfStmt:
						if s.Else == nil {
							emit(off(s.Pos()), off(s.End()), "", "delete if statement `if "+short(text(s.Cond))+"`", s.Pos())
						}
					}
				}
			case *ast.CaseClause:
				for _, st := range x.Body {
					if s, ok := st.(*ast.ExprStmt); ok {
						emit(off(s.Pos()), off(s.End()), "", "delete statement `"+short(text(s))+"`", s.Pos())
					}
					if s, ok := st.(*ast.IncDecStmt); ok {
						emit(off(s.Pos()), off(s.End()), "", "delete statement `"+short(text(s))+"`", s.Pos())
					}
				}
			case *ast.SliceExpr:
				if x.Low != nil {
					emit(off(x.Low.Pos()), off(x.Low.End()), "("+text(x.Low)+")+1", "slice low +1", x.Low.Pos())
				}
				if x.High != nil {
					emit(off(x.High.Pos()), off(x.High.End()), "("+text(x.High)+")-1", "slice high -1", x.High.Pos())
				}
			case *ast.CompositeLit:
				// drop one keyed field of a struct literal (it becomes the zero value)
				for i, el := range x.Elts {
					kv, ok := el.(*ast.KeyValueExpr)
					if !ok {
						continue
					}
					if _, isID := kv.Key.(*ast.Ident); !isID {
						continue
					}
					s, e := off(kv.Pos()), off(kv.End())
					// swallow the following comma
					if i < len(x.Elts)-1 {
						e = off(x.Elts[i+1].Pos())
					} else {
						for e < len(src) && (src[e] == ',' || src[e] == ' ') {
							e++
						}
					}
					emit(s, e, "", "drop literal field "+text(kv.Key), kv.Pos())
				}
			case *ast.CallExpr:
				if len(x.Args) == 2 && x.Ellipsis == token.NoPos {
					emit(off(x.Args[0].Pos()), off(x.Args[1].End()), text(x.Args[1])+", "+text(x.Args[0]), "swap the two arguments of "+short(text(x.Fun)), x.Pos())
				}
			case *ast.RangeStmt:
				xs := text(x.X)
				emit(off(x.X.Pos()), off(x.X.End()), "("+xs+")[1:]", "range skips the first element", x.X.Pos())
				emit(off(x.X.Pos()), off(x.X.End()), "("+xs+")[:len("+xs+")-1]", "range skips the last element", x.X.Pos())
			case *ast.DeferStmt:
				emit(off(x.Pos()), off(x.End()), "", "delete defer", x.Pos())
			case *ast.ReturnStmt:
				// swap a returned boolean constant is covered by true/false; return of err -> nil
				for _, r := range x.Results {
					if id, ok := r.(*ast.Ident); ok && id.Name == "err" {
						emit(off(id.Pos()), off(id.End()), "nil", "return err -> nil", id.Pos())
					}
				}
			}
			return true
		})
		return nil
	})
}

func short(s string) string {
	s = strings.Join(strings.Fields(s), " ")
	if len(s) > 50 {
		s = s[:50] + "…"
	}
	return s
}

// typed lists mutants that need type information: a use of a local variable or parameter replaced by
// another one of identical type that is in scope ("wrong variable reused"), and a selected field or
// method replaced by a sibling of identical type (x.Success -> x.Error, PrintHelp -> PrintLongHelp).
func typed(root string, enc *json.Encoder) {
	cfg := &packages.Config{Mode: packages.NeedName | packages.NeedFiles | packages.NeedSyntax | packages.NeedTypes | packages.NeedTypesInfo, Dir: root, Tests: false,
		Env: append(os.Environ(), "GOFLAGS=-mod=mod", "GOPROXY=off", "GOSUMDB=off", "GOTOOLCHAIN=local", "GOWORK=off")}
	pkgs, err := packages.Load(cfg, "./...")
	if err != nil {
		fmt.Fprintln(os.Stderr, err)
		os.Exit(2)
	}
	for _, pk := range pkgs {
		if strings.HasSuffix(pk.PkgPath, "test") || strings.Contains(pk.PkgPath, "dot") {
			continue
		}
		for _, f := range pk.Syntax {
			path := pk.Fset.Position(f.Pos()).Filename
			if strings.HasSuffix(path, "_test.go") || strings.HasSuffix(path, "doc.go") {
				continue
			}
			rel, _ := filepath.Rel(root, path)
			off := func(p token.Pos) int { return pk.Fset.Position(p).Offset }
			emit := func(id *ast.Ident, repl, desc string) {
				enc.Encode(mutant{rel, off(id.Pos()), off(id.End()), repl, desc, pk.Fset.Position(id.Pos()).Line})
			}
			// identifiers that are being defined or assigned to are left alone
			skip := map[*ast.Ident]bool{}
			ast.Inspect(f, func(n ast.Node) bool {
				switch x := n.(type) {
				case *ast.AssignStmt:
					for _, l := range x.Lhs {
						if id, ok := l.(*ast.Ident); ok {
							skip[id] = true
						}
					}
				case *ast.RangeStmt:
					if id, ok := x.Key.(*ast.Ident); ok {
						skip[id] = true
					}
					if id, ok := x.Value.(*ast.Ident); ok {
						skip[id] = true
					}
				case *ast.IncDecStmt:
					if id, ok := x.X.(*ast.Ident); ok {
						skip[id] = true
					}
				case *ast.KeyValueExpr:
					if id, ok := x.Key.(*ast.Ident); ok {
						skip[id] = true
					}
				}
				return true
			})
			for _, d := range f.Decls {
				fd, ok := d.(*ast.FuncDecl)
				if !ok || fd.Body == nil {
					continue
				}
				ast.Inspect(fd.Body, func(n ast.Node) bool {
					switch x := n.(type) {
					case *ast.SelectorExpr:
						sel, ok := pk.TypesInfo.Selections[x]
						if !ok {
							return true
						}
						recv := sel.Recv()
						if p, isP := recv.(*types.Pointer); isP {
							recv = p.Elem()
						}
						var names []string
						if st, isS := recv.Underlying().(*types.Struct); isS && sel.Kind() == types.FieldVal {
							for i := 0; i < st.NumFields(); i++ {
								fl := st.Field(i)
								if fl.Name() != x.Sel.Name && types.Identical(fl.Type(), sel.Type()) && (fl.Exported() || fl.Pkg() == pk.Types) {
									names = append(names, fl.Name())
								}
							}
						}
						if sel.Kind() == types.MethodVal {
							ms := types.NewMethodSet(types.NewPointer(recv))
							for i := 0; i < ms.Len(); i++ {
								m := ms.At(i).Obj()
								if m.Name() != x.Sel.Name && types.Identical(m.Type().(*types.Signature).Params(), sel.Type().(*types.Signature).Params()) &&
									types.Identical(m.Type().(*types.Signature).Results(), sel.Type().(*types.Signature).Results()) && (m.Exported() || m.Pkg() == pk.Types) {
									names = append(names, m.Name())
								}
							}
						}
						sort.Strings(names)
						if len(names) > 3 {
							names = names[:3]
						}
						if !skip[x.Sel] {
							for _, nm := range names {
								emit(x.Sel, nm, "selector ."+x.Sel.Name+" -> ."+nm)
							}
						}
					case *ast.Ident:
						if skip[x] {
							return true
						}
						v, ok := pk.TypesInfo.Uses[x].(*types.Var)
						if !ok || v.IsField() || v.Pkg() != pk.Types || v.Parent() == pk.Types.Scope() {
							return true
						}
						// candidates: variables visible at this position, declared inside this function
						var cands []string
						for sc := pk.Types.Scope().Innermost(x.Pos()); sc != nil && sc != pk.Types.Scope(); sc = sc.Parent() {
							for _, nm := range sc.Names() {
								o, isV := sc.Lookup(nm).(*types.Var)
								if !isV || o == v || nm == "_" || !types.Identical(o.Type(), v.Type()) {
									continue
								}
								if o.Pos() > x.Pos() && sc.Contains(o.Pos()) && o.Parent() != nil && !isParam(fd, pk, o) {
									continue // declared later in this scope
								}
								cands = append(cands, nm)
							}
						}
						sort.Strings(cands)
						seen := map[string]bool{}
						n := 0
						for _, nm := range cands {
							if seen[nm] || n >= 2 {
								continue
							}
							seen[nm] = true
							n++
							emit(x, nm, "variable "+x.Name+" -> "+nm)
						}
					}
					return true
				})
			}
		}
	}
}

func isParam(fd *ast.FuncDecl, pk *packages.Package, o *types.Var) bool {
	if fd.Type.Params != nil {
		for _, fl := range fd.Type.Params.List {
			for _, nm := range fl.Names {
				if pk.TypesInfo.Defs[nm] == o {
					return true
				}
			}
		}
	}
	if fd.Recv != nil {
		for _, fl := range fd.Recv.List {
			for _, nm := range fl.Names {
				if pk.TypesInfo.Defs[nm] == o {
					return true
				}
			}
		}
	}
	return false
}

// guard: additive mutants. A new early exit is inserted at the start of a function body
// (`if <rarely true test of a parameter> { return <zero values, or a like-typed parameter> }`) or at the
// start of a range body (`if <test of the element> { continue }`): the shape of a "fast path" or
// "defensive guard" that decides a question the surrounding code already decides.
func guard(root string, enc *json.Encoder) {
	cfg := &packages.Config{Mode: packages.NeedName | packages.NeedFiles | packages.NeedSyntax | packages.NeedTypes | packages.NeedTypesInfo, Dir: root, Tests: false,
		Env: append(os.Environ(), "GOFLAGS=-mod=mod", "GOPROXY=off", "GOSUMDB=off", "GOTOOLCHAIN=local", "GOWORK=off")}
	pkgs, err := packages.Load(cfg, "./...")
	if err != nil {
		fmt.Fprintln(os.Stderr, err)
		os.Exit(2)
	}
	for _, pk := range pkgs {
		if strings.HasSuffix(pk.PkgPath, "test") || strings.Contains(pk.PkgPath, "dot") {
			continue
		}
		qual := func(p *types.Package) string {
			if p == pk.Types {
				return ""
			}
			return p.Name()
		}
		for _, f := range pk.Syntax {
			path := pk.Fset.Position(f.Pos()).Filename
			if strings.HasSuffix(path, "_test.go") || strings.HasSuffix(path, "doc.go") {
				continue
			}
			rel, _ := filepath.Rel(root, path)
			off := func(p token.Pos) int { return pk.Fset.Position(p).Offset }
			hasStrings := false
			for _, im := range f.Imports {
				if im.Path.Value == `"strings"` && im.Name == nil {
					hasStrings = true
				}
			}
			conds := func(name string, t types.Type) []string {
				switch u := t.Underlying().(type) {
				case *types.Basic:
					switch {
					case u.Info()&types.IsString != 0:
						out := []string{"len(" + name + ") > 8", name + ` == "-"`}
						if hasStrings {
							out = append(out, "strings.HasPrefix("+name+`, "--no-")`)
						}
						return out
					case u.Info()&types.IsInteger != 0:
						return []string{name + " > 3"}
					}
				case *types.Slice:
					return []string{"len(" + name + ") > 4", "len(" + name + ") == 1"}
				case *types.Map:
					return []string{"len(" + name + ") > 4"}
				}
				return nil
			}
			for _, d := range f.Decls {
				fd, ok := d.(*ast.FuncDecl)
				if !ok || fd.Body == nil {
					continue
				}
				type prm struct {
					name string
					t    types.Type
				}
				var params []prm
				if fd.Type.Params != nil {
					for _, fl := range fd.Type.Params.List {
						for _, nm := range fl.Names {
							if nm.Name != "_" {
								if o := pk.TypesInfo.Defs[nm]; o != nil {
									params = append(params, prm{nm.Name, o.Type()})
								}
							}
						}
					}
				}
				// return statements to try
				var rets []string
				sig := pk.TypesInfo.Defs[fd.Name].Type().(*types.Signature)
				if sig.Results().Len() == 0 {
					rets = []string{"return"}
				} else {
					for _, bv := range []string{"false", "true"} {
						var parts []string
						okAll, hasBool := true, false
						for i := 0; i < sig.Results().Len(); i++ {
							rt := sig.Results().At(i).Type()
							like := ""
							for _, p := range params {
								if types.Identical(p.t, rt) {
									like = p.name
								}
							}
							switch u := rt.Underlying().(type) {
							case *types.Basic:
								switch {
								case u.Info()&types.IsBoolean != 0:
									parts = append(parts, bv)
									hasBool = true
								case u.Info()&types.IsString != 0:
									parts = append(parts, `""`)
								case u.Info()&types.IsNumeric != 0:
									parts = append(parts, "0")
								default:
									okAll = false
								}
							case *types.Slice, *types.Map, *types.Pointer, *types.Interface, *types.Signature:
								if like != "" {
									parts = append(parts, like)
								} else {
									parts = append(parts, "nil")
								}
							case *types.Struct:
								parts = append(parts, types.TypeString(rt, qual)+"{}")
							default:
								okAll = false
							}
						}
						if okAll && (bv == "false" || hasBool) {
							rets = append(rets, "return "+strings.Join(parts, ", "))
						}
					}
				}
				at := off(fd.Body.Lbrace) + 1
				line := pk.Fset.Position(fd.Body.Lbrace).Line
				for _, p := range params {
					for _, cnd := range conds(p.name, p.t) {
						for _, r := range rets {
							enc.Encode(mutant{rel, at, at, "\n\tif " + cnd + " {\n\t\t" + r + "\n\t}", "early exit in " + fd.Name.Name + ": if " + cnd + " { " + r + " }", line})
						}
					}
				}
				ast.Inspect(fd.Body, func(n ast.Node) bool {
					rs, ok := n.(*ast.RangeStmt)
					if !ok {
						return true
					}
					for _, e := range []ast.Expr{rs.Key, rs.Value} {
						id, isId := e.(*ast.Ident)
						if !isId || id.Name == "_" {
							continue
						}
						o := pk.TypesInfo.Defs[id]
						if o == nil {
							continue
						}
						a := off(rs.Body.Lbrace) + 1
						for _, cnd := range conds(id.Name, o.Type()) {
							enc.Encode(mutant{rel, a, a, "\n\tif " + cnd + " {\n\t\tcontinue\n\t}", "skip in loop of " + fd.Name.Name + ": if " + cnd + " { continue }", pk.Fset.Position(rs.Body.Lbrace).Line})
						}
					}
					return true
				})
			}
		}
	}
}
