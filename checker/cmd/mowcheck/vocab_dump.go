package main

import (
	"fmt"
	"go/types"
	"sort"

	"verif/checker/internal/ir"
	"verif/checker/internal/load"
	"verif/checker/internal/normalize"
	"verif/checker/internal/rules"
)

// dumpVocab prints the qualified names of all named functions of the closure (debug aid used to
// regenerate internal/normalize/vocab.go).
func dumpVocab(p *load.Program) {
	var names []string
	sigs := map[string]string{}
	for _, fn := range p.ClosureFuncs() {
		if fn.Parent() == nil && fn.Name() != "init" {
			n := ir.RawQualifiedName(fn)
			names = append(names, n)
			sigs[n] = normalize.SigKey(fn)
		}
	}
	sort.Strings(names)
	for _, n := range names {
		fmt.Printf("\t%q: %q,\n", n, sigs[n])
	}
}

// dumpFields prints every struct type of the closure with its fields in order (regenerates
// internal/normalize/vocab_fields.go).
func dumpFields(p *load.Program) {
	var lines []string
	for _, pk := range p.Closure {
		sc := pk.Types.Scope()
		for _, name := range sc.Names() {
			tn, ok := sc.Lookup(name).(*types.TypeName)
			if !ok {
				continue
			}
			if it, isI := tn.Type().Underlying().(*types.Interface); isI {
				l := fmt.Sprintf("\t%q: {", pk.Types.Name()+"."+name)
				for i := 0; i < it.NumMethods(); i++ {
					m := it.Method(i)
					l += fmt.Sprintf("%q, ", normalize.MemberKey(m.Name(), m.Type(), true))
				}
				lines = append(lines, l+"},")
				continue
			}
			st, ok := tn.Type().Underlying().(*types.Struct)
			if !ok {
				continue
			}
			l := fmt.Sprintf("\t%q: {", pk.Types.Name()+"."+name)
			for i := 0; i < st.NumFields(); i++ {
				f := st.Field(i)
				l += fmt.Sprintf("%q, ", normalize.MemberKey(f.Name(), f.Type(), false))
			}
			lines = append(lines, l+"},")
		}
	}
	sort.Strings(lines)
	for _, l := range lines {
		fmt.Println(l)
	}
}

// dumpWriters prints, for every field of a named struct of the module, the functions that store to it
// through something other than a fresh composite literal (debug aid used to build the WRT-1 table).
func dumpWriters(p *load.Program) {
	w := rules.FieldWriters(p)
	var keys []string
	for k := range w {
		keys = append(keys, k)
	}
	sort.Strings(keys)
	for _, k := range keys {
		fmt.Printf("%-40s %v\n", k, w[k])
	}
}
