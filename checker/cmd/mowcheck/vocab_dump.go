package main

import (
	"fmt"
	"sort"

	"verif/checker/internal/ir"
	"verif/checker/internal/load"
	"verif/checker/internal/normalize"
)

// dumpVocab prints the qualified names of all named functions of the closure (debug aid used to
// regenerate internal/normalize/vocab.go).
func dumpVocab(p *load.Program) {
	var names []string
	sigs := map[string]string{}
	for _, fn := range p.ClosureFuncs() {
		if fn.Parent() == nil && fn.Name() != "init" {
			n := ir.RawQualifiedName(fn)
			names = append(names, n)
			sigs[n] = normalize.SigKey(fn)
		}
	}
	sort.Strings(names)
	for _, n := range names {
		fmt.Printf("\t%q: %q,\n", n, sigs[n])
	}
}
