// mowcheck decides the mow.cli properties by static analysis of /repo.
//
//	mowcheck -repo /repo -prop C07 -tier quick -evidence /verif/evidence/C07.json
//	mowcheck -repo /repo -rules CMD-1,CMD-2 -json        (debug / controls)
package main

import (
	"encoding/json"
	"flag"
	"fmt"
	"go/types"
	"os"
	"path/filepath"
	"sort"
	"strconv"
	"strings"
	"time"

	"golang.org/x/tools/go/ssa"

	"verif/checker/internal/controls"
	"verif/checker/internal/ir"
	"verif/checker/internal/load"
	"verif/checker/internal/normalize"
	"verif/checker/internal/report"
	"verif/checker/internal/rules"
)

func main() {
	var (
		repo      = flag.String("repo", "/repo", "repository to analyse")
		prop      = flag.String("prop", "", "property id (C01..C20)")
		tier      = flag.String("tier", "quick", "quick|thorough")
		evidence  = flag.String("evidence", "", "evidence file to write")
		knownPath = flag.String("known", "", "known findings file")
		ruleList  = flag.String("rules", "", "comma separated rule ids (debug / controls mode)")
		asJSON    = flag.Bool("json", false, "print obligations as JSON (with -rules)")
		overlay   = flag.String("overlay", "", "JSON file mapping absolute path -> replacement content")
		list      = flag.Bool("list", false, "list the catalogue and exit")
		verbose   = flag.Bool("v", false, "print every obligation")
		verifDir  = flag.String("verif", "/verif", "verif directory (for replay files, seeded patches)")
		goarch    = flag.String("goarch", "", "GOARCH for loading")
		dump      = flag.String("dump", "", "debug: print the SSA of functions whose qualified name contains this string")
		noNorm    = flag.Bool("no-normalize", false, "do not inline helper functions that are not in the pinned tree's vocabulary")
		showNorm  = flag.Bool("show-normalized", false, "debug: print the normalised overlay files and exit")
	)
	flag.Parse()
	start := time.Now()

	if *list {
		for _, r := range rules.Catalogue() {
			fmt.Printf("%-8s floor=%-3d props=%s  %s\n", r.ID, r.Floor, strings.Join(r.Props, ","), r.Doc)
		}
		return
	}

	ov := map[string][]byte{}
	if *overlay != "" {
		data, err := os.ReadFile(*overlay)
		if err != nil {
			fatal("CHECK-ERROR reading overlay: %v", err)
		}
		m := map[string]string{}
		if err := json.Unmarshal(data, &m); err != nil {
			fatal("CHECK-ERROR parsing overlay: %v", err)
		}
		for k, v := range m {
			ov[k] = []byte(v)
		}
	}

	prog, err := load.Load(load.Options{Dir: *repo, Overlay: ov, GOARCH: *goarch})
	if err != nil {
		if *ruleList != "" && *asJSON {
			// controls mode: report load failure distinctly
			fmt.Printf("{\"load_error\": %q}\n", err.Error())
			os.Exit(3)
		}
		fatal("CHECK-ERROR cannot load %s: %v", *repo, err)
	}

	// normalisation: undo extract-function refactorings (see internal/normalize)
	var normNotes []string
	base := prog
	normalise := func(keep func(*ssa.Function) bool, tag string) (*load.Program, map[string][]byte, int) {
		pr := base
		cur := map[string][]byte{}
		for k, v := range ov {
			cur[k] = v
		}
		counter := 0
		kept := 0
		// `f := x.m1; if c { f = x.m2 }; f(args)`: two static calls (a few passes: one site per file and pass)
		for pass := 0; pass < 3; pass++ {
			disp, notes := normalize.DispatchMethodValues(pr, cur)
			if len(disp) == 0 {
				break
			}
			next := map[string][]byte{}
			for k, v := range cur {
				next[k] = v
			}
			for k, v := range disp {
				next[k] = v
			}
			prog2, err2 := load.Load(load.Options{Dir: *repo, Overlay: next, GOARCH: *goarch})
			if err2 != nil {
				normNotes = append(normNotes, tag+"method-value dispatch abandoned (overlay does not type-check)")
				break
			}
			pr, cur = prog2, next
			for _, n := range notes {
				normNotes = append(normNotes, tag+n)
			}
		}
		// `case a || b:` of a tagless switch: one branch per condition
		if split, notes := normalize.SplitCaseOr(pr, cur); len(split) > 0 {
			next := map[string][]byte{}
			for k, v := range cur {
				next[k] = v
			}
			for k, v := range split {
				next[k] = v
			}
			if prog2, err2 := load.Load(load.Options{Dir: *repo, Overlay: next, GOARCH: *goarch}); err2 == nil {
				pr, cur = prog2, next
				for _, n := range notes {
					normNotes = append(normNotes, tag+n)
				}
			} else {
				normNotes = append(normNotes, tag+"case splitting abandoned (overlay does not type-check)")
			}
		}
		// `a, b := helper(x), helper(y)`: one definition per statement
		if split, notes := normalize.SplitParallelDefine(pr, rules.CanonicalName(pr), cur); len(split) > 0 {
			next := map[string][]byte{}
			for k, v := range cur {
				next[k] = v
			}
			for k, v := range split {
				next[k] = v
			}
			if prog2, err2 := load.Load(load.Options{Dir: *repo, Overlay: next, GOARCH: *goarch}); err2 == nil {
				pr, cur = prog2, next
				for _, n := range notes {
					normNotes = append(normNotes, tag+n)
				}
			} else {
				normNotes = append(normNotes, tag+"parallel-definition splitting abandoned (overlay does not type-check)")
			}
		}
		// `return <expression calling a new helper>` of a predicate: explicit verdicts
		if expl, notes := normalize.ExplicitBoolReturns(pr, rules.CanonicalName(pr), cur); len(expl) > 0 {
			next := map[string][]byte{}
			for k, v := range cur {
				next[k] = v
			}
			for k, v := range expl {
				next[k] = v
			}
			if prog2, err2 := load.Load(load.Options{Dir: *repo, Overlay: next, GOARCH: *goarch}); err2 == nil {
				pr, cur = prog2, next
				for _, n := range notes {
					normNotes = append(normNotes, tag+n)
				}
			} else {
				normNotes = append(normNotes, tag+"explicit verdicts abandoned (overlay does not type-check)")
			}
		}
		for round := 0; round < 9; round++ {
			res := normalize.RoundKeep(pr, rules.CanonicalName(pr), cur, &counter, keep)
			for _, sk := range res.Skipped {
				normNotes = append(normNotes, tag+"left alone: "+sk)
				if strings.Contains(sk, "kept as a call") {
					kept++
				}
			}
			if len(res.Overlay) == 0 {
				break
			}
			next := map[string][]byte{}
			for k, v := range cur {
				next[k] = v
			}
			for k, v := range res.Overlay {
				next[k] = v
			}
			prog2, err2 := load.Load(load.Options{Dir: *repo, Overlay: next, GOARCH: *goarch})
			if err2 != nil {
				normNotes = append(normNotes, fmt.Sprintf("%snormalisation round %d abandoned (overlay does not type-check: %v)", tag, round+1, err2))
				if *showNorm {
					for k, v := range res.Overlay {
						fmt.Printf("==== %s\n%s\n", k, v)
					}
				}
				break
			}
			pr, cur = prog2, next
			for _, in := range res.Inlined {
				normNotes = append(normNotes, tag+"inlined for analysis: "+in)
			}
		}
		// keep the scanner's position variable in memory even if no closure captures it any more
		if pin, notes := normalize.PinLocals(pr, rules.CanonicalName(pr), cur, map[string]bool{"lexer.Tokenize": true}); len(pin) > 0 {
			next := map[string][]byte{}
			for k, v := range cur {
				next[k] = v
			}
			for k, v := range pin {
				next[k] = v
			}
			if prog2, err2 := load.Load(load.Options{Dir: *repo, Overlay: next, GOARCH: *goarch}); err2 == nil {
				pr, cur = prog2, next
				for _, n := range notes {
					normNotes = append(normNotes, tag+n)
				}
			} else {
				normNotes = append(normNotes, tag+"pinning abandoned (overlay does not type-check)")
			}
		}
		return pr, cur, kept
	}
	if !*noNorm && *dump != "@vocab" && *dump != "@fields" {
		var cur map[string][]byte
		prog, cur, _ = normalise(nil, "")
		if *showNorm {
			for k, v := range cur {
				fmt.Printf("==== %s\n%s\n", k, v)
			}
			for _, n := range normNotes {
				fmt.Println("NOTE", n)
			}
			return
		}
	}
	// second variant, built on demand: new helpers that are predicates (one bool result) stay calls. Both
	// variants are the same program up to inlining, so a rule that is discharged on either is discharged.
	var progB *load.Program
	triedB := false
	variantB := func() *load.Program {
		if triedB || *noNorm {
			return progB
		}
		triedB = true
		isPred := func(f *ssa.Function) bool {
			if f.Signature.Results().Len() != 1 {
				return false
			}
			b, ok := f.Signature.Results().At(0).Type().Underlying().(*types.Basic)
			return ok && b.Kind() == types.Bool
		}
		pb, _, kept := normalise(isPred, "[variant B] ")
		if kept > 0 {
			progB = pb
		}
		return progB
	}
	runRule := func(r *rules.Rule) ([]report.Obligation, []string) {
		obs, an := rules.RunRule(prog, r)
		bad := func(os []report.Obligation) int {
			n := 0
			for _, o := range os {
				if o.Status != report.Discharged {
					n++
				}
			}
			if len(os) < r.Floor {
				n++
			}
			return n
		}
		if bad(obs) == 0 {
			return obs, an
		}
		if pb := variantB(); pb != nil {
			obsB, anB := rules.RunRule(pb, r)
			if bad(obsB) < bad(obs) {
				return obsB, anB
			}
		}
		return obs, an
	}
	normNotes = append(normNotes, rules.CanonNotes(prog)...)

	if *dump == "@vocab" {
		dumpVocab(prog)
		return
	}
	if *dump == "@writers" {
		dumpWriters(prog)
		return
	}
	if *dump == "@fields" {
		dumpFields(prog)
		return
	}
	if *dump != "" {
		for _, fn := range prog.ClosureFuncs() {
			var walk func(f *ssa.Function)
			walk = func(f *ssa.Function) {
				if strings.Contains(ir.QualifiedName(f), *dump) {
					f.WriteTo(os.Stdout)
				}
				for _, an := range f.AnonFuncs {
					walk(an)
				}
			}
			walk(fn)
		}
		return
	}

	if *ruleList != "" {
		var all []report.Obligation
		ids := strings.Split(*ruleList, ",")
		if *ruleList == "all" {
			ids = nil
			for _, x := range rules.Catalogue() {
				ids = append(ids, x.ID)
			}
		}
		for _, id := range ids {
			var r *rules.Rule
			for _, x := range rules.Catalogue() {
				if x.ID == id {
					r = x
				}
			}
			if r == nil {
				fatal("CHECK-ERROR unknown rule %s", id)
			}
			obs, _ := runRule(r)
			if len(obs) < r.Floor {
				obs = append(obs, report.Obligation{Rule: r.ID, Construct: "floor", Pos: "-", Status: report.Violated,
					Detail: fmt.Sprintf("only %d instances, floor is %d", len(obs), r.Floor)})
			}
			all = append(all, obs...)
		}
		if *asJSON {
			json.NewEncoder(os.Stdout).Encode(all)
		} else {
			for _, o := range all {
				fmt.Printf("%-10s %-8s %-60s %s  %s\n", o.Status, o.Rule, o.Construct, o.Pos, o.Detail)
			}
		}
		return
	}

	if *prop == "" {
		fatal("CHECK-ERROR -prop or -rules required")
	}
	rs := rules.ForProperty(*prop)
	if len(rs) == 0 {
		fatal("CHECK-ERROR no rules mapped to property %s", *prop)
	}
	if *knownPath == "" {
		*knownPath = filepath.Join(*verifDir, "KNOWN_FINDINGS.txt")
	}
	known, err := report.ReadKnown(*knownPath)
	if err != nil {
		fatal("CHECK-ERROR %v", err)
	}
	seed := 0
	if s := os.Getenv("VERIF_SEED"); s != "" {
		seed, _ = strconv.Atoi(s)
	}

	var (
		allObs     []report.Obligation
		stats      []report.RuleStat
		analysed   = map[string]bool{}
		violations []report.Obligation
		knownHits  []string
	)
	for _, r := range rs {
		allRuleObs, an := runRule(r)
		var obs []report.Obligation
		for _, o := range allRuleObs {
			if o.AppliesTo(*prop) {
				obs = append(obs, o)
			}
		}
		for _, a := range an {
			analysed[a] = true
		}
		st := report.RuleStat{Rule: r.ID, Doc: r.Doc, Instances: len(obs), Floor: r.Floor}
		for _, o := range obs {
			switch o.Status {
			case report.Discharged:
				st.Discharged++
			default:
				if k := report.MatchKnown(known, *prop, o); k != nil {
					st.Known++
					knownHits = append(knownHits, fmt.Sprintf("KNOWN-FINDING: property=%s rule=%s construct=%s %s (%s; %s)", *prop, o.Rule, o.Construct, k.Text, o.Pos, o.Detail))
				} else {
					if o.Status == report.Violated {
						st.Violated++
					} else {
						st.Undecided++
					}
					violations = append(violations, o)
				}
			}
		}
		if len(allRuleObs) < r.Floor {
			o := report.Obligation{Rule: r.ID, Construct: "floor", Pos: "-", Status: report.Violated,
				Detail: fmt.Sprintf("rule matched %d instances, fewer than the %d confirmed by hand", len(allRuleObs), r.Floor)}
			violations = append(violations, o)
			obs = append(obs, o)
			st.Violated++
		}
		allObs = append(allObs, obs...)
		stats = append(stats, st)
	}

	// thorough tier: negative controls and the 386 pass
	var ctl *controls.Result
	if *tier == "thorough" {
		ruleIDs := []string{}
		for _, r := range rs {
			ruleIDs = append(ruleIDs, r.ID)
		}
		ctl = controls.Run(controls.Config{Repo: *repo, Rules: ruleIDs, Self: os.Args[0], VerifDir: *verifDir, Property: *prop})
	}

	for _, l := range knownHits {
		fmt.Println(l)
	}
	replayDir := filepath.Join(*verifDir, "evidence", "replay")
	for _, o := range violations {
		path := filepath.Join(replayDir, report.ReplayName(*prop, o))
		_ = report.WriteJSON(path, map[string]interface{}{"property": *prop, "obligation": o, "repo": *repo, "digests": prog.Digests})
		fmt.Printf("VIOLATION property=%s replay=%s\n", *prop, path)
		fmt.Printf("  rule=%s construct=%s at %s status=%s: %s\n", o.Rule, o.Construct, o.Pos, o.Status, o.Detail)
	}
	if *verbose {
		for _, o := range allObs {
			fmt.Printf("%-10s %-8s %-70s %s  %s\n", o.Status, o.Rule, o.Construct, o.Pos, o.Detail)
		}
	}

	discharged := 0
	for _, o := range allObs {
		if o.Status == report.Discharged {
			discharged++
		}
	}
	var funcs []string
	for f := range analysed {
		funcs = append(funcs, f)
	}
	sort.Strings(funcs)
	var pkgs, helpers []string
	for _, p := range prog.Closure {
		pkgs = append(pkgs, p.PkgPath)
	}
	for _, p := range prog.Helpers {
		helpers = append(helpers, p.PkgPath)
	}
	samples := []interface{}{}
	perRule := map[string]int{}
	for _, o := range allObs {
		if perRule[o.Rule] < 3 {
			perRule[o.Rule]++
			samples = append(samples, o)
		}
	}
	cov := map[string]interface{}{
		"explanation": fmt.Sprintf("Static analysis (go/packages + go/types + go/ssa, x/tools v0.29.0) of the working tree at %s. "+
			"%d rules of the repository-specific catalogue (DESIGN.md section 7) mapped to %s were evaluated over every instance in the "+
			"production closure (%d packages); each instance is one obligation. Nothing was executed. See DESIGN.md section 8 for which "+
			"clauses of the property these obligations decide and which they do not.", *repo, len(rs), *prop, len(prog.Closure)),
		"obligations":        len(allObs),
		"discharged":         discharged,
		"exhaustive":         true,
		"rules":              stats,
		"functions_analysed": funcs,
		"packages_closure":   pkgs,
		"packages_helpers":   helpers,
		"file_digests":       prog.Digests,
		"samples":            samples,
		"known_findings":     knownHits,
		"normalisation":      normNotes,
		"checker_cmd":        strings.Join(os.Args, " "),
		"trusted_base":       []string{"Go type checker", "go/ssa construction (x/tools v0.29.0)", "semantics of defer/recover, range, append, copy", "stdlib: strconv.Parse*, strings.Fields/Split/SplitN/TrimSpace/HasPrefix, os.Getenv, os.Exit"},
	}
	if ctl != nil {
		cov["negative_controls"] = ctl
	}
	ev := report.Evidence{
		PropertyID: *prop, Tier: *tier, Seed: seed, Level: "other", Coverage: cov,
		Assumptions: []string{
			"user callbacks (Action/Before/After/CmdInitializer, custom flag.Value) are opaque; rules speak about how the library drives them",
			"no unsafe/reflect/cgo/goroutines in the production closure (checked by GLOB-3 under C20)",
			"64-bit target for int conversions (VAL-1)",
		},
		WallS: time.Since(start).Seconds(), Violations: len(violations),
	}
	if *evidence != "" {
		if err := report.WriteJSON(*evidence, ev); err != nil {
			fatal("CHECK-ERROR writing evidence: %v", err)
		}
	}
	fmt.Printf("property=%s tier=%s rules=%d obligations=%d discharged=%d known=%d violations=%d wall=%.1fs\n",
		*prop, *tier, len(rs), len(allObs), discharged, len(knownHits), len(violations), time.Since(start).Seconds())
	if ctl != nil {
		fmt.Printf("negative controls: %d run, %d detected, %d skipped, %d missed\n", ctl.Run, ctl.Detected, ctl.Skipped, ctl.Missed)
		if ctl.Missed > 0 {
			for _, m := range ctl.Items {
				if m.Outcome == "missed" {
					fmt.Printf("CHECK-ERROR selftest: control %s (rule %s) applied and compiled but was not detected\n", m.Name, m.Rule)
				}
			}
			os.Exit(2)
		}
	}
	if len(violations) > 0 {
		os.Exit(1)
	}
}

func fatal(format string, args ...interface{}) {
	fmt.Printf(format+"\n", args...)
	os.Exit(2)
}
