#!/usr/bin/env python3
"""meta.json for the twelfth, held-out seeding round (ids <prop>-A,-B,-C; same prompt as round 11, for six properties with round 11's ideas off limits, plus C11, C16, C18, C20; first run with the frozen binary of commit a7da13f). caught_by is filled by par_run.sh seeded."""
import json, os
M = {
"C01-A": ("opt.Match: the arm that steps over a lone `-` removed", "`[OPTIONS] SRC`, argv `- -f` rejected"),
"C01-B": ("choice reuses the first alternative's end state as the join state", "`-a... | -b` accepts `-b -a`"),
"C01-C": ("optsEnd.Match also consumes a leading `--` token", "`[-f] -- SRC`: `-- --` rejected, `-- -- --` accepted"),
"C03-A": ("doInit hands TrimSpace(c.Spec) to the parser, the untrimmed spec to the lexer", "leading blanks + a parser-level error: Pos > len(Input), Error() dies on slice bounds"),
"C03-B": ("ParseError.ident slices []rune(Input)[:Pos] with the byte offset", "multi-byte runes in `=<...>` plus a later error: slice bounds out of range"),
"C03-C": ("atom: early return of the `--` case removed (falls into the `...` tail)", "`SRC -- ...`, argv `a b`: stack overflow"),
"C04-A": ("getOptsAndArgs stops looking for sub-commands at `--`", "`app -v -- a.txt sync -n there`: parent runs"),
"C04-B": ("isAlias rejects tokens longer than the command's first name", "`Command(\"rm remove\")`: `app remove` incorrect usage"),
"C04-C": ("parse: fail-fast illegal-option check before the spec for option-less levels", "`app -q cat -`, spec `-- CMD [ARG...]`: rejected"),
"C05-A": ("parse: the Before step's Error successor in the descending branch is this level's own After", "Before of a middle level panics: its own After runs too"),
"C05-B": ("Step.Run folds ExitCode(0) into the normal return", "Exit(0): no exit, Afters run a second time"),
"C05-C": ("Run: RootOut's Exiter only records the code, the real exiter is called after parse returns", "Exit(3) in a Before: Action and Afters still run"),
"C08-A": ("atom: early return of the `--` case removed (falls into the `...` tail)", "`-- ... X...`, `[X] -- ...` compile"),
"C08-B": ("Tokenize: the `=<text>` scan also stops at a blank", "`-f=<input file>` rejected"),
"C08-C": ("doInit tokenizes TrimSpace(spec), the parser keeps the untrimmed spec", "leading blanks: parser-level errors reported N bytes early"),
"C11-A": ("matchLongOpt: foreign check hoisted, skip width from the other option's type only", "`[-f] [--output]`: `--output=x -f` rejected, `-f --output=x` accepted"),
"C11-B": ("matchShortOpt: the two foreign-valued returns merged, `len(rem) > 1` decides glued", "`-vo FILE -c` rejected, `-c -vo FILE` accepted"),
"C11-C": ("opt.Match caps the number of foreign occurrences skipped at the number of other names", "`[-v] -I...`: `-I a -I b -I c -v` rejected"),
"C14-A": ("doInit returns early once an automaton exists (initializers not re-run)", "5-level tree, two runs: usage shows a sibling's command path"),
"C14-B": ("helpIndex via indexOf per spelling", "`app --help sub -h` prints sub's help"),
"C14-C": ("Cli.parse: version shortcut only when no help token follows", "`app -v -h` prints help, never the version"),
"C16-A": ("default spec accumulated at declaration; mkOpt overwrites it with `[OPTIONS] ` on the first option", "SRC, -f, DST declared: spec `[OPTIONS] DST`"),
"C16-B": ("doInit writes slice-typed arguments as `NAME...` in the default spec", "`n a b` accepted where `NAME FILES` rejects"),
"C16-C": ("doInit: `[OPTIONS]` guard on len(c.optionsIdx) instead of len(c.options)", "only env-only options: usage line lacks [OPTIONS]"),
"C18-A": ("mkOpt tolerates a repeated name when `prev.Name == opt.Name`", "two options with the identical name list accepted silently"),
"C18-B": ("validArgName by regexp `^[ \\t]*[A-Z0-9_]+[ \\t]*$`", "`_ARG`, `1ARG`, `OPTIONS` accepted"),
"C18-C": ("Tokenize: argument tail scanned with IndexFunc over runes, isOkInArg(uint8(r))", "`AŁ`, `SRCşDST` accepted as argument names"),
"C20-A": ("top-level parse context from a package-level sync.Pool; fillContainers deletes entries as it stores", "a failed conversion leaves entries for the next parse of any application"),
"C20-B": ("default spec assembled by ranging over the argsIdx map", "two arguments, no spec: binding differs between builds"),
"C20-C": ("options.try reuses one package-level candidate matcher", "applications parsed concurrently overwrite each other's candidate"),
}
MISSED = {"C01-A", "C03-C", "C08-A"}
for k, (change, needs) in M.items():
    d = "/verif/seeded/" + k
    if not os.path.isdir(d):
        print("missing", k); continue
    p = d + "/meta.json"
    old = json.load(open(p)) if os.path.exists(p) else {}
    m = {"id": k, "property": k.split("-")[0], "change": change, "needs_to_manifest": needs, "round": 12,
         "author": "independent sub-agent given only the property text and a scratch worktree (twelfth, held-out round; plausible maintenance changes that need something specific to manifest; round 11's ideas off limits where the property was repeated)",
         "confirmed": {"commands": ["tools/verify_seed.sh <worktree> <dir>: build ok, unedited suite ok with the change, demo fails with it and passes without it"],
                       "result": "build=ok suite=ok demo_with=fail demo_without=pass"},
         "caught_by": old.get("caught_by", []), "checked_with": old.get("checked_with", ""),
         "first_run": "missed" if k in MISSED else "reported"}
    json.dump(m, open(p, "w"), indent=1)
print(len(M))
