#!/usr/bin/env python3
"""Writes /verif/seeded/<id>/meta.json (static part). caught_by is filled by run_seeded.sh."""
import json, os
M = {
"C01-1": ("opt.Match returns false instead of the env flag once options are ended", "env variable set, required option absent, a command-line `--` followed by at least one token (spec `-e A`, argv `-- x`)"),
"C01-2": ("fsm.apply memoises dead ends keyed on (state, len(args), rejectOptions)", "same state reached twice with the same token count but different option tokens: spec `(-a | -b) -c -a`, argv `-b -c -a`"),
"C01-3": ("matchShortOpt hoists the foreign check and classifies 'value attached' by len(arg) > 2", "a folded flag+valued option with a separate value before an option that comes earlier in the spec: spec `-c -a -s`, argv `-as v -c`"),
"C02-1": ("fsm.apply drops the !RejectOptions guard of the `--` strip", "two `--` on the command line with a token between them: `[-f] ARG...`, argv `-- a -- -f`"),
"C02-2": ("fillContainers reuses the env helper (TrimSpace) for multi-valued containers", "a multi-valued variable and a command-line value with leading/trailing blanks"),
"C02-3": ("matchShortOpt continues the in-token scan past a foreign option that has an attached value", "attached form `-oVALUE` whose value contains the letter of another declared short option declared earlier: `-ofoo`"),
"C03-1": ("options.try excludes an env-backed option only when no value is recorded at all", "env variable set, option in a group, given on the command line and followed by another argument: `[OPTIONS] X`, argv `-e v x` (hangs)"),
"C03-2": ("simplifySelf re-inlines an expanded target unless all its transitions are present", "nested repetition of optional groups: spec `[[X]...]...` (compile hangs)"),
"C03-3": ("atom's default branch panics with fmt.Errorf instead of a string", "malformed spec with `)`, `]`, `|` or `...` where an operand must start: `[]`, `X | | Y` (raw panic without position)"),
"C04-1": ("getOptsAndArgs stops scanning at `--`", "a `--` among a non-leaf level's own tokens followed later by a sub-command name"),
"C04-2": ("parse skips validation of a level that has no own tokens", "non-leaf command whose spec cannot be satisfied by zero tokens, invoked with zero own tokens: root spec `-e`, argv `deploy`"),
"C04-3": ("version flag recognised at any position before `--`", "Version configured and one of its names appears in a lower level's tokens: `app log -v`"),
"C05-1": ("callDo keeps an earlier ordinary panic when a later hook calls Exit", "two events in one run: a panic with an ordinary value, then a later After calling cli.Exit(n)"),
"C05-2": ("Run recovers error-typed panics under ContinueOnError and returns them", "ContinueOnError and a hook panicking with a value that implements error"),
"C05-3": ("Action step's Error wired to outFlow instead of the command's own After", "a failing Action (panic or Exit) and an After on that same command"),
"C06-1": ("StringsValue.Clear keeps the backing array", "the same default []string passed to two parameters, one of which receives command-line or env values"),
"C06-2": ("setMultivalued no longer clears on the error path", "[]int/[]float64 with an env list having a valid element before the first invalid one: `10, 20, xxx`"),
"C06-3": ("Floats64Ptr/Arg literal drops EnvVar", "exactly Floats64Ptr(&v, Floats64Arg{EnvVar: ...}) with the variable set and no command-line value"),
"C07-1": ("fillContainers breaks out of the inner loop and keeps going; a later container resets err", "a non-convertible value plus another option at the same level, the bad one not visited last (map order)"),
"C07-2": ("policy applied once in Run with the root's ErrorHandling", "rejection at depth >= 1 with the rejecting command's policy different from the root's"),
"C07-3": ("onError called before PrintHelp on the spec-mismatch path", "ExitOnError or PanicOnError and inspecting the error stream (no usage printed)"),
"C08-1": ("found(OptValue) moved to the common tail of atom", "malformed spec with `=<..>` after a non-option: `SRC=<path> DST`, `[-f]=<flag> SRC`"),
"C08-2": ("doInit tokenizes strings.TrimSpace(c.Spec) while the parser reports against c.Spec", "leading blanks plus a parser-level error (position shifted), or leading/trailing line break (accepted)"),
"C08-3": ("seq loses its `required` parameter", "literally empty group: `()`, `[]`, `SRC []`"),
"C09-1": ("terminal accept moved before the strip and widened to a trailing `--`, ignoring RejectOptions", "options already ended, a further `--` as the very last token at a terminal state: `[-f] X...`, argv `-- a --`"),
"C09-2": ("optsEnd.Match refuses empty input", "spec where everything after `--` is optional and the command line ends at the `--` position: `SRC -- [X...]`, argv `a`"),
"C09-3": ("helpIndex tests `--` only in first position", "a `--` that is not the first token followed by `-h`/`--help`: `a -- -h`"),
"C10-1": ("matchShortOpt rewrites the folded token in the incoming args slice", "three or more flags hanging off one state and a folded token of them: `[-a] [-b] [-c]`, argv `-abc`"),
"C10-2": ("options.try decides 'env-only match' by len(nargs) == len(args)", "env variable set, [OPTIONS], option occurring twice with the earlier occurrence inside a folded token: `-vv`"),
"C10-3": ("folded group in the spec gets an index built from its own letters", "spec declaring options as a folded sequence `[-fo]` and a long alias on the command line: `--force`"),
"C11-1": ("matchLongOpt hoists the foreign check: bool 1, anything else 2", "`--long=value` directly before another option in a spec with explicit option atoms: `[-v] [--name]`, argv `--name=x -v`"),
"C11-2": ("folded group matcher gets an index of its own options only", "folded group plus another option, outside option before a group option: `[-ab] [-s]`, argv `-s x -a`"),
"C11-3": ("matchShortOpt decides 'value glued' by len(rem) > 1", "folded flags ending in a valued option with separate value, followed by an option listed earlier in the spec: `-xf a.tar -v`"),
"C12-1": ("options.try compares len(c.Opts) instead of len(c.Opts[o])", "option group, env variable set, option written three or more times"),
"C12-2": ("opt.Match returns false when RejectOptions", "required option satisfied by env, user writes `--` before a positional: `-e FILE`, argv `-- data.txt`"),
"C12-3": ("Float64Ptr/Opt literal drops EnvVar", "Float64Ptr(&v, Float64Opt{EnvVar: ...}) required option absent from the command line"),
"C13-1": ("IntValue/IntsValue.Set parse with base 0 and IntSize", "base-prefixed, underscored or octal-looking token: `0x10`, `1_000`, `010`"),
"C13-2": ("fillContainers passes only the last token of a repeated single-valued option to Set", "single-valued int/float option made repeatable by the spec with a bad token that is not last: `-n abc -n 5`"),
"C13-3": ("SetFromEnv trims the environment value", "single-valued type, EnvVar set to a value with surrounding whitespace: ` 42`"),
"C14-1": ("onError restructured: PanicOnError panics for the sentinels too", "PanicOnError with -h/--help or the version flag"),
"C14-2": ("helpIndex stops at `--` only within the level's own tokens", "help token after `--` in a sub-command's arguments: `app sub -- -h` (nil flow dereference)"),
"C14-3": ("version presence tested as version != \"\"", "Version(\"v version\", \"\") with an empty version string"),
"C15-1": ("options.try restores c.Opts[o] = seen, creating an empty entry on env fallback", "group, env-backed option absent from the command line, another option of the group present"),
"C15-2": ("fillContainers skips a container whose single value equals the current one", "command-line value textually identical to the default/env value: `-p 80` with default 80"),
"C15-3": ("arg.Match sets *ValueSetByUser directly", "argument matcher tried on a word that ends up bound elsewhere: `[SRC] DST`, argv `x`"),
"C16-1": ("default spec writes slice-backed arguments as NAME...", "spec-less command with a slice argument and two or more values"),
"C16-2": ("doInit rebuilds the default spec on every init without resetting it when there are no options", "spec-less command without options, Run twice or more"),
"C16-3": ("printHelp writes c.Spec = \"[OPTIONS]\" when empty", "spec-less command with an option and an argument, PrintHelp() called before Run"),
"C17-1": ("formatOptNamesForHelp stops at the first long name", "option whose long name is declared before its short name: `force f`"),
"C17-2": ("COMMAND marker printed only when a visible sub-command exists", "command whose sub-commands are all Hidden"),
"C17-3": ("Commands: row shows only the first line of the description", "sub-command declared with a multi-line description"),
"C18-1": ("duplicate check moved to a helper that inspects only the first name", "collision on a non-first name of the later option: `f force` then `o force`"),
"C18-2": ("validArgName accepts more than one token", "names shaped as an upper-case identifier followed by more spec syntax: `SRC...`, `A(B)`"),
"C18-3": ("Version builds its container in place, bypassing mkOpt", "colliding option declared first, Version second: BoolOpt(\"v verbose\") then Version(\"v version\")"),
"C19-1": ("IsBool only checks that IsBoolFlag exists", "custom type whose IsBoolFlag() returns false"),
"C19-2": ("Clear guarded by ValueSetFromEnv || DefaultValue != \"\"", "custom multi-valued type with pre-loaded content whose IsDefault() is true or String() empty, no env"),
"C19-3": ("fillContainers calls the exported env helper for multi-valued values", "type with Clear() and a token with surrounding whitespace, or a rejecting Set (Clear twice)"),
"C20-1": ("StringsValue/Floats64Value.Clear keep the backing array", "non-empty default slice shared between app builds; one app gets the option on its command line"),
"C20-2": ("doInit re-applies the environment at run time", "EnvVar-backed parameter with the environment changed between declaration and Run"),
"C20-3": ("fsm.apply recycles ParseContexts through a package-level sync.Pool that keeps Opts", "an option matcher whose continuation fails in one app, followed by a parse in another app"),
}
root = "/verif/seeded"
for sid, (what, needs) in M.items():
    d = os.path.join(root, sid)
    if not os.path.isdir(d):
        continue
    p = os.path.join(d, "meta.json")
    old = json.load(open(p)) if os.path.exists(p) else {}
    meta = {
        "id": sid,
        "property": sid.split("-")[0],
        "change": what,
        "needs_to_manifest": needs,
        "author": "independent sub-agent given only the property text and a scratch worktree",
        "confirmed": {
            "commands": [
                "git -C <worktree> apply patch.diff && go build ./... && go test -vet=off -count=1 ./...   -> all packages ok",
                "go test -count=1 ./... in the demo module with the change   -> FAIL",
                "git -C <worktree> apply -R patch.diff; go test -count=1 ./... in the demo module   -> ok",
            ],
            "result": "build=ok suite=ok demo_with=fail demo_without=pass",
        },
        "caught_by": old.get("caught_by", []),
        "checked_with": old.get("checked_with", ""),
    }
    json.dump(meta, open(p, "w"), indent=1)
print("meta written for", len(M))
