#!/bin/bash
# Applies every seeded patch to /repo in turn, runs the quick check of the property it was written
# against, undoes the patch, and records which rules reported it. /repo must be clean.
set -u
export GOFLAGS=-mod=mod GOPROXY=off GOSUMDB=off GOTOOLCHAIN=local GOWORK=off
cd /repo || exit 2
[ -z "$(git status --porcelain)" ] || { echo "/repo not clean"; exit 2; }
TMP=$(mktemp -d); trap 'rm -rf $TMP; git -C /repo checkout -q -- .' EXIT
OUT=/verif/seeded/RESULTS.md
{ echo "# Seeded changes against the property's own quick check"; echo; echo "| change | property | exit | rules that report it |"; echo "|---|---|---|---|"; } > $OUT
missed=0
for d in $(ls -d /verif/seeded/C??-? | sort); do
  id=$(basename $d); prop=${id%-*}
  git apply $d/patch.diff || { echo "$id: patch does not apply"; continue; }
  /verif/bin/mowcheck -repo /repo -verif /verif -prop $prop -tier quick -evidence $TMP/$id.json > $TMP/$id.out 2>&1; rc=$?
  git checkout -q -- .; git clean -fdq
  rules=$(grep -o 'rule=[A-Z]*-[0-9]*' $TMP/$id.out | grep -v KNOWN | sort -u | sed 's/rule=//' | tr '\n' ' ')
  rules=$(grep -A1 '^VIOLATION' $TMP/$id.out | grep -o 'rule=[A-Z]*-[0-9]*' | sort -u | sed 's/rule=//' | tr '\n' ' ')
  echo "| $id | $prop | $rc | $rules |" >> $OUT
  [ $rc -eq 1 ] || missed=$((missed+1))
  python3 - "$d/meta.json" "$rc" $rules <<'PY'
import json,sys
p=sys.argv[1]; m=json.load(open(p)); m["caught_by"]=sys.argv[3:]; m["checked_with"]="./check.sh %s quick -> exit %s"%(m["property"],sys.argv[2]); json.dump(m,open(p,"w"),indent=1)
PY
done
echo >> $OUT; echo "not reported by the property's own check: $missed" >> $OUT
tail -1 $OUT
