#!/bin/bash
# usage: par_run.sh seeded | benign <corpus-dir>
# Runs the corpus through the checker with 8 scratch worktrees of /repo's HEAD in parallel (the patches are never
# applied to /repo itself). seeded: the property's own quick check per change, rewrites seeded/RESULTS.md and
# the caught_by field of each meta.json. benign: all rules per patch; any report that is not a known finding is
# a false alarm.
set -u
export GOFLAGS=-mod=mod GOPROXY=off GOSUMDB=off GOTOOLCHAIN=local GOWORK=off
MODE="$1"; ROOT="${2:-}"
N=14
W=$(mktemp -d /tmp/vw.XXXXXX)
cleanup() { for i in $(seq 1 $N); do git -C /repo worktree remove --force $W/w$i 2>/dev/null; done; git -C /repo worktree prune; rm -rf $W; }
trap cleanup EXIT
for i in $(seq 1 $N); do git -C /repo worktree add --detach $W/w$i HEAD -q || exit 2; done
if [ "$MODE" = seeded ]; then LIST=$(ls -d /verif/seeded/C??-? | sort); else LIST=$(ls $ROOT/*/patch.diff | sort -V); fi
i=0; k=0; for x in $LIST; do i=$((i%N+1)); k=$((k+1)); echo "$k $x" >> $W/list.$i; done; mkdir -p $W/res
worker() {
  wt=$W/w$1
  [ -f $W/list.$1 ] || return
  while read k x; do
    if [ "$MODE" = seeded ]; then
      id=$(basename $x); prop=${id%-*}
      ( cd $wt && git apply $x/patch.diff ) || { echo "$id|$prop|noapply|" >> $W/out.$1; continue; }
      ${MOWCHECK:-/verif/bin/mowcheck} -repo $wt -verif $W -prop $prop -tier quick -evidence $W/ev.$id.json > $W/$id.out 2>&1; rc=$?
      ( cd $wt && git checkout -q -- . && git clean -fdq )
      rules=$(grep -A1 '^VIOLATION' $W/$id.out | grep -o 'rule=[A-Z]*-[0-9]*' | sort -u | sed 's/rule=//' | tr '\n' ' ')
      echo "$id|$prop|$rc|$rules" >> $W/out.$1
    else
      ( cd $wt && git apply $x ) || { echo "ERROR $x patch does not apply" > $W/res/$(printf %04d $k); continue; }
      o=$(${MOWCHECK:-/verif/bin/mowcheck} -repo $wt -rules all 2>&1 | grep -v '^discharged' | grep -v 'VAL-4 *values.setMultivalued:Clear-before-validation' | grep -v 'FSM-8 .*\(env-fallback\|non-consuming\)\]')
      ( cd $wt && git checkout -q -- . && git clean -fdq )
      if [ -n "$o" ]; then { echo "FALSE-ALARM $x"; echo "$o" | cut -c1-300 | sed 's/^/    /'; } > $W/res/$(printf %04d $k); else echo "quiet       $x" > $W/res/$(printf %04d $k); fi
    fi
  done < $W/list.$1
}
mkdir -p $W/evidence/replay; cp /verif/KNOWN_FINDINGS.txt $W/
for i in $(seq 1 $N); do worker $i & done; wait
if [ "$MODE" = seeded ]; then
  OUT=/verif/seeded/RESULTS.md
  { echo "# Seeded changes against the property's own quick check"; echo; echo "| change | property | exit | rules that report it |"; echo "|---|---|---|---|"; } > $OUT
  missed=0
  cat $W/out.* | sort | while IFS='|' read id prop rc rules; do
    echo "| $id | $prop | $rc | $rules |" >> $OUT
    python3 - "/verif/seeded/$id/meta.json" "$rc" $rules <<'PY'
import json,sys,os
p=sys.argv[1]
if os.path.exists(p):
    m=json.load(open(p)); m["caught_by"]=sys.argv[3:]; m["checked_with"]="./check.sh %s quick -> exit %s"%(m["property"],sys.argv[2]); json.dump(m,open(p,"w"),indent=1)
PY
  done
  missed=$(cat $W/out.* | awk -F'|' '$3!=1' | wc -l)
  echo >> $OUT; echo "not reported by the property's own check: $missed" >> $OUT
  tail -1 $OUT
else
  cat $W/res/*
  echo "false alarms: $(cat $W/res/* | grep -c '^FALSE-ALARM\|^ERROR')"
fi
