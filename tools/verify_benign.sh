#!/bin/bash
# usage: verify_benign.sh <scratch worktree> <patch.diff>  -- build + unedited suite with the patch applied
set -u
export GOFLAGS=-mod=mod GOPROXY=off GOSUMDB=off GOTOOLCHAIN=local GOWORK=off
WT="$1"; P="$2"
cd "$WT" || exit 2
git reset -q; git checkout -q -- . ; git clean -fdq
git apply "$P" || { echo "RESULT $P patch-does-not-apply"; exit 2; }
if git status --porcelain | grep -q '_test.go$'; then tt=yes; else tt=no; fi
b=fail; go build ./... >/dev/null 2>&1 && b=ok
s=fail; go test -mod=mod -vet=off -count=1 ./... >/dev/null 2>&1 && s=ok
git checkout -q -- . ; git clean -fdq
echo "RESULT $P build=$b suite=$s tests_touched=$tt"
