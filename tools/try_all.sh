#!/bin/bash
# runs try_patch.sh on every seeded patch under the given root (default /verif/seeded), prints caught/missed summary
ROOT="${1:-/verif/seeded}"
for p in $(ls $ROOT/*/patch.diff $ROOT/*/*/patch.diff 2>/dev/null | sort); do
  out=$(/verif/tools/try_patch.sh "$p" 2>&1)
  n=$(echo "$out" | grep -c -E '^(violated|undecided|ERROR|CHECK-ERROR)')
  if [ "$n" -gt 0 ]; then echo "CAUGHT $p :: $(echo "$out" | grep -E '^(violated|undecided)' | awk '{print $2}' | sort -u | tr '\n' ' ')"; else echo "MISSED $p :: $out"; fi
done
