#!/bin/bash
# usage: try_patch.sh <patch.diff>   -- applies the patch to /repo, lists every non-discharged obligation, reverts.
set -u
P="$1"
export GOFLAGS=-mod=mod GOPROXY=off GOSUMDB=off GOTOOLCHAIN=local GOWORK=off
cd /repo || exit 2
if [ -n "$(git status --porcelain)" ]; then echo "ERROR /repo not clean"; exit 2; fi
git apply "$P" || { echo "ERROR patch does not apply"; exit 2; }
/verif/bin/mowcheck -repo /repo -rules all | grep -v '^discharged' | grep -v 'VAL-4 *values.setMultivalued:Clear-before-validation' | grep -v 'FSM-8 .*\(env-fallback\|non-consuming\)\]'
git checkout -- . ; git clean -fdq; git status --porcelain
