#!/usr/bin/env python3
"""mutation.py: measures the checker against the population "small changes that still compile and pass
mow.cli's own test suite". bin/mutgen lists syntactic mutants; each is applied in a scratch worktree of
/repo's HEAD (never in /repo), built and run through the unedited suite; for the survivors the checker
is run with all rules. Output: /verif/mutation/results.jsonl (one line per mutant) and a summary.
The suite is used only to select the population; no property is decided by it."""
import json, os, subprocess, sys, tempfile, queue, concurrent.futures as cf, re
env = dict(os.environ, GOFLAGS="-mod=mod", GOPROXY="off", GOSUMDB="off", GOTOOLCHAIN="local", GOWORK="off")
OUT = "/verif/mutation"
os.makedirs(OUT, exist_ok=True)
gen = ["/verif/bin/mutgen", "/repo"] + (["typed"] if os.environ.get("TYPED") else ["guard"] if os.environ.get("GUARD") else [])
muts = [json.loads(l) for l in subprocess.run(gen, capture_output=True, text=True, env=env).stdout.splitlines()]
if len(sys.argv) > 1:
    muts = [m for m in muts if re.search(sys.argv[1], m["file"])]
if len(sys.argv) > 2:
    muts = [m for m in muts if re.search(sys.argv[2], m["desc"])]
RES = OUT + ("/results.typed.jsonl" if os.environ.get("TYPED") else "/results.guard.jsonl" if os.environ.get("GUARD") else "/results.jsonl" if len(sys.argv) <= 2 else "/results.extra.jsonl")
props = {}
for l in subprocess.run([os.environ.get("MOWCHECK", "/verif/bin/mowcheck"), "-list"], capture_output=True, text=True).stdout.splitlines():
    m = re.match(r"(\S+)\s+floor=\d+\s+props=(\S+)", l)
    if m: props[m.group(1)] = m.group(2).split(",")
base = json.loads(subprocess.run([os.environ.get("MOWCHECK", "/verif/bin/mowcheck"), "-repo", "/repo", "-rules", "all", "-json"], capture_output=True, text=True, env=env).stdout)
basebad = {(o["rule"], o["construct"]) for o in base if o["status"] != "discharged"}
W = tempfile.mkdtemp(prefix="vm.", dir="/tmp")
N = 14
q = queue.Queue()
for i in range(N):
    subprocess.run(["git", "-C", "/repo", "worktree", "add", "--detach", f"{W}/w{i}", "HEAD", "-q"], check=True)
    q.put(f"{W}/w{i}")
def run(m):
    wt = q.get()
    try:
        path = os.path.join(wt, m["file"])
        src = open(path, "rb").read()
        open(path, "wb").write(src[:m["start"]] + m["repl"].encode() + src[m["end"]:])
        res = dict(m)
        try:
            b = subprocess.run(["go", "build", "./..."], cwd=wt, env=env, capture_output=True, timeout=120)
            if b.returncode != 0:
                res["outcome"] = "nobuild"; return res
            try:
                t = subprocess.run(["go", "test", "-mod=mod", "-vet=off", "-count=1", "-timeout", "60s", "./..."], cwd=wt, env=env, capture_output=True, timeout=150)
                if t.returncode != 0:
                    res["outcome"] = "killed"; return res
            except subprocess.TimeoutExpired:
                res["outcome"] = "killed(timeout)"; return res
            res["outcome"] = "survived"
            r = subprocess.run([os.environ.get("MOWCHECK", "/verif/bin/mowcheck"), "-repo", wt, "-rules", "all", "-json"], capture_output=True, text=True, env=env)
            try:
                obs = json.loads(r.stdout)
            except Exception:
                res["checker"] = "ERR " + (r.stdout + r.stderr)[-300:]; return res
            fired, ps = [], set()
            for o in obs:
                if o["status"] == "discharged" or (o["rule"], o["construct"]) in basebad: continue
                fired.append(o["rule"] + " " + o["construct"])
                for p in (o.get("only_for") or props.get(o["rule"], [])): ps.add(p)
            res["fired"] = sorted(fired)[:12]; res["props"] = sorted(ps)
            return res
        finally:
            open(path, "wb").write(src)
    finally:
        q.put(wt)
try:
    with cf.ThreadPoolExecutor(N) as ex, open(RES, "w") as out:
        for i, res in enumerate(ex.map(run, muts)):
            out.write(json.dumps(res) + "\n"); out.flush()
            if i % 100 == 0: print(i, "/", len(muts), file=sys.stderr)
finally:
    for i in range(N): subprocess.run(["git", "-C", "/repo", "worktree", "remove", "--force", f"{W}/w{i}"])
    subprocess.run(["git", "-C", "/repo", "worktree", "prune"]); subprocess.run(["rm", "-rf", W])
rs = [json.loads(l) for l in open(RES)]
c = {}
for r in rs: c[r["outcome"]] = c.get(r["outcome"], 0) + 1
sv = [r for r in rs if r["outcome"] == "survived"]
print("mutants", len(rs), c, "survivors reported by the checker:", sum(1 for r in sv if r.get("fired")), "of", len(sv))
