#!/usr/bin/env python3
"""probe.py: ad-hoc textual mutations run through all rules via -overlay (nothing is written to /repo).
usage: probe.py file.py   where file.py defines PROBES = [(name, relpath, old, new), ...]"""
import json, os, subprocess, sys, tempfile, concurrent.futures as cf
ns = {}
exec(open(sys.argv[1]).read(), ns)
env = dict(os.environ, GOFLAGS="-mod=mod", GOPROXY="off", GOSUMDB="off", GOTOOLCHAIN="local", GOWORK="off")
def run(p):
    name, rel, old, new = p
    path = "/repo/" + rel
    s = open(path).read()
    if s.count(old) != 1:
        return name, "TARGET NOT UNIQUE/FOUND (%d)" % s.count(old)
    with tempfile.NamedTemporaryFile("w", suffix=".json", delete=False) as f:
        json.dump({path: s.replace(old, new)}, f)
    r = subprocess.run(["/verif/bin/mowcheck", "-repo", "/repo", "-overlay", f.name, "-rules", "all"], capture_output=True, text=True, env=env)
    os.unlink(f.name)
    lines = [l for l in (r.stdout + r.stderr).splitlines() if not l.startswith("discharged") and "Clear-before-validation" not in l and "env-fallback]" not in l and "non-consuming]" not in l]
    return name, "\n".join("    " + l[:230] for l in lines) or "    -- NOTHING REPORTED --"
with cf.ThreadPoolExecutor(8) as ex:
    for name, out in ex.map(run, ns["PROBES"]):
        print("==", name); print(out)
