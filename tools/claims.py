# Claims table, exec'd by gen_manifest.py.  Extend as rules are built.
TECH = "custom static analysis over go/ssa + go/types (dominance, must-pass-through, who-may-write, sibling agreement)"

claim("C20", "P",
      "Static effect analysis of the whole production closure: no function but a package initialiser writes a package-level variable, "
      "package variables hold no shared mutable reference, no goroutine/channel/select or escape hatch (unsafe/reflect/cgo) exists, the environment "
      "is read at one declaration-time site, every map iteration has only per-key effects, sorting is deterministic. These are the premises of the "
      "independence/determinism argument in DESIGN.md section 8 (C20); the check decides those premises for every function and site, not a sampled schedule.",
      "Trusted: Go type checker, go/ssa, the semantics of the listed stdlib calls. User callbacks and custom flag.Value types are opaque. "
      "Interleaving of writes to os.Stderr and a program that calls Setenv concurrently are outside the claim.",
      TECH + "; whole-program effect rules GLOB-1..6, DECL-7")
