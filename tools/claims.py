# Claims table, exec'd by gen_manifest.py.
TECH = "custom static analysis over go/ssa + go/types (x/tools v0.29.0): "
TRUST = ("Trusted: Go type checker, go/ssa construction, semantics of defer/recover/range/append/copy and of the stdlib calls named in the rules. "
         "User callbacks and custom flag.Value types are opaque. Decides the structural clauses listed in DESIGN.md section 8 for this property, not a verdict on any concrete input; ")

def N(what): return ("Necessary conditions, decided for every instance and every CFG path of the production closure (no sampling, no input bound): " + what +
                     " Breaking any one of them breaks the property; all of them holding does not establish it (kind N in DESIGN.md section 8).")
def P(what): return ("Premises of the written argument in DESIGN.md section 8, each discharged for every instance and path on every run: " + what +
                     " With the trusted base these premises yield the property (kind P); the residue is listed there.")

claim("C01", "N", N("operators are wired as regular-expression operators (shortcut start->end for [..], end->start for ..., alternatives between a common start and end, concatenation moves every transition, groups non-empty); "
      "shortcut elimination inherits all transitions and terminal-ness and its fixpoint loop has a measure; the backtracker offers every transition, records and tries every match and says no only after exhaustion; "
      "the argument vector is never written; the accept test is made on the vector the matchers see; every matcher obeys the options-ended flag; foreign option occurrences are skipped over exactly the tokens an own one consumes."),
      TRUST + "equality of the accepted set with L(spec) is not decided.",
      TECH + "operator-wiring and must-pass-through rules on parser/fsm (PAR-5/6, FSM-1/2/3/7, MAT-1/3/4/7/11)")
claim("C02", "N", N("fresh context per transition, handed to the recursive call, merged only on its success and appended in order; values reach user variables only through one filler that runs after the whole match (Clear once, Set each in order, error returned at once); "
      "every recorded string is a sub-slice of a command-line token or the literal \"true\"; a positional binds args[0] and returns args[1:]; only the first `--` is dropped; the vector is immutable; the in-token scan continues only past foreign flags."),
      TRUST + "offsets inside folded tokens and the choice among several derivations are not decided.",
      TECH + "context-isolation, provenance and who-may-call rules (FSM-4/5/6/7, MAT-1/2/7, VAL-1/5/7)")
claim("C03", "N", N("scanner: position grows only by +1 from a value known < len, every byte read is behind such a guard on every path (with jump-threading of the closed-flag), every cycle advances; "
      "error positions come from the scanner position, a token or len(spec); parser: atom consumes on every normal return, back() only before a panic, all panics are strings converted by the recover wrapper, recursion only after a consumed opener; "
      "graph walks check-then-mark; the simplify fixpoint loop has a measure; matcher loops add a positive step; no panicking type assertion; every Cmd literal creates its maps; the scanner and the parser error positions refer to the same Spec string (CMD-10); every read args[e] / re-slice args[e:] of the option matcher is implied by the dominating length tests in linear arithmetic (MAT-12 bounds); recursion progress per matcher (FSM-8)."),
      TRUST + "FSM-8 is violated by three constructs (recorded finding D3: env-fallback of opt/options, spec-level `--`); index safety of the option matcher's arithmetic inside one token (string slicing) and stack depth on progressing recursion are not decided.",
      TECH + "guard-dominance bounds analysis of the scanner, loop-progress and typestate rules (LEX-1/2/5, PAR-2/5/7, FSM-1/2/8, MAT-6/12, GLOB-6, CMD-10/12)")
claim("C04", "N", N("the level split counts tokens up to the first alias of a direct sub-command; the level validates exactly args[:n] with its own automaton, compiled from its own declarations; a child is entered only after doInit and isAlias on that child with exactly the tokens after the alias; "
      "the hook chain is started once, at the leaf; leftovers take the rejection funnel; the version flag counts only in first position."),
      TRUST + "each level's own matching is C01/C02.",
      TECH + "routing typestate with linear vector-view arithmetic (CMD-1/5/6/7/8/10, FLOW-1)")
claim("C05", "P", P("the step wiring (Before.Error = outer After, After.Success = After.Error = outer After, Action.Success = Action.Error = own After, chaining from the outer Before, descent hands (Before, After) down, two Do-less root steps); "
      "Step.Run and callDo evaluated symbolically for every combination of {Success set, value nil/ExitCode/other, Exiter set, Do nil, recovered, Error set}; Exit panics with ExitCode; every step carries the exiter; one start; Run has no recover."),
      TRUST + "behaviour if the exit indirection returns (only possible in the library's own tests) is outside.",
      TECH + "wiring rules plus exhaustive scenario evaluation of the two flow functions over their CFG (FLOW-1..5, CMD-1/2/8)")
claim("C06", "N", N("default stored by the constructor and captured before the environment is applied; env list tried in Fields order, empty skipped, first valid wins, multi-valued Clear/Split/TrimSpace/Set; os.Getenv has one caller reachable only from the two registration functions; "
      "command-line values: Clear once then Set in order, only for containers the command line mentioned; all 30 literals and 28 short forms carry Name/Desc/EnvVar/HideValue/SetByUser/value(); XOpt/XArg value() pairs agree; Clear stores nil."),
      TRUST + "VAL-4 is violated at values.setMultivalued (recorded finding D4: an invalid list wipes a multi-valued default); values on concrete inputs are not decided.",
      TECH + "sibling-agreement over the declaration family, ordering and who-may-call rules (DECL-1/2/3/6/7, VAL-1/2/3/4/6/7, FSM-5/6)")
claim("C07", "P", P("every error return of the dispatch function is preceded, on every path, by the error text and the usage on stdErr and then by onError(err) on the rejecting command; no Step.Run precedes it; Run/Cli.parse return the result unchanged and install no recover; "
      "a level's own tokens are validated before any descent into a child (CMD-6); onError evaluated for 3 error classes x 3 policies; exiter/os.Exit used nowhere else; doInit errors panic; sub-commands inherit ErrorHandling; conversion errors abort the fill and are the automaton's error; output goes to stdErr/stdOut only."),
      TRUST + "that every input that should be rejected reaches a rejection site is C01/C13.",
      TECH + "must-pass-through funnel rule and scenario evaluation of the policy switch (CMD-1/2/6/8/9/11/12, FSM-5/6)")
claim("C08", "N", N("no iteration of the scanner advances without emitting a token (blank cases excepted); emitted kinds = declared kinds = kinds the parser consumes; first-set(atom) = canAtom; `=<..>` only after an option; token position = iteration start, text = input slice from there; "
      "only declared names compile, looked up in the right index with the command's own index passed on; no option after `--`; exactly one back() before a panic about a consumed token; ParseError positions by construction <= len; groups non-empty; doInit errors panic; the scanner gets Spec itself."),
      TRUST + "equivalence of scanner+parser with the documented grammar (the 'iff well-formed' direction) is not decided.",
      TECH + "table-agreement, consume=>emit path rule and typestate rules on lexer/parser (LEX-3/4/5/6, PAR-1..6, CMD-9/10)")
claim("C09", "N", N("only the first `--` met while options are not ended is dropped, it sets the flag and exactly one token goes; the flag is copied into every fresh context and every matcher obeys it; after it a positional records the token verbatim; "
      "acceptance at a terminal state is tested on the stripped vector and every true/false verdict of apply comes after the strip; a spec `--` sets the same flag unconditionally and no option may follow it in the spec; the help scan stops at `--` unconditionally."),
      TRUST + "the insertion-invariance relation on concrete inputs is not decided.",
      TECH + "guard and dominance rules on fsm.apply and the matchers (FSM-4/7, MAT-2/3, PAR-4, CMD-4)")
claim("C10", "N", N("all names of an option reach one container through one index that every matcher receives; one-letter names are the short ones; long and short matchers apply the same guards per form (own option only, non-empty '=' value, separate value not starting with '-', \"true\" for IsBool of the looked-up option); "
      "a foreign occurrence is classified by the same form conditions as an own one and skipped over as many tokens; an own match reports the tokens it dropped; token surgery never writes the shared vector; env-exclusion depends on recorded values, not on token counts."),
      TRUST + "weakest claim of the set: equality of outcomes across re-spellings and the residue arithmetic of folded tokens are not decided.",
      TECH + "sibling-guard agreement and linear token-count arithmetic over the matcher helpers (DECL-4, MAT-1/6/7/8, PAR-3, VAL-5)")
claim("C11", "N", N("the skipped-over foreign occurrence spans exactly the tokens an own occurrence of that form consumes (including the two-token form), decided by condition-set pairing of foreign and own paths; the scan loops progress; the group matcher retries until nothing matches; every match is explored."),
      TRUST + "equality of outcomes across swaps on concrete inputs is not decided.",
      TECH + "linear token-count arithmetic and loop-progress rules (MAT-7/11/12, FSM-3)")
claim("C12", "N", N("every non-matching exit of the option matcher yields the env flag with the vector unchanged; occurrence matchers never read the env flag; the group matcher excludes an env-backed option only when len(c.Opts[o]) is unchanged across the match; "
      "the flag is the result of the env application and is cleared once the command line supplied values; EnvVar reaches the container on every declaration path."),
      TRUST + "FSM-8 is violated by the two env-fallback constructs (recorded finding D3); set inclusion on concrete inputs is not decided.",
      TECH + "exit-classification and control-dependence rules on the option matchers (MAT-4/5/6, DECL-1/6, FSM-4/6/8)")
claim("C13", "P", P("each built-in Set calls the right strconv function on the parameter itself with the right constants, stores a conversion of result 0 only on the err==nil edge and returns the error as is; string types store the parameter unchanged; "
      "every route to a typed variable is Set (filler, env application); a Set error aborts the fill and goes through the rejection funnel; recorded strings are verbatim token slices; single-valued env values are passed to Set untrimmed."),
      TRUST + "strconv itself; 64-bit target for int(i).",
      TECH + "per-type strconv table check with value provenance (VAL-1/2/3/7, FSM-5/6, MAT-2, CMD-1)")
claim("C14", "P", P("the help scan runs first on the level's remaining arguments; State.Parse and Step.Run are reachable only when it found nothing; the help branch prints the long help, signals the sentinel, returns nil; the scan returns the index of -h/--help and -1 at the first `--` unconditionally, and every token before it is compared with both names; "
      "the version test comes first, reads only args[0] under a length guard against the declared option's names, presence is a nil test of the record Version() creates; sentinels: exit 0 or return, never 2, never panic; usage line = full path."),
      TRUST + "the interaction with an ancestor's own `--` is excluded by the property.",
      TECH + "dominance rules on the dispatch function and scenario evaluation of the policy switch (CMD-2/3/4/5/6/11/12, HELP-1/3)")
claim("C15", "P", P("the only store through a SetByUser pointer is the filler's, of constant true, with no guard but the nil test, for keys of the merged maps; keys enter those maps only by appending a string derived from the command line; "
      "only the accepting branch's maps reach the filler; every declaration path stores the user's pointer."),
      TRUST + "'given => true' rests on C02's residue (an occurrence on the accepting path is recorded under its container).",
      TECH + "who-may-write and provenance rules (FSM-4/6, MAT-2, DECL-1)")
claim("C16", "P", P("Spec is written only in doInit and only when empty: \"[OPTIONS] \" iff an option is declared, then each argument name + blank in list order (the list is appended to only by the registration function); "
      "the scanner, the parser Params and the usage line all read that Spec; there is one compile path."),
      TRUST + "nothing beyond C01 for the shared compile path.",
      TECH + "who-may-write and value-shape rules on doInit (CMD-10, DECL-5)")
claim("C17", "N", N("every declared argument, option and non-hidden command is visited without break; rows carry description, env list and default from the same container; all aliases joined; hidden commands skipped for no other reason; "
      "long description only under longDesc && len(LongDesc)>0; usage line = parents+name, trimmed Spec, COMMAND marker iff len(commands)>0; helpers evaluated symbolically (first short and first long name, default shown iff not hidden and non-empty, every env variable); default captured before env; long help only on request."),
      TRUST + "layout and exact text are not decided.",
      TECH + "row-provenance rules and scenario evaluation of the name helper (HELP-1/2/3, DECL-1/6, CMD-11, VAL-5)")
claim("C18", "P", P("one function writes each index; the option insert is inside a loop over all names, each dominated by the not-found edge of a lookup of the same key whose found edge panics; the same pointer is listed and indexed; '-' iff length 1 (evaluated for lengths 1,2,3,7); "
      "the argument insert is dominated by not-found and by a true validator (no lexer error, exactly one token, kind Arg), failing edges panic; all 46 public entry points reach one of the two registration functions."),
      TRUST + "map semantics.",
      TECH + "who-may-write, duplicate-check-before-insert dominance and sibling agreement (DECL-1/2/4/5, LEX-6)")
claim("C19", "N", N("Set/Clear are invoked only by the filler and the env application; Clear exactly once before the values with no guard but the MultiValued assertion; Set for every value in order; a Set error is returned at once and goes through the funnel; "
      "IsBool is the result of IsBoolFlag(); DefaultValue uses IsDefault()'s result; a flag-like value records \"true\"; Var hands the user's value through unchanged."),
      TRUST + "VAL-4 applies to custom multi-valued types too (recorded finding D4); the call log on concrete inputs is not decided.",
      TECH + "who-may-call and protocol-order rules (FSM-5/6, VAL-3/4/5, MAT-1/8, DECL-1, CMD-1)")
claim("C20", "P", P("no function but a package initialiser writes a package-level variable; package variables hold no shared mutable reference; singleton matchers are constants; no goroutine/channel/select/unsafe/reflect; imports within a reviewed set; "
      "the environment is read at one declaration-time site; every map iteration has only per-key effects; sorting is deterministic; Clear drops the backing array (no aliasing of a shared default slice)."),
      TRUST + "interleaving of writes to os.Stderr and a program that calls Setenv concurrently are outside.",
      TECH + "whole-program effect rules (GLOB-1..6, DECL-7, VAL-7)")
