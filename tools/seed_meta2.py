#!/usr/bin/env python3
"""Writes /verif/seeded/<id>/meta.json (static part) for the second, held-out round (ids <prop>-4..7).
caught_by is filled by run_seeded.sh."""
import json, os
M = {
"C01-4": ("fsm.apply folds the `--` strip and the terminal test into one if/else-if", "a trailing `--` at a terminal state: spec `SRC... DST`, argv `x y --`"),
"C01-5": ("matchShortOpt merges the two foreign valued-option returns into (false,2,args)", "attached value of a foreign option before an own one: spec `-a -o X`, argv `-ov -a x`"),
"C01-6": ("dead-end memo table in fsm.apply keyed on (state, len(args)) without RejectOptions", "optional spec-level `--`: spec `A [-- ] B C`, argv `a b -c`"),
"C02-4": ("matchLongOpt hoists the foreign check; non-bool foreign options always skip 2", "`--name=value` of a foreign option followed by another token: `[-f] [--name] [ARG...]`, argv `--name=x -- -f`"),
"C02-5": ("fsm.apply reuses one ParseContext across sibling transitions unless the match consumed tokens", "folded token rewrite or env-satisfied option: `[-v] [-I] SRC`, argv `-vIinc main.c`"),
"C02-6": ("strings.TrimSpace moved from the env helper into the multi-valued Set methods", "multi-valued command-line value with surrounding blanks"),
"C02-7": ("fsm.apply drops the !RejectOptions guard of the `--` strip", "a second `--` after options ended: `[-v] CMD...`, argv `-- git checkout -- -v`"),
"C03-4": ("simplifySelf continues the scan after removing an already-expanded shortcut", "nested optional repetition: spec `[[X]...]...` (slice bounds panic at compile time)"),
"C03-5": ("options.try excludes an env-backed option only when it has no value at all", "env variable set, option also on the command line: `[OPTIONS] X`, argv `-a v x` (hang)"),
"C03-6": ("lexer accepts U+2026 with an off-by-one bound check", "spec ending in the bytes E2 80 (index out of range)"),
"C04-4": ("version flag recognised anywhere before `--`", "a sub-command option sharing a name with the version flag: `app run -v job`"),
"C04-5": ("getOptsAndArgs scans sub-commands outermost instead of tokens", "same sub-command name at two levels: `app config get color`"),
"C04-6": ("descent passes args[1:] instead of rest[1:]", "parent consumed tokens before the sub-command: `app -v run job`"),
"C05-4": ("newStep helper call mixes up Success/Error of the Action step", "failing Action with an After on the same command"),
"C05-5": ("callDo keeps an earlier ExitCode when a later hook panics with another value", "Exit(3) in an Action followed by a panicking After"),
"C05-6": ("Run wraps the exiter so that Exit(0) returns under ContinueOnError", "ContinueOnError and cli.Exit(0) inside a hook"),
"C06-4": ("IntValue/IntsValue.Set parse with base 0", "values such as 010, 0x10, 1_000 on the command line or in the environment"),
"C06-5": ("SetFromEnv splits on commas and blanks; setMultivalued no longer trims", "multi-valued env value with inner blanks or empty elements"),
"C06-6": ("StringsValue.Clear keeps the backing array", "two parameters declared with the same default slice"),
"C07-4": ("fillContainers' value loop keeps going after a failed Set (named result)", "repeatable typed option with a bad value that is not last: `-n x -n 3`"),
"C07-5": ("iterative descent prints the root's help on a rejection below the root", "rejection at depth >= 1"),
"C07-6": ("ErrorHandling resolved by walking up parents past ContinueOnError", "sub-command explicitly set to ContinueOnError under a different root policy"),
"C08-4": ("found(OptValue) moved to the common tail of atom", "`=<x>` after a non-option: `SRC=<path>`"),
"C08-5": ("lexer emits OptSeq and continues before the glued-dash check", "folded options followed by a dash: `-ab-c`"),
"C08-6": ("doInit tokenizes the trimmed spec, parser errors refer to the untrimmed one", "leading blanks plus a parser-level error"),
"C09-4": ("terminal test only when args were empty on entry", "trailing `--`: spec `X`, argv `a --`"),
"C09-5": ("one ParseContext allocated before the transition loop; replacement loses RejectOptions", "`--` then dash-prefixed positionals with several candidate transitions: `[-R] SRC... DST`, argv `-- -a -b`"),
"C09-6": ("arg.Match refuses `--` through a helper that ignores the options-ended flag", "a second `--` as data: `[-t] CMD [ARG...]`, argv `-t -- git log -- file`"),
"C10-4": ("matchShortOpt rewrites the folded token in the shared args slice", "folded spelling with backtracking: `(-a SRC) | (-b -a)`, argv `-ba`"),
"C10-5": ("matchLongOpt skip count derived from the option type only", "`--out=v -x` with spec `[-x] [-o]`"),
"C10-6": ("options.try decides env-only match by len(nargs) == len(args)", "env-backed flag inside a folded token: `-vv`"),
"C11-4": ("matchLongOpt hoists the foreign check, dropping the `--name=value` case", "`--out=x -f src` with spec `-f --out SRC`"),
"C11-5": ("matchShortOpt fast path skips a cluster that mentions none of the option's letters", "cluster ending in a valued option with separate value: `-bd X -a`"),
"C11-6": ("a folded spec group gets an index of its own members only", "`[-vf] [-o] SRC`, argv `-v -o x -f src`"),
"C12-4": ("options.try compares len(nargs) with len(args)", "env-backed flag in a folded token followed by itself: `-ab -a`"),
"C12-5": ("ParseContext.Fork shares ExcludedOpts with the parent", "`[OPTIONS] SRC [OPTIONS]` with an env-backed option after the positional"),
"C12-6": ("opt.Match drops the `--` case and returns false on consumed == 0", "`--` reached after skipping other options: `-t [-v] SRC`, argv `-v -- -x`, env set"),
"C13-4": ("fillContainers skips empty tokens", "`-n \"\"` for an int option"),
"C13-5": ("SetFromEnv trims the environment value", "env value with surrounding blanks for a typed option"),
"C13-6": ("BoolValue.Set uses a case-insensitive switch instead of ParseBool", "`-f=tRue`"),
"C14-4": ("onError folded into one switch: PanicOnError panics for help/version", "PanicOnError and -h"),
"C14-5": ("own-level help decided by nargsLen == len(args)", "help token before a sub-command name: `app -h sub`"),
"C14-6": ("help descent looks the child up by primary name only", "help after a secondary alias: `app rm -h`"),
"C15-4": ("options.try restores c.Opts[o] = before, creating empty entries", "group with an absent option and another present"),
"C15-5": ("SetByUser bookkeeping deferred into closures capturing the range variable", "two or more containers supplied"),
"C15-6": ("argContainer helper never stores SetByUser", "Float64Arg/Floats64Arg/VarArg with SetByUser"),
"C16-4": ("default spec joined without a blank after [OPTIONS]", "usage line of a spec-less command with options and arguments"),
"C16-5": ("env-backed arguments become optional in the default spec", "spec-less command, env variable set, argument omitted"),
"C16-6": ("multi-valued arguments become NAME... in the default spec", "spec-less command with a StringsArg and several values"),
"C17-4": ("formatOptNamesForHelp folds the short/long tests into if/else-if", "option with two short names: `a b alpha`"),
"C17-5": ("StringValue.IsDefault trims before comparing", "whitespace-only default"),
"C17-6": ("visible sub-command list built on c.commands[:0]", "hidden sub-command between visible ones, help printed twice"),
"C18-4": ("duplicate check skipped when the name lists are textually equal", "two options declared with the identical name list"),
"C18-5": ("validArgName delegates to a helper that accepts digits/underscore first", "argument name `1ARG`"),
"C18-6": ("Version registers its container directly, bypassing mkOpt", "option `v verbose` declared before Version(`v version`)"),
"C19-4": ("IsBool reduced to the interface assertion", "custom type with IsBoolFlag() == false"),
"C19-5": ("Clear guarded by DefaultValue != \"\"", "multi-valued custom type whose IsDefault() is true with content"),
"C19-6": ("Parse shadows err when wrapping the argument filler's error", "custom VarArg whose Set fails"),
"C20-4": ("StringsValue.Clear keeps the backing array", "two apps built from the same default slice"),
"C20-5": ("doInit re-reads the environment at Run time", "variable set between declaration and Run"),
"C20-6": ("root ParseContext recycled through a package-level sync.Pool", "two apps parsed one after the other or concurrently"),
}
for k, (change, needs) in M.items():
    d = "/verif/seeded/" + k
    if not os.path.isdir(d):
        print("missing", k); continue
    p = d + "/meta.json"
    old = {}
    if os.path.exists(p):
        old = json.load(open(p))
    m = {
        "id": k, "property": k.split("-")[0], "change": change, "needs_to_manifest": needs, "round": 2,
        "author": "independent sub-agent given only the property text and a scratch worktree (second, held-out round)",
        "confirmed": {"commands": [
            "tools/verify_seed.sh <worktree> <dir>: git apply patch.diff && go build ./... && go test -mod=mod -vet=off -count=1 ./...   -> all packages ok",
            "go test -count=1 ./... in a demo module (replace => worktree) with the change   -> FAIL",
            "after git checkout -- . : go test -count=1 ./... in the demo module   -> ok"],
            "result": "build=ok suite=ok demo_with=fail demo_without=pass"},
        "caught_by": old.get("caught_by", []), "checked_with": old.get("checked_with", ""),
        "first_run": "missed" if k in ("C02-6","C03-4","C06-4","C08-5","C11-5","C12-5","C14-5","C14-6","C17-5","C17-6") else "reported",
    }
    json.dump(m, open(p, "w"), indent=1)
print(len(M))
