#!/usr/bin/env python3
"""Regenerates /verif/MANIFEST.json from the table below (kept in one place so
the manifest, DESIGN.md section 8 and the rule->property map stay in step)."""
import json, os, sys

HERE = os.path.dirname(os.path.dirname(os.path.abspath(__file__)))

# id -> (claimed?, kind, text, note)   kind: P = premises of a written argument, N = necessary conditions
CLAIMS = {}

def claim(pid, kind, text, note, technique):
    CLAIMS[pid] = dict(kind=kind, text=text, note=note, technique=technique)

NOT_YET = {}

exec(open(os.path.join(HERE, "tools", "claims.py")).read())

# the rule list in each technique string comes from the checker's own catalogue (bin/mowcheck -list), so it cannot drift
import re, subprocess
def compact(ids):
    fam = {}
    for i in ids:
        f, n = i.split("-")
        fam.setdefault(f, []).append(int(n))
    return ", ".join(f + "-" + "/".join(str(n) for n in sorted(ns)) for f, ns in sorted(fam.items()))
by_prop = {}
lst = subprocess.run([os.path.join(HERE, "bin", "mowcheck"), "-list"], capture_output=True, text=True).stdout
for l in lst.splitlines():
    mm = re.match(r"(\S+)\s+floor=\d+\s+props=(\S+)", l)
    if mm:
        for q in mm.group(2).split(","):
            by_prop.setdefault(q, []).append(mm.group(1))
if not by_prop:
    sys.exit("bin/mowcheck -list gave nothing: build the checker first")
for pid, c in CLAIMS.items():
    c["technique"] = re.sub(r" \([A-Z]+-[^()]*\)$", "", c["technique"]) + " (" + compact(by_prop[pid]) + "; obligation-level scoping in checker/internal/rules/scope.go)"

props = [json.loads(l) for l in open(os.path.join(HERE, "properties.jsonl"))]
checks, na = [], []
for p in props:
    pid = p["id"]
    if pid in CLAIMS:
        c = CLAIMS[pid]
        checks.append({
            "property_id": pid,
            "quick_cmd": f"./check.sh {pid} quick",
            "thorough_cmd": f"./check.sh {pid} thorough",
            "evidence_file": f"/verif/evidence/{pid}.json",
            "replay_cmd_template": "cat {path}",
            "engine": "mowcheck",
            "level_claimed": {"category": "other", "text": c["text"], "design_ref": f"DESIGN.md section 8, {pid}"},
            "level_note": c["note"],
            "technique": c["technique"],
        })
    else:
        na.append({"property_id": pid, "reason": NOT_YET.get(pid, "no static rule built yet for this property")})

m = {
    "version": 1,
    "setup_cmd": "cd /verif/checker && GOFLAGS=-mod=mod GOPROXY=off GOSUMDB=off GOTOOLCHAIN=local GOWORK=off go build -o /verif/bin/mowcheck ./cmd/mowcheck",
    "hooks": {
        "guard": "verif",
        "enable": "no hooks: the checker reads /repo's source (go/packages + go/ssa); nothing in mow.cli is instrumented",
        "baseline_off_cmd": "cd /repo && go test -mod=mod -vet=off -count=1 ./...",
        "source_commits": [],
        "add_only": True,
    },
    "engines": [{
        "name": "mowcheck",
        "path": "/verif/checker",
        "serves_properties": sorted(CLAIMS),
        "kind_free_text": "repository-specific static analyser: go/packages + go/types + go/ssa (x/tools v0.29.0); rule catalogue in DESIGN.md section 7; negative controls by in-memory overlay in the thorough tier",
    }],
    "checks": checks,
    "not_applicable": na,
    "notes": "All claims are level 'other': static shape rules that are premises of a written argument (kind P) or necessary conditions (kind N) of the behavioural property; DESIGN.md sections 8 and 9 say per property what is and is not decided. Genuine defects repaired in /repo as 'fix:' commits and the two recorded findings are listed in /verif/KNOWN_FINDINGS.txt.",
}
json.dump(m, open(os.path.join(HERE, "MANIFEST.json"), "w"), indent=1)
print("claimed:", sorted(CLAIMS), "not_applicable:", [x["property_id"] for x in na])
